#!/bin/bash
# MANIFEST.setup_cmd: regenerate the models from /repo and build every Lean module (offline).
cd "$(dirname "$0")"
export PYTHONPATH="$PWD:${PYTHONPATH}"
export PATH="/opt/veriftools/lean/bin:$PATH"
set -e
/venv/bin/python -m harness.gen.all
cd lean
lake build 2>&1 | grep -v "^trace" | tail -40
exit ${PIPESTATUS[0]}
