"""write MANIFEST.json from the property modules (run by hand after adding a check)"""
import glob
import importlib
import json
import os
import subprocess

from harness.common import core

PENDING_REASON = "no check committed yet for this property (work in progress; design in DESIGN.md section 6)"


def main():
    props = [json.loads(l) for l in open(core.VERIF / "properties.jsonl")]
    mods = {}
    for f in sorted(glob.glob(str(core.VERIF / "harness" / "props" / "c[0-9]*.py"))):
        name = os.path.basename(f)[:-3]
        m = importlib.import_module(f"harness.props.{name}")
        if getattr(m, "MANIFEST", None):
            mods[m.ID] = m
    fixes = subprocess.run(["git", "-C", str(core.REPO), "log", "--format=%h %s"], capture_output=True, text=True).stdout.splitlines()
    hook_commits = [l.split()[0] for l in fixes if l.split(" ", 1)[1].startswith("verif-hook:")]
    checks, na = [], []
    for p in props:
        pid = p["id"]
        if pid in mods:
            m = mods[pid].MANIFEST
            checks.append({
                "property_id": pid,
                "quick_cmd": f"./check {pid} --tier quick",
                "thorough_cmd": f"./check {pid} --tier thorough",
                "evidence_file": f"evidence/{pid}.json",
                "replay_cmd_template": f"./check {pid} --replay {{path}}",
                "engine": "lean4-proof+correspondence",
                "level_claimed": {"category": "proof", "text": m["text"], "design_ref": m.get("design_ref", f"DESIGN.md section 6, {pid}")},
                "level_note": m["note"],
                "technique": m["technique"],
            })
        else:
            na.append({"property_id": pid, "reason": PENDING_REASON})
    man = {
        "version": 1,
        "setup_cmd": "./setup.sh",
        "hooks": {
            "guard": "CHMPY_VERIF",
            "enable": "no source hooks are needed: the harness wraps public callables from outside; CHMPY_VERIF=1 is reserved",
            "baseline_off_cmd": "./harness/baseline.sh",
            "source_commits": hook_commits,
            "add_only": True,
        },
        "engines": [{
            "name": "lean4-proof+correspondence",
            "path": "lean/ (lake project), harness/ (translators, correspondence, search), check (entry)",
            "serves_properties": sorted(mods),
            "kind_free_text": "Lean 4 theorems about models that are regenerated from /repo (tables, formulas) or hand-written and tied to the real code by a line-protocol correspondence check; an oracle search on the real code supplies concrete failing inputs",
        }],
        "checks": checks,
        "not_applicable": na,
        "notes": "see DESIGN.md; known_findings.json lists repaired defects (fixed:) and recorded findings",
    }
    (core.VERIF / "MANIFEST.json").write_text(json.dumps(man, indent=1) + "\n")
    print("claimed:", sorted(mods), "pending:", [x["property_id"] for x in na])


if __name__ == "__main__":
    main()
