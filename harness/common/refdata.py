"""Independent reference data (typed in from general knowledge, NOT read from /repo)."""

# (symbol, English name as chmpy spells element names: IUPAC 'aluminium', 'caesium', US 'sulfur')
ELEMENTS = """H hydrogen;He helium;Li lithium;Be beryllium;B boron;C carbon;N nitrogen;O oxygen;F fluorine;Ne neon;
Na sodium;Mg magnesium;Al aluminium;Si silicon;P phosphorus;S sulfur;Cl chlorine;Ar argon;K potassium;Ca calcium;
Sc scandium;Ti titanium;V vanadium;Cr chromium;Mn manganese;Fe iron;Co cobalt;Ni nickel;Cu copper;Zn zinc;
Ga gallium;Ge germanium;As arsenic;Se selenium;Br bromine;Kr krypton;Rb rubidium;Sr strontium;Y yttrium;Zr zirconium;
Nb niobium;Mo molybdenum;Tc technetium;Ru ruthenium;Rh rhodium;Pd palladium;Ag silver;Cd cadmium;In indium;Sn tin;
Sb antimony;Te tellurium;I iodine;Xe xenon;Cs caesium;Ba barium;La lanthanum;Ce cerium;Pr praseodymium;Nd neodymium;
Pm promethium;Sm samarium;Eu europium;Gd gadolinium;Tb terbium;Dy dysprosium;Ho holmium;Er erbium;Tm thulium;Yb ytterbium;
Lu lutetium;Hf hafnium;Ta tantalum;W tungsten;Re rhenium;Os osmium;Ir iridium;Pt platinum;Au gold;Hg mercury;
Tl thallium;Pb lead;Bi bismuth;Po polonium;At astatine;Rn radon;Fr francium;Ra radium;Ac actinium;Th thorium;
Pa protactinium;U uranium;Np neptunium;Pu plutonium;Am americium;Cm curium;Bk berkelium;Cf californium;Es einsteinium;Fm fermium;
Md mendelevium;No nobelium;Lr lawrencium"""
ELEMENTS = [tuple(x.split()) for x in ELEMENTS.replace("\n", "").split(";")]
assert len(ELEMENTS) == 103
SYMBOLS = [s for s, _ in ELEMENTS]
NAMES = [n for _, n in ELEMENTS]
