"""Shared machinery for every property check (see DESIGN.md section 2).

A property module (harness/props/cXX.py) provides

    ID            "C17"
    LEAN_TARGETS  lake targets holding the property theorems
    THEOREMS      fully qualified theorem names = proof obligations
    TRUSTED       list of strings (trusted base for this property)
    gen(ctx)            regenerate Lean files from /repo (may raise TieBroken)
    correspond(ctx)     run model driver and real code on the same lines; report
                        disagreements with ctx.disagree(...)
    search(ctx, budget) evaluate the real code against the property statement;
                        report concrete failing inputs with ctx.fail(...)
    replay(ctx, obj)    re-run one recorded input (optional)

and run_property() does the rest: build, audit axioms, verdict, evidence.
"""
from __future__ import annotations

import fcntl
import hashlib
import json
import os
import pathlib
import random
import re
import subprocess
import sys
import time
import traceback

VERIF = pathlib.Path(__file__).resolve().parents[2]
LEAN = VERIF / "lean"
REPO = pathlib.Path(os.environ.get("CHMPY_REPO", "/repo"))
SRC = REPO / "src" / "chmpy"
EVID = VERIF / "evidence"
REPLAY = EVID / "replay"
WORK = VERIF / ".work"
ALLOWED_AXIOMS = {"propext", "Classical.choice", "Quot.sound"}
FORBIDDEN = re.compile(
    r"\bsorry\b|\badmit\b|^\s*axiom\s|native_decide|bv_decide|implemented_by|\bunsafe\s|maxHeartbeats\s+0\b",
    re.M,
)


class TieBroken(Exception):
    """The translator could not turn the current source into a model."""


def write_if_changed(path: pathlib.Path, content: str) -> bool:
    path.parent.mkdir(parents=True, exist_ok=True)
    if path.exists() and path.read_text() == content:
        return False
    tmp = path.with_suffix(path.suffix + ".tmp%d" % os.getpid())
    tmp.write_text(content)
    os.replace(tmp, path)
    return True


def strip_lean_comments(text: str) -> str:
    out = []
    i, n, depth = 0, len(text), 0
    while i < n:
        if text.startswith("/-", i):
            depth += 1
            i += 2
        elif depth and text.startswith("-/", i):
            depth -= 1
            i += 2
        elif depth:
            i += 1
        elif text.startswith("--", i):
            j = text.find("\n", i)
            i = n if j < 0 else j
        elif text[i] == '"':
            j = i + 1
            while j < n and text[j] != '"':
                j += 2 if text[j] == "\\" else 1
            out.append('""')
            i = j + 1
        else:
            out.append(text[i])
            i += 1
    return "".join(out)


def pct(s: str) -> str:
    out = []
    for ch in s:
        if (ch.isascii() and ch.isalnum()) or ch in "_.-":
            out.append(ch)
        else:
            o = ord(ch)
            if o > 255:
                raise ValueError("protocol carries code points < 256 only")
            out.append("%%%02X" % o)
    return "".join(out) if out else "%"  # never emit an empty field


def unpct(s: str) -> str:
    if s == "%":
        return ""
    return re.sub(r"%([0-9A-Fa-f]{2})", lambda m: chr(int(m.group(1), 16)), s)


def rat(x) -> str:
    """exact rational text of a float / Fraction / int"""
    from fractions import Fraction

    f = Fraction(x)
    return str(f.numerator) if f.denominator == 1 else f"{f.numerator}/{f.denominator}"


class LeanLock:
    def __enter__(self):
        (LEAN / ".lake").mkdir(exist_ok=True)
        self.f = open(LEAN / ".lake" / "verif.lock", "w")
        fcntl.flock(self.f, fcntl.LOCK_EX)
        return self

    def __exit__(self, *a):
        fcntl.flock(self.f, fcntl.LOCK_UN)
        self.f.close()


def sh(cmd, cwd=None, timeout=None, input=None, env=None):
    e = dict(os.environ)
    if env:
        e.update(env)
    p = subprocess.run(cmd, cwd=cwd, timeout=timeout, input=input, env=e,
                       stdout=subprocess.PIPE, stderr=subprocess.STDOUT, text=True)
    return p.returncode, p.stdout


class Ctx:
    def __init__(self, pid: str, tier: str, seed: int):
        self.pid = pid
        self.tier = tier
        self.seed = seed
        self.rng = random.Random(seed * 1000003 + int(pid[1:]))
        self.t0 = time.time()
        self.evaluations = 0
        self.distinct = set()
        self.samples = []
        self.extra = {}
        self.failures = []       # concrete failing inputs (dicts)
        self.known_hits = []     # matched known findings
        self.disagreements = []  # model vs implementation
        self.broken = []         # theorems / translators that no longer check
        self.obligations = []
        self.discharged = []
        self.axioms = {}
        self.checker_cmd = ""
        self.assumptions = []
        self.rule = ""
        self.known = [k for k in load_known() if k.get("property") == pid and k.get("status") == "finding"]
        self.thorough = tier == "thorough"

    # ---- coverage bookkeeping -------------------------------------------------
    def case(self, sample, nontrivial=True, key=None):
        """count one explored case; `sample` must be JSON-able"""
        self.evaluations += 1
        if nontrivial:
            k = key if key is not None else json.dumps(sample, sort_keys=True, default=str)
            self.distinct.add(hashlib.blake2b(k.encode(), digest_size=8).digest())
        if len(self.samples) < 6 or (len(self.samples) < 12 and self.rng.random() < 0.002):
            self.samples.append(sample)

    def count(self, name, by=1):
        self.extra[name] = self.extra.get(name, 0) + by

    def note(self, name, value):
        self.extra[name] = value

    # ---- outcomes -----------------------------------------------------------
    def fail(self, key: str, what: str, inp, expected=None, observed=None):
        """the REAL code violates the property statement on a concrete input"""
        for k in self.known:
            if k["key"] == key:
                if key not in [h["key"] for h in self.known_hits]:
                    self.known_hits.append({"key": key, "what": k.get("what", what)})
                return
        if len(self.failures) < 50:
            self.failures.append({"key": key, "what": what, "input": inp,
                                  "expected": expected, "observed": observed})

    def disagree(self, op: str, inp, model, impl):
        if len(self.disagreements) < 50:
            self.disagreements.append({"op": op, "input": inp, "model": model, "impl": impl})

    def tie_broken(self, name: str, detail: str):
        self.broken.append({"name": name, "detail": detail[-4000:]})

    def elapsed(self):
        return time.time() - self.t0


def load_known():
    p = VERIF / "known_findings.json"
    if not p.exists():
        return []
    return json.loads(p.read_text())


# ---------------------------------------------------------------------------
# Lean side


def lake_build(targets, timeout=3000):
    with LeanLock():
        return sh(["lake", "build", *targets], cwd=LEAN, timeout=timeout)


def forbidden_tokens(files):
    hits = []
    for f in files:
        t = strip_lean_comments(pathlib.Path(f).read_text())
        for m in FORBIDDEN.finditer(t):
            hits.append(f"{f}: {m.group(0).strip()}")
    return hits


def lean_sources_for(targets):
    """transitive project-local imports of the given modules"""
    seen, todo = set(), list(targets)
    while todo:
        m = todo.pop()
        if m in seen:
            continue
        p = LEAN / (m.replace(".", "/") + ".lean")
        if not p.exists():
            continue
        seen.add(m)
        for line in p.read_text().splitlines():
            mm = re.match(r"\s*(?:public\s+)?import\s+(ChmpyVerif\.[\w.]+)", line)
            if mm:
                todo.append(mm.group(1))
    return [LEAN / (m.replace(".", "/") + ".lean") for m in sorted(seen)]


def audit_axioms(pid, targets, theorems):
    """`#print axioms` for every obligation; returns {theorem: [axioms] | None}"""
    d = LEAN / ".lake" / "audit"
    d.mkdir(parents=True, exist_ok=True)
    f = d / f"{pid}.lean"
    body = "".join(f"import {t}\n" for t in targets) + "".join(f"#print axioms {t}\n" for t in theorems)
    f.write_text(body)
    rc, out = sh(["lake", "env", "lean", str(f)], cwd=LEAN, timeout=1200)
    res = {t: None for t in theorems}
    # messages can wrap over several lines: join then parse
    flat = re.sub(r"\s+", " ", out)
    for t in theorems:
        short = re.escape(t)
        m = re.search(r"'" + short + r"' depends on axioms: \[([^\]]*)\]", flat)
        if m:
            res[t] = [a.strip() for a in m.group(1).split(",") if a.strip()]
        elif re.search(r"'" + short + r"' does not depend on any axioms", flat):
            res[t] = []
    return res, out


def proof_step(ctx: Ctx, targets, theorems):
    ctx.obligations = list(theorems)
    ctx.checker_cmd = "cd lean && lake build " + " ".join(targets) + " && lake env lean .lake/audit/%s.lean  # #print axioms" % ctx.pid
    rc, out = lake_build(targets)
    if rc != 0:
        errs = [l for l in out.splitlines() if "error" in l][:20]
        ctx.tie_broken("lake build " + " ".join(targets), "\n".join(errs) + "\n" + out[-3000:])
        # which theorems still check?  build what we can module by module
        ok_targets = []
        for t in targets:
            rc1, _ = lake_build([t])
            if rc1 == 0:
                ok_targets.append(t)
        if not ok_targets:
            return
        targets = ok_targets
    hits = forbidden_tokens(lean_sources_for(targets))
    if hits:
        ctx.tie_broken("forbidden tokens in Lean sources", "\n".join(hits))
        return
    with LeanLock():
        res, raw = audit_axioms(ctx.pid, targets, theorems)
    for t, ax in res.items():
        ctx.axioms[t] = ax
        if ax is None:
            if not any(b["name"].startswith("lake build") for b in ctx.broken):
                ctx.tie_broken(f"theorem {t}", "not found by #print axioms:\n" + raw[-1500:])
            else:
                ctx.tie_broken(f"theorem {t}", "does not check (module failed to build)")
        elif not set(ax) <= ALLOWED_AXIOMS:
            ctx.tie_broken(f"theorem {t}", f"depends on non-standard axioms {ax}")
        else:
            ctx.discharged.append(t)
    if ctx.thorough and not ctx.broken:
        with LeanLock():
            rc, out = sh(["lake", "env", "leanchecker", *targets], cwd=LEAN, timeout=3000)
        ctx.note("leanchecker", "ok" if rc == 0 else out[-800:])
        if rc != 0:
            ctx.tie_broken("leanchecker", out[-2000:])


def run_driver(pid_or_file: str, lines, timeout=1800):
    """pipe lines through the Lean model driver, return output lines"""
    f = LEAN / "Drivers" / (pid_or_file + ".lean")
    data = "".join(l + "\n" for l in lines)
    deps = re.findall(r"^import\s+(ChmpyVerif\.[\w.]+)", f.read_text(), re.M)
    rc, out = lake_build(deps)
    if rc != 0:
        raise TieBroken(f"model modules of driver {f.name} do not build: " + out[-1500:])
    rc, out = sh(["lake", "env", "lean", "--run", str(f)], cwd=LEAN, timeout=timeout, input=data)
    outl = out.splitlines()
    if rc != 0:
        raise TieBroken(f"driver {f.name} exited {rc}: " + out[-1500:])
    return outl


def correspond_lines(ctx: Ctx, driver: str, cases):
    """cases: list of (line, impl_output, input_obj).  Runs the driver and records
    disagreements.  Returns number compared."""
    if not cases:
        return 0
    try:
        outs = run_driver(driver, [c[0] for c in cases])
    except TieBroken as e:
        ctx.tie_broken(f"driver {driver}", str(e))
        return 0
    if len(outs) != len(cases):
        ctx.tie_broken(f"driver {driver}", f"{len(outs)} output lines for {len(cases)} inputs; tail: {outs[-3:]}")
        return 0
    for (line, impl, inp), m in zip(cases, outs):
        if m.strip() != impl.strip():
            ctx.disagree(line.split(" ", 1)[0], inp if inp is not None else line, m.strip(), impl.strip())
    ctx.count("correspondence_lines", len(cases))
    return len(cases)


# ---------------------------------------------------------------------------
# verdict and evidence


def write_replay(ctx: Ctx, obj) -> str:
    REPLAY.mkdir(parents=True, exist_ok=True)
    h = hashlib.blake2b(json.dumps(obj, sort_keys=True, default=str).encode(), digest_size=6).hexdigest()
    p = REPLAY / f"{ctx.pid}-{h}.json"
    p.write_text(json.dumps(obj, indent=1, default=str))
    return str(p.relative_to(VERIF))


def finish(ctx: Ctx, mod) -> int:
    lines = []
    for h in ctx.known_hits:
        lines.append(f"KNOWN-FINDING: property={ctx.pid} {h['what']} [{h['key']}]")
    nviol = 0
    if ctx.failures:
        for f in ctx.failures[:5]:
            rp = write_replay(ctx, {"property": ctx.pid, "seed": ctx.seed, "tier": ctx.tier, "kind": "failing-input",
                                    **f, "how_to_replay": f"./check {ctx.pid} --replay <this file>",
                                    "also_broken": [b["name"] for b in ctx.broken],
                                    "disagreements": ctx.disagreements[:3]})
            lines.append(f"VIOLATION property={ctx.pid} replay={rp}")
            nviol += 1
    elif ctx.broken or ctx.disagreements:
        rp = write_replay(ctx, {"property": ctx.pid, "seed": ctx.seed, "tier": ctx.tier, "kind": "tie-broken",
                                "no_longer_checks": ctx.broken, "disagreements": ctx.disagreements[:10],
                                "note": "search on the real code found no failing input"})
        lines.append(f"VIOLATION property={ctx.pid} replay={rp} no-failing-input-found")
        nviol += 1
    ev = {
        "property_id": ctx.pid,
        "tier": ctx.tier,
        "seed": ctx.seed,
        "level": "proof",
        "coverage": {
            "obligations": max(1, len(ctx.obligations)),
            "discharged": len(ctx.discharged),
            "checker_cmd": ctx.checker_cmd or "n/a",
            "trusted_base": list(getattr(mod, "TRUSTED", [])) + [
                "Lean 4.33.0 kernel; axioms allowed: propext, Classical.choice, Quot.sound",
                "harness/common/core.py (driver protocol, axiom audit, verdict)"],
            "theorems": {t: ctx.axioms.get(t) for t in ctx.obligations},
            "evaluations": max(ctx.evaluations, 0),
            "distinct_nontrivial": len(ctx.distinct),
            "rule": ctx.rule,
            "samples": ctx.samples[:12] if ctx.samples else ["(none)"],
            "model_vs_impl_disagreements": len(ctx.disagreements),
            "no_longer_checks": [b["name"] for b in ctx.broken],
            "known_findings_hit": [h["key"] for h in ctx.known_hits],
            **ctx.extra,
        },
        "assumptions": ctx.assumptions or list(getattr(mod, "TRUSTED", [])),
        "wall_s": round(ctx.elapsed(), 2),
        "violations": nviol,
    }
    EVID.mkdir(parents=True, exist_ok=True)
    (EVID / f"{ctx.pid}.json").write_text(json.dumps(ev, indent=1, default=str))
    for l in lines:
        print(l)
    print(f"[{ctx.pid}] tier={ctx.tier} seed={ctx.seed} obligations={len(ctx.obligations)} discharged={len(ctx.discharged)} "
          f"evaluations={ctx.evaluations} distinct={len(ctx.distinct)} disagreements={len(ctx.disagreements)} "
          f"broken={len(ctx.broken)} failures={len(ctx.failures)} known={len(ctx.known_hits)} wall={ctx.elapsed():.1f}s")
    return 1 if nviol else 0


def run_property(mod, argv) -> int:
    import argparse

    ap = argparse.ArgumentParser()
    ap.add_argument("--tier", default=os.environ.get("VERIF_TIER", "quick"))
    ap.add_argument("--replay")
    ap.add_argument("--no-proof", action="store_true", help="debug: skip the Lean build")
    a = ap.parse_args(argv)
    seed = int(os.environ.get("VERIF_SEED", "0") or 0)
    tier = "thorough" if a.tier.startswith("t") else "quick"
    ctx = Ctx(mod.ID, tier, seed)
    ctx.rule = getattr(mod, "RULE", "")
    sys.path.insert(0, str(REPO / "src"))
    try:
        if not a.replay and REPLAY.exists():
            for f in REPLAY.glob(f"{mod.ID}-*.json"):
                f.unlink()
        if a.replay:
            obj = json.loads(pathlib.Path(a.replay).read_text())
            if obj.get("kind") == "tie-broken" or not hasattr(mod, "replay"):
                print("replay file names a broken theorem/correspondence; re-running the full check")
            else:
                r = mod.replay(ctx, obj)
                print("REPLAY:", "property fails on this input: " + str(r) if r else "input now passes")
                return 1 if r else 0
        # 1/2: regenerate the model from the current source
        try:
            with LeanLock():
                mod.gen(ctx)
        except TieBroken as e:
            ctx.tie_broken("translator", str(e))
        except Exception as e:  # translator crashed on changed source
            ctx.tie_broken("translator", "crashed: " + traceback.format_exc()[-2000:])
        # 3: proofs
        if not a.no_proof:
            proof_step(ctx, mod.LEAN_TARGETS, mod.THEOREMS)
        # 4: correspondence
        try:
            mod.correspond(ctx)
        except TieBroken as e:
            ctx.tie_broken("correspondence", str(e))
        except subprocess.TimeoutExpired:
            raise
        except Exception:
            # the real code (or the harness driving it) raised where it does not on the tree the check was built for:
            # the tie is broken; the search below looks for the concrete failing input
            ctx.tie_broken("correspondence", "the correspondence run raised: " + traceback.format_exc()[-2500:])
        # 5: search on the real code; full budget when something broke
        budget = "thorough" if (ctx.thorough or ctx.broken or ctx.disagreements) else "quick"
        try:
            mod.search(ctx, budget)
        except subprocess.TimeoutExpired:
            raise
        except Exception:
            ctx.tie_broken("oracle", "the search on the real code raised: " + traceback.format_exc()[-2500:])
        return finish(ctx, mod)
    except subprocess.TimeoutExpired as e:
        print(f"INFRA-ERROR timeout: {e}")
        return 2
    except Exception:
        print("INFRA-ERROR " + traceback.format_exc())
        return 2
