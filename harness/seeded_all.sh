#!/bin/bash
# evaluate every mutation a sub-agent left in /tmp/mut/<ID>/out against ./check <ID>
id=$1
prefix=${2:-}
for d in /tmp/mut/$id/out/m*.diff; do
  [ -f "$d" ] || continue
  k=$(basename $d .diff)
  out=/verif/seeded/$id/$prefix$k
  [ -f $out/eval.json ] && [ -z "$FORCE" ] && continue
  mkdir -p $out
  PYTHONPATH=/verif /venv/bin/python -m harness.seeded $id $d /tmp/mut/$id/out/${k}_demo.py $out > $out/eval.log 2>&1
  [ -f /tmp/mut/$id/out/$k.json ] && cp /tmp/mut/$id/out/$k.json $out/agent.json
  /venv/bin/python - <<PY
import json
try:
    r=json.load(open("$out/eval.json"))
    print("$id $k valid_seed=%s caught=%s | %s" % (r["valid_seed"], r["caught"], r["checks"]["$id"]["summary"][:150]))
    if not r["valid_seed"]: print("   baseline:", r["baseline"][:150], "| demo_clean:", r["demo_clean"], "| demo_patched:", r["demo_patched"])
except Exception as ex:
    print("$id $k eval failed:", ex, open("$out/eval.log").read()[-300:])
PY
done
git -C /repo status --short | head -3
