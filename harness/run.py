import importlib
import sys

from harness.common import core


def main():
    if len(sys.argv) < 2:
        print("usage: check <ID> [--tier quick|thorough] [--replay file]")
        return 2
    pid = sys.argv[1].upper()
    try:
        mod = importlib.import_module(f"harness.props.{pid.lower()}")
    except ModuleNotFoundError as e:
        print(f"INFRA-ERROR no check for {pid}: {e}")
        return 2
    return core.run_property(mod, sys.argv[2:])


if __name__ == "__main__":
    sys.exit(main())
