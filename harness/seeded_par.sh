#!/bin/bash
# evaluate the changes a sub-agent left in /tmp/mut/<ID>/out IN PARALLEL with other IDs: the patch is applied to the scratch
# worktree /tmp/mut/<ID> (never /repo) and the checks run from a private copy of /verif with CHMPY_REPO pointing at that worktree.
#   harness/seeded_par.sh <ID> <prefix>        (results land in /verif/seeded/<ID>/<prefix>m<k>)
id=$1
prefix=$2
[ -n "$prefix" ] || { echo "prefix required"; exit 2; }
copy=/tmp/w/pv/$id
mkdir -p /tmp/w/pv
rsync -a --delete --exclude .git --exclude seeded /verif/ $copy/
git -C /tmp/mut/$id checkout -- . 2>/dev/null
for d in /tmp/mut/$id/out/m*.diff; do
  [ -f "$d" ] || continue
  k=$(basename $d .diff)
  out=/verif/seeded/$id/$prefix$k
  [ -f $out/eval.json ] && [ -z "$FORCE" ] && continue
  mkdir -p $out
  (cd $copy && CHMPY_REPO=/tmp/mut/$id PYTHONPATH=$copy /venv/bin/python -m harness.seeded $id $d /tmp/mut/$id/out/${k}_demo.py $out > $out/eval.log 2>&1)
  [ -f /tmp/mut/$id/out/$k.json ] && cp /tmp/mut/$id/out/$k.json $out/agent.json
  [ -f $out/eval_first.json ] || cp $out/eval.json $out/eval_first.json     # the outcome before any strengthening
  /venv/bin/python - <<PY
import json
try:
    r=json.load(open("$out/eval.json"))
    print("$id $prefix$k valid_seed=%s caught=%s | %s" % (r["valid_seed"], r["caught"], r["checks"]["$id"]["summary"][:150]))
    if not r["valid_seed"]: print("   baseline:", r["baseline"][:150], "| demo_clean:", r["demo_clean"], "| demo_patched:", r["demo_patched"])
except Exception as ex:
    print("$id $prefix$k eval failed:", ex, open("$out/eval.log").read()[-300:])
PY
done
git -C /tmp/mut/$id status --short --untracked-files=no | head -3
