"""evaluate a seeded change against the checks:  python -m harness.seeded <ID> <patch.diff> <demo.py> <outdir> [--also ID,ID]
Applies the patch to /repo, confirms (a) the pinned test-suite still passes, (b) the demonstration shows the property failing with the
patch and holding without it, then runs ./check <ID> (quick) and records what it reports; /repo is restored in every case."""
import json
import os
import shutil
import subprocess
import sys
import time

VERIF = os.path.dirname(os.path.dirname(os.path.abspath(__file__)))
# CHMPY_REPO may name a scratch worktree (parallel evaluation); the default is /repo itself
REPO = os.environ.get("CHMPY_REPO", "/repo")


def sh(cmd, **kw):
    return subprocess.run(cmd, shell=True, capture_output=True, text=True, **kw)


def demo(path):
    r = sh(f"cd /tmp && PYTHONPATH={REPO}/src timeout 900 /venv/bin/python {path}")
    line = next((l for l in (r.stdout or "").splitlines() if l.startswith(("VIOLATED", "HOLDS"))), (r.stdout + r.stderr)[-300:])
    return r.returncode, line[:400]


def main():
    pid, patch, demo_py, outdir = sys.argv[1:5]
    also = []
    if "--also" in sys.argv:
        also = sys.argv[sys.argv.index("--also") + 1].split(",")
    if sh(f"git -C {REPO} status --porcelain --untracked-files=no").stdout.strip():
        print(f"REFUSED: {REPO} has uncommitted changes")
        return 2
    res = {"property": pid, "patch": os.path.basename(patch), "time": time.strftime("%Y-%m-%dT%H:%M:%S")}
    res["demo_clean"] = demo(demo_py)
    ap = sh(f"git -C {REPO} apply {patch}")
    if ap.returncode != 0:
        print("REFUSED: patch does not apply:", ap.stderr[-300:])
        return 2
    try:
        b = sh(f"bash {VERIF}/harness/baseline.sh {REPO}")
        res["baseline"] = (b.stdout or "").strip().splitlines()[-1] if b.stdout else b.stderr[-200:]
        res["baseline_ok"] = b.returncode == 0
        res["demo_patched"] = demo(demo_py)
        res["checks"] = {}
        for cid in [pid] + also:
            t0 = time.time()
            c = sh(f"cd {VERIF} && ./check {cid}", timeout=3000)
            out = (c.stdout or "")
            res["checks"][cid] = {"exit": c.returncode, "violations": [l for l in out.splitlines() if l.startswith("VIOLATION")][:4],
                                  "summary": next((l for l in reversed(out.splitlines()) if l.startswith("[")), ""), "wall_s": round(time.time() - t0, 1)}
            # keep the first replay file as the concrete failing input
            if c.returncode == 1 and cid == pid:
                v = res["checks"][cid]["violations"]
                if v:
                    rp = v[0].split("replay=")[1].split()[0]
                    try:
                        os.makedirs(outdir, exist_ok=True)
                        shutil.copy(os.path.join(VERIF, rp), os.path.join(outdir, "replay_example.json"))
                    except OSError:
                        pass
    finally:
        sh(f"git -C {REPO} checkout -- .")
    res["valid_seed"] = bool(res["baseline_ok"] and res["demo_clean"][0] == 0 and res["demo_patched"][0] == 1)
    res["caught"] = res["checks"].get(pid, {}).get("exit") == 1
    os.makedirs(outdir, exist_ok=True)
    for src, name in ((patch, "patch.diff"), (demo_py, "demonstration.py")):
        dst = os.path.join(outdir, name)
        if os.path.abspath(src) != os.path.abspath(dst):
            shutil.copy(src, dst)
    print(json.dumps(res, indent=1))
    json.dump(res, open(os.path.join(outdir, "eval.json"), "w"), indent=1)
    return 0


if __name__ == "__main__":
    sys.exit(main())
