"""C13 — re-expressing a crystal (P1, supercell, trigonal axes) preserves the structure."""
import math
from fractions import Fraction as F

import numpy as np

from harness.common import core
from harness.common.core import rat
from harness.gen import sgdata as gen_sg
from harness.gen import trigonal as gen_trig

ID = "C13"
LEAN_TARGETS = ["ChmpyVerif.Props.C13", "ChmpyVerif.Props.C13Frac", "ChmpyVerif.Props.C14Groups"]
T = "ChmpyVerif.Props.C13."
THEOREMS = [T + n for n in ("trig_T_inverse", "trigonal_ops_conjugate", "supercell_uses_vectors", "trigonal_roundtrip", "trigonal_coords_roundtrip",
                            "supercell_index_unique", "supercell_same_crystal", "supercell_volume", "density_invariant",
                            # Props/C13Frac.lean
                            "supercell_loop_shape", "asP1_is_unit_supercell", "scLoop_unit", "scLoop_length", "scLoop_mem", "scLoop_nodup", "supercell_frac", "supercell_frac_in_cell",
                            "supercell_frac_inj", "conj_mul", "conj_one", "conj_det", "conj_trace", "conj_roundtrip")]
# which groups have both trigonal settings: read off the regenerated table (kernel-checked), not asked of the code under test
THEOREMS += ["ChmpyVerif.Props.C14.both_settings_groups"]
TRUSTED = [
    "translator harness/gen/trigonal.py (the two T literals of choose_trigonal_lattice, the `np.dot(T, direct)` cell construction, the diag(n)·direct "
    "supercell construction, the product(arange n1, arange n2, arange n3) x unit-cell-molecules loop translated by [q,r,s]·lattice) and the space-group table translator (C02)",
    "hand model Model/Reexpress.lean (change of basis of operations on exact rationals, row-vector convention); molecule unwrapping (C04) and unit-cell "
    "generation (C01) are used, not re-proved; floating point not modelled",
]
RULE = ("seeded molecular crystals in many settings (P1 / supercells up to 3x3x3) incl. cells in non-standard orientation (after a trigonal switch), all seven "
        "R-lattice groups with random a, c and asymmetric units, H->R->H round trips; oracle = periodic coincidence of the two descriptions in both directions, "
        "atom-count and density ratios; distinct = distinct (structure, operation); non-trivial = group order > 1")
MANIFEST = {
    "text": ("Proof. Generated from crystal.py and the regenerated table: the two trigonal basis changes are mutually inverse; for all seven R-lattice groups the "
             "tabulated hexagonal-axes operations re-expressed in the cell T·D are exactly the tabulated rhombohedral-axes operations (3 per operation); the "
             "supercell constructors scale the lattice vectors. General (any commutative ring): H->R->H restores cell and coordinates; with D' = diag(n)·D every "
             "lattice image x + k·D is a supercell atom x + q·D plus a supercell lattice vector, with (m,q) unique — the same infinite arrangement; the volume "
             "scales by n1·n2·n3 and the density is unchanged. The supercell loop (shape read off the AST) visits exactly n1·n2·n3·N (offset, atom) pairs, each "
             "once; the new fractional coordinates (f+q)/n lie in [0,1) and are injective in (q,f); re-expression T·R·T⁻¹ is a homomorphism keeping det and trace. Tie: cell matrices by correspondence; whole crystals by a periodic-coincidence oracle."),
    "note": "Trusted: Lean kernel + Mathlib; AST translators; hand model of the change of basis; C01/C04 machinery of the code itself; floats.",
    "technique": "Lean 4 proof (kernel check over regenerated matrices/tables + matrix algebra) + correspondence of cell matrices + periodic-coincidence oracle",
}

RGROUPS = [146, 148, 155, 160, 161, 166, 167]


def gen(ctx):
    gen_trig.generate()
    gen_sg.generate()


def water(o, R):
    return o + np.array([[0, 0, 0], [0.757, 0.586, 0.0], [-0.757, 0.586, 0.0]]) @ R


def rot(rng):
    q = np.array([rng.gauss(0, 1) for _ in range(4)])
    q /= np.linalg.norm(q)
    a, b, c, d = q
    return np.array([[a * a + b * b - c * c - d * d, 2 * (b * c - a * d), 2 * (b * d + a * c)],
                     [2 * (b * c + a * d), a * a - b * b + c * c - d * d, 2 * (c * d - a * b)],
                     [2 * (b * d - a * c), 2 * (c * d + a * b), a * a - b * b - c * c + d * d]])


def make_crystal(rng, kind):
    """a molecular crystal (water on a general position) whose molecules are well separated"""
    from chmpy.core.element import Element
    from chmpy.crystal import AsymmetricUnit, Crystal, SpaceGroup, UnitCell
    for _ in range(60):
        if kind == "trigonal":
            n = rng.choice(RGROUPS)
            sg = SpaceGroup(n, choice="H")
            a_h = rng.uniform(11, 16)
            # c/a = sqrt(3/2) is the hexagonal description of a rhombohedral cell with alpha = 90 degrees (metrically cubic); c = a and
            # strongly elongated cells are legal too
            uc = UnitCell.hexagonal(a_h, rng.choice([a_h * math.sqrt(1.5), a_h, rng.uniform(22, 32), rng.uniform(8, 14), rng.uniform(8, 14), rng.uniform(8, 14)]))
        else:
            n, uc = rng.choice([(1, "tric"), (2, "tric"), (4, "mono"), (14, "mono"), (19, "ortho"), (33, "ortho"), (62, "ortho"), (76, "tetra"), (143, "hex"), (198, "cubic")])
            sg = SpaceGroup(n)
            # large cells too (solvates, frameworks): a 3-fold supercell of a 35 A cell has 105 A edges
            big = kind == "large" or (kind == "any" and rng.random() < 0.2)
            L = (lambda lo=6, hi=11: rng.uniform(lo, hi)) if not big else (lambda lo=6, hi=11: rng.uniform(26, 38))
            uc = {"tric": lambda: UnitCell.from_lengths_and_angles([L(), L(), L()], [math.radians(rng.uniform(75, 110)) for _ in range(3)]),
                  "mono": lambda: UnitCell.monoclinic(L(), L(), L(), math.radians(rng.uniform(95, 120))),
                  "ortho": lambda: UnitCell.orthorhombic(L(7, 12), L(7, 12), L(7, 12)), "tetra": lambda: UnitCell.tetragonal(L(8, 12), L(8, 14)),
                  "hex": lambda: UnitCell.hexagonal(L(9, 13), L(7, 12)), "cubic": lambda: UnitCell.cubic(L(10, 14))}[uc]()
        o = np.array([rng.uniform(0.1, 0.9) for _ in range(3)]) @ np.asarray(uc.direct)
        cart = water(o, rot(rng))
        els = [Element[8], Element[1], Element[1]]
        frac = uc.to_fractional(cart)
        # sometimes an extra atom ON a special position (inversion centre at the origin / the three-fold axis through it)
        if rng.random() < (0.7 if kind == "trigonal" else 0.4) and (kind == "trigonal" or n in (2, 14, 62, 143)):
            z0 = rng.choice([0.0, rng.uniform(0.05, 0.95)]) if (kind == "trigonal" or n == 143) else 0.0
            els = els + [Element[18]]
            frac = np.vstack([frac, [[0.0, 0.0, z0]]])
        kw = {}
        if rng.random() < 0.4:
            # a lone atom on a general position with full, partial or zero occupancy (a placeholder site is still a site)
            els = els + [Element[36]]
            far = (o + np.array([3.9, 0.4, 0.3]) @ rot(rng))
            frac = np.vstack([frac, uc.to_fractional(far[None, :])])
            occ = [1.0] * (len(els) - 1) + [rng.choice([1.0, 0.5, 0.0, 0.0])]
            kw["occupation"] = np.array(occ)
        c = Crystal(uc, sg, AsymmetricUnit(els, frac, **kw), titl="w")
        try:
            mols = c.unit_cell_molecules()
            if sum(1 for m in mols if len(m) == 3) == len(sg.symmetry_operations) and all(len(m) in (1, 3) for m in mols):
                if rng.random() < 0.25:
                    # the same crystal as read from a CIF that also reports a measured density (rounded, as deposited files do)
                    txt = c.to_cif_string()
                    key = "_cell_length_a"
                    txt = txt.replace(key, f"_exptl_crystal_density_diffrn {c.density * (1 + rng.uniform(-2e-3, 2e-3)):.3f}\n_exptl_crystal_density_meas {c.density * 0.97:.2f}\n" + key, 1)
                    c2 = Crystal.from_cif_string(txt)
                    if len(c2.unit_cell_atoms()["element"]) == len(c.unit_cell_atoms()["element"]):
                        return c2
                return c
        except Exception:  # noqa
            pass
    return None


def same_crystal(c1, c2, tol=1e-5):
    """every unit-cell atom of c1 coincides with an atom of the same element of c2 modulo c2's lattice, and vice versa"""
    from scipy.spatial import cKDTree
    for a, b, tag in ((c1, c2, "original -> new"), (c2, c1, "new -> original")):
        ua, ub = a.unit_cell_atoms(), b.unit_cell_atoms()
        fb = np.mod(np.asarray(ub["frac_pos"], dtype=float), 1.0)
        fb[fb > 1 - 1e-9] = 0.0
        fa = np.mod(b.to_fractional(np.asarray(ua["cart_pos"], dtype=float)), 1.0)
        fa[fa > 1 - 1e-9] = 0.0
        tree = cKDTree(fb, boxsize=1.0 + 1e-9)
        d, i = tree.query(fa)
        # distance in fractional units of b: convert bound generously
        lim = tol / min(b.unit_cell.lengths) * 10
        bad = np.where(d > lim)[0]
        if len(bad):
            return f"{tag}: {len(bad)} of {len(fa)} atoms have no counterpart modulo the lattice"
        if np.any(np.asarray(ua["element"])[:] != np.asarray(ub["element"])[i]):
            return f"{tag}: an atom coincides with an atom of a different element"
    return None


def check_supercell(c, size, which):
    f = {"as_P1": lambda: c.as_P1(), "as_P1_supercell": lambda: c.as_P1_supercell(size), "to_translational_symmetry": lambda: c.to_translational_symmetry(size)}[which]
    try:
        s = f()
    except Exception as ex:  # noqa
        return f"{which}{size} raised {type(ex).__name__}: {ex}"
    n = size[0] * size[1] * size[2] if which != "as_P1" else 1
    if s.space_group.international_tables_number != 1:
        return f"{which}: result is not in P1"
    n0 = len(c.unit_cell_atoms()["element"])
    n1 = len(s.unit_cell_atoms()["element"])
    if n1 != n * n0:
        return f"{which}{size}: {n1} atoms, expected {n} x {n0}"
    if abs(s.unit_cell.volume() / c.unit_cell.volume() - n) > 1e-8 * n:
        return f"{which}{size}: cell volume ratio {s.unit_cell.volume() / c.unit_cell.volume()} != {n}"
    if abs(s.density - c.density) > 1e-8 * c.density:
        return f"{which}{size}: density {s.density} != {c.density}"
    from chmpy.core.element import Element
    mass = sum(Element[int(z)].mass for z in c.unit_cell_atoms()["element"])
    rho = mass / c.unit_cell.volume() / 0.6022
    if abs(c.density - rho) > 1e-8 * rho:
        return f"density of the original crystal {c.density} is not its cell contents over its cell volume ({rho})"
    r = same_crystal(c, s)
    return f"{which}{size}: {r}" if r else None


def check_trigonal(c):
    from copy import deepcopy
    c0 = deepcopy(c)
    d0, cell0, pos0 = c.density, np.array(c.unit_cell.direct, dtype=float).copy(), np.array(c.asymmetric_unit.positions, dtype=float).copy()
    n0 = len(c.unit_cell_atoms()["element"])
    try:
        c.choose_trigonal_lattice("R")
    except Exception as ex:  # noqa
        return f"choose_trigonal_lattice('R') raised {type(ex).__name__}: {ex}"
    if c.space_group.choice != "R":
        return "setting did not change to R"
    n1 = len(c.unit_cell_atoms()["element"])
    if 3 * n1 != n0:
        return f"H cell has {n0} atoms, R cell {n1} (expected a third)"
    if abs(c.unit_cell.volume() * 3 - c0.unit_cell.volume()) > 1e-8 * c0.unit_cell.volume():
        return "R cell volume is not a third of the H cell volume"
    if abs(c.density - d0) > 1e-8 * d0:
        return f"density changed from {d0} to {c.density}"
    r = same_crystal(c0, c)
    if r:
        return "H -> R: " + r
    c.choose_trigonal_lattice("H")
    if not np.allclose(c.unit_cell.direct, cell0, rtol=0, atol=1e-9) or not np.allclose(c.asymmetric_unit.positions, pos0, rtol=0, atol=1e-9):
        return "H -> R -> H does not restore the original cell and coordinates"
    if c.space_group.choice != "H" or len(c.unit_cell_atoms()["element"]) != n0:
        return "H -> R -> H does not restore the setting / unit cell contents"
    return None


def correspond(ctx):
    from chmpy.crystal import UnitCell
    rng = ctx.rng
    cases = []
    for _ in range(40 if not ctx.thorough else 400):
        c = make_crystal(rng, "trigonal")
        if c is None:
            continue
        D = np.array(c.unit_cell.direct, dtype=float)
        c.choose_trigonal_lattice("R")
        D2 = np.array(c.unit_cell.direct, dtype=float)
        cases.append(("trig H " + " ".join(rat(float(x)) for x in D.ravel()), D2, {"op": "H->R"}))
        c.choose_trigonal_lattice("H")
        cases.append(("trig R " + " ".join(rat(float(x)) for x in D2.ravel()), np.array(c.unit_cell.direct, dtype=float), {"op": "R->H"}))
        size = tuple(rng.randint(1, 3) for _ in range(3))
        s = c.as_P1_supercell(size)
        cases.append((f"super {size[0]} {size[1]} {size[2]} " + " ".join(rat(float(x)) for x in np.array(c.unit_cell.direct, dtype=float).ravel()),
                      np.array(s.unit_cell.direct, dtype=float), {"op": f"supercell{size}"}))
    try:
        outs = core.run_driver("C13", [c[0] for c in cases])
    except core.TieBroken as ex:
        ctx.tie_broken("driver C13", str(ex))
        return
    for (line, impl, inp), m in zip(cases, outs):
        try:
            mv = np.array([float(F(t)) for t in m.split()]).reshape(3, 3)
            ok = np.allclose(mv, impl, rtol=0, atol=1e-9)
        except Exception:  # noqa
            ok, mv = False, m
        if not ok:
            ctx.disagree(inp["op"], inp, str(mv)[:200], str(impl)[:200])
    ctx.count("correspondence_lines", len(cases))


NONSTANDARD_CIF = """data_shifted
_cell_length_a 6.1
_cell_length_b 7.2
_cell_length_c 8.3
_cell_angle_alpha 82.0
_cell_angle_beta 97.0
_cell_angle_gamma 101.0
_symmetry_Int_Tables_number 2
_symmetry_space_group_name_H-M 'P -1 (origin shifted)'
loop_
_symmetry_equiv_pos_as_xyz
'x,y,z'
'1/4-x,-y,-z'
loop_
_atom_site_label
_atom_site_type_symbol
_atom_site_fract_x
_atom_site_fract_y
_atom_site_fract_z
C1 C 0.31 0.22 0.13
O1 O 0.52 0.41 0.37
"""


def judge(seed):
    import random
    import logging
    rng = random.Random(seed)
    # somewhere else in the same process a CIF in a NON-tabulated setting has been read (its operations are kept as given): that must
    # not change what P1 means for any other crystal
    from chmpy.crystal import Crystal as _Crystal
    logging.disable(logging.WARNING)
    try:
        other = _Crystal.from_cif_string(NONSTANDARD_CIF)
        if len(other.unit_cell_atoms()["element"]) != 4:
            return "nonstandard-cif", f"P-1 with the inversion centre at (1/8,0,0): {len(other.unit_cell_atoms()['element'])} unit-cell atoms, expected 4", True
    finally:
        logging.disable(logging.NOTSET)
    kind = rng.choice(["super", "super", "large", "trigonal", "oriented", "oriented-back"])
    if kind == "oriented-back":
        # rhombohedral setting first, molecules looked at THERE, then back to hexagonal axes and expanded
        c = make_crystal(rng, "trigonal")
        if c is None:
            return kind, None, False
        from copy import deepcopy
        ref = deepcopy(c)
        c.choose_trigonal_lattice("R")
        c.unit_cell_molecules()
        c.symmetry_unique_molecules()
        c.choose_trigonal_lattice("H")
        size = tuple(rng.randint(1, 2) for _ in range(3))
        which = rng.choice(["as_P1", "as_P1_supercell", "to_translational_symmetry"])
        r = check_supercell(c, size, which)
        if r is None:
            r = same_crystal(ref, c)
        return kind + ":" + which, r, True
    if kind == "trigonal":
        c = make_crystal(rng, "trigonal")
        return kind, (check_trigonal(c) if c is not None else None), c is not None
    c = make_crystal(rng, "trigonal" if kind == "oriented" else ("large" if kind == "large" else "any"))
    if c is None:
        return kind, None, False
    if kind == "oriented":
        c.choose_trigonal_lattice("R")      # the cell is now NOT in the standard orientation
    size = tuple(rng.randint(1, 3) for _ in range(3)) if kind != "large" else tuple(rng.choice([3, 3, 2]) for _ in range(3))
    which = rng.choice(["as_P1", "as_P1_supercell", "to_translational_symmetry"]) if kind != "large" else rng.choice(["as_P1_supercell", "to_translational_symmetry"])
    return kind + ":" + which, check_supercell(c, size, which), len(c.space_group.symmetry_operations) > 1


def search(ctx, budget):
    n = 40 if budget == "quick" else 800
    for _ in range(n):
        seed = ctx.rng.randrange(1 << 30)
        try:
            kind, r, nontrivial = judge(seed)
        except Exception as ex:  # noqa
            kind, r, nontrivial = "exception", f"raised {type(ex).__name__}: {ex}", True
        ctx.case({"seed": seed, "kind": kind}, nontrivial=nontrivial, key=str(seed))
        if r:
            ctx.fail("C13:" + kind, r, {"seed": seed})
            if len(ctx.failures) >= 8:
                break
    # the real r3c structure: P1 after a switch to rhombohedral axes
    from chmpy.crystal import Crystal
    c = Crystal.load(str(core.SRC / "tests" / "test_files" / "r3c_example.cif"))
    ctx.case({"structure": "r3c_example.cif"})
    r = check_trigonal(c)
    if r:
        ctx.fail("C13:r3c:trigonal", r, {"structure": "r3c_example.cif"})
    c.choose_trigonal_lattice("R")
    r = check_supercell(c, (1, 1, 1), "as_P1")
    if r:
        ctx.fail("C13:r3c:as_P1", r, {"structure": "r3c_example.cif"})


def replay(ctx, obj):
    i = obj["input"]
    return judge(i["seed"])[1] if "seed" in i else None
