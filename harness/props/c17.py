"""C17 — element lookup is total, exact and consistent across all spellings."""
from collections import Counter

from harness.common import core
from harness.common.core import pct
from harness.common.refdata import ELEMENTS, NAMES, SYMBOLS
from harness.gen import elements as gen_elements
from harness.gen.leanfmt import dec_of_float

ID = "C17"
LEAN_TARGETS = ["ChmpyVerif.Props.C17"]
T = "ChmpyVerif.Props.C17."
THEOREMS = [T + n for n in (
    "table_matches_reference", "table_length", "lookup_number", "out_of_range_rejected",
    "lookup_symbol_any_case", "lookup_name_any_case", "lookup_number_string", "lookup_padded",
    "lookup_label", "lookup_label_padded", "lookup_sound", "vector_helpers_reject", "vector_helpers_total",
    "order_irrefl", "order_trans", "order_total", "order_carbon_first", "order_by_number", "order_le_iff", "order_gt_iff", "order_ge_iff", "order_trichotomy",
    "formula_sorted_distinct", "formula_counts", "formula_total")]
TRUSTED = [
    "translator harness/gen/elements.py (AST literal of _ELEMENT_DATA -> Gen/Elements.lean), validated by the exhaustive correspondence",
    "hand model Model/Element.lean of from_string/from_label/from_atomic_number/__lt__/chemical_formula (ASCII semantics of str.strip/capitalize/lower/isdigit and of re.match('([A-Z]+).*', IGNORECASE)); non-ASCII text not modelled",
    "independent reference list of 103 symbols/names (harness/common/refdata.py, Props/C17.lean)",
    "Python's sorted()/Counter/dict ordering as modelled (stable sort by __lt__, first-occurrence key order)",
]
RULE = ("exhaustive: 103 elements x spelling variants (symbol in every letter case, name lower/upper/title, number string, "
        "padding, labels symbol+digit+suffix), every integer -200..300, malformed strings; plus seeded random multisets for "
        "formulas/ordering. distinct = distinct (operation,input); non-trivial = all except the identity spelling of a symbol")


def case_variants(s):
    out = {""}
    for ch in s:
        out = {p + c for p in out for c in {ch.lower(), ch.upper()}}
    return sorted(out)


def show_dec(v):
    m, e = dec_of_float(v)
    return f"{m}e{e}"


def show_el(e):
    return f"ok {int(e.atomic_number)} {e.symbol} {e.name} {show_dec(e.cov)} {show_dec(e.vdw)} {show_dec(e.mass)}"


def exc_name(e):
    return "err " + (type(e).__name__ if type(e).__name__ in ("ValueError", "IndexError", "KeyError") else "other:" + type(e).__name__)


def impl(op, arg):
    import numpy as np
    from chmpy.core import element as E
    try:
        if op == "fromString":
            return show_el(E.Element[arg])
        if op == "fromNumber":
            return show_el(E.Element[arg])
        if op == "fromLabel":
            return show_el(E.Element.from_label(arg))
        if op in ("covRadii", "vdwRadii"):
            f = E.cov_radii if op == "covRadii" else E.vdw_radii
            tbl = {float(np.float32(r[2 if op == "covRadii" else 3])): r[2 if op == "covRadii" else 3] for r in E._ELEMENT_DATA}
            return "ok " + " ".join(show_dec(tbl[float(x)]) for x in f(np.array(arg, dtype=int)))
        if op == "symbols":
            return "ok " + " ".join(E.element_symbols(np.array(arg, dtype=int)))
        if op == "names":
            return "ok " + " ".join(E.element_names(np.array(arg, dtype=int)))
        if op == "lt":
            return "ok " + ("1" if E.Element[arg[0]] < E.Element[arg[1]] else "0")
        if op in ("le", "gt", "ge"):
            import operator
            return "ok " + ("1" if getattr(operator, op)(E.Element[arg[0]], E.Element[arg[1]]) else "0")
        if op == "formula":
            els = [E.Element[z] for z in arg]
            cnt = Counter(sorted(els))
            return "ok " + " ".join(f"{int(e.atomic_number)}:{c}" for e, c in cnt.items())
    except Exception as e:  # noqa
        return exc_name(e)
    raise AssertionError(op)


def line(op, arg):
    if op in ("fromString", "fromLabel"):
        return f"{op} {pct(arg)}"
    if op == "fromNumber":
        return f"{op} {arg}"
    return op + " " + " ".join(str(a) for a in arg)


# ---------------------------------------------------------------------------
def gen(ctx):
    gen_elements.generate()


def spelling_cases():
    """(op, arg, expected Z or None=must be rejected, is_trivial)"""
    cases = []
    for z, (sym, name) in enumerate(ELEMENTS, start=1):
        for v in case_variants(sym):
            cases.append(("fromString", v, z, v == sym))
            cases.append(("fromString", "  " + v + "\t ", z, False))
            for suffix in ("1", "12", "1A", "2_F2____1____i", "3'", "1 ", "9b*", "0x", "4(2)"):
                cases.append(("fromString", v + suffix, z, False))
            cases.append(("fromLabel", v + "7", z, False))
            cases.append(("fromString", " " + v + "3 ", z, False))        # padded label
            cases.append(("fromString", "\t " + v + "12_a", z, False))
        for v in (name, name.upper(), name.capitalize(), " " + name + " "):
            cases.append(("fromString", v, z, False))
        cases.append(("fromString", str(z), z, False))
        cases.append(("fromString", f" {z} ", z, False))
        cases.append(("fromNumber", z, z, False))
    for n in range(-200, 301):
        if not 1 <= n <= 103:
            cases.append(("fromNumber", n, None, False))
    for s in ("0", "104", "00", "000", "-1", "-5", "999", "1.0", "+1"):
        cases.append(("fromString", s, None, False))
    return cases


def unknown_strings():
    syms = {s.lower() for s in SYMBOLS}
    names = set(NAMES)
    import itertools
    out = ["", " ", "_", "1x" * 0 + "?", "#C", "_C1", "@", "hydrogenn", "carbonx", "Xx", "Zz1", "q", "Qq12", "J3", "a", "M", "Unobtainium"]
    for a, b in itertools.product("abcdefghijklmnopqrstuvwxyz", repeat=2):
        if (a + b) not in syms:
            out.append((a + b).capitalize())
            out.append((a + b).capitalize() + "1")
    for a in "abcdefghijklmnopqrstuvwxyz":
        if a not in syms and a != "d":
            out.append(a.upper())
    res = []
    for s in out:
        import re
        st = s.strip().lower()
        m = re.match("[a-z]+", s, re.I)
        pref = m.group(0).lower() if m else None
        if st in syms or st in names or st == "d" or (st.isdigit() and 1 <= int(st) <= 103) or (pref in syms):
            continue
        res.append(s)
    return res


def correspond(ctx):
    cases = []
    for op, arg, z, _ in spelling_cases():
        cases.append((line(op, arg), impl(op, arg), [op, arg]))
    for s in unknown_strings():
        cases.append((line("fromString", s), impl("fromString", s), ["fromString", s]))
    rng = ctx.rng
    for _ in range(300 if not ctx.thorough else 3000):
        k = rng.randint(0, 12)
        zs = [rng.choice([1, 6, 7, 8, 6, 1, rng.randint(1, 103)]) for _ in range(k)]
        cases.append((line("formula", zs), impl("formula", zs), ["formula", zs]))
        a, b = rng.randint(1, 103), rng.choice([6, rng.randint(1, 103)])
        cases.append((line("lt", [a, b]), impl("lt", [a, b]), ["lt", [a, b]]))
        for op in ("le", "gt", "ge"):
            cases.append((line(op, [a, b]), impl(op, [a, b]), [op, [a, b]]))
        zs2 = [rng.randint(1, 103) for _ in range(rng.randint(0, 6))]
        if rng.random() < 0.3:
            zs2.insert(rng.randint(0, len(zs2)), rng.choice([0, -1, 104, 200, -102]))
        for op in ("covRadii", "vdwRadii", "symbols", "names"):
            cases.append((line(op, zs2), impl(op, zs2), [op, zs2]))
    # the four ordering operators on every ordered pair of elements (complete)
    for a in range(1, 104):
        for b in range(1, 104):
            for op in ("lt", "le", "gt", "ge"):
                cases.append((line(op, [a, b]), impl(op, [a, b]), [op, [a, b]]))
    core.correspond_lines(ctx, "C17", cases)


def judge(op, arg, z):
    """None if the real code satisfies the statement on this input, else a description"""
    from chmpy.core import element as E
    try:
        e = E.Element[arg] if op != "fromLabel" else E.Element.from_label(arg)
    except Exception as ex:  # noqa
        if z is None:
            return None
        return f"{op}({arg!r}) raised {type(ex).__name__}: {ex}; expected element {z}"
    if z is None:
        return f"{op}({arg!r}) returned {e!r} (atomic_number={e.atomic_number}); expected an error"
    sym, name = ELEMENTS[z - 1]
    row = E._ELEMENT_DATA[z - 1]
    got = (int(e.atomic_number), e.symbol, e.name.lower(), e.cov, e.vdw, e.mass)
    want = (z, sym, name, row[2], row[3], row[4])
    if got != want:
        return f"{op}({arg!r}) = {got}; expected {want}"
    if e.name != row[0]:
        return f"{op}({arg!r}).name = {e.name!r}; tabulated name is {row[0]!r}"
    return None


def search(ctx, budget):
    from chmpy.core import element as E
    nfail = 0
    for op, arg, z, trivial in spelling_cases():
        ctx.case([op, arg], nontrivial=not trivial)
        r = judge(op, arg, z)
        if r:
            kind = "reject" if z is None else ("name" if isinstance(arg, str) and arg.strip().lower() in NAMES else "lookup")
            ctx.fail(f"C17:{kind}:{op}:{arg!r}" if nfail < 1000 else "C17:many", r, {"op": op, "arg": arg, "z": z})
            nfail += 1
    for s in unknown_strings():
        ctx.case(["fromString", s])
        r = judge("fromString", s, None)
        if r:
            ctx.fail(f"C17:reject:fromString:{s!r}", r, {"op": "fromString", "arg": s, "z": None})
    # ordering and formulas against an independent reference
    rng = ctx.rng
    n = 400 if budget == "quick" else 5000
    key = lambda z: (z != 6, z)
    for _ in range(n):
        zs = [rng.choice([1, 6, 7, 8, rng.randint(1, 103), rng.randint(1, 103)]) for _ in range(rng.randint(0, 14))]
        if rng.random() < 0.2:      # counts with two and three digits (C10H8, C60, C100H202)
            zs = [6] * rng.choice([10, 12, 60, 100, 123]) + [1] * rng.choice([8, 10, 11, 99, 202]) + zs[:3]
            rng.shuffle(zs)
        ctx.case(["formula", zs], nontrivial=len(set(zs)) > 1)
        try:
            els = [E.Element[z] for z in zs]
            got_sorted = [int(e.atomic_number) for e in sorted(els)]
            want_sorted = sorted(zs, key=key)
            if got_sorted != want_sorted:
                ctx.fail("C17:order", f"sorted({zs}) = {got_sorted}, expected {want_sorted}", {"op": "sorted", "arg": zs})
            got = E.chemical_formula(els)
            cnt = Counter(zs)
            want = "".join(SYMBOLS[z - 1] + (str(cnt[z]) if cnt[z] > 1 else "") for z in sorted(cnt, key=key))
            if got != want:
                ctx.fail("C17:formula", f"chemical_formula({zs}) = {got!r}, expected {want!r}", {"op": "formula", "arg": zs})
            got_s = E.chemical_formula(els, subscript=True)
            sub = lambda c: "".join(chr(0x2080 + int(i)) for i in str(c))
            want_s = "".join(SYMBOLS[z - 1] + (sub(cnt[z]) if cnt[z] > 1 else "") for z in sorted(cnt, key=key))
            if got_s != want_s:
                ctx.fail("C17:formula-subscript", f"chemical_formula({zs}, subscript=True) = {got_s!r}, expected {want_s!r}", {"op": "formula_sub", "arg": zs})
        except Exception as ex:  # noqa
            ctx.fail("C17:formula-exc", f"formula/sort of {zs} raised {type(ex).__name__}: {ex}", {"op": "formula", "arg": zs})
    # every comparison operator on every ordered pair (complete: 103 x 103 x 6), against the stated order
    import operator
    els_all = [E.Element[z] for z in range(1, 104)]
    for a in range(1, 104):
        for b in range(1, 104):
            ka, kb = key(a), key(b)
            for nm, opf in (("lt", operator.lt), ("le", operator.le), ("gt", operator.gt), ("ge", operator.ge), ("eq", operator.eq), ("ne", operator.ne)):
                try:
                    got = bool(opf(els_all[a - 1], E.Element[b]))
                except Exception as ex:  # noqa
                    got = f"{type(ex).__name__}"
                if got != opf(ka, kb):
                    ctx.fail(f"C17:compare:{nm}", f"Element[{a}] {nm} Element[{b}] = {got}, the stated order gives {opf(ka, kb)}", {"op": "compare", "arg": [nm, a, b]})
        ctx.case(["compare-row", a])
    # vectorised helpers
    import numpy as np
    # the same bytes read with another integer type (a valid (N,) array followed by its re-interpretation): the range check must
    # look at the numbers, whatever was asked before
    for _ in range(n // 8):
        zs = [rng.randint(1, 103) for _ in range(rng.choice([1, 2, 2, 4, 6]))]
        dt = rng.choice([np.uint8, np.uint16, np.int32, np.int64])
        arr = np.array(zs, dtype=dt)
        views = [arr]
        for dt2 in (np.uint8, np.uint16, np.int32, np.int64, np.int16):
            if dt2 != dt and arr.nbytes % np.dtype(dt2).itemsize == 0:
                views.append(arr.view(dt2))
        ctx.case(["vector-views", zs, np.dtype(dt).name])
        for f, col in ((E.cov_radii, 2), (E.vdw_radii, 3)):
            for v in views:
                vals = [int(x) for x in v.ravel()]
                bad = any(not 1 <= x <= 103 for x in vals)
                try:
                    r = f(v)
                    if bad:
                        ctx.fail("C17:vector-reject", f"{f.__name__}({vals} as {v.dtype}) accepted an out-of-range atomic number (after {zs} as {arr.dtype})",
                                 {"op": f.__name__, "arg": zs, "dtype": np.dtype(dt).name, "view": v.dtype.name})
                    elif not np.allclose(np.ravel(r), [E._ELEMENT_DATA[z - 1][col] for z in vals], rtol=1e-6) or np.size(r) != len(vals):
                        ctx.fail("C17:vector-value", f"{f.__name__}({vals} as {v.dtype}) = {list(np.ravel(r))}", {"op": f.__name__, "arg": zs, "dtype": np.dtype(dt).name, "view": v.dtype.name})
                except Exception as ex:  # noqa
                    if not bad:
                        ctx.fail("C17:vector-exc", f"{f.__name__}({vals} as {v.dtype}) raised {type(ex).__name__}", {"op": f.__name__, "arg": zs, "dtype": np.dtype(dt).name, "view": v.dtype.name})
    # no atoms at all: an empty selection has empty radii / names / symbols, it is not an error
    for f in (E.cov_radii, E.vdw_radii, E.element_names, E.element_symbols):
        ctx.case(["vector-empty", f.__name__])
        try:
            r = f(np.array([], dtype=int))
            if len(r) != 0:
                ctx.fail("C17:vector-value", f"{f.__name__}(empty array) returned {len(r)} values", {"op": f.__name__, "arg": []})
        except Exception as ex:  # noqa
            ctx.fail("C17:vector-exc", f"{f.__name__}(empty integer array) raised {type(ex).__name__}: {ex}", {"op": f.__name__, "arg": []})
    for _ in range(n // 4):
        zs = [rng.randint(1, 103) for _ in range(rng.randint(1, 8))]
        bad = rng.random() < 0.4
        if bad:
            zs[rng.randrange(len(zs))] = rng.choice([0, -1, 104, 150, -50])
        ctx.case(["vector", zs])
        for f, col in ((E.cov_radii, 2), (E.vdw_radii, 3), (E.element_names, 0), (E.element_symbols, 1)):
            try:
                r = f(np.array(zs))
                if bad:
                    ctx.fail("C17:vector-reject", f"{f.__name__}({zs}) accepted an out-of-range atomic number", {"op": f.__name__, "arg": zs})
                else:
                    want = [E._ELEMENT_DATA[z - 1][col] for z in zs]
                    ok = list(r) == want if col < 2 else np.allclose(r, want, rtol=1e-6)
                    if col == 1 and list(r) != [SYMBOLS[z - 1] for z in zs]:
                        ok = False
                    if not ok:
                        ctx.fail("C17:vector-value", f"{f.__name__}({zs}) = {list(r)}, expected {want}", {"op": f.__name__, "arg": zs})
            except Exception as ex:  # noqa
                if not bad:
                    ctx.fail("C17:vector-exc", f"{f.__name__}({zs}) raised {type(ex).__name__}", {"op": f.__name__, "arg": zs})


def replay(ctx, obj):
    inp = obj["input"]
    if inp["op"] in ("fromString", "fromNumber", "fromLabel"):
        return judge(inp["op"], inp["arg"], inp.get("z"))
    c2 = core.Ctx(ID, "quick", ctx.seed)
    search(c2, "quick")
    return c2.failures[0]["what"] if c2.failures else None

MANIFEST = {
    "text": ("Proof. 25 Lean theorems over the element table regenerated from core/element.py on every run: the table equals an "
             "independent 103-entry reference; every Z in 1..103 resolves, EVERY other integer is rejected (unbounded); symbols in "
             "every letter case, names, number strings (kernel-checked over the whole finite domain), padding and labels with an "
             "ARBITRARY suffix (general lemmas) resolve to the right element; any successful lookup is a table entry; the ordering "
             "is a strict total order with carbon first and the derived operators <=, >, >= agree with it; for every atom list the formula has each element once with its "
             "multiplicity and counts sum to the length. Lookup code is a hand model tied by an exhaustive correspondence run."),
    "note": ("Trusted: Lean kernel (axioms propext/Classical.choice/Quot.sound only), the AST translator of _ELEMENT_DATA, the hand "
             "model's ASCII semantics of str.strip/capitalize/lower/isdigit and re.match (non-ASCII input not modelled), Python "
             "sorted/Counter semantics, and the correspondence run (exhaustive over the property's finite domain, sampled for formulas)."),
    "technique": "Lean 4 proof (decide +kernel over the regenerated table + general list lemmas) with exhaustive model/implementation correspondence",
}
