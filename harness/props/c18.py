"""C18 — rigid alignment returns the optimal proper rotation."""
import math
import struct

import numpy as np

from harness.common import core
from harness.common.core import rat

ID = "C18"
LEAN_TARGETS = ["ChmpyVerif.Props.C18", "ChmpyVerif.Props.C18Scale"]
T = "ChmpyVerif.Props.C18."
THEOREMS = [T + n for n in ("so3_cofactor", "so3_trace_ge", "o3_neg_trace_le", "weighted_trace_le", "kabsch_orthogonal", "kabsch_det_one",
                            "kabsch_optimal_trace", "residual_expand", "kabsch_optimal", "kabsch_congruent_exact", "rmsd_is_min")]
# scale freedom: the same rotation is optimal whatever unit the coordinates are expressed in
THEOREMS += [T + n for n in ("svdSpec_scale", "covariance_scale", "residual_scale", "kabsch_optimal_any_unit", "svdSpec_any_unit")]
TRUSTED = [
    "numpy.linalg.svd returns (U, s, Vt) with U, Vt orthogonal, s descending and non-negative, U·diag(s)·Vt = M (hypothesis SvdSpec of the theorems; "
    "checked numerically on every captured call)",
    "the model R = U·diag(1,1,d)·Vt with d = -1 iff det U · det Vt < 0 is hand-written (Props/C18.lean, Float mirror in Drivers/C18.lean) and tied by "
    "comparing it with the real result on the captured SVD factors; exact real arithmetic instead of IEEE",
]
RULE = ("seeded point sets of 3..50 points: generic, planar, collinear; related by random proper rotations with and without noise, and by reflections; "
        "the real SVD factors are captured by wrapping numpy.linalg.svd; oracle compares the RMSD with 1e4 random and locally perturbed rotations; "
        "distinct = distinct point set; non-trivial = more than 3 points or a degenerate (planar/collinear/mirror) configuration")
MANIFEST = {
    "text": ("Proof. For ANY two equally sized point sets (no rank assumption: collinear and planar included) and ANY factorisation satisfying the SVD "
             "specification, Lean proves: the returned matrix is orthogonal with determinant +1 (never improper), it maximises tr(QᵀAᵀB) and hence minimises "
             "the summed squared deviation / RMSD over ALL proper rotations (via tr Q >= -1 on SO(3), proved from the cofactor identity), and congruent "
             "sets are superposed exactly. Tie: the captured numpy SVD factors satisfy the specification and reproduce the returned matrix through the model."
             " The statement is scale free: the factors of A^T B are an SVD of the rescaled covariance and the same rotation is optimal for (tA, tB) for every t (kabsch_optimal_any_unit)."),
    "note": "Trusted: Lean kernel + Mathlib; numpy.linalg.svd meets SvdSpec (checked per call); exact reals for floats.",
    "technique": "Lean 4 proof (Mathlib matrices: orthogonal group, trace inequalities) + captured-SVD correspondence + random-rotation oracle",
}


def gen(ctx):
    pass


def rand_rot(rng, improper=False):
    q = np.array([rng.gauss(0, 1) for _ in range(4)])
    q /= np.linalg.norm(q)
    a, b, c, d = q
    R = np.array([[a * a + b * b - c * c - d * d, 2 * (b * c - a * d), 2 * (b * d + a * c)],
                  [2 * (b * c + a * d), a * a - b * b + c * c - d * d, 2 * (c * d - a * b)],
                  [2 * (b * d - a * c), 2 * (c * d + a * b), a * a - b * b - c * c + d * d]])
    return -R if improper else R


def point_sets(rng):
    n = rng.randint(3, 50)
    kind = rng.choice(["generic", "generic", "planar", "collinear", "mirror", "noise", "unrelated", "integer", "float32", "zero-covariance", "planar-in-plane"])
    if kind == "planar-in-plane":
        # a planar set lying EXACTLY in a coordinate plane and the same set turned over (half turn about an in-plane axis): congruent by a
        # proper rotation; the smallest singular value of the covariance is exactly 0.0
        A0 = np.array([[rng.uniform(-5, 5), rng.uniform(-5, 5), 0.0] for _ in range(n)])
        ax = rng.choice([0, 1])
        Qh = np.diag([1.0, -1.0, -1.0]) if ax == 0 else np.diag([-1.0, 1.0, -1.0])
        return "planar", A0, A0 @ Qh, Qh
    if kind == "zero-covariance":
        # a centred square in the xy plane against a symmetric collinear set on z: the covariance matrix is exactly zero, every rotation
        # is optimal, and the routine must still return a proper rotation
        h = rng.choice([0.5, 1.0, 2.0])
        A0 = np.array([[h, h, 0], [-h, h, 0], [-h, -h, 0], [h, -h, 0]], dtype=float)
        B0 = np.array([[0, 0, 1.0], [0, 0, -1.0], [0, 0, 2.0], [0, 0, -2.0]])
        return "unrelated", A0, B0, np.eye(3)
    A = np.array([[rng.uniform(-5, 5) for _ in range(3)] for _ in range(n)])
    if kind == "integer":
        # lattice points handed over as an INTEGER array; B is a rotated float copy
        A = np.array([[rng.randint(-6, 6) for _ in range(3)] for _ in range(n)], dtype=int)
        Q = rand_rot(rng)
        return "generic", A, A.astype(float) @ Q, Q
    if kind == "planar":
        A[:, 2] = 0.0
        A = A @ rand_rot(rng)
    elif kind == "collinear":
        t = np.array([rng.uniform(-5, 5) for _ in range(n)])
        A = np.outer(t, np.array([0.3, -0.5, 0.81]))
    Q = rand_rot(rng)
    if kind == "mirror":
        B = (A * np.array([1, 1, -1])) @ Q
    elif kind == "noise":
        B = A @ Q + np.array([[rng.gauss(0, 0.05) for _ in range(3)] for _ in range(n)])
    elif kind == "unrelated":
        B = np.array([[rng.uniform(-5, 5) for _ in range(3)] for _ in range(n)])
    else:
        B = A @ Q
    # the unit the coordinates are expressed in is arbitrary (metres, Angstrom, picometres, model units): optimality is scale free
    sc = rng.choice([1.0, 1.0, 1.0, 1.0, 1e-10, 1e-7, 1e-3, 1e3, 1e6, 1e-80, 1e80])
    if kind == "float32":
        # the first set held in single precision (a trajectory frame), the second in double: B is an exact rotation of the values A holds
        sc = sc if 1e-10 <= sc <= 1e6 else 1.0          # stay inside the range of single precision
        A32 = (A * sc).astype(np.float32)
        return "generic", A32, A32.astype(np.float64) @ Q, Q
    return kind, A * sc, B * sc, Q


def capture_svd(A, B):
    from chmpy.util import num
    rec = {}
    orig = np.linalg.svd

    def spy(a, *args, **kw):
        r = orig(a, *args, **kw)
        if "usv" not in rec:
            rec["M"] = np.array(a, dtype=float).copy()
            rec["usv"] = tuple(np.array(x, dtype=float).copy() for x in r)
        return r
    np.linalg.svd = spy
    try:
        R = num.kabsch_rotation_matrix(A, B)
    finally:
        np.linalg.svd = orig
    return R, rec


def bits2f(s):
    return struct.unpack("<d", struct.pack("<Q", int(s)))[0]


def correspond(ctx):
    rng = ctx.rng
    lines, expect = [], []
    for _ in range(150 if not ctx.thorough else 3000):
        kind, A, B, Q = point_sets(rng)
        try:
            R, rec = capture_svd(A, B)
        except Exception as ex:  # noqa
            ctx.disagree("kabsch", {"kind": kind}, "(model evaluates)", f"raised {type(ex).__name__}: {ex}")
            continue
        U, s, Vt = rec["usv"]
        M = rec["M"]
        scale = max(1.0, np.abs(M).max())
        spec_ok = (np.allclose(U @ U.T, np.eye(3), rtol=0, atol=1e-10) and np.allclose(Vt @ Vt.T, np.eye(3), rtol=0, atol=1e-10) and s[0] >= s[1] >= s[2] >= 0
                   and np.allclose((U * s) @ Vt, M, rtol=0, atol=1e-9 * scale) and np.allclose(M, A.T @ B, rtol=0, atol=1e-9 * scale))
        if not spec_ok:
            ctx.disagree("svd-spec", {"kind": kind, "n": len(A)}, "SvdSpec holds", "captured numpy.linalg.svd factors violate the specification (or M != AᵀB)")
            continue
        lines.append("kabsch " + " ".join(rat(float(x)) for x in list(U.ravel()) + list(Vt.ravel())))
        expect.append((R, {"kind": kind, "n": len(A)}))
    try:
        outs = core.run_driver("C18", lines)
    except core.TieBroken as ex:
        ctx.tie_broken("driver C18", str(ex))
        return
    for (R, inp), m in zip(expect, outs):
        mv = np.array([bits2f(t) for t in m.split()]).reshape(3, 3) if len(m.split()) == 9 else None
        if mv is None or not np.allclose(mv, R, rtol=0, atol=1e-12):
            ctx.disagree("kabsch", inp, str(mv), str(R))
    ctx.count("correspondence_lines", len(lines))


def rmsd(A, B, R):
    d = A @ R - B
    return math.sqrt(float(np.vdot(d, d)) / len(A))


def judge(seed, nrand):
    import random
    from chmpy.util import num
    rng = random.Random(seed)
    kind, A, B, Q = point_sets(rng)
    try:
        R = num.kabsch_rotation_matrix(A, B)
    except Exception as ex:  # noqa
        return kind, f"kabsch_rotation_matrix raised {type(ex).__name__}: {ex}"
    if not np.allclose(R @ R.T, np.eye(3), rtol=0, atol=1e-9):
        return kind, "returned matrix is not orthogonal"
    if abs(np.linalg.det(R) - 1.0) > 1e-9:
        return kind, f"returned matrix has determinant {np.linalg.det(R):.6f} (improper rotation)"
    A_in = A                      # as handed over (possibly an integer array)
    A = np.asarray(A, dtype=float)
    sc = max(float(np.abs(A).max()), float(np.abs(B).max())) / 5.0          # size of the data relative to the unscaled generator
    best = rmsd(A, B, R)
    if kind in ("generic", "planar", "collinear") and best > 1e-8 * sc:
        return kind, f"congruent sets (coordinates of size {5 * sc:.3g}) are not superposed: RMSD {best:.3g}"
    if kind == "mirror" and len(A) > 3 and np.linalg.matrix_rank((A - A.mean(axis=0)) / sc, tol=1e-6) == 3 and best < 1e-3 * sc:
        return kind, "mirror images were superposed (an improper rotation must have been used)"
    cands = [Q, np.eye(3)]
    for _ in range(nrand):
        cands.append(rand_rot(rng))
    for _ in range(nrand // 2):
        ax = np.array([rng.gauss(0, 1) for _ in range(3)])
        ax /= np.linalg.norm(ax)
        th = rng.gauss(0, 0.05)
        K = np.array([[0, -ax[2], ax[1]], [ax[2], 0, -ax[0]], [-ax[1], ax[0], 0]])
        cands.append(R @ (np.eye(3) + math.sin(th) * K + (1 - math.cos(th)) * K @ K))
    for C in cands:
        if rmsd(A, B, C) < best - 1e-9 * sc:
            return kind, f"a proper rotation gives RMSD {rmsd(A, B, C):.10g} < {best:.10g} of the returned one (coordinates of size {5 * sc:.3g})"
    # plain nested lists are accepted by every helper that accepts them in one
    try:
        rl = num.rmsd_points(A.tolist(), np.asarray(B, dtype=float).tolist())
        ml = np.asarray(num.reorient_points(A.tolist(), np.asarray(B, dtype=float).tolist()), dtype=float)
        Rl = num.kabsch_rotation_matrix(A.tolist(), np.asarray(B, dtype=float).tolist())
        if abs(rl - best) > 1e-9 * sc or not np.allclose(ml, A @ R, rtol=0, atol=1e-9 * sc) or not np.allclose(Rl, R, rtol=0, atol=1e-9):
            return kind, "helpers give other results for the same coordinates passed as nested lists"
    except Exception as ex:  # noqa
        return kind, f"coordinates passed as nested lists: {type(ex).__name__}: {ex} (kabsch_rotation_matrix, reorient_points and rmsd_points accept sequences)"
    r2 = num.rmsd_points(A_in, B)
    if abs(r2 - best) > 1e-9 * sc:
        return kind, f"rmsd_points = {r2} but the RMSD after optimal alignment is {best}"
    if not np.allclose(num.reorient_points(A_in, B), A @ R, rtol=0, atol=1e-10 * sc):
        return kind, "reorient_points is not A·R"
    # the same array objects again after the first set was turned IN PLACE (as Molecule.rotate does): the helpers answer for the
    # coordinates the arrays hold now
    A2, B2 = A.copy(), np.asarray(B, dtype=float).copy()
    num.rmsd_points(A2, B2)
    num.reorient_points(A2, B2)
    A2[:] = A2 @ rand_rot(rng)
    again, moved = num.rmsd_points(A2, B2), num.reorient_points(A2, B2)
    fresh, fresh_moved = num.rmsd_points(A2.copy(), B2.copy()), num.reorient_points(A2.copy(), B2.copy())
    if abs(again - fresh) > 1e-9 * sc or not np.allclose(moved, fresh_moved, rtol=0, atol=1e-9 * sc):
        return kind, (f"rmsd_points / reorient_points asked again on the same arrays after the first was rotated in place give {again:.6g}; "
                      f"fresh copies of the same coordinates give {fresh:.6g}")
    return kind, None


def judge_dimer(seed):
    import random
    from chmpy import Molecule
    from chmpy.core.dimer import Dimer
    from chmpy.core.element import Element
    rng = random.Random(seed)
    n = rng.randint(3, 12)
    zs = [rng.choice([1, 6, 7, 8]) for _ in range(n)]
    P = np.array([[rng.uniform(-3, 3) for _ in range(3)] for _ in range(n)])
    if rng.random() < 0.25:
        # heavy atoms on a line, hydrogens off it (acetonitrile, propyne, ...): only the hydrogens fix the rotation about the axis
        # with a three-fold symmetric methyl group the centroid of the molecule lies ON that line
        nh = 3
        ph0 = rng.uniform(0, 2)
        zs = [6, 6, 7] + [1] * nh
        P = np.array([[0, 0, 0], [0, 0, 1.46], [0, 0, 2.62]] + [[1.03 * math.cos(ph0 + 2 * math.pi * j / 3), 1.03 * math.sin(ph0 + 2 * math.pi * j / 3), -0.36] for j in range(nh)])
        P = P @ rand_rot(rng) + np.array([rng.uniform(-2, 2) for _ in range(3)])
        n = len(zs)
    Q = rand_rot(rng)
    if rng.random() < 0.3:
        # nearly the identity: a rotation by a few thousandths to hundredths of a degree is still a rotation
        ax = np.array([rng.gauss(0, 1) for _ in range(3)])
        ax /= np.linalg.norm(ax)
        th = math.radians(rng.choice([0.003, 0.01, 0.02, 0.04, 0.1]))
        K = np.array([[0, -ax[2], ax[1]], [ax[2], 0, -ax[0]], [-ax[1], ax[0], 0]])
        Q = np.eye(3) + math.sin(th) * K + (1 - math.cos(th)) * K @ K
    shift = np.array([rng.uniform(4, 9), rng.uniform(-2, 2), rng.uniform(-2, 2)])
    kw_a, kw_b = {}, {}
    if rng.random() < 0.5:
        # molecules as a crystal hands them out: every atom tagged with the operation that generated it. Two independent molecules
        # (Z' = 2) both carry the identity and still differ by a rotation
        code = rng.choice([16484, 16484, 16487])
        kw_a = {"generator_symop": np.array([16484] * n), "asym_mol_idx": 0}
        kw_b = {"generator_symop": np.array([code] * n), "asym_mol_idx": 1}
    a = Molecule([Element[z] for z in zs], P, **kw_a)
    b = Molecule([Element[z] for z in zs], P @ Q + shift, **kw_b)
    dkw = {"frac_shift": np.array([1.0, 0.0, -1.0])} if (kw_a and rng.random() < 0.6) else {}      # as Crystal.symmetry_unique_dimers builds them
    try:
        d = Dimer(a, b, transform_ab="calculate", **dkw)
        R, v = d.transform_ab
    except Exception as ex:  # noqa
        return f"Dimer(..., transform_ab='calculate') raised {type(ex).__name__}: {ex}"
    pa = P - P.mean(axis=0)
    pb = b.positions - b.positions.mean(axis=0)
    if abs(np.linalg.det(R) - 1) > 1e-9 or not np.allclose(pb @ R, pa, rtol=0, atol=1e-8):
        return "Dimer.transform_ab does not superpose the (congruent) second molecule on the first by a proper rotation"
    if not np.allclose(v, b.centroid - a.centroid, rtol=0, atol=1e-10):
        return "Dimer.transform_ab translation is not the centroid difference"
    return None


def search(ctx, budget):
    n = 120 if budget == "quick" else 2500
    nrand = 300 if budget == "quick" else 10000
    for i in range(n):
        seed = ctx.rng.randrange(1 << 30)
        kind, r = judge(seed, nrand if i < 40 or budget == "thorough" and i < 300 else 60)
        ctx.case({"seed": seed, "kind": kind}, nontrivial=True, key=str(seed))
        if r:
            ctx.fail("C18:" + kind, r, {"seed": seed, "nrand": nrand})
            if len(ctx.failures) >= 8:
                break
    for _ in range(30 if budget == "quick" else 400):
        seed = ctx.rng.randrange(1 << 30)
        ctx.case({"seed": seed, "kind": "dimer"}, key="d" + str(seed))
        r = judge_dimer(seed)
        if r:
            ctx.fail("C18:dimer", r, {"seed": seed, "dimer": True})


def replay(ctx, obj):
    i = obj["input"]
    if i.get("dimer"):
        return judge_dimer(i["seed"])
    return judge(i["seed"], i.get("nrand", 300))[1]
