"""C07 — the spherical harmonic transform is exact and invertible on band-limited functions."""
import math
import struct

import numpy as np

from harness.common import core
from harness.common.core import rat
from harness.pyx import drift

ID = "C07"
LEAN_TARGETS = ["ChmpyVerif.Props.C07", "ChmpyVerif.Props.C07Full"]
T = "ChmpyVerif.Props.C07."
THEOREMS = [T + n for n in ("nphi_table", "ntheta_ge", "plm_enumeration", "idxC_block", "idxC_injective", "coefficient_index_eq",
                            "analysis_synthesis_fixed_m", "analysis_synthesis_signed", "analysis_linear", "parseval_fixed_m",
                            "dft_orthogonality", "sht_roundtrip")]
TRUSTED = [
    "hand model Model/SHT.lean of the index/sign/phase logic of the four kernels, expand_coeffs, evaluate_at_points, power_spectrum "
    "(Float complex in the driver; the algebraic theorems are stated over mirrored sums, one azimuthal order at a time)",
    "H_gl: discrete orthonormality of the normalised associated Legendre values at the Gauss-Legendre nodes (scipy roots_legendre + the "
    "recurrence in AssocLegendre) — hypothesis hG of the exactness theorems, validated numerically for every L used on each run",
    "scipy.fft fft/ifft with norm='forward' compute the discrete Fourier sums the theorems speak about (the decoupling of the orders BY those sums "
    "is proved: dft_orthogonality)",
    "the prebuilt _sht extension is a faithful compilation of the .pyx reconstructed from its .c (drift guard)",
]
RULE = ("L in {0..16, 31, 32, 63, 64} (quick) / 0..64 (thorough): kernel-level correspondence for random coefficient vectors and random theta, "
        "plus oracle round trips (real and complex), cross-path agreement (compiled vs pure Python), point-wise evaluation, linearity, Parseval, "
        "Gram-matrix validation of H_gl and closed-form harmonics for l <= 2; distinct = distinct (L, operation, vector); non-trivial = L >= 1")
MANIFEST = {
    "text": ("Proof (partial). Proved: for every L <= 64 (complete range) the azimuthal grid exceeds 2L and has the promised smooth size, the m-major "
             "enumeration of the kernels is 0,1,2,... with (L+1)(L+2)/2 entries; for EVERY L the polar grid has >= L+1 nodes (multiple of 8); the complex "
             "layout l(l+1)+m places degree l in [l², (l+1)²) injectively and equals the index used by the invariants; and, over any commutative ring, "
             "for one azimuthal order: analysis∘synthesis = identity for ANY coefficient vector given the quadrature orthonormality (also with the (-1)^m "
             "phases of the kernels), linearity and Parseval; over any field with a primitive n-th root of unity (ℂ): the DFT decouples the orders "
             "(Σ_k ζ^(dk) = n·[d=0] for |d| < n) and the WHOLE complex transform satisfies analysis∘synthesis = identity for every coefficient vector, "
             "from exactly two facts: 2L < n (kernel-checked for the real grid rule) and the quadrature orthonormality H_gl. Not proved: H_gl itself "
             "(Gauss-Legendre exactness + the Legendre recurrence) — validated numerically for every L used on each run."),
    "note": "Trusted: Lean kernel + Mathlib; H_gl and DFT facts as hypotheses; hand model mirrored in the algebraic statements; compiled extension = its .pyx.",
    "technique": "Lean 4 proof (kernel-checked grid/index tables, ring algebra for per-order exactness) + kernel-level correspondence + round-trip oracle",
}


def gen(ctx):
    pass


def bits2f(s):
    return struct.unpack("<d", struct.pack("<Q", int(s)))[0]


def cvec(a):
    return " ".join(f"{rat(float(z.real))} {rat(float(z.imag))}" for z in np.asarray(a, dtype=complex))


def fvec(a):
    return " ".join(rat(float(x)) for x in np.asarray(a, dtype=float))


def parse_c(out):
    v = [bits2f(t) for t in out.split()]
    return np.array(v[0::2]) + 1j * np.array(v[1::2])


def Ls(ctx, thorough=None):
    th = ctx.thorough if thorough is None else thorough
    return list(range(0, 65)) if th else list(range(0, 17)) + [31, 32, 63, 64]


def correspond(ctx):
    from chmpy.shape import _sht
    from chmpy.shape.sht import SHT
    rng = ctx.rng
    nrng = np.random.default_rng(ctx.seed + 7)
    lines, expect = [], []
    for L in Ls(ctx):
        sht = SHT(L)
        lines.append(f"sizes {L}")
        expect.append(("txt", f"{sht.nphi} {sht.ntheta} {sht.nlm()} {sht.nplm()}", {"op": "sizes", "L": L}))
        if L > 20 and not ctx.thorough and L not in (31, 64):
            continue
        ct = float(rng.uniform(-0.99, 0.99))
        w = float(rng.uniform(0.01, 0.5))
        plm = np.array(sht.plm.evaluate_batch(ct, result=sht.plm_work_array), dtype=float).copy()
        nplm, nlm, nphi = sht.nplm(), sht.nlm(), sht.nphi
        fftv = nrng.normal(size=nphi) + 1j * nrng.normal(size=nphi)
        cr = nrng.normal(size=nplm) + 1j * nrng.normal(size=nplm)
        cc = nrng.normal(size=nlm) + 1j * nrng.normal(size=nlm)
        # analysis kernels
        for name, op, n in (("analysis_kernel_real", "anr", nplm), ("analysis_kernel_cplx", "anc", nlm)):
            sht.fft_work_array[:] = fftv
            sht.plm_work_array[:] = plm
            out = np.zeros(n, dtype=np.complex128)
            getattr(_sht, name)(sht, w, out)
            lines.append((f"{op} {L} {rat(w)} | " if op == "anr" else f"{op} {L} {nphi} {rat(w)} | ") + fvec(plm) + " | " + cvec(fftv))
            expect.append(("c", out.copy(), {"op": name, "L": L}))
        for name, op, c in (("synthesis_kernel_real", "syr", cr), ("synthesis_kernel_cplx", "syc", cc)):
            sht.fft_work_array[:] = 0
            sht.plm_work_array[:] = plm
            getattr(_sht, name)(sht, c)
            lines.append(f"{op} {L} {nphi} | " + fvec(plm) + " | " + cvec(c))
            expect.append(("c", np.array(sht.fft_work_array).copy(), {"op": name, "L": L}))
        lines.append(f"exp {L} | " + cvec(cr))
        expect.append(("c", _sht.expand_coeffs_to_full(L, cr), {"op": "expand_coeffs_to_full", "L": L}))
        if L <= 16:
            th, ph = float(rng.uniform(0.1, 3.0)), float(rng.uniform(0, 6.28))
            plm2 = np.array(sht.plm.evaluate_batch(math.cos(th), result=sht.plm_work_array), dtype=float).copy()
            cr0 = cr.copy()
            cr0[:L + 1] = cr0[:L + 1].real
            lines.append(f"evr {L} {rat(ph)} | " + fvec(plm2) + " | " + cvec(cr0))
            expect.append(("f", [float(np.real(sht.evaluate_at_points(cr0, th, ph)))], {"op": "evaluate_at_points(real)", "L": L}))
            if L >= 1:      # for L = 0 both layouts have one entry and the call is (legitimately) read as the real layout
                lines.append(f"evc {L} {rat(ph)} | " + fvec(plm2) + " | " + cvec(cc))
                v = complex(sht.evaluate_at_points(cc, th, ph))
                expect.append(("f", [v.real, v.imag], {"op": "evaluate_at_points(complex)", "L": L}))
            if L >= 1:
                lines.append(f"pwr {L} | " + cvec(cr))
                expect.append(("f", list(sht.power_spectrum(cr)), {"op": "power_spectrum(real)", "L": L}))
                lines.append(f"pwc {L} | " + cvec(cc))
                expect.append(("f", list(sht.power_spectrum(cc)), {"op": "power_spectrum(complex)", "L": L}))
    try:
        outs = core.run_driver("C07", lines)
    except core.TieBroken as ex:
        ctx.tie_broken("driver C07", str(ex))
        return
    if len(outs) != len(lines):
        ctx.tie_broken("driver C07", f"{len(outs)} lines for {len(lines)} inputs")
        return
    for (kind, want, inp), m in zip(expect, outs):
        if kind == "txt":
            ok = m.strip() == want
        elif kind == "c":
            got = parse_c(m)
            ok = got.shape == want.shape and np.allclose(got, want, rtol=1e-10, atol=1e-10 * max(1.0, np.abs(want).max() if want.size else 1))
        else:
            got = np.array([bits2f(t) for t in m.split()])
            want = np.array(want, dtype=float)
            ok = got.shape == want.shape and np.allclose(got, want, rtol=1e-9, atol=1e-9 * max(1.0, np.abs(want).max() if want.size else 1))
        if not ok:
            ctx.disagree(inp["op"], inp, m[:120], str(want)[:120])
    ctx.count("correspondence_lines", len(lines))


# ---------------------------------------------------------------------------
def ylm_closed(l, m, th, ph):
    """orthonormal Condon–Shortley harmonics, l <= 2 (independent closed forms)"""
    s, c = np.sin(th), np.cos(th)
    e = np.exp(1j * m * ph)
    if (l, m) == (0, 0):
        return np.full_like(th, 0.5 * math.sqrt(1 / math.pi), dtype=complex)
    if l == 1:
        return {0: math.sqrt(3 / (4 * math.pi)) * c + 0j, 1: -math.sqrt(3 / (8 * math.pi)) * s * e, -1: math.sqrt(3 / (8 * math.pi)) * s * e}[m]
    if l == 2:
        return {0: math.sqrt(5 / (16 * math.pi)) * (3 * c * c - 1) + 0j, 1: -math.sqrt(15 / (8 * math.pi)) * s * c * e,
                -1: math.sqrt(15 / (8 * math.pi)) * s * c * e, 2: math.sqrt(15 / (32 * math.pi)) * s * s * e,
                -2: math.sqrt(15 / (32 * math.pi)) * s * s * e}[m]
    raise ValueError


def close(a, b, atol):
    """absolute agreement scaled by the size of the data (np.allclose's default rtol=1e-5 would hide single-precision errors)"""
    a, b = np.asarray(a), np.asarray(b)
    if a.shape != b.shape:
        return False
    scale = max(1.0, float(np.abs(b).max())) if b.size else 1.0
    return bool(np.all(np.abs(a - b) <= atol * scale))


def judge(L, seed):
    from chmpy.shape.sht import SHT
    nrng = np.random.default_rng(seed)
    # other transform objects of the same degree with their own grids (finer in theta, coarser in phi) have been built and used before:
    # the default object gets the default grid all the same
    other = SHT(L, ntheta=2 * L + 6)
    if len(other.cos_theta) != 2 * L + 6 or len(other.weights) != 2 * L + 6:
        return f"L={L}: SHT({L}, ntheta={2 * L + 6}) has {len(other.cos_theta)} Gauss-Legendre nodes"
    if L >= 1:
        co = nrng.normal(size=other.nlm()) + 1j * nrng.normal(size=other.nlm())
        back_o = other.analysis(other.synthesis(co))
        if np.abs(back_o - co).max() > 1e-10 * (L + 1):
            return f"L={L}: analysis(synthesis(c)) != c on the explicit grid ntheta={2 * L + 6} (max dev {np.abs(back_o - co).max():.3g}): any Gauss-Legendre grid with at least L+1 nodes is exact"
    SHT(L, nphi=4 * L + 8, ntheta=L + 2)
    sht = SHT(L)
    n_def = L + 1
    n_def += (n_def & 1)
    n_def = ((n_def + 7) // 8) * 8
    if sht.ntheta != n_def or len(sht.cos_theta) != n_def or len(sht.weights) != n_def or np.shape(sht.grid[0]) != (n_def, sht.nphi):
        return f"L={L}: SHT({L}) built after SHT({L}, ntheta={2 * L + 6}) has {len(sht.cos_theta)} Gauss-Legendre nodes / grid {np.shape(sht.grid[0])}, the default is {n_def} x {sht.nphi}"
    tol = 1e-10 * (L + 1)
    # H_gl: Gram matrices of the normalised Legendre values at the nodes, per m
    P = np.array([sht.plm.evaluate_batch(ct, result=sht.plm_work_array).copy() for ct in sht.cos_theta])  # (ntheta, nplm)
    wq = sht.weights / (2 * np.pi) * (2 * np.pi)    # weights integrate to 4π over θ×φ; per-θ factor 2π is carried by the FFT normalisation
    idx = 0
    worst = 0.0
    for m in range(L + 1):
        n = L + 1 - m
        B = P[:, idx:idx + n]
        G = (B * (sht.weights[:, None])).T @ B
        worst = max(worst, np.abs(G - np.eye(n)).max())
        idx += n
    if worst > 1e-10:
        return f"L={L}: quadrature orthonormality (H_gl) violated: Gram deviation {worst:.3g}"
    if not (sht.nphi > 2 * L and sht.ntheta >= L + 1):
        return f"L={L}: grid {sht.ntheta}x{sht.nphi} too small for exactness"
    # round trips
    cc = nrng.normal(size=sht.nlm()) + 1j * nrng.normal(size=sht.nlm())
    cr = nrng.normal(size=sht.nplm()) + 1j * nrng.normal(size=sht.nplm())
    cr[:L + 1] = cr[:L + 1].real
    if L >= 1:
        v = sht.synthesis(cc)
        back = sht.analysis(v)
        if not close(back, cc, atol=tol):
            return f"L={L}: complex analysis(synthesis(c)) != c (max dev {np.abs(back - cc).max():.3g})"
        if not close(sht.synthesis(back), v, atol=tol * 10):
            return f"L={L}: complex synthesis(analysis(v)) != v on the grid"
    vr = sht.synthesis(cr)
    if np.iscomplexobj(vr) and np.abs(vr.imag).max() > tol:
        return f"L={L}: real synthesis returned complex values"
    backr = sht.analysis(np.real(vr))
    if not close(backr, cr, atol=tol):
        return f"L={L}: real analysis(synthesis(c)) != c (max dev {np.abs(backr - cr).max():.3g})"
    # the same samples held in a narrower type are the same samples: their analysis is the analysis of their exact values
    v32 = np.real(vr).astype(np.float32)
    for name, narrow in (("float32", v32), ("float16", np.real(vr).astype(np.float16)), ("int64", np.round(np.real(vr) * 64).astype(np.int64))):
        if np.abs(narrow).max() == 0 or not np.all(np.isfinite(narrow.astype(np.float64))):
            continue
        a_n, a_w = sht.analysis(narrow), sht.analysis(narrow.astype(np.float64))
        if not close(a_n, a_w, atol=tol):
            return f"L={L}: analysis of {name} samples differs from the analysis of the same values as float64 by {np.abs(a_n - a_w).max():.3g}"
    if L >= 1:
        v64c = sht.synthesis(cc).astype(np.complex64)
        a_n, a_w = sht.analysis(v64c), sht.analysis(v64c.astype(np.complex128))
        if not close(a_n, a_w, atol=tol):
            return f"L={L}: analysis of complex64 samples differs from the analysis of the same values as complex128 by {np.abs(a_n - a_w).max():.3g}"
    # real transform = complex transform on real input
    if L >= 1:
        full = sht.complete_coefficients(backr)
        cfull = sht.analysis(np.real(vr).astype(complex))
        if not close(full, cfull, atol=tol):
            return f"L={L}: complete_coefficients(real analysis) != complex analysis of the same real samples"
        if not close(sht.power_spectrum(backr), sht.power_spectrum(full), atol=tol * 10):
            return f"L={L}: power spectrum differs between the real and the complex coefficient layout"
    # cross-path agreement (only for moderate L: the Python loops are slow)
    if L <= 16:
        if not close(sht.analysis_pure_python(np.real(vr)), backr, atol=tol) or not close(sht.synthesis_pure_python(cr), np.real(vr), atol=tol * 10):
            return f"L={L}: pure-Python real path disagrees with the compiled kernels"
        if L >= 1 and (not close(sht.analysis_pure_python_cplx(sht.synthesis(cc)), cc, atol=tol) or not close(sht.synthesis_pure_python_cplx(cc), sht.synthesis(cc), atol=tol * 10)):
            return f"L={L}: pure-Python complex path disagrees with the compiled kernels"
    # linearity and Parseval
    if L >= 1:
        d = nrng.normal(size=sht.nlm()) + 1j * nrng.normal(size=sht.nlm())
        a, b = 0.7 - 0.2j, -1.3 + 0.4j
        if not close(sht.analysis(a * sht.synthesis(cc) + b * sht.synthesis(d)), a * cc + b * d, atol=tol * 5):
            return f"L={L}: analysis is not linear"
        f, g = sht.synthesis(cc), sht.synthesis(d)
        quad = np.sum(sht.weights[:, None] * f * np.conj(g)) / sht.nphi
        if abs(quad - np.vdot(d, cc)) > tol * 50 * (1 + abs(np.vdot(d, cc))):
            return f"L={L}: Parseval identity violated ({quad} vs {np.vdot(d, cc)})"
    # point-wise evaluation
    if 1 <= L <= 12:
        th, ph = sht.grid
        v = sht.synthesis(cc)
        for _ in range(6):
            i, j = nrng.integers(0, th.shape[0]), nrng.integers(0, th.shape[1])
            e = sht.evaluate_at_points(cc, th[i, j], ph[i, j])
            if abs(e - v[i, j]) > tol * 100:
                return f"L={L}: evaluate_at_points (complex) differs from synthesis at a grid point by {abs(e - v[i, j]):.3g}"
            e = sht.evaluate_at_points(cr, th[i, j], ph[i, j])
            if abs(e - np.real(vr)[i, j]) > tol * 100:
                return f"L={L}: evaluate_at_points (real) differs from synthesis at a grid point by {abs(e - np.real(vr)[i, j]):.3g}"
    # point-wise evaluation against independent harmonics (scipy), away from the grid: random points, points close to the poles
    # and the poles themselves
    if 1 <= L <= 12:
        from scipy.special import sph_harm_y
        pts = [(float(nrng.uniform(0, np.pi)), float(nrng.uniform(0, 2 * np.pi))) for _ in range(4)]
        pts += [(1e-3, 0.4), (3e-3, 2.0), (np.pi - 2e-3, 5.0), (0.0, 0.0), (0.0, 1.3), (np.pi, 0.7)]
        # so close to a pole that cos(theta) rounds to +-1 although theta is not 0 or pi, and the last colatitudes before that
        pts += [(3e-9, 0.9), (np.pi - 4e-9, 2.2), (1e-8, 4.0), (2e-8, 0.3), (np.pi - 3e-8, 1.1), (1e-6, 3.3)]
        for th, ph in pts:
            want = sum(cc[l * (l + 1) + m] * sph_harm_y(l, m, th, ph) for l in range(L + 1) for m in range(-l, l + 1))
            got = sht.evaluate_at_points(cc, th, ph)
            if abs(got - want) > tol * 1000 * (1 + abs(want)):
                return f"L={L}: evaluate_at_points (complex) at theta={th!r}, phi={ph!r} gives {got!r}, the expansion in orthonormal harmonics is {want!r}"
            full = sht.complete_coefficients(cr)
            wantr = sum(full[l * (l + 1) + m] * sph_harm_y(l, m, th, ph) for l in range(L + 1) for m in range(-l, l + 1))
            gotr = sht.evaluate_at_points(cr, th, ph)
            if abs(gotr - wantr) > tol * 1000 * (1 + abs(wantr)):
                return f"L={L}: evaluate_at_points (real) at theta={th!r}, phi={ph!r} gives {gotr!r}, the expansion in orthonormal harmonics is {wantr!r}"
            # a transform in between, then the same colatitude at another longitude: one object serves all three calls
            sht.analysis(np.real(vr))
            if L >= 1:
                sht.synthesis(cc)
            ph2 = ph + 1.0
            want2 = sum(cc[l * (l + 1) + m] * sph_harm_y(l, m, th, ph2) for l in range(L + 1) for m in range(-l, l + 1))
            got2 = sht.evaluate_at_points(cc, th, ph2)
            want2r = sum(full[l * (l + 1) + m] * sph_harm_y(l, m, th, ph2) for l in range(L + 1) for m in range(-l, l + 1))
            got2r = sht.evaluate_at_points(cr, th, ph2)
            if abs(got2 - want2) > tol * 1000 * (1 + abs(want2)) or abs(got2r - want2r) > tol * 1000 * (1 + abs(want2r)):
                return (f"L={L}: evaluate_at_points at theta={th!r}, phi={ph2!r}, asked after a transform that followed an evaluation at the same theta, "
                        f"gives {got2!r} / {got2r!r}; the expansion in orthonormal harmonics is {want2!r} / {want2r!r}")
    # alternative entry points agree with the main path: sampling a function through compute_on_grid (complex functions included), the
    # Cartesian grid (x = sin t cos p, y = sin t sin p, z = cos t), the pure-Python Legendre evaluator (also AT the poles)
    if L >= 1:
        th_g, ph_g = sht.grid
        ycomb = lambda t_, p_: sum(cc[l * (l + 1) + m] * ylm_closed(l, m, t_, p_) for (l, m) in ((0, 0), (1, 1), (1, -1), (1, 0)) if l <= L)
        vals_cg = sht.compute_on_grid(ycomb)
        want_cg = ycomb(th_g, ph_g)
        if np.shape(vals_cg) != np.shape(want_cg) or not close(np.asarray(vals_cg, dtype=complex), want_cg, atol=tol):
            return f"L={L}: compute_on_grid(f) is not f sampled on the grid (complex-valued f loses its imaginary part?)"
        if np.shape(sht.analysis(vals_cg)) != (sht.nlm(),):
            return f"L={L}: samples of a complex function from compute_on_grid analyse to {np.shape(sht.analysis(vals_cg))[0]} coefficients instead of (L+1)^2"
        xg, yg, zg = sht.grid_cartesian
        if not (close(xg, np.sin(th_g) * np.cos(ph_g), atol=1e-12) and close(yg, np.sin(th_g) * np.sin(ph_g), atol=1e-12) and close(zg, np.cos(th_g), atol=1e-12)):
            return f"L={L}: grid_cartesian is not (sin t cos p, sin t sin p, cos t) of the (theta, phi) grid"
    if L <= 16:
        from chmpy.shape.assoc_legendre import AssocLegendre as PyLegendre
        pl = PyLegendre(L)
        for xq in (0.3, -0.77, 1.0, -1.0, float(sht.cos_theta[0])):
            got_p = np.array(pl.evaluate_batch(xq), dtype=float)
            ref_p = np.array(sht.plm.evaluate_batch(xq, result=np.empty(sht.nplm())), dtype=float) if abs(xq) != 1.0 else None
            want_pole = np.zeros(sht.nplm())
            want_pole[:L + 1] = np.sqrt((2 * np.arange(L + 1) + 1) / (4 * np.pi)) * np.sign(xq) ** np.arange(L + 1)
            want_p = ref_p if ref_p is not None else want_pole
            if got_p.shape != want_p.shape or not np.all(np.isfinite(got_p)) or not close(got_p, want_p, atol=1e-10 * (L + 1)):
                return f"L={L}: pure-Python AssocLegendre.evaluate_batch({xq}) differs from the compiled evaluator / the closed form at the pole"
    # convention: samples of Y_lm analyse to the unit vector at l(l+1)+m
    if L >= 2:
        th, ph = sht.grid
        for (l, m) in ((0, 0), (1, 0), (1, 1), (1, -1), (2, 0), (2, 1), (2, -2)):
            c = sht.analysis(ylm_closed(l, m, th, ph).astype(complex))
            want = np.zeros(sht.nlm(), dtype=complex)
            want[l * (l + 1) + m] = 1.0
            if not close(c, want, atol=tol * 10):
                return f"L={L}: samples of the orthonormal Condon-Shortley Y_{l},{m} do not analyse to a unit coefficient at index l(l+1)+m"
    return None


def search(ctx, budget):
    drift.report(ctx, ["shape/_sht"])
    for L in Ls(ctx, budget == "thorough"):
        for rep in range(1 if budget == "quick" else 3):
            seed = ctx.rng.randrange(1 << 30)
            ctx.case({"L": L, "seed": seed}, nontrivial=L >= 1)
            try:
                r = judge(L, seed)
            except Exception as ex:  # noqa
                r = f"L={L}: raised {type(ex).__name__}: {ex}"
            if r:
                ctx.fail(f"C07:L={L}:" + r.split(":", 1)[1][:40].strip(), r, {"L": L, "seed": seed})
                break
        if len(ctx.failures) >= 8:
            break


def replay(ctx, obj):
    i = obj["input"]
    return judge(i["L"], i["seed"])
