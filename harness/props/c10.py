"""C10 — saving a crystal and loading it back reproduces the same structure."""
import math
import os
import shutil
import tempfile

import numpy as np

from harness.common import core
from harness.common.core import pct, rat
from harness.gen import crystalio as gen_cio

ID = "C10"
LEAN_TARGETS = ["ChmpyVerif.Props.C10Sfac", "ChmpyVerif.Props.C10", "ChmpyVerif.Props.C15Float"]
T = "ChmpyVerif.Props.C10."
THEOREMS = [T + n for n in ("save_load_dispatch", "shelx_keys_letters", "shelx_label_never_keyword", "shelx_atom_format", "shelx_coord_roundtrip",
                            "shelx_cell_precision", "poscar_row_format",
                            # Props/C10Sfac.lean
                            "mem_sfacOf", "sfacOf_nodup", "sfacOf_sorted", "sfac_index_roundtrip", "atomSfac_range", "shelx_elements_roundtrip")]
# the CIF route: an `_atom_site_*` row (label + fixed-point columns) is cut into exactly its fields and every number reads back as its
# 12-decimal rounding (theorems shared with C15)
THEOREMS += ["ChmpyVerif.Props.C15." + n for n in ("atom_site_row_tokens", "atom_site_row_tokens_alnum", "fixedCore_reads_back", "fixedCore_error")]
TRUSTED = [
    "translator harness/gen/crystalio.py (dispatch maps, SHELX_LINE_KEYS, the atom-line format string, round(x,6) of _cell_string, the POSCAR row "
    "f-strings) -> Gen/CrystalIO.lean",
    "the round trip composes C11 (operation <-> string), C02 (lookup from full / reduced lists), C15 (CIF text), C16 (number text), C17 (element lookup); "
    "that composition is NOT a single Lean theorem: it is checked by the exhaustive 530-setting round-trip oracle on the real code",
]
RULE = ("all 530 settings every run, each with a cell compatible with its crystal system, 1-4 sites with labels Xx0..Xx999, occupancies; written to "
        ".cif / .res / POSCAR in a temporary directory outside /repo and /verif and read back; in-memory crystals and crystals re-loaded from their own "
        "CIF (cif_data reuse branch); distinct = distinct (setting, format); non-trivial = more than one operation")
MANIFEST = {
    "text": ("Proof (of the text layer) + exhaustive oracle (of the composition). Generated from the sources and kernel-checked: file names select matching "
             "writer/reader pairs (.cif, .res, POSCAR, CONTCAR; unknown -> KeyError), every SHELX keyword has letters at positions 1-2, the atom line and "
             "POSCAR row formats. Proved for all inputs: a label 'symbol+digits' is never a keyword nor END; .res coordinates read back as the value rounded "
             "to 12 decimals, cell parameters within 5e-7, POSCAR rows to 8 decimals at fixed width. The structure-level round trip (same cell, number, "
             "operation set, elements, labels, coordinates, occupancies) is checked on the real code for ALL 530 settings each run."
             " For the CIF route an atom-site row (alphanumeric label + fixed-point columns) is cut into exactly its fields and every number reads back as its 12-decimal rounding (atom_site_row_tokens_alnum, fixedCore_reads_back; shared with C15)."),
    "note": "Trusted: Lean kernel; AST translator; cross-property composition by oracle; temp files under the system temp directory.",
    "technique": "Lean 4 proof (generated format/dispatch tables + decimal round-trip lemmas) + exhaustive 530-setting save/load oracle",
}


def gen(ctx):
    gen_cio.generate()


def entries():
    from chmpy.crystal.space_group import SG_FROM_NUMBER
    return [e for v in SG_FROM_NUMBER.values() for e in v]


def cell_for(sg, rng):
    from chmpy.crystal.unit_cell import UnitCell
    L = lambda: round(rng.uniform(4, 15), rng.choice([2, 3, 4, 6]))
    A = lambda lo, hi: round(rng.uniform(lo, hi), rng.choice([1, 2, 3]))
    sys = sg.crystal_system
    deg = math.radians
    # nearly (but clearly not) equal parameters: distinct at the 6 decimals the formats carry, well above the 1e-6 at which
    # UnitCell.parameters deliberately identifies them
    near = rng.random() < 0.35
    dl = rng.choice([3e-6, 2e-5, 4e-5, 2e-4])
    da = rng.choice([3e-5, 3e-4, 8e-4])
    if sys == "triclinic":
        a, al = L(), A(80, 100)
        if near:
            return UnitCell.from_lengths_and_angles([a, a + dl, L()], [al, al + da, A(70, 100)], unit="degrees")
        return UnitCell.from_lengths_and_angles([L(), L(), L()], [A(75, 105), A(80, 110), A(70, 100)], unit="degrees")
    if sys == "monoclinic":
        ch = sg.choice or "b"
        angs = [90.0, 90.0, 90.0]
        ax = 1
        for k, l in enumerate("abc"):
            if l in ch.replace("-", "")[:1]:
                ax = k
        angs[ax] = A(95, 125) if not near else 90.0 + da
        a = L()
        return UnitCell.from_lengths_and_angles([a, a + dl if near else L(), L()], angs, unit="degrees")
    if sys == "orthorhombic":
        a = L()
        return UnitCell.from_lengths_and_angles([a, a + dl if near else L(), L()], [90.0, 90.0, 90.0], unit="degrees")
    if sys == "tetragonal":
        a = L()
        return UnitCell.from_lengths_and_angles([a, a, L()], [90.0, 90.0, 90.0], unit="degrees")
    if sys in ("trigonal", "hexagonal"):
        if sg.choice == "R":
            a, al = L(), A(55, 110)
            return UnitCell.from_lengths_and_angles([a, a, a], [al, al, al], unit="degrees")
        a = L()
        return UnitCell.from_lengths_and_angles([a, a, L()], [90.0, 90.0, 120.0], unit="degrees")
    a = L()
    return UnitCell.from_lengths_and_angles([a, a, a], [90.0, 90.0, 90.0], unit="degrees")


def make(e, rng):
    from chmpy.core.element import Element
    from chmpy.crystal import AsymmetricUnit, Crystal, SpaceGroup
    sg = SpaceGroup(e.number, choice=e.choice) if e.choice else SpaceGroup(e.number)
    if sg._sgdata is not e:
        return None
    uc = cell_for(sg, rng)
    n = rng.randint(1, 4)
    zs = [rng.randint(1, 103) for _ in range(n)]
    pos = np.array([[round(rng.uniform(-0.2, 1.2), rng.choice([3, 5, 8, 12])) for _ in range(3)] for _ in range(n)])
    if rng.random() < 0.2:
        # sites listed several cells away from the reference cell (a legal description of the same structure)
        pos = pos + np.array([[rng.randint(-12, 12) for _ in range(3)] for _ in range(n)])
    labels = [Element[z].symbol + str(rng.choice([0, 1, 7, 12, 99, 100, 999, rng.randint(0, 999)])) for z in zs]
    if rng.random() < 0.08:
        labels = [l + rng.choice(["'", "'", "*", "A", "_a"]) for l in labels]        # primed / starred atom names (sugars, nucleosides)
    occ = np.array([rng.choice([1.0, 1.0, 0.5, 0.25]) for _ in range(n)])
    return Crystal(uc, sg, AsymmetricUnit([Element[z] for z in zs], pos, labels=labels, occupation=occ), titl="t%d" % e.number)


def compare(c, c2, fmt):
    """the statement for one format; None or description"""
    tolc = {"cif": 1e-11, "res": 1e-11, "cifdata": 1e-11}[fmt]
    tola = {"cif": 1e-9, "res": 5.1e-7, "cifdata": 1e-9}[fmt]
    p1 = np.array(list(c.unit_cell.lengths) + list(np.degrees(c.unit_cell.angles)), dtype=float)
    p2 = np.array(list(c2.unit_cell.lengths) + list(np.degrees(c2.unit_cell.angles)), dtype=float)
    if not np.allclose(p1, p2, rtol=0, atol=tola):
        return f"cell parameters {p2.tolist()} != {p1.tolist()}"
    if c2.space_group.international_tables_number != c.space_group.international_tables_number:
        return f"space group number {c2.space_group.international_tables_number} != {c.space_group.international_tables_number}"
    s1 = sorted(int(s.integer_code) for s in c.space_group.symmetry_operations)
    s2 = sorted(int(s.integer_code) for s in c2.space_group.symmetry_operations)
    if s1 != s2:
        return "operation set differs"
    if [int(z) for z in c2.asymmetric_unit.atomic_numbers] != [int(z) for z in c.asymmetric_unit.atomic_numbers]:
        return "elements differ"
    if [str(l) for l in c2.asymmetric_unit.labels] != [str(l) for l in c.asymmetric_unit.labels]:
        return f"labels {list(c2.asymmetric_unit.labels)} != {list(c.asymmetric_unit.labels)}"
    if not np.allclose(c2.asymmetric_unit.positions, c.asymmetric_unit.positions, rtol=0, atol=tolc):
        return f"fractional coordinates differ by {np.abs(c2.asymmetric_unit.positions - c.asymmetric_unit.positions).max():.3g}"
    if fmt in ("cif", "cifdata"):
        o1 = np.asarray(c.asymmetric_unit.properties.get("occupation"), dtype=float)
        o2 = np.asarray(c2.asymmetric_unit.properties.get("occupation"), dtype=float)
        if o1.shape != o2.shape or not np.allclose(o1, o2, rtol=0, atol=1e-12):
            return f"occupancies {o2.tolist()} != {o1.tolist()}"
    return None


def compare_poscar(c, c2):
    from scipy.spatial import cKDTree
    if c2.space_group.international_tables_number != 1:
        return "POSCAR did not load as P1"
    if not np.allclose(c2.unit_cell.direct, c.unit_cell.direct, rtol=0, atol=0.51e-8):
        return "lattice vectors differ by more than 5e-9"
    u = c.unit_cell_atoms()
    f1 = np.mod(np.asarray(u["frac_pos"], dtype=float), 1.0)
    f2 = np.mod(np.asarray(c2.asymmetric_unit.positions, dtype=float), 1.0)
    if len(f1) != len(f2):
        return f"{len(f2)} atoms read, {len(f1)} unit-cell atoms written"
    z1, z2 = np.asarray(u["element"]), np.asarray(c2.asymmetric_unit.atomic_numbers)
    if sorted(z1.tolist()) != sorted(z2.tolist()):
        return "multiset of elements differs"
    f1[f1 > 1 - 1e-9] = 0
    f2[f2 > 1 - 1e-9] = 0
    d, i = cKDTree(f2, boxsize=1 + 1e-9).query(f1)
    if np.any(d > 2e-8) or np.any(z2[i] != z1) or len(set(i.tolist())) != len(i):
        return "set of unit-cell atoms differs"
    return None


def judge(idx, seed):
    import random
    from chmpy.crystal import Crystal
    rng = random.Random(seed)
    e = entries()[idx]
    c = make(e, rng)
    if c is None:
        return None, True
    tmp = tempfile.mkdtemp(prefix="chmpy_c10_")
    tag = f"{e.number}:{e.choice}"
    try:
        # file names: the format is chosen by the extension, whatever the stem looks like
        cif_name = rng.choice(["x.cif", "x.cif", "POSCAR_converted.cif", "CONTCAR.final.cif", "poscar.cif", "my.crystal.v2.cif", "res.cif"])
        res_name = rng.choice(["x.res", "x.res", "CONTCAR_final.res", "POSCAR1.res", "cif.res"])
        for fn, fmt in ((cif_name, "cif"), (res_name, "res")):
            p = os.path.join(tmp, fn)
            try:
                c.save(p)
                c2 = Crystal.load(p)
            except Exception as ex:  # noqa
                return f"{tag} {fmt}: save/load raised {type(ex).__name__}: {ex}", False
            r = compare(c, c2, fmt)
            if r:
                return f"{tag} {fmt}: {r}", False
            if fmt == "cif" and len(c.asymmetric_unit.atomic_numbers) >= 2:
                # the same file with a second, SHORTER loop of the same category (anisotropic displacement parameters for the first
                # atom only), as deposited CIFs have: load, write, load again
                try:
                    text = open(p).read().rstrip("\n")
                    if text.endswith("#END"):
                        text = text[:-4].rstrip("\n")
                    lab0 = str(c.asymmetric_unit.labels[0])
                    text += ("\nloop_\n_atom_site_aniso_label\n_atom_site_aniso_U_11\n_atom_site_aniso_U_22\n_atom_site_aniso_U_33\n"
                             f"{lab0} 0.0123 0.0234 0.0345\n#END\n")
                    # ... and with items whose value is the empty string / a non-ASCII name, as deposited files carry them
                    text = text.replace("_cell_length_a", "_publ_author_name 'M\u00fcller, J.'\n_chemical_name_common ''\n_cell_length_a", 1)
                    pa = os.path.join(tmp, "aniso.cif")
                    open(pa, "w", encoding="utf-8").write(text)
                    ca = Crystal.load(pa)
                    r = compare(c, ca, "cif")
                    if r:
                        return f"{tag} cif with an extra aniso loop: loading: {r}", False
                    pb = os.path.join(tmp, "aniso2.cif")
                    ca.save(pb)
                    cb = Crystal.load(pb)
                except Exception as ex:  # noqa
                    return f"{tag} cif with an extra aniso loop: raised {type(ex).__name__}: {ex}", False
                r = compare(c, cb, "cifdata")
                if r:
                    return f"{tag} cif with an extra (shorter) aniso loop, re-saved: {r}", False
            if fmt == "cif":
                # a crystal that was itself loaded from a file (cif_data reuse branch)
                try:
                    p2 = os.path.join(tmp, "y.cif")
                    c2.save(p2)
                    c3 = Crystal.load(p2)
                except Exception as ex:  # noqa
                    return f"{tag} cif (re-saved loaded crystal): raised {type(ex).__name__}: {ex}", False
                r = compare(c, c3, "cifdata")
                if r:
                    return f"{tag} cif (re-saved loaded crystal): {r}", False
        # the same in-memory crystal written again after its asymmetric unit was replaced (other labels and occupancies): the file
        # describes the crystal as it is when it is written
        if seed % 2 == 0:
            from chmpy.core.element import Element
            from chmpy.crystal import AsymmetricUnit
            au = c.asymmetric_unit
            zs = [int(z) for z in au.atomic_numbers]
            c.asymmetric_unit = AsymmetricUnit([Element[z] for z in zs], np.array(au.positions), labels=[Element[z].symbol + str(200 + i) for i, z in enumerate(zs)],
                                               occupation=np.array([0.75 if i % 2 else 0.5 for i in range(len(zs))]))
            for fn, fmt in (("z.cif", "cif"), ("z.res", "res")):
                p = os.path.join(tmp, fn)
                try:
                    c.save(p)
                    c2 = Crystal.load(p)
                except Exception as ex:  # noqa
                    return f"{tag} {fmt} (second write, after the asymmetric unit was replaced): raised {type(ex).__name__}: {ex}", False
                r = compare(c, c2, fmt)
                if r:
                    return f"{tag} {fmt} (second write, after the asymmetric unit was replaced): {r}", False
        # the format named explicitly (fmt=) decides for writing and for reading alike, whatever the file is called
        if seed % 3 == 0:
            for name, fmt in (("structure.txt", "cif"), ("model.cif", "res"), ("model.res", "cif"), ("noext", "res")):
                pf = os.path.join(tmp, name)
                try:
                    c.save(pf, fmt=fmt)
                    cf = Crystal.load(pf, fmt=fmt)
                except Exception as ex:  # noqa
                    return f"{tag}: save/load of {name!r} with fmt={fmt!r} raised {type(ex).__name__}: {ex}", False
                r = compare(c, cf, fmt)
                if r:
                    return f"{tag}: save/load of {name!r} with fmt={fmt!r}: {r}", False
        if len(e.symops) <= 48:
            p = os.path.join(tmp, rng.choice(["POSCAR", "POSCAR", "CONTCAR"]))
            try:
                c.save(p)
                c2 = Crystal.load(p)
            except Exception as ex:  # noqa
                return f"{tag} POSCAR: save/load raised {type(ex).__name__}: {ex}", False
            r = compare_poscar(c, c2)
            if r:
                return f"{tag} POSCAR: {r}", False
        try:
            c.save(os.path.join(tmp, "x.unknown"))
            return f"{tag}: saving to an unknown extension did not raise", False
        except KeyError:
            pass
    finally:
        shutil.rmtree(tmp, ignore_errors=True)
    return None, False


def correspond(ctx):
    from chmpy.fmt import shelx
    rng = ctx.rng
    cases = []
    for _ in range(200 if not ctx.thorough else 3000):
        x, y, z = (rng.choice([rng.uniform(-1.5, 1.5), round(rng.uniform(0, 1), 4), 0.0, 1 / 3, 0.5, -0.25, rng.uniform(-1e3, 1e3)]) + 0.0 for _ in range(3))
        label = rng.choice(["C1", "H12", "Mo999", "O1W", "Cl", "Xe100"])
        s = str(rng.randint(1, 12))
        impl = "{:3} {:3} {: 20.12f} {: 20.12f} {: 20.12f}".format(label, s, x, y, z)
        cases.append((f"shelxatom {pct(label)} {pct(s)} {rat(x)} {rat(y)} {rat(z)}", pct(impl), ["shelxatom", label, x, y, z]))
        impl = f"{x:12.8f} {y:12.8f} {z:12.8f}"
        cases.append((f"poscarrow {rat(x)} {rat(y)} {rat(z)}", pct(impl), ["poscarrow", x, y, z]))
    for line in ["TITL abc", "cell 0.7 1 2 3 90 90 90", "C1  1 0.1 0.2 0.3", "END", "end", "Mo12 2 0 0 0", "REM x", "Re1 1 0 0 0", "HKLF 4", "Es1 3 0.5 0.5 0.5", "SYMM -x,y,z",
                 "Li1  1  0 0 0", "MOLE 1", "Mo1  1 0 0 0", "TiTl x", "Fm3  1 0 0 0", "Er1 1 0 0 0", "ENDX"]:
        st = line.strip()
        key = st[:4].upper()
        impl = "END" if key == "END" else ("KEY " + pct(key) if key in shelx.SHELX_LINE_KEYS else "ATOM")
        cases.append(("key " + pct(line), impl, ["key", line]))
    # element bookkeeping of the .res writer/reader (Props/C10Sfac.lean): the real to_shelx_string / _parse_atom_line on crystals with random elements
    from chmpy.core.element import Element
    from chmpy.crystal import AsymmetricUnit, Crystal, SpaceGroup, UnitCell
    for _ in range(25 if not ctx.thorough else 300):
        # a fifth of the cases have ten or more distinct elements (two-digit SFAC indices)
        many = rng.random() < 0.2
        n = rng.randint(1, 12) if not many else rng.randint(14, 24)
        pool = rng.sample(range(1, 104), rng.randint(1, 5) if not many else rng.randint(10, 14))
        zs = [rng.choice(pool) for _ in range(n)]
        c = Crystal(UnitCell.cubic(10.0 + rng.random()), SpaceGroup(1), AsymmetricUnit([Element[z] for z in zs], np.array([[rng.random() for _ in range(3)] for _ in zs])))
        text = c.to_shelx_string().splitlines()
        sf = next(l for l in text if l.upper().startswith("SFAC")).split()[1:]
        atom_lines = [l for l in text if l.strip() and l.strip()[:4].upper() != "END" and l.strip()[:4].upper() not in shelx.SHELX_LINE_KEYS]
        idx = [l.split()[1] for l in atom_lines]
        back = [Element[shelx._parse_atom_line(tuple(sf), l)["element"]].atomic_number for l in atom_lines]
        impl = ",".join(str(Element[x].atomic_number) for x in sf) + "|" + ",".join(idx) + "|" + ",".join(str(b) for b in back)
        cases.append(("sfac " + " ".join(str(z) for z in zs), impl, ["sfac", zs]))
    core.correspond_lines(ctx, "C10", cases)


def search(ctx, budget):
    n = len(entries())
    reps = 1 if budget == "quick" else 6
    for rep in range(reps):
        for i in range(n):
            seed = ctx.rng.randrange(1 << 30)
            e = entries()[i]
            try:
                r, skipped = judge(i, seed)
            except Exception as ex:  # noqa
                r, skipped = f"{e.number}:{e.choice}: raised {type(ex).__name__}: {ex}", False
            if skipped:
                continue
            ctx.case({"setting": f"{e.number}:{e.choice}", "seed": seed}, nontrivial=len(e.symops) > 1, key=f"{i}:{seed}")
            if r:
                fmt = r.split(":")[0].split()[-1] if " " in r.split(":")[0] else "x"
                ctx.fail(f"C10:{e.number}:{e.choice}:{r.split(':')[1].strip().split(' ')[-1] if ':' in r else ''}", r, {"index": i, "seed": seed})
                if len(ctx.failures) >= 12:
                    return
    ctx.note("exhaustive", True)
    ctx.note("settings", n)


def replay(ctx, obj):
    i = obj["input"]
    return judge(i["index"], i["seed"])[0]
