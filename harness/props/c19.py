"""C19 — the Wulff construction is the intersection of the facet half-spaces."""
import itertools
import math
import struct
from collections import Counter

import numpy as np

from harness.common import core
from harness.common.core import rat

ID = "C19"
LEAN_TARGETS = ["ChmpyVerif.Props.C19", "ChmpyVerif.Props.C19Scale"]
T = "ChmpyVerif.Props.C19."
THEOREMS = [T + n for n in ("dual_unit", "normal_dot_eq", "vertex_on_facets", "vertex_feasible", "vertex_scaling", "fan_length", "fan_mem",
                            "fan_boundary", "windingOrder_perm", "facetsOf_mem", "orderFacet_subset", "construct_vertex_on_facet", "construct_feasible")]
# the scaling law through the degenerate-vertex pruning (relative threshold)
THEOREMS += ["ChmpyVerif.Props.C19." + n for n in ("dot_smul_smul", "foldl_scale", "pruneIdx_scale")]
TRUSTED = [
    "hand model Model/Wulff.lean (exact rationals) of everything WulffConstruction does after scipy's ConvexHull: dual points, vertices from dual "
    "simplices, facet membership, relative-threshold pruning, atan2 ordering decided exactly by sign/cross-product, fan triangulation",
    "scipy.spatial.ConvexHull (Qhull): its simplices are an INPUT of the model; the hull property (every dual point on the origin's side of every "
    "simplex plane) is the hypothesis HullProperty of construct_feasible and is re-validated numerically on every case",
    "not proved: that the facet polygons are convex and that the angular order around the first vertex is the boundary order (so that the directed "
    "polygon edges of neighbouring facets cancel); fan_boundary reduces closedness of the triangle mesh to that — the oracle checks it on the real mesh",
    "float arithmetic of numpy vs exact rationals: vertices compared to 1e-9 relative; combinatorial outputs compared exactly",
]
RULE = ("generic centrosymmetric facet sets with 6..60 normals (energies within a factor of two), plus cubes, boxes, k-gonal prisms, octahedron, "
        "cuboctahedron, truncated cube, rhombic dodecahedron, each also randomly rotated and scaled by 1e-5..1e3; distinct = distinct (family, n, seed); "
        "non-trivial = at least one redundant facet or a non-triangular facet polygon")
MANIFEST = {
    "text": ("Proof (partial). Proved on the exact-rational model, for every well-formed input (unit normals, non-zero energies, non-degenerate simplices): "
             "each vertex lies on the three facets of its dual simplex, every vertex the construction lists for a facet lies on that facet's plane "
             "(construct_vertex_on_facet), all vertices satisfy all facet inequalities given the convex-hull property of the dual simplices "
             "(construct_feasible), scaling the energies by s scales the vertices by s, facet lists are exactly the incident simplices, ordering is a "
             "permutation, fan triangles use only facet indices, and the directed boundary of a fan is its polygon (discrete Stokes). Not proved: "
             "Qhull's hull property, convexity/ordering of the polygons (hence exact edge pairing), equality of volume with the half-space intersection — "
             "all checked by the oracle against a brute-force triple-plane intersection."
             " With the relative threshold the degenerate-vertex pruning commutes with scaling (pruneIdx_scale). Two near-degenerate inputs are recorded findings (per-facet merging of nearly coincident vertices)."),
    "note": "Trusted: Lean kernel + Mathlib; Qhull simplices as input with HullProperty as hypothesis; hand model tied by correspondence.",
    "technique": "Lean 4 proof (field algebra over ℚ, list combinatorics) + correspondence on captured hull simplices + brute-force half-space oracle",
}


def gen(ctx):
    pass


def bits2f(s):
    return struct.unpack("<d", struct.pack("<Q", int(s)))[0]


# ---------------------------------------------------------------------------
CUBE = [[1, 0, 0], [-1, 0, 0], [0, 1, 0], [0, -1, 0], [0, 0, 1], [0, 0, -1]]
OCTA = [[a, b, c] for a in (1, -1) for b in (1, -1) for c in (1, -1)]
DODE = [list(p) for p in itertools.product((-1, 0, 1), repeat=3) if sum(abs(x) for x in p) == 2]


def rotation(nrng):
    q, r = np.linalg.qr(nrng.normal(size=(3, 3)))
    q = q * np.sign(np.diag(r))
    if np.linalg.det(q) < 0:
        q[:, 0] = -q[:, 0]
    return q


def make_case(family, n, seed):
    nrng = np.random.default_rng(seed)
    s3 = math.sqrt(3)
    if family == "generic":
        N = nrng.normal(size=(n // 2, 3))
        E = nrng.uniform(1, 2, size=n // 2)
        N, E = np.vstack([N, -N]), np.concatenate([E, E])
    elif family == "cube":
        N, E = np.array(CUBE, float), np.ones(6)
    elif family == "box":
        e = nrng.uniform(1, 2, size=3)
        N, E = np.array(CUBE, float), np.repeat(e, 2)
    elif family == "prism":
        k = max(3, n)
        N = np.array([[math.cos(2 * math.pi * j / k), math.sin(2 * math.pi * j / k), 0] for j in range(k)] + [[0, 0, 1], [0, 0, -1]])
        h = nrng.uniform(0.5, 2)
        E = np.array([1.0] * k + [h, h])
    elif family == "octahedron":
        N, E = np.array(OCTA, float), np.ones(8)
    elif family == "truncated-cube":
        N, E = np.array(CUBE + OCTA, float), np.array([1.0] * 6 + [nrng.uniform(1.05, 1.6)] * 8)
    elif family == "cuboctahedron":
        # the ratio 2/sqrt(3) exactly, or typed with 10 / 12 decimals (vertices coincide to 1e-10 / 1e-12 of the size of the shape)
        ratio = [2 / s3, round(2 / s3, 10), 2 / s3, round(2 / s3, 12)][(seed // 2) % 4]
        N, E = np.array(CUBE + OCTA, float), np.array([1.0] * 6 + [ratio] * 8)
    elif family == "cube-touching-octa":
        N, E = np.array(CUBE + OCTA, float), np.array([1.0] * 6 + [s3] * 8)
    elif family == "rhombic-dodecahedron":
        N, E = np.array(DODE, float), np.ones(12)
    elif family == "bipyramid":
        # k-gonal bipyramid: k facets meet in each apex (the more facets through a vertex, the more copies of it the dual hull yields)
        k = [6, 8, 12, 16, 20, 24, 28, 30][n % 8]
        th = nrng.uniform(0.6, 1.0)
        N = np.array([[math.cos(2 * math.pi * j / k) * math.sin(th), math.sin(2 * math.pi * j / k) * math.sin(th), sg * math.cos(th)] for j in range(k) for sg in (1, -1)])
        E = np.ones(2 * k)
    elif family == "vicinal-cube":
        # a cube whose top and bottom faces are each split into two faces tilted by +-delta about x (vicinal faces): 12 vertices, two
        # ridges; the two faces of a pair are distinct half-spaces however small delta is
        d = [3e-5, 4e-5, 1e-4, 1e-3, 1e-2, 5e-5][n % 6]
        top = [[0, math.sin(d), math.cos(d)], [0, -math.sin(d), math.cos(d)]]
        N = np.array([[1, 0, 0], [-1, 0, 0], [0, 1, 0], [0, -1, 0]] + top + [[-a for a in t] for t in top], float)
        E = np.ones(8)
    elif family == "near-degenerate":
        # FIXED inputs (recorded findings): shapes whose vertices almost coincide (split by 1e-9..1e-5 of the size of the shape)
        if n % 2 == 0:
            N, E = np.array(CUBE + OCTA, float), np.array([1.0] * 6 + [1.1547] * 8)            # cuboctahedron with 2/sqrt(3) typed to four decimals
        else:
            N, E = np.array(CUBE + OCTA, float), np.array([1.0] * 6 + [s3 * (1 - 1e-6)] * 8)   # corner facets that only just cut in
        N = N / np.linalg.norm(N, axis=1)[:, None]
        return N, E
    elif family == "repeated-facets":
        # the same direction listed more than once: with different energies only the lowest one bounds the shape, with equal energies
        # the second copy adds nothing (a facet list merged from two sources)
        base = [("cube", CUBE, [1.0] * 6), ("truncated-cube", CUBE + OCTA, [1.0] * 6 + [1.5] * 8)][n % 2]
        N, E = np.array(base[1], float), np.array(base[2], float)
        pick = [0, 1] if base[0] == "cube" else [6, 13]      # a centrosymmetric pair
        lower = [0.8, 1.0, 1.0][seed % 3] if base[0] == "cube" else [1.3, 1.5, 1.5][seed % 3]
        N = np.vstack([N, N[pick]])
        E = np.concatenate([E, [lower, lower]])
        if seed % 3 == 2:                                     # the LOWER energy listed first
            N, E = np.vstack([N[-2:], N[:-2]]), np.concatenate([[0.8 if base[0] == "cube" else 1.3] * 2, E[:-2]])
        N = N / np.linalg.norm(N, axis=1)[:, None]
        if (seed // 3) % 2 == 1:
            N = N @ rotation(nrng).T
        return N, E
    elif family == "generic-vicinal":
        N = nrng.normal(size=(6, 3))
        N = N / np.linalg.norm(N, axis=1)[:, None]
        E = nrng.uniform(1, 2, size=6)
        j = int(np.argmin(E))
        t = np.cross(N[j], nrng.normal(size=3))
        t /= np.linalg.norm(t)
        d = [3e-5, 1e-4, 1e-3][n % 3]
        N = np.vstack([N, math.cos(d) * N[j] + math.sin(d) * t])
        E = np.append(E, E[j])
        N, E = np.vstack([N, -N]), np.concatenate([E, E])
    else:
        raise ValueError(family)
    N = N / np.linalg.norm(N, axis=1)[:, None]
    if family != "generic" and seed % 2 == 1:
        N = N @ rotation(nrng).T
    scale = [1.0, 1.0, 1e-5, 1e-3, 1e3, 0.37, 1e5, 1e7, 1e-7][seed % 9]
    return N, E * scale


def brute_vertices(N, E):
    n = len(N)
    idx = np.array(list(itertools.combinations(range(n), 3)))
    A = N[idx]
    det = np.linalg.det(A)
    ok = np.abs(det) > 1e-9
    A, b = A[ok], E[idx[ok]]
    X = np.linalg.solve(A, b[..., None])[..., 0]
    sc = np.abs(E).max()
    feas = np.all(X @ N.T <= E[None, :] + 1e-9 * sc, axis=1)
    X = X[feas]
    uniq = []
    for x in X:
        if not any(np.linalg.norm(x - u) < 1e-7 * sc for u in uniq):
            uniq.append(x)
    return np.array(uniq)


def mesh_check(V, T, sc):
    rep = list(range(len(V)))
    for i in range(len(V)):
        for j in range(i):
            if np.linalg.norm(V[i] - V[j]) < 1e-7 * sc:
                rep[i] = rep[j]
                break
    T2 = [[rep[a] for a in t] for t in T]
    T2 = [t for t in T2 if len(set(t)) == 3]
    d = Counter()
    for a, b, c in T2:
        for e in ((a, b), (b, c), (c, a)):
            d[e] += 1
    bad = [e for e in d if d[e] != 1 or d.get((e[1], e[0]), 0) != 1]
    vol = sum(np.dot(V[a], np.cross(V[b], V[c])) for a, b, c in T2) / 6
    return bad, vol


def judge(family, n, seed, construct=None):
    from scipy.spatial import ConvexHull
    from chmpy.crystal.wulff import WulffConstruction
    N, E = make_case(family, n, seed)
    tag = f"{family} n={len(N)} seed={seed}"
    sc = float(np.abs(E).max())
    try:
        w = WulffConstruction(N, E)
    except Exception as ex:  # noqa
        return f"{tag}: WulffConstruction raised {type(ex).__name__}: {ex}", None
    V, Tm = np.asarray(w.wulff_vertices), np.asarray(w.wulff_triangles)
    if Tm.dtype.kind not in "iu":
        if Tm.size and not np.all(Tm == np.floor(Tm)):
            return f"{tag}: triangle array holds non-integers", w
        Tm = Tm.astype(int)
    if Tm.ndim != 2 or Tm.shape[1] != 3:
        return f"{tag}: triangle array has shape {Tm.shape}", w
    if not np.all(np.isfinite(V)):
        return f"{tag}: non-finite vertices", w
    if Tm.size and (Tm.min() < 0 or Tm.max() >= len(V)):
        return f"{tag}: triangle index out of range", w
    slack = V @ N.T - E[None, :]
    if slack.max() > 1e-8 * sc:
        i, j = np.unravel_index(np.argmax(slack), slack.shape)
        return f"{tag}: vertex {i} violates facet inequality {j} by {slack[i, j]:.3g}", w
    on = (np.abs(slack) < 1e-8 * sc).sum(axis=1)
    if on.min() < 3:
        return f"{tag}: vertex {int(np.argmin(on))} lies on only {on.min()} facets", w
    # listed facet vertices lie on their facet
    for f, lst in enumerate(w.wulff_facets):
        for i in lst:
            if abs(slack[i, f]) > 1e-8 * sc:
                return f"{tag}: facet {f} lists vertex {i} which is not on its plane", w
    B = brute_vertices(N, E)
    for b in B:
        if np.linalg.norm(V - b, axis=1).min() > 1e-6 * sc:
            return f"{tag}: vertex {b.tolist()} of the half-space intersection is missing", w
    for i, v in enumerate(V):
        if np.linalg.norm(B - v, axis=1).min() > 1e-6 * sc:
            return f"{tag}: constructed vertex {i} is not a vertex of the half-space intersection", w
    bad, vol = mesh_check(V, Tm, sc)
    if bad:
        return f"{tag}: mesh is not closed/consistently oriented: {len(bad)} directed edges unpaired, e.g. {bad[0]}", w
    hv = ConvexHull(B).volume
    if abs(vol - hv) > 1e-8 * max(hv, sc ** 3):
        return f"{tag}: signed mesh volume {vol!r} differs from the half-space intersection volume {hv!r} (outward orientation gives +volume)", w
    # scaling law
    s = 1.7
    w2 = WulffConstruction(N, E * s)
    V2 = np.asarray(w2.wulff_vertices)
    if len(V2) != len(V) or max(np.linalg.norm(V2 - s * v, axis=1).min() for v in V) > 1e-7 * sc:
        return f"{tag}: scaling all energies by {s} does not scale the vertex set by {s}", w
    # validate the trusted hull property on this case
    D = w.facet_dual_vectors
    for sx in w.dual_hull.simplices:
        a, b, c = D[sx]
        nrm = np.cross(b - a, c - a)
        y = nrm @ a
        if ((D @ nrm - y) * y).max() > 1e-9 * abs(y) * np.linalg.norm(nrm) * np.abs(D).max() + 1e-300:
            return f"{tag}: TRUSTED hull property fails for simplex {sx.tolist()} (Qhull output is not a supporting plane)", w
    return None, w


FAMILIES = ["generic", "cube", "box", "prism", "octahedron", "truncated-cube", "cuboctahedron", "cube-touching-octa", "rhombic-dodecahedron",
            "bipyramid", "vicinal-cube", "generic-vicinal", "repeated-facets", "near-degenerate"]


def cases(ctx, budget):
    rng = ctx.rng
    n_generic = 24 if budget == "quick" else 150
    for k in range(n_generic):
        yield "generic", rng.choice([6, 8, 10, 14, 20, 30, 40, 60]) if k >= 8 else [6, 8, 10, 14, 20, 30, 40, 60][k], rng.randrange(1 << 30)
    reps = 2 if budget == "quick" else 8
    for fam in FAMILIES[1:]:
        if fam == "near-degenerate":
            yield fam, 0, 0
            yield fam, 1, 0
            continue
        for r in range(reps if fam not in ("bipyramid", "vicinal-cube", "repeated-facets", "cuboctahedron") else (3 * reps if budget == "quick" else 15 * reps)):
            yield fam, rng.randint(3, 12), rng.randrange(1 << 30) * 2 + (r % 2)


def nontrivial(w, N):
    if w is None:
        return False
    return any(len(f) == 0 for f in w.wulff_facets) or any(len(f) > 3 for f in w.wulff_facets)


def correspond(ctx):
    from chmpy.crystal.wulff import WulffConstruction
    lines, expect = [], []
    cs = list(cases(ctx, "quick" if not ctx.thorough else "thorough"))
    for fam, n, seed in cs:
        if fam == "generic" and n > 30 and not ctx.thorough:
            continue
        N, E = make_case(fam, n, seed)
        try:
            w = WulffConstruction(N, E)
        except Exception:   # judged by the oracle, not a correspondence matter
            continue
        lines.append("wulff " + rat(1e-10) + " | " + " ".join(rat(float(x)) for x in N.flatten()) + " | " + " ".join(rat(float(x)) for x in E)
                     + " | " + " ".join(str(int(x)) for x in w.dual_hull.simplices.flatten()))
        expect.append((w, {"family": fam, "n": n, "seed": seed}))
    try:
        outs = core.run_driver("C19", lines)
    except core.TieBroken as ex:
        ctx.tie_broken("driver C19", str(ex))
        return
    if len(outs) != len(lines):
        ctx.tie_broken("driver C19", f"{len(outs)} lines for {len(lines)} inputs")
        return
    for (w, inp), m in zip(expect, outs):
        parts = m.split("|")
        if len(parts) != 4:
            ctx.disagree("wulff", inp, m[:80], "4 sections")
            continue
        V = np.array([bits2f(x) for x in parts[0].split()]).reshape(-1, 3)
        sc = float(np.abs(w.facet_energies).max())
        if V.shape != w.wulff_vertices.shape or np.abs(V - w.wulff_vertices).max() > 1e-9 * sc:
            ctx.disagree("vertices", inp, "max dev %g" % (np.abs(V - w.wulff_vertices).max() if V.shape == w.wulff_vertices.shape else -1), "wulff_vertices")
            continue
        F = [[int(y) for y in x.split()] for x in parts[1].split(";")]
        WF = [list(map(int, x)) for x in w.wulff_facets]
        if F != WF:
            k = next((i for i, (a, b) in enumerate(zip(F, WF)) if a != b), -1)
            ctx.disagree("facets", inp, f"facet {k}: {F[k] if k >= 0 else len(F)}", f"{WF[k] if k >= 0 else len(WF)}")
            continue
        Tm = np.array(parts[2].split(), int).reshape(-1, 3)
        if not np.array_equal(Tm, w.wulff_triangles) or not np.array_equal(np.array(parts[3].split(), int), w.wulff_triangle_indices):
            ctx.disagree("triangles", inp, "triangle list differs", "wulff_triangles")
    ctx.count("correspondence_lines", len(lines))


def judge_entry_points(seed):
    """alternative ways to the same shape: a copied / pickled construction, and the (hkl, energy) + crystal entry point in an OBLIQUE cell
    (normal of (hkl) = h a* + k b* + l c*, rows of the reciprocal lattice)"""
    import copy
    import pickle
    import types
    from chmpy.crystal.wulff import WulffConstruction
    nrng = np.random.default_rng(seed)
    N, E = make_case("truncated-cube" if seed % 2 else "generic", 14, seed)
    w = WulffConstruction(N, E)
    ref = [list(map(int, f)) for f in w.wulff_facets]
    for name, mk in (("copy.copy", copy.copy), ("copy.deepcopy", copy.deepcopy), ("pickle round trip", lambda o: pickle.loads(pickle.dumps(o)))):
        try:
            w2 = mk(w)
        except Exception:  # noqa   (an object that cannot be pickled is not a wrong shape)
            continue
        if [list(map(int, f)) for f in w2.wulff_facets] != ref or not np.array_equal(np.asarray(w2.wulff_triangles), np.asarray(w.wulff_triangles)) \
                or not np.allclose(np.asarray(w2.wulff_vertices), np.asarray(w.wulff_vertices), rtol=0, atol=0):
            return f"a {name} of a WulffConstruction has other vertices / facet polygons / triangles than the object it was made from"
    from chmpy.core.element import Element
    from chmpy.crystal import AsymmetricUnit, Crystal, SpaceGroup, UnitCell
    uc = UnitCell.from_lengths_and_angles([5.0, 7.0, 9.0], [np.radians(90.0 + 15 * (seed % 2)), np.radians(float(nrng.uniform(100, 118))), np.radians(90.0 + 11 * (seed % 2))])
    sgn = 14 if seed % 2 == 0 else 2
    c = Crystal(uc, SpaceGroup(sgn), AsymmetricUnit([Element[6]], np.array([[0.1, 0.2, 0.3]])))
    hkl = np.array([[1, 0, 0], [0, 1, 0], [0, 0, 1], [1, 1, 0], [0, 1, 1], [1, 0, 1], [1, 1, 1], [-1, 1, 1], [2, 1, 0]][: int(nrng.integers(6, 10))])
    en = nrng.uniform(1.0, 1.6, size=len(hkl))
    gmf = types.SimpleNamespace(hkl=hkl, energies=en)
    wg = WulffConstruction.from_gmf_and_crystal(gmf, c)
    # expected half-spaces: every symmetry image (and its opposite) of every (hkl), normal h a* + k b* + l c*
    Rl = np.asarray(uc.reciprocal_lattice, dtype=float)
    planes = {}
    for h_, e_ in zip(hkl, en):
        for op in c.space_group.symmetry_operations:
            hh = tuple(int(round(x)) for x in (np.asarray(h_) @ np.asarray(op.rotation).T))
            for sgn_ in (1, -1):
                kk = tuple(sgn_ * x for x in hh)
                planes[kk] = min(planes.get(kk, np.inf), float(e_))
    Np = np.array([np.array(k, dtype=float) @ Rl for k in planes])
    Np /= np.linalg.norm(Np, axis=1)[:, None]
    Ep = np.array(list(planes.values()))
    V = np.asarray(wg.wulff_vertices)
    slack = V @ Np.T - Ep[None, :]
    sc = float(Ep.max())
    if slack.max() > 1e-8 * sc:
        return (f"WulffConstruction.from_gmf_and_crystal in the cell {np.round(uc.lengths, 2).tolist()} / {np.round(np.degrees(uc.angles), 1).tolist()}: a vertex violates the "
                f"half-space of a symmetry-equivalent (hkl) plane (normal h a* + k b* + l c*) by {slack.max():.3g}")
    B = brute_vertices(Np, Ep)
    if len(B) and max(np.linalg.norm(V - b, axis=1).min() for b in B) > 1e-6 * sc:
        return "WulffConstruction.from_gmf_and_crystal: a vertex of the half-space intersection of the (hkl) planes is missing"
    return None


def search(ctx, budget):
    for k in range(3 if budget == "quick" else 30):
        seed = ctx.rng.randrange(1 << 30)
        ctx.case({"family": "entry-points", "seed": seed}, nontrivial=True)
        try:
            r = judge_entry_points(seed)
        except Exception as ex:  # noqa
            r = f"entry points: raised {type(ex).__name__}: {ex}"
        if r:
            ctx.fail("C19:entry-points:" + r[:40], r, {"family": "entry-points", "n": 0, "seed": seed})
    for fam, n, seed in cases(ctx, budget):
        r, w = judge(fam, n, seed)
        ctx.case({"family": fam, "n": n, "seed": seed}, nontrivial=nontrivial(w, None))
        if r:
            key = f"C19:{fam}:" + r.split(":", 1)[1][:40].strip()
            if fam == "near-degenerate":
                key = "C19:near-degenerate:" + ("cuboctahedron-1.1547" if n % 2 == 0 else "corner-facet-1e-6")
            ctx.fail(key, r, {"family": fam, "n": n, "seed": seed})
            if len(ctx.failures) >= 8:
                break


def replay(ctx, obj):
    i = obj["input"]
    if i["family"] == "entry-points":
        return judge_entry_points(i["seed"])
    return judge(i["family"], i["n"], i["seed"])[0]
