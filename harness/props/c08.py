"""C08 — shape invariants computed from harmonic coefficients are rotation invariant."""
import math
import struct
from fractions import Fraction

import numpy as np

from harness.common import core
from harness.common.core import rat
from harness.pyx import drift
from harness.props.c07 import bits2f, cvec

ID = "C08"
LEAN_TARGETS = ["ChmpyVerif.Props.C08", "ChmpyVerif.Props.C08Gen", "ChmpyVerif.Props.C08Kinds"]
T = "ChmpyVerif.Props.C08."
THEOREMS = [T + n for n in ("N_block_local", "N_unitary_invariant", "power_unitary_invariant", "P_zrot_invariant", "invariant_count", "P_rotation_invariant")]
# number and ordering: the selection depends only on which kinds are named, N block first (model of the selection logic, tied by the oracle)
THEOREMS += ["ChmpyVerif.Props.C08." + n for n in ("makeInvariants_congr", "makeInvariants_perm", "makeInvariants_both")]
TRUSTED = [
    "hand model Model/SHT.lean of make_N_invariants, p_invariants_c (triple enumeration, parity split, cube roots), the Racah formula of clebsch() "
    "and power_spectrum, executed in Float by the driver",
    "H_rot: a rotation acts on the degree-l coefficients by a unitary (Wigner D) matrix and does not mix degrees — hypothesis of the N / power theorems",
    "H_cg: the Clebsch-Gordan coefficients intertwine D^{l1} ⊗ D^{l2} with D^{l} — a hypothesis of P_rotation_invariant (which proves that unitarity "
    "and this intertwining are ALL that the bispectrum needs); rotations about z are proved without it; the code's clebsch() is compared with exact "
    "rational-arithmetic Racah values and general rotations are exercised by the oracle",
    "scipy.special.sph_harm_y as the independent evaluator of Y_lm used to build rotated functions in the oracle",
    "the prebuilt _invariants extension is a faithful compilation of the .pyx reconstructed from its .c (drift guard)",
]
RULE = ("L = 0..12: correspondence of N invariants, P invariants, the triple enumeration and 400 (quick) / 4000 (thorough) Clebsch-Gordan values; oracle: random "
        "complex and real band-limited functions x random proper rotations (incl. about z and by pi), function rotated by re-sampling with scipy harmonics "
        "and re-analysing; distinct = distinct (L, seed, kind); non-trivial = L >= 2 (P invariants exist)")
MANIFEST = {
    "text": ("Proof (partial). Proved over any commutative star ring: each N invariant reads only the 2l+1 coefficients at [l², (l+1)²) (locality); any unitary "
             "transformation of a degree's coefficients leaves Σ|c|² — hence N and the power spectrum — unchanged; every P (bispectrum) term is unchanged by a "
             "rotation about z (phases cancel because m1 + m2 = m), and by ANY transformation that acts unitarily on each degree and is intertwined by "
             "the coupling coefficients (P_rotation_invariant: the algebra needs nothing else); number/order of the P invariants for every L <= 12 (the property's range) kernel-evaluated "
             "from the modelled loop nest. Not proved: that rotations act block-unitarily (Wigner D; H_rot) and that the tabulated Clebsch-Gordan "
             "coefficients have the intertwining property (H_cg) — both exercised by the oracle on the real code."),
    "note": "Trusted: Lean kernel + Mathlib; H_rot, H_cg as hypotheses; hand model tied by correspondence; compiled extension = its .pyx.",
    "technique": "Lean 4 proof (ring algebra for locality/unitary/z-rotation invariance, kernel-evaluated enumeration) + correspondence + rotation oracle",
}


def gen(ctx):
    pass


def fact(n):
    return math.factorial(n)


def cg_exact(j1, m1, j2, m2, j, m):
    """Clebsch–Gordan coefficient from the Racah formula in exact rational arithmetic (sign · sqrt(rational))."""
    if m1 + m2 != m or not (abs(j1 - j2) <= j <= j1 + j2) or abs(m1) > j1 or abs(m2) > j2 or abs(m) > j:
        return 0.0
    pref = Fraction((2 * j + 1) * fact(j + j1 - j2) * fact(j - j1 + j2) * fact(j1 + j2 - j), fact(j1 + j2 + j + 1))
    pref *= fact(j + m) * fact(j - m) * fact(j1 - m1) * fact(j1 + m1) * fact(j2 - m2) * fact(j2 + m2)
    s = Fraction(0)
    for k in range(0, j1 + j2 + j + 1):
        ds = [k, j1 + j2 - j - k, j1 - m1 - k, j2 + m2 - k, j - j2 + m1 + k, j - j1 - m2 + k]
        if min(ds) < 0:
            continue
        d = 1
        for x in ds:
            d *= fact(x)
        s += Fraction((-1) ** k, d)
    v2 = pref * s * s
    return math.copysign(math.sqrt(v2.numerator / v2.denominator) if v2 else 0.0, s) if s else 0.0


def correspond(ctx):
    from chmpy.shape._invariants import clebsch_gordan, p_invariants_c
    from chmpy.shape.shape_descriptors import make_N_invariants
    rng = ctx.rng
    nrng = np.random.default_rng(ctx.seed + 8)
    lines, expect = [], []
    for L in range(0, 13):
        n = (L + 1) ** 2
        c = nrng.normal(size=n) + 1j * nrng.normal(size=n)
        lines.append(f"ninv {L + 1} | " + cvec(c))
        expect.append(("f", np.array(make_N_invariants(c)), {"op": "make_N_invariants", "L": L}))
        if L >= 1 and (L <= 8 or ctx.thorough or L == 12):
            lines.append(f"pinv {L} | " + cvec(c))
            expect.append(("f", np.array(p_invariants_c(c)), {"op": "p_invariants_c", "L": L}))
    ncg = 4000 if ctx.thorough else 400
    for _ in range(ncg):
        l1, l2 = rng.randint(0, 12), rng.randint(0, 12)
        l = rng.randint(abs(l1 - l2), min(12, l1 + l2)) if rng.random() < 0.9 else rng.randint(0, 12)
        m1, m2 = rng.randint(-l1, l1), rng.randint(-l2, l2)
        m = m1 + m2 if rng.random() < 0.9 else rng.randint(-l, l)
        if abs(m) > l:      # the code is only ever called with |m| <= l; outside, the factorial table is indexed out of range
            continue
        lines.append(f"cg {l1} {m1} {l2} {m2} {l} {m}")
        expect.append(("cg", (clebsch_gordan(l1, m1, l2, m2, l, m), cg_exact(l1, m1, l2, m2, l, m)), {"op": "clebsch_gordan", "args": [l1, m1, l2, m2, l, m]}))
    try:
        outs = core.run_driver("C08", lines)
    except core.TieBroken as ex:
        ctx.tie_broken("driver C08", str(ex))
        return
    if len(outs) != len(lines):
        ctx.tie_broken("driver C08", f"{len(outs)} lines for {len(lines)} inputs")
        return
    for (kind, want, inp), m in zip(expect, outs):
        if kind == "f":
            got = np.array([bits2f(t) for t in m.split()])
            ok = got.shape == want.shape and np.allclose(got ** 3 if inp["op"].startswith("p_") else got, want ** 3 if inp["op"].startswith("p_") else want,
                                                       rtol=1e-9, atol=1e-9 * max(1.0, float(np.abs(want).max() ** 3) if want.size else 1.0))
        else:
            got = bits2f(m.strip())
            impl, exact = want
            ok = abs(got - impl) <= 1e-12 and abs(impl - exact) <= 1e-10
            want = f"impl={impl!r} exact={exact!r}"
        if not ok:
            ctx.disagree(inp["op"], inp, m[:100], str(want)[:160])
    ctx.count("correspondence_lines", len(lines))


# ---------------------------------------------------------------------------
COUNTS = [(0, 0), (0, 0), (2, 2), (4, 4), (10, 9), (16, 14), (28, 23), (40, 32), (60, 46), (80, 60), (110, 80), (140, 100), (182, 127)]


def random_rotation(nrng, kind):
    if kind == "z":
        a = nrng.uniform(0, 2 * np.pi)
        return np.array([[np.cos(a), -np.sin(a), 0], [np.sin(a), np.cos(a), 0], [0, 0, 1]])
    if kind == "pi":
        v = nrng.normal(size=3)
        v /= np.linalg.norm(v)
        return 2 * np.outer(v, v) - np.eye(3)
    q, r = np.linalg.qr(nrng.normal(size=(3, 3)))
    q = q * np.sign(np.diag(r))
    if np.linalg.det(q) < 0:
        q[:, 0] = -q[:, 0]
    return q


def evaluate(L, c, xyz):
    """f(x) = Σ c_lm Y_lm(x) with scipy's orthonormal Condon–Shortley harmonics (independent of chmpy)"""
    from scipy.special import sph_harm_y
    x, y, z = xyz
    th = np.arccos(np.clip(z, -1, 1))
    ph = np.arctan2(y, x)
    f = np.zeros(th.shape, dtype=complex)
    for l in range(L + 1):
        for m in range(-l, l + 1):
            f += c[l * (l + 1) + m] * sph_harm_y(l, m, th, ph)
    return f


def judge(L, seed, kind, real):
    from chmpy.shape._invariants import p_invariants_c
    from chmpy.shape._sht import expand_coeffs_to_full
    from chmpy.shape.shape_descriptors import make_invariants, make_N_invariants
    from chmpy.shape.sht import SHT
    nrng = np.random.default_rng(seed)
    sht = SHT(L)
    n = (L + 1) ** 2
    c = nrng.normal(size=n) + 1j * nrng.normal(size=n)
    if real:
        for l in range(L + 1):
            c[l * (l + 1)] = c[l * (l + 1)].real
            for m in range(1, l + 1):
                c[l * (l + 1) - m] = (-1) ** m * np.conj(c[l * (l + 1) + m])
    R = random_rotation(nrng, kind)
    grid = np.array(sht.grid_cartesian)
    rgrid = np.einsum("ij,jab->iab", R.T, grid)
    f0, f1 = evaluate(L, c, grid), evaluate(L, c, rgrid)
    if real:
        if max(np.abs(f0.imag).max(), np.abs(f1.imag).max()) > 1e-9:
            return "oracle self-check failed: the symmetric coefficient vector did not give a real function"
        c0 = expand_coeffs_to_full(L, sht.analysis(f0.real.copy()))
        c1 = expand_coeffs_to_full(L, sht.analysis(f1.real.copy()))
    else:
        c0, c1 = sht.analysis(f0), sht.analysis(f1)
    scale = max(1.0, float(np.abs(c0).max()))
    tol = 1e-9 * scale
    tag = f"L={L} {'real' if real else 'complex'} function, rotation kind {kind}"
    n0, n1 = make_N_invariants(c0), make_N_invariants(c1)
    if n0.shape != (L + 1,):
        return f"{tag}: {n0.shape[0]} N invariants instead of L+1"
    if not np.allclose(n0, n1, rtol=0, atol=tol):
        i = int(np.argmax(np.abs(n0 - n1)))
        return f"{tag}: N invariant of degree {i} changes under rotation ({n0[i]!r} -> {n1[i]!r})"
    # the value: per-degree norm of the coefficients the function was built from
    want = np.array([np.sqrt(np.sum(np.abs(c[l * l:(l + 1) ** 2]) ** 2)) for l in range(L + 1)])
    if not np.allclose(n0, want, rtol=0, atol=tol):
        return f"{tag}: N invariants are not the per-degree norms of the coefficients"
    s0, s1 = sht.power_spectrum(c0), sht.power_spectrum(c1)
    if not np.allclose(s0, s1, rtol=0, atol=tol * scale):
        return f"{tag}: power spectrum changes under rotation"
    if not np.allclose(s0, want ** 2 / (2 * np.arange(L + 1) + 1), rtol=0, atol=tol * scale):
        return f"{tag}: power spectrum is not |c_l|²/(2l+1)"
    # the spectrum is a function of the coefficient vector (its length fixes the degree), not of the transform object asked
    for other in {L + 3, max(L - 2, 0), 2 * L + 1} - {L}:
        so = SHT(other).power_spectrum(c0)
        if np.shape(so) != np.shape(s0) or not np.allclose(so, s0, rtol=0, atol=tol * scale):
            return f"{tag}: power_spectrum of the degree-{L} vector asked through SHT({other}) has {np.shape(so)[0]} entries / other values than through SHT({L})"
    if real:
        r0, r1 = sht.analysis(f0.real.copy()), sht.analysis(f1.real.copy())
        if not np.allclose(sht.power_spectrum(r0), s0, rtol=0, atol=tol * scale) or not np.allclose(sht.power_spectrum(r1), s0, rtol=0, atol=tol * scale):
            return f"{tag}: power spectrum of the real layout differs from the complex layout / changes under rotation"
    if L >= 1:
        p0, p1 = p_invariants_c(c0), p_invariants_c(c1)
        if p0.shape != (COUNTS[L][0],):
            return f"{tag}: {p0.shape[0]} P invariants, expected {COUNTS[L][0]}"
        if not np.allclose(p0 ** 3, p1 ** 3, rtol=0, atol=1e-8 * scale ** 3):
            i = int(np.argmax(np.abs(p0 ** 3 - p1 ** 3)))
            return f"{tag}: P invariant #{i} changes under rotation ({p0[i] ** 3!r} -> {p1[i] ** 3!r}, cubes)"
        full = make_invariants(L, c0)
        if full.shape != (L + 1 + COUNTS[L][0],) or not np.array_equal(full[:L + 1], n0) or not np.array_equal(full[L + 1:], p0):
            return f"{tag}: make_invariants is not [N invariants, P invariants] in that order"
        if not np.array_equal(make_invariants(L, c0, kinds="N"), n0) or not np.array_equal(make_invariants(L, c0, kinds="P"), p0):
            return f"{tag}: make_invariants(kinds=...) does not select the requested kinds"
        # number and ordering are a fixed function of the maximum degree: however the selection is spelled, N comes first, each kind once
        for kinds in ("PN", ("P", "N"), ["N", "P"], "NPN", "np".upper()):
            alt = make_invariants(L, c0, kinds=kinds)
            if alt.shape != full.shape or not np.array_equal(alt, full):
                return f"{tag}: make_invariants(kinds={kinds!r}) returns {alt.shape[0]} values in another order than kinds='NP' ({full.shape[0]} values, N first)"
    # locality: N_l ignores other degrees, and responds to its own
    l = int(nrng.integers(0, L + 1))
    d = c0.copy()
    mask = np.ones(n, dtype=bool)
    mask[l * l:(l + 1) ** 2] = False
    d[mask] += nrng.normal(size=mask.sum()) + 3.0
    if make_N_invariants(d)[l] != n0[l]:
        return f"{tag}: N invariant of degree {l} changed when only OTHER degrees' coefficients were modified"
    e = c0.copy()
    k = int(nrng.integers(l * l, (l + 1) ** 2))
    e[k] += 1.5 + abs(e[k])
    if make_N_invariants(e)[l] == n0[l]:
        return f"{tag}: N invariant of degree {l} ignores coefficient index {k} of its own degree"
    return None


def judge_pr(L, seed):
    """the real-layout variant `p_invariants_r` (exported, not used by make_invariants)"""
    from chmpy.shape._invariants import p_invariants_r
    from chmpy.shape.sht import SHT
    nrng = np.random.default_rng(seed)
    sht = SHT(L)
    n = (L + 1) ** 2
    c = nrng.normal(size=n) + 1j * nrng.normal(size=n)
    for l in range(L + 1):
        c[l * (l + 1)] = c[l * (l + 1)].real
        for m in range(1, l + 1):
            c[l * (l + 1) - m] = (-1) ** m * np.conj(c[l * (l + 1) + m])
    R = random_rotation(nrng, "general")
    grid = np.array(sht.grid_cartesian)
    f0, f1 = evaluate(L, c, grid), evaluate(L, c, np.einsum("ij,jab->iab", R.T, grid))
    p0, p1 = p_invariants_r(sht.analysis(f0.real.copy())), p_invariants_r(sht.analysis(f1.real.copy()))
    if not np.allclose(p0 ** 3, p1 ** 3, rtol=0, atol=1e-8 * max(1.0, float(np.abs(c).max())) ** 3):
        i = int(np.argmax(np.abs(p0 ** 3 - p1 ** 3)))
        return f"p_invariants_r, L={L}, real function: P invariant #{i} changes under rotation ({p0[i] ** 3!r} -> {p1[i] ** 3!r}, cubes)"
    return None


def judge_cap(L, seed):
    """beyond the P cap (degree 23) the selection is still a fixed function of the maximum degree: the same call gives the
    same vector every time, N part first with L+1 entries"""
    from chmpy.shape.shape_descriptors import make_invariants, make_N_invariants
    nrng = np.random.default_rng(seed)
    c = nrng.normal(size=(L + 1) ** 2) + 1j * nrng.normal(size=(L + 1) ** 2)
    outs = [np.asarray(make_invariants(L, c)) for _ in range(3)]
    if len({o.shape for o in outs}) != 1:
        return f"make_invariants({L}, c) returns vectors of different length on repeated calls: {[o.shape[0] for o in outs]}"
    if not all(np.array_equal(outs[0], o, equal_nan=True) for o in outs[1:]):
        return f"make_invariants({L}, c) returns different values on repeated calls"
    if not np.all(np.isfinite(outs[0])):
        return f"make_invariants({L}, c) contains non-finite values"
    if not np.array_equal(outs[0][:L + 1], make_N_invariants(c)):
        return f"make_invariants({L}, c) does not start with the {L + 1} N invariants"
    return None


def search(ctx, budget):
    drift.report(ctx, ["shape/_invariants"])
    for L in (23, 24, 30):
        seed = ctx.rng.randrange(1 << 30)
        ctx.case({"L": L, "seed": seed, "fn": "make_invariants-cap"})
        r = judge_cap(L, seed)
        if r:
            ctx.fail(f"C08:cap:L={L}", r, {"L": L, "seed": seed, "fn": "make_invariants-cap"})
    for L in (2, 3, 5):
        seed = ctx.rng.randrange(1 << 30)
        ctx.case({"L": L, "seed": seed, "fn": "p_invariants_r"})
        r = judge_pr(L, seed)
        if r:
            ctx.fail("C08:p_invariants_r:not-rotation-invariant", r, {"L": L, "seed": seed, "fn": "p_invariants_r"})
    reps = 1 if budget == "quick" else 4
    for L in range(0, 13):
        for rep in range(reps):
            for kind in ("general", "z", "pi"):
                for real in (False, True):
                    if budget == "quick" and L > 8 and (kind != "general" or real):
                        continue
                    seed = ctx.rng.randrange(1 << 30)
                    ctx.case({"L": L, "seed": seed, "kind": kind, "real": real}, nontrivial=L >= 2)
                    try:
                        r = judge(L, seed, kind, real)
                    except Exception as ex:  # noqa
                        r = f"L={L}: raised {type(ex).__name__}: {ex}"
                    if r:
                        ctx.fail(f"C08:L={L}:{'real' if real else 'complex'}:" + r.split(":", 1)[1][:40].strip(), r,
                                 {"L": L, "seed": seed, "kind": kind, "real": real})
                        break
        if len(ctx.failures) >= 8:
            break


def replay(ctx, obj):
    i = obj["input"]
    if i.get("fn") == "p_invariants_r":
        return judge_pr(i["L"], i["seed"])
    if i.get("fn") == "make_invariants-cap":
        return judge_cap(i["L"], i["seed"])
    return judge(i["L"], i["seed"], i["kind"], i["real"])
