"""C05 — promolecule density is a sum of spherical atoms; stockholder weights are shares."""
import math
import os
from fractions import Fraction as F

import numpy as np

from harness.common import core
from harness.common.core import rat
from harness.pyx import drift

ID = "C05"
LEAN_TARGETS = ["ChmpyVerif.Props.C05", "ChmpyVerif.Props.C05Share"]
T = "ChmpyVerif.Props.C05."
THEOREMS = [T + n for n in ("interp_between_nodes", "interp_pos", "rho_append", "rho_perm", "rho_isometry", "dist2_rigid",
                            "weight_mem_unit_interval", "weights_complementary", "weight_complementary_model", "paths_agree_inside_table",
                            # Props/C05Share.lean
                            "weight_half_iff", "weight_gt_half_iff", "weight_mono_own", "weight_anti_other", "shares_sum_one", "weight_perm", "weight_union")]
TRUSTED = [
    "hand model Model/Density.lean of interp_f / interp_f_one / evaluate_rho / weights in exact rationals; float32 rounding of the kernel is not "
    "modelled (relative tolerance 2e-5 per value in the correspondence); the table is loaded from a dump of the real thakkar_interp.npz each run",
    "the prebuilt _density extension is a faithful compilation of the .pyx reconstructed from its .c (drift guard)",
    "table facts (all entries positive, nodes uniform up to float32 rounding) are evaluated on the real table by the harness, not by the kernel",
]
RULE = ("seeded atom sets over Z=1..103 (every element hit in the thorough tier), 1..40 atoms, evaluation points at least 0.3 A from every nucleus and out "
        "to beyond the end of the table (10.58 A); metamorphic oracle on the real kernel (additivity, permutation, rigid motion, weights in [0,1], "
        "complementary sum); distinct = distinct (atoms, points); non-trivial = at least two different elements")
MANIFEST = {
    "text": ("Proof. Over ℚ and for ANY table: the interpolant between nodes is a convex combination (between the neighbouring tabulated values, positive "
             "for a positive table); the density is additive over disjoint atom sets, invariant under any permutation of the atoms and under any map "
             "that preserves atom-point distances; x -> Rx+t with RᵀR=1 preserves them; the stockholder weight lies in [0,1] and complementary "
             "weights sum to 1 without background; the level 1/2 is exactly where the two densities are equal, the weight is monotone in both, shares of "
             "any number of groups sum to 1 and a three-way split is additive (C05Share); the batch and single-point interpolators agree inside the table. Hand model tied by correspondence "
             "with the compiled kernel on the real table (float32 tolerance) plus a metamorphic oracle."),
    "note": ("Trusted: Lean kernel + Mathlib; exact rationals for float32; compiled extension = its .pyx (drift guard); table properties checked numerically."),
    "technique": "Lean 4 proof (ordered-field algebra, list permutation lemmas) + correspondence with the compiled kernel + metamorphic oracle",
}

TOL = 2e-5


def gen(ctx):
    pass


def dump_table(zs):
    from chmpy.interpolate import density as D
    core.WORK.mkdir(exist_ok=True)
    path = core.WORK / f"thakkar_{os.getpid()}.txt"
    dom = np.asarray(D._DOMAIN, dtype=np.float32)
    with open(path, "w") as f:
        f.write(" ".join(rat(float(x)) for x in dom) + "\n")
        for z in sorted(set(zs)):
            f.write(str(z) + " " + " ".join(rat(float(x)) for x in np.asarray(D._RHO[z - 1], dtype=np.float32)) + "\n")
    return path


def rand_atoms(rng, n, zs=None):
    els = [rng.choice(zs) if zs else rng.randint(1, 103) for _ in range(n)]
    pos = np.array([[rng.uniform(-4, 4) for _ in range(3)] for _ in range(n)], dtype=np.float32)
    return els, pos


def rand_points(rng, pos, m):
    pts = []
    while len(pts) < m:
        k = rng.random()
        if k < 0.6:
            p = np.array([rng.uniform(-7, 7) for _ in range(3)])
        elif k < 0.85:
            c = pos[rng.randrange(len(pos))]
            v = np.array([rng.gauss(0, 1) for _ in range(3)])
            p = c + v / np.linalg.norm(v) * rng.uniform(0.31, 2.5)
        else:
            p = np.array([rng.uniform(-16, 16) for _ in range(3)])
        p = p.astype(np.float32)
        if np.min(np.linalg.norm(pos.astype(np.float64) - p.astype(np.float64), axis=1)) >= 0.3:
            pts.append(p)
    return np.array(pts, dtype=np.float32)


def atoms_txt(els, pos):
    return f"{len(els)} " + " ".join(f"{z} {rat(float(p[0]))} {rat(float(p[1]))} {rat(float(p[2]))}" for z, p in zip(els, pos))


def pts_txt(pts):
    return " ".join(rat(float(x)) for p in pts for x in p)


def correspond(ctx):
    from chmpy.interpolate.density import PromoleculeDensity, StockholderWeight
    rng = ctx.rng
    zs_pool = sorted({rng.randint(1, 103) for _ in range(10 if not ctx.thorough else 60)} | {1, 6, 8})
    path = dump_table(zs_pool)
    lines, expect = [f"table {path}"], [None]
    for _ in range(40 if not ctx.thorough else 600):
        els, pos = rand_atoms(rng, rng.randint(1, 12 if not ctx.thorough else 40), zs_pool)
        pts = rand_points(rng, pos, rng.randint(1, 5))
        r = PromoleculeDensity((els, pos)).rho(pts)
        lines.append(f"rho batch {atoms_txt(els, pos)} {pts_txt(pts)}")
        expect.append(("rho", [float(x) for x in r], {"elements": els}))
        els2, pos2 = rand_atoms(rng, rng.randint(1, 8), zs_pool)
        pos2 = pos2 + np.float32(5.0)
        bg = rng.choice([0.0, 0.0, 1e-5, 0.01])
        w = StockholderWeight(PromoleculeDensity((els, pos)), PromoleculeDensity((els2, pos2)), background=bg).weights(pts)
        lines.append(f"weight {rat(float(np.float32(bg)))} {atoms_txt(els, pos)} {atoms_txt(els2, pos2)} {pts_txt(pts)}")
        expect.append(("weight", [float(x) for x in w], {"elements": els, "elements_b": els2, "bg": bg}))
    for zs in ([1, 6], [0, 6], [104], [-1, 5], [103], []):
        def v(zs=zs):
            try:
                PromoleculeDensity((np.array(zs, dtype=int), np.zeros((len(zs), 3))))
                return "ok"
            except ValueError:
                return "err ValueError"
            except Exception as ex:  # noqa
                return "err other:" + type(ex).__name__
        if zs:
            lines.append("valid " + " ".join(map(str, zs)))
            expect.append(("valid", v(), {"zs": zs}))
    try:
        outs = core.run_driver("C05", lines)
    except core.TieBroken as ex:
        ctx.tie_broken("driver C05", str(ex))
        return
    finally:
        try:
            os.remove(path)
        except OSError:
            pass
    if len(outs) != len(lines):
        ctx.tie_broken("driver C05", f"{len(outs)} lines for {len(lines)} inputs: {outs[:2]}")
        return
    worst = 0.0
    for e, m in zip(expect, outs):
        if e is None:
            continue
        kind, vals, inp = e
        if kind == "valid":
            if m.strip() != vals:
                ctx.disagree("valid", inp, m.strip(), vals)
            continue
        mv = [float(F(t)) for t in m.split()] if m.strip() and not m.startswith("bad") else []
        if len(mv) != len(vals):
            ctx.disagree(kind, inp, m[:100], str(vals)[:100])
            continue
        for a, b in zip(mv, vals):
            rel = abs(a - b) / max(abs(a), 1e-30)
            worst = max(worst, rel)
            if rel > TOL and abs(a - b) > 1e-12:
                ctx.disagree(kind, inp, repr(a), repr(b))
                break
    ctx.note("worst_relative_difference_model_vs_kernel", worst)
    ctx.count("correspondence_lines", len(lines))


def rot(rng):
    q = np.array([rng.gauss(0, 1) for _ in range(4)])
    q /= np.linalg.norm(q)
    a, b, c, d = q
    return np.array([[a * a + b * b - c * c - d * d, 2 * (b * c - a * d), 2 * (b * d + a * c)],
                     [2 * (b * c + a * d), a * a - b * b + c * c - d * d, 2 * (c * d - a * b)],
                     [2 * (b * d - a * c), 2 * (c * d + a * b), a * a - b * b - c * c + d * d]])


def judge(seed, z_force=None):
    import random
    from chmpy.interpolate import density as D
    from chmpy.interpolate.density import PromoleculeDensity, StockholderWeight
    rng = random.Random(seed)
    n = rng.randint(2, 40)
    els, pos = rand_atoms(rng, n)
    if z_force:
        els[0] = z_force
    pts = rand_points(rng, pos, rng.randint(3, 30))
    rt = 3e-5
    try:
        full = PromoleculeDensity((els, pos)).rho(pts)
        if not np.all(full > 0):
            return "density is not positive at some point"
        # reference: sum over atoms of the tabulated atomic density, linearly interpolated in r^2 (float64)
        dom = np.asarray(D._DOMAIN, dtype=np.float64)
        ref = np.zeros(len(pts))
        for z, p in zip(els, pos):
            d2 = np.sum((pts.astype(np.float64) - p.astype(np.float64)) ** 2, axis=1) / (0.5291772108 ** 2)
            ref += np.interp(d2, dom, np.asarray(D._RHO[z - 1], dtype=np.float64))
        if not np.allclose(full, ref, rtol=2e-3, atol=1e-12):
            k = int(np.argmax(np.abs(full - ref) / np.maximum(ref, 1e-30)))
            return f"rho differs from the sum of interpolated tabulated atomic densities: {full[k]} vs {ref[k]} (elements {els[:6]}…)"
        k = rng.randint(1, n - 1)
        ra = PromoleculeDensity((els[:k], pos[:k])).rho(pts)
        rb = PromoleculeDensity((els[k:], pos[k:])).rho(pts)
        if not np.allclose(ra + rb, full, rtol=rt, atol=1e-12):
            return "density is not additive over disjoint atom sets"
        perm = list(range(n))
        rng.shuffle(perm)
        rp = PromoleculeDensity(([els[i] for i in perm], pos[perm])).rho(pts)
        if not np.allclose(rp, full, rtol=rt, atol=1e-12):
            return "density depends on the order of the atoms"
        R = rot(rng)
        t = np.array([rng.uniform(-3, 3) for _ in range(3)])
        rr = PromoleculeDensity((els, (pos.astype(np.float64) @ R.T + t).astype(np.float32))).rho((pts.astype(np.float64) @ R.T + t).astype(np.float32))
        if not np.allclose(rr, full, rtol=5e-4, atol=1e-10):
            return "density is not invariant under a rigid motion of atoms and points"
        # far from the coordinate origin (float32 coordinates: ulp 3e-5 A at 300 A, hence the looser tolerance)
        T = np.array([rng.uniform(-300, 300) for _ in range(3)])
        posT = (pos.astype(np.float64) + T).astype(np.float32)
        ptsT = (pts.astype(np.float64) + T).astype(np.float32)
        near = np.min(np.linalg.norm(pts[:, None, :].astype(np.float64) - pos[None, :, :].astype(np.float64), axis=2), axis=1) > 0.5
        rT = PromoleculeDensity((els, posT)).rho(ptsT)
        if near.any() and not np.allclose(rT[near], full[near], rtol=2e-2, atol=1e-9):
            return f"density changes when atoms and points are translated together by {T.tolist()}"
        wT = StockholderWeight.from_arrays(els[:k], posT[:k], els[k:], posT[k:]).weights(ptsT)
        w0 = ra / (ra + rb)
        if near.any() and not np.allclose(wT[near], w0[near], rtol=2e-2, atol=1e-6):
            return f"stockholder weights change when atoms and points are translated together by {T.tolist()}"
        for bg in (0.0, 1e-5):
            a = PromoleculeDensity((els[:k], pos[:k]))
            b = PromoleculeDensity((els[k:], pos[k:]))
            wab = StockholderWeight(a, b, background=bg).weights(pts)
            wba = StockholderWeight(b, a, background=bg).weights(pts)
            if not (np.all(wab >= 0) and np.all(wab <= 1)):
                return "stockholder weight outside [0,1]"
            if not np.allclose(wab, ra / (ra + rb + np.float32(bg)), rtol=rt):
                return "weight is not interior/(interior+exterior+background)"
            if bg == 0.0 and not np.allclose(wab + wba, 1.0, rtol=0, atol=1e-5):
                return "complementary weights do not sum to one"
        for bg in (0.0, 1e-5, 1e-2):
            # Props/C05Share.lean on the real kernel: which side of the level 1/2 a point is on is decided by the two densities (clear margins
            # only: float32), and a three-way split of the atoms gives shares that add up (weight_union)
            if bg == 0.0:
                ra_, rb_ = a.rho(pts).astype(np.float64), b.rho(pts).astype(np.float64)
                wab = StockholderWeight(a, b).weights(pts)          # no background
                clear = np.abs(ra_ - rb_) > 1e-3 * (ra_ + rb_)
                if np.any((wab[clear] > 0.5) != (ra_[clear] > rb_[clear])):
                    return "a point with the larger interior density has weight below 1/2 (or the reverse)"
                if k >= 2 and len(els) - k >= 1:
                    j = k // 2
                    A, C, B = (els[:j], pos[:j]), (els[j:k], pos[j:k]), (els[k:], pos[k:])
                    cat = lambda x, y: (np.concatenate([x[0], y[0]]), np.vstack([x[1], y[1]]))
                    w_a = StockholderWeight(PromoleculeDensity(A), PromoleculeDensity(cat(C, B))).weights(pts)
                    w_c = StockholderWeight(PromoleculeDensity(C), PromoleculeDensity(cat(A, B))).weights(pts)
                    if not np.allclose(w_a + w_c, wab, rtol=1e-4, atol=1e-5):
                        return "shares of a three-way split of the atoms do not add up: w(A+C|B) != w(A|C+B) + w(C|A+B)"
            w2 = StockholderWeight.from_arrays(els[:k], pos[:k], els[k:], pos[k:], background=bg).weights(pts)
            if not np.allclose(w2, ra / (ra + rb + np.float32(bg)), rtol=rt):
                return f"StockholderWeight.from_arrays(background={bg}) is not interior/(interior+exterior+background)"
        # one density object asked twice through the same coordinate buffer, moved in place between the calls (a grid being swept):
        # the answer is a function of the coordinates it is given now
        dens = PromoleculeDensity((els, pos))
        sw = StockholderWeight(PromoleculeDensity((els[:k], pos[:k])), PromoleculeDensity((els[k:], pos[k:])))
        buf = pts.copy()
        dens.rho(buf)
        sw.weights(buf)
        buf += np.array([0.37, -0.21, 0.13], dtype=np.float32)
        r_again, w_again = dens.rho(buf), sw.weights(buf)
        fresh = buf.copy()
        r_fresh = PromoleculeDensity((els, pos)).rho(fresh)
        w_fresh = StockholderWeight(PromoleculeDensity((els[:k], pos[:k])), PromoleculeDensity((els[k:], pos[k:]))).weights(fresh)
        if not np.array_equal(r_again, r_fresh):
            return "rho(points) on a buffer that was moved in place since the previous call is not the density at the buffer's current coordinates"
        if not np.array_equal(w_again, w_fresh):
            return "weights(points) on a buffer that was moved in place since the previous call are not the weights at the buffer's current coordinates"
        # the same coordinates held in other array layouts (a float32 (N,4) buffer's xyz columns, every second row of a longer array,
        # a Fortran-ordered array, a plain list of lists) are the same points
        buf4 = np.zeros((len(pts), 4), dtype=np.float32)
        buf4[:, :3] = pts
        long_ = np.repeat(pts.astype(np.float32), 2, axis=0)
        for name, view in (("xyz columns of a float32 (N,4) buffer", buf4[:, :3]), ("every second row of a float32 array", long_[::2]),
                           ("Fortran-ordered float64 array", np.asfortranarray(pts.astype(np.float64))), ("list of lists", pts.astype(np.float64).tolist())):
            try:
                r_v = PromoleculeDensity((els, pos)).rho(view)
                w_v = StockholderWeight(PromoleculeDensity((els[:k], pos[:k])), PromoleculeDensity((els[k:], pos[k:]))).weights(view)
            except Exception as ex:  # noqa
                return f"rho / weights on {name} raised {type(ex).__name__}: {ex}"
            if not np.allclose(r_v, full, rtol=1e-6, atol=0) or not np.allclose(w_v, ra / (ra + rb), rtol=rt, atol=1e-7):
                return f"rho / weights on {name} differ from the values for the same points as a contiguous array"
        # no points at all, and a single point: one value per point
        e0 = PromoleculeDensity((els, pos)).rho(np.zeros((0, 3), dtype=np.float32))
        e1 = PromoleculeDensity((els, pos)).rho(pts[:1])
        if np.shape(e0) != (0,) or np.shape(e1) != (1,) or not np.allclose(e1, full[:1], rtol=1e-6, atol=0):
            return f"rho of an empty point set has shape {np.shape(e0)}, of a single point {np.shape(e1)} (value {e1!r} vs {full[:1]!r})"
        # the unit option of from_arrays: 'angstrom' is the default; 'bohr' is either ignored (as the library has always done) or converts
        # bohr to Angstrom — nothing else
        w_def = StockholderWeight.from_arrays(els[:k], pos[:k], els[k:], pos[k:]).weights(pts)
        w_ang = StockholderWeight.from_arrays(els[:k], pos[:k], els[k:], pos[k:], unit="angstrom").weights(pts)
        w_bohr = StockholderWeight.from_arrays(els[:k], pos[:k], els[k:], pos[k:], unit="bohr").weights(pts)
        B2A = 0.5291772108
        w_conv = StockholderWeight.from_arrays(els[:k], pos[:k] * np.float32(B2A), els[k:], pos[k:] * np.float32(B2A)).weights(pts)
        if not np.array_equal(w_def, w_ang) or not (np.allclose(w_bohr, w_def, rtol=1e-6, atol=0) or np.allclose(w_bohr, w_conv, rtol=1e-4, atol=1e-7)):
            return "StockholderWeight.from_arrays(unit=...) gives weights that are neither those of the coordinates as given nor of the coordinates converted from bohr"
        # the background given as the third POSITIONAL argument of StockholderWeight
        wpos = StockholderWeight(PromoleculeDensity((els[:k], pos[:k])), PromoleculeDensity((els[k:], pos[k:])), 1e-2).weights(pts)
        if not np.allclose(wpos, ra / (ra + rb + np.float32(1e-2)), rtol=rt, atol=0):
            return "StockholderWeight(a, b, 0.01) (background given positionally) is not interior/(interior+exterior+background)"
        # the value at a point does not depend on how many other points are evaluated in the same call
        if seed % 4 == 0:
            rsmall = PromoleculeDensity((els[:6], pos[:6])).rho(pts)
            for nbig in (70001, 8193, 16385, 4097, 65537, 32768 + int(rng.randint(0, 3))):      # around powers of two as well
                big = np.tile(pts, (nbig // len(pts) + 1, 1))[:nbig]
                rbig = PromoleculeDensity((els[:6], pos[:6])).rho(big)
                want_big = np.tile(rsmall, nbig // len(pts) + 1)[:nbig]
                if np.shape(rbig) != (nbig,) or not np.allclose(rbig, want_big, rtol=1e-6, atol=0):
                    bad = int(np.argmax(np.abs(rbig - want_big)))
                    return f"density at a point depends on the size of the batch: point #{bad} of a {nbig}-point call gives {rbig[bad]} instead of {want_big[bad]}"
    except Exception as ex:  # noqa
        return f"raised {type(ex).__name__}: {ex}"
    return None


def search(ctx, budget):
    from chmpy.interpolate import density as D
    drift.report(ctx, ["interpolate/_density"])
    rho = np.asarray(D._RHO)
    dom = np.asarray(D._DOMAIN, dtype=np.float64)
    ctx.case({"table": list(rho.shape)})
    if not (rho.shape == (103, len(dom)) and np.all(rho > 0)):
        ctx.fail("C05:table", "interpolation table is not 103 rows of positive values", {"kind": "table"})
    if not np.allclose(np.diff(dom), dom[1] - dom[0], rtol=2e-3):
        ctx.fail("C05:table-domain", "table nodes are not uniformly spaced", {"kind": "table"})
    # every row is the density of ITS element: the number of electrons under the tabulated curve (2 pi * integral of rho(u) sqrt(u) du over the
    # table, u = r^2 in bohr^2; the unresolved core cusp costs the heavy atoms several electrons) grows by 0.37 .. 0.95 from each element
    # to the next on the shipped table — a row that is a copy of its neighbour or belongs to another element breaks the ladder
    ne = 2 * np.pi * np.trapezoid(rho.astype(np.float64) * np.sqrt(dom)[None, :], dom, axis=1)
    step = np.diff(ne)
    if not (abs(ne[0] - 1.0) < 0.05 and np.all(step > 0.25) and np.all(step < 1.2)):
        z_bad = int(np.argmax((step <= 0.25) | (step >= 1.2))) + 2
        ctx.fail("C05:table-rows", f"electron count under the tabulated density does not rise by about one from Z={z_bad - 1} to Z={z_bad} "
                 f"({ne[z_bad - 2]:.3f} -> {ne[z_bad - 1]:.3f}): a table row does not belong to its element", {"kind": "table"})
    # FIXED input (recorded finding): evaluation points thousands of Angstrom from the atoms — the density there is the tail value of the
    # table, certainly not larger than at 12 A
    from chmpy.interpolate.density import PromoleculeDensity
    ctx.case({"kind": "far-point"})
    try:
        d8 = PromoleculeDensity((np.array([8]), np.zeros((1, 3))))
        near = float(d8.rho(np.array([[12.0, 0.0, 0.0]], dtype=np.float32))[0])
        for dist in (5000.0, 7600.0, 7700.0, 1.0e6):
            far = float(d8.rho(np.array([[dist, 0.0, 0.0]], dtype=np.float32))[0])
            if not (0.0 < far <= near * (1 + 1e-6)):
                ctx.fail("C05:far-point-index-overflow", f"rho of a single O atom at a point {dist:g} A away is {far!r}; at 12 A it is {near!r} and the tabulated "
                         "atomic density decreases monotonically to its tail value", {"kind": "far-point", "distance": dist})
                break
    except Exception as ex:  # noqa
        ctx.fail("C05:far-point", f"far-point evaluation raised {type(ex).__name__}: {ex}", {"kind": "far-point"})
    n = 60 if budget == "quick" else 1200
    for i in range(n):
        seed = ctx.rng.randrange(1 << 30)
        zf = (i % 103) + 1 if budget == "thorough" else None
        ctx.case({"seed": seed}, key=str(seed))
        r = judge(seed, zf)
        if r:
            ctx.fail("C05:" + r[:40], r, {"seed": seed, "z": zf})
            if len(ctx.failures) >= 8:
                break


def replay(ctx, obj):
    i = obj["input"]
    return judge(i["seed"], i.get("z")) if "seed" in i else None
