"""C11 — symmetry-operation forms are interchangeable; equality is modulo the lattice."""
import itertools
import math
import multiprocessing as mp
from fractions import Fraction

import numpy as np

from harness.common import core
from harness.common.core import pct, rat

ID = "C11"
LEAN_TARGETS = ["ChmpyVerif.Props.C11"]
T = "ChmpyVerif.Props.C11."
THEOREMS = [T + n for n in (
    "decodeInt_encodeInt", "encodeInt_decodeInt", "encodeInt_range", "decodeStr_encodeStr_row", "decodeStr_encodeStr",
    "decode_ignores_spaces", "decode_ignores_case", "decodeRow_spellings", "closest_is_twelfth",
    "digit_mod_lattice", "eq_mod_lattice", "apply_seitz_eq_apply", "apply_seitz_direction", "apply_seitz_homogeneous", "cartesian_form_correct")]
TRUSTED = [
    "hand model Model/SymOp.lean of encode/decode_symm_int, encode/decode_symm_str (regex as explicit tokenizer, Fraction() grammar "
    "without exponents/underscores), SymmetryOperation.__init__/__eq__/__hash__/__str__ with cached codes, apply",
    "exact rationals for floats: IEEE rounding not modelled; Fraction.limit_denominator(12) modelled as the nearest twelfth "
    "(justified by theorem closest_is_twelfth for |t-k/12| < 1/288)",
    "correspondence run (codes, grammar spellings, malformed strings, offsets) and exhaustive 34,012,224-code oracle in the thorough tier",
]
RULE = ("quick: seeded random packed codes + every row spelling (27 sign patterns x 12 translations x term orders x leading '+' x case x "
        "fraction/decimal spellings x random blanks) + integer offsets +-1e-12 + malformed strings; thorough: ALL 34,012,224 codes through the "
        "real decode/encode/str/parse chain. distinct = distinct input line; non-trivial = not the identity operation")
MANIFEST = {
    "text": ("Proof. For EVERY encodable operation (3^9 x 12^3, by digit arithmetic, no enumeration) decode∘encode and encode∘decode of the packed "
             "integer are identities; the string writer followed by the reader returns the operation (324 rows kernel-checked, lifted row-wise); "
             "the reader ignores blanks and letter case (general lemmas) and accepts every term order / leading '+' / fraction-or-decimal spelling "
             "of a row (finite family, kernel-checked); operations whose translations differ by an integer plus noise below 1/24 have equal codes, "
             "hashes and strings; 3-vector, homogeneous and Cartesian application agree (matrix algebra over any commutative ring given D·D⁻¹=1). "
             "Model is hand-written and tied by a correspondence run; thorough tier enumerates all 34,012,224 codes on the real code."
             " On general homogeneous vectors the 4x4 form rotates directions (w = 0) and maps (w·x, w) to w times the image of x (apply_seitz_direction, apply_seitz_homogeneous)."),
    "note": ("Trusted: Lean kernel + standard axioms; hand model of the regex tokenizer and of Fraction(str); floats as exact rationals; "
             "limit_denominator(12) = nearest twelfth; the correspondence/oracle runs."),
    "technique": "Lean 4 proof (omega digit arithmetic, decide +kernel over row tables, list lemmas, Mathlib matrix algebra) + model/implementation correspondence",
}

XYZ = "xyz"
DEC = {1: ["0.0833", "0.08333333"], 2: ["0.1667", "0.16666667"], 3: ["0.25", ".25"], 4: ["0.3333", "0.33333333"],
       5: ["0.4167", "0.41666667"], 6: ["0.5", ".5", "0.50"], 7: ["0.5833", "0.58333333"], 8: ["0.6667", "0.66666667"],
       9: ["0.75", ".75"], 10: ["0.8333", "0.83333333"], 11: ["0.9167", "0.91666667"]}


def gen(ctx):
    pass  # hand model only


# --- reference (independent of chmpy) ---------------------------------------
def ref_decode(code):
    r, t = code % 19683, code // 19683
    rot = [(r // 3 ** (8 - k)) % 3 - 1 for k in range(9)]
    tr = [(t // 12 ** (2 - k)) % 12 for k in range(3)]
    return rot, tr


def ref_encode(rot, digs):
    r = 0
    for d in rot:
        r = r * 3 + d + 1
    t = 0
    for k in digs:
        t = t * 12 + k
    return r + t * 19683


def ref_row_str(row, k):
    v = str(Fraction(k, 12)) if k else ""
    for c, s in zip(row, XYZ):
        if c:
            v += ("-" if c < 0 else "+") + s
    return v


def ref_str(rot, digs):
    return ",".join(ref_row_str(rot[3 * i:3 * i + 3], digs[i]) for i in range(3))


# --- implementation side -------------------------------------------------------
def show_t(t):
    t = float(t)
    return f"{int(np.round(12 * t)) % 12}:{int(round(t * 1e9))}"


def show_rt(rot, tr):
    return " ".join(str(int(x)) for x in np.asarray(rot).ravel()) + " | " + " ".join(show_t(t) for t in tr)


def exc_name(e):
    n = type(e).__name__
    return "err " + (n if n in ("ValueError", "IndexError", "ZeroDivisionError") else "other:" + n)


def impl(op, arg):
    from chmpy.crystal import symmetry_operation as so
    S = so.SymmetryOperation
    try:
        if op == "int":
            rot, tr = so.decode_symm_int(arg)
            s = S.from_integer_code(arg)
            st = str(s)
            try:
                back = str(int(S.from_string_code(st).integer_code))
            except Exception as e:  # noqa
                back = exc_name(e)
            return f"{show_rt(rot, s.translation)} | {int(s.integer_code)} | {int(so.encode_symm_int(s.rotation, s.translation))} | {st} | {back}"
        if op == "str":
            rot, tr = so.decode_symm_str(arg)
            s = S(rot, tr)
            on_grid = all(abs(12 * float(t) - round(12 * float(t))) < 1e-6 for t in s.translation)
            return f"{show_rt(rot, tr)} | {int(s.integer_code)} | {s if on_grid else '~'}"
        if op == "mk":
            rot, tr = arg
            s = S(np.array(rot, dtype=float).reshape(3, 3), np.array(tr, dtype=float))
            return f"{int(s.integer_code)} | {s}"
        if op == "apply":
            rot, tr, x = arg[:3]
            w = arg[3] if len(arg) > 3 else 1.0
            s = S(np.array(rot, dtype=float).reshape(3, 3), np.array(tr, dtype=float))
            r3 = s.apply(np.array([x], dtype=float))[0]
            r4 = s.apply(np.array([list(x) + [w]], dtype=float))[0]
            sh = lambda v: " ".join(str(int(round(float(q) * 1e9))) for q in v)
            return f"{sh(r3)} | {sh(r4)}"
    except Exception as e:  # noqa
        return exc_name(e)
    raise AssertionError(op)


def line(op, arg):
    if op == "int":
        return f"int {arg}"
    if op == "str":
        return "str " + pct(arg)
    if op == "mk":
        return "mk " + " ".join(str(r) for r in arg[0]) + " " + " ".join(rat(t) for t in arg[1])
    if op == "apply":
        return ("apply " + " ".join(str(r) for r in arg[0]) + " " + " ".join(rat(t) for t in arg[1]) + " " + " ".join(rat(t) for t in arg[2])
                + ((" " + rat(arg[3])) if len(arg) > 3 else ""))


# --- generators ------------------------------------------------------------------
def spell_row(rng, row, k, style):
    """one spelling of a row from the grammar of equivalent forms"""
    terms = []
    if k:
        form = rng.choice(["frac", "frac", "dec", "neg"]) if style != "canonical" else "frac"
        if form == "frac":
            terms.append(("+", str(Fraction(k, 12))))
        elif form == "dec":
            terms.append(("+", rng.choice(DEC[k])))
        else:
            terms.append(("-", str(Fraction(12 - k, 12))))
    for c, s in zip(row, XYZ):
        if c:
            terms.append(("-" if c < 0 else "+", s))
    rng.shuffle(terms)
    out = ""
    for i, (sg, body) in enumerate(terms):
        if i == 0 and sg == "+" and rng.random() < 0.6:
            out += body
        else:
            out += sg + body
    if rng.random() < 0.3:
        out = out.upper()
    if rng.random() < 0.6:
        res = ""
        for ch in out:
            res += ch + (" " * rng.choice([0, 0, 1, 2]))
        out = (" " * rng.choice([0, 1])) + res
    return out


def random_op(rng, proper_rows=True):
    while True:
        rot = [rng.choice([-1, 0, 0, 1]) for _ in range(9)]
        if not proper_rows or all(any(rot[3 * i:3 * i + 3]) for i in range(3)):
            break
    digs = [rng.choice([0, 0, 0, 3, 4, 6, 8, 9, 2, 10, 1, 5, 7, 11]) for _ in range(3)]
    return rot, digs


def all_row_spellings():
    """(row, k, text): every term order x leading '+' x fraction/decimal/negative spelling"""
    out = []
    for row in itertools.product([-1, 0, 1], repeat=3):
        for k in range(12):
            tvars = [("-" if c < 0 else "+", s) for c, s in zip(row, XYZ) if c]
            tforms = [[]] if k == 0 else [[("+", str(Fraction(k, 12)))], [("-", str(Fraction(12 - k, 12)))]] + [[("+", d)] for d in DEC[k]]
            for tf in tforms:
                terms = tf + tvars
                for perm in set(itertools.permutations(terms)):
                    for lead in (True, False):
                        txt = ""
                        for i, (sg, body) in enumerate(perm):
                            txt += body if (i == 0 and sg == "+" and not lead) else sg + body
                        out.append((row, k, txt))
    return out


MALFORMED_ALPHABET = "xyz+-/.,0123 abXY"


def malformed(rng):
    return "".join(rng.choice(MALFORMED_ALPHABET) for _ in range(rng.randint(0, 14)))


def correspond(ctx):
    rng = ctx.rng
    cases = []
    add = lambda op, arg: cases.append((line(op, arg), impl(op, arg), [op, arg]))
    ncodes = 4000 if not ctx.thorough else 200000
    for c in [0, 16484, 34012223, 1433663] + [rng.randrange(34012224) for _ in range(ncodes)]:
        add("int", c)
    sp = all_row_spellings()
    ctx.note("row_spellings_total", len(sp))
    pick = sp if ctx.thorough else rng.sample(sp, 4000)
    for row, k, txt in pick:
        other = ["+x", "+y", "+z"]
        i = rng.randrange(3)
        other[i] = txt
        add("str", ",".join(other))
    for _ in range(1500 if not ctx.thorough else 20000):
        rot, digs = random_op(rng)
        add("str", ",".join(spell_row(rng, rot[3 * i:3 * i + 3], digs[i], "any") for i in range(3)))
    for _ in range(1500 if not ctx.thorough else 20000):
        add("str", malformed(rng))
    for s in ["", "x,y", "x,y,z,", "x,y,z,x", "x,y,z,1", "1/2/3+x,y,z", "x+1/0,y,z", "++x,y,z", "+-x,y,z", "x.,y,z", "x+.,y,z", "x+1.,y,z",
              "x\t,y,z", "x,y,z\n", "-x-y,x,z+5/6", "2x,y,z", "x1/2,y,z", "x+1/2+1/4,y,z", "x+0.25+0.25,y,z", "x+1/2+0.25,y,z", "x+0.25+1/2,y,z"]:
        add("str", s)
    for _ in range(1500 if not ctx.thorough else 20000):
        rot, digs = random_op(rng, proper_rows=False)
        tr = [k / 12 + rng.choice([0, 0, 1, -1, 2, -3, 5]) + rng.choice([0.0, 1e-12, -1e-12, 3e-13, -7e-13]) for k in digs]
        add("mk", (rot, tr))
        x = [rng.choice([0.0, 0.5, 0.25, 0.125, 0.3, 0.71, -1.2, 2.375]) for _ in range(3)]
        add("apply", (rot, [k / 12 for k in digs], x))
        add("apply", (rot, [k / 12 for k in digs], x, rng.choice([0.0, 2.0, -1.0, 0.5, 0.25])))      # general homogeneous coordinate w
    core.correspond_lines(ctx, "C11", cases)


# --- oracle on the real code -----------------------------------------------------
def check_code(code):
    """None or a description; independent reference digits"""
    from chmpy.crystal import symmetry_operation as so
    S = so.SymmetryOperation
    rot, digs = ref_decode(code)
    try:
        R, t = so.decode_symm_int(code)
        if [int(x) for x in R.ravel()] != rot or not np.array_equal(np.asarray(t), np.array(digs) / 12):
            return f"decode_symm_int({code}) = {R.ravel().tolist()}, {t.tolist()}; expected {rot}, {digs}/12"
        s = S.from_integer_code(code)
        enc = int(so.encode_symm_int(s.rotation, s.translation))
        if enc != code:
            return f"encode_symm_int(decode_symm_int({code})) = {enc}"
        st = str(s)
        if st != ref_str(rot, digs):
            return f"str(from_integer_code({code})) = {st!r}; expected {ref_str(rot, digs)!r}"
        return None
    except Exception as e:  # noqa
        return f"code {code}: raised {type(e).__name__}: {e}"


def check_code_full(code):
    from chmpy.crystal import symmetry_operation as so
    S = so.SymmetryOperation
    r = check_code(code)
    if r:
        return r
    rot, digs = ref_decode(code)
    try:
        s = S.from_integer_code(code)
        st = str(s)
        # rows with no variable cannot be told from a pure translation row by the reader: still must round-trip
        s2 = S.from_string_code(st)
        enc2 = int(so.encode_symm_int(s2.rotation, s2.translation))
        if enc2 != code:
            return f"from_string_code(str(op {code})) encodes to {enc2}"
        m = S(np.array(rot, dtype=float).reshape(3, 3), np.array(digs) / 12)
        if not (m == s and hash(m) == hash(s) and str(m) == st and int(m.integer_code) == code):
            return f"matrix form of code {code} is not equal / hashes / prints differently"
        return None
    except Exception as e:  # noqa
        return f"code {code}: raised {type(e).__name__}: {e}"


def _chunk(args):
    lo, hi, full = args
    import sys
    sys.path.insert(0, str(core.REPO / "src"))
    f = check_code_full if full else check_code
    bad = []
    for c in range(lo, hi):
        r = f(c)
        if r:
            bad.append((c, r))
            if len(bad) > 3:
                break
    return hi - lo, bad


def check_spelling(txt_rows, rot, digs):
    from chmpy.crystal import symmetry_operation as so
    S = so.SymmetryOperation
    s = ",".join(txt_rows)
    want = ref_encode(rot, digs)
    try:
        o = S.from_string_code(s)
        got = int(so.encode_symm_int(o.rotation, o.translation))
        if got != want:
            return f"from_string_code({s!r}) encodes to {got}; expected {want} ({ref_str(rot, digs)})"
        ref = S.from_integer_code(want)
        if not (o == ref and hash(o) == hash(ref)):
            return f"from_string_code({s!r}) != from_integer_code({want})"
    except Exception as e:  # noqa
        return f"from_string_code({s!r}) raised {type(e).__name__}: {e}"
    return None


def check_offset(rot, digs, offs, noise):
    from chmpy.crystal import symmetry_operation as so
    S = so.SymmetryOperation
    R = np.array(rot, dtype=float).reshape(3, 3)
    base = S(R, np.array(digs) / 12)
    tr = np.array([k / 12 + n + e for k, n, e in zip(digs, offs, noise)])
    try:
        o = S(R.copy(), tr)
        if not (o == base and hash(o) == hash(base) and str(o) == str(base) and int(o.integer_code) == ref_encode(rot, digs)):
            return (f"SymmetryOperation(R, {tr.tolist()}) is not equal to the operation with translation {[f'{k}/12' for k in digs]}: "
                    f"codes {int(o.integer_code)} vs {int(base.integer_code)}, str {str(o)!r} vs {str(base)!r}")
    except Exception as e:  # noqa
        return f"offset case raised {type(e).__name__}: {e}"
    return None


def check_apply(rng):
    """3-vector, homogeneous and Cartesian application give the same points"""
    from chmpy.crystal import symmetry_operation as so
    from chmpy.crystal.unit_cell import UnitCell
    S = so.SymmetryOperation
    rot, digs = random_op(rng)
    if rng.random() < 0.15:
        rot = [1, 0, 0, 0, 1, 0, 0, 0, 1]          # pure translations are operations too, x,y,z plus whole cells among them
        if rng.random() < 0.5:
            digs = [0, 0, 0]
    R = np.array(rot, dtype=float).reshape(3, 3)
    # operations are also built from integer arrays (a rotation part IS an integer matrix)
    how = rng.choice(["float", "float", "int", "fortran", "transposed-view", "nested-lists"])
    Rin = R if how == "float" else np.array(rot, dtype=int).reshape(3, 3)
    if how == "fortran":
        Rin = np.asfortranarray(R)                     # same matrix, column-major memory
    elif how == "transposed-view":
        Rin = np.ascontiguousarray(R.T).T              # same matrix again, as a transposed view
    s = S(Rin, np.array(digs) / 12)
    if int(s.integer_code) != ref_encode(rot, digs) or not (s == S(R.copy(), np.array(digs) / 12)):
        return f"operation {ref_str(rot, digs)} built from a rotation held as a {how} array has code {int(s.integer_code)}, expected {ref_encode(rot, digs)}", (rot, digs)
    pts = np.array([[rng.uniform(-2, 2) for _ in range(3)] for _ in range(rng.randint(1, 5))])
    a3 = s.apply(pts)
    a4 = s.apply(np.hstack([pts, np.ones((len(pts), 1))]))
    c3 = s(pts)
    if not (np.allclose(a3, a4[:, :3], rtol=0, atol=1e-12) and np.allclose(a4[:, 3], 1, rtol=0, atol=1e-12) and np.allclose(a3, c3, rtol=0, atol=1e-12)):
        return f"apply on 3-vectors and homogeneous 4-vectors differ for op {ref_str(rot, digs)}", (rot, digs)
    want = pts @ R.T + np.array(digs) / 12
    if not np.allclose(a3, want, rtol=0, atol=1e-12):
        return f"apply(x) != x·Rᵀ + t for op {ref_str(rot, digs)}", (rot, digs)
    # a second operation equal to the first modulo the lattice (whole cells added, noise far below 1/24), used AFTER the first:
    # its own 3-vector and homogeneous forms must still agree with each other
    shift = np.array([rng.choice([-2, -1, 0, 1, 3]) for _ in range(3)]) + np.array([rng.choice([0.0, -1e-12, 1e-12, 3e-5, -3e-5]) for _ in range(3)])
    s2 = S(R, np.array(digs) / 12 + shift)
    b3 = s2.apply(pts)
    b4 = s2.apply(np.hstack([pts, np.ones((len(pts), 1))]))
    if not np.allclose(b3, b4[:, :3], rtol=0, atol=1e-9):
        return (f"after using op {ref_str(rot, digs)}, an operation equal to it modulo the lattice (translation shifted by {shift.tolist()}) applies "
                f"differently to 3-vectors and to homogeneous 4-vectors (max difference {np.abs(b3 - b4[:, :3]).max():.3g})"), (rot, digs)
    uc = UnitCell.from_lengths_and_angles([rng.uniform(3, 20) for _ in range(3)], [math.radians(rng.uniform(70, 115)) for _ in range(3)])
    d, i = uc.direct, uc.inverse
    Rc = np.dot(d.T, np.dot(s.rotation, i.T)).T   # as Crystal.cartesian_symmetry_operations builds it
    tc = uc.to_cartesian(s.translation)
    cart = uc.to_cartesian(pts)
    if not np.allclose(cart @ Rc + tc, uc.to_cartesian(a3), rtol=0, atol=1e-9):
        return f"Cartesian form disagrees with fractional application for op {ref_str(rot, digs)}", (rot, digs)
    # every form of the SAME stored operation gives the same points: apply on 3-vectors, the 4x4 matrix on homogeneous vectors, the
    # Cartesian form built from rotation and translation — also for the lattice-shifted twin
    hom = np.hstack([pts, np.ones((len(pts), 1))])
    # general homogeneous coordinates (w = 0: a direction, translated by nothing; w = 2: the point x/2): apply IS multiplication by the 4x4 matrix
    gen4 = np.hstack([pts, np.array([[rng.choice([0.0, 2.0, -1.0, 0.5])] for _ in range(len(pts))])])
    g_apply = s.apply(gen4)
    g_mat = (np.asarray(s.seitz_matrix) @ gen4.T).T
    # the call operator is another spelling of apply, for 3-vectors and homogeneous vectors alike
    try:
        c4, c3b = s(gen4), s(pts)
        if not (np.allclose(c4, g_apply, rtol=0, atol=1e-12) and np.allclose(c3b, a3, rtol=0, atol=1e-12)):
            return f"operation {ref_str(rot, digs)}: op(x) differs from op.apply(x)", (rot, digs)
    except Exception as ex:  # noqa
        return f"operation {ref_str(rot, digs)}: op(x) raised {type(ex).__name__}: {ex} where op.apply(x) works", (rot, digs)
    if not np.allclose(g_apply, g_mat, rtol=0, atol=1e-9):
        return (f"operation {ref_str(rot, digs)}: apply() on homogeneous vectors with w = {gen4[:, 3].tolist()} differs from the 4x4 matrix product by "
                f"{np.abs(g_apply - g_mat).max():.3g}"), (rot, digs)
    for name, op, x3 in (("operation", s, a3), ("its lattice-shifted twin", s2, b3)):
        m4 = (np.asarray(op.seitz_matrix) @ hom.T).T
        if not np.allclose(m4[:, :3], x3, rtol=0, atol=1e-9) or not np.allclose(m4[:, 3], 1.0, rtol=0, atol=1e-12):
            return (f"{name} {ref_str(rot, digs)} (stored translation {np.asarray(op.translation).tolist()}): the 4x4 matrix on homogeneous vectors and "
                    f"apply() on 3-vectors differ by {np.abs(m4[:, :3] - x3).max():.3g}"), (rot, digs)
        Rc2 = np.dot(d.T, np.dot(op.rotation, i.T)).T
        if not np.allclose(cart @ Rc2 + uc.to_cartesian(op.translation), uc.to_cartesian(x3), rtol=0, atol=1e-8):
            return (f"{name} {ref_str(rot, digs)} (stored translation {np.asarray(op.translation).tolist()}): Cartesian form and apply() differ by "
                    f"{np.abs(cart @ Rc2 + uc.to_cartesian(op.translation) - uc.to_cartesian(x3)).max():.3g} A"), (rot, digs)
    return None, None


def check_identity_spellings(rng):
    """the identity is the identity however it was obtained: from its code, its matrix, or any spelling of x,y,z (also plus whole cells)"""
    from chmpy.crystal import symmetry_operation as so
    from chmpy.crystal.space_group import SpaceGroup
    S = so.SymmetryOperation
    for sp in ("x,y,z", "x, y, z", "X,Y,Z", "+x,+y,+z", " x ,y, z", "x+1,y,z-2", "1+x,y,z"):
        o = S.from_string_code(sp)
        if not (o == S.identity() and hash(o) == hash(S.identity()) and o.is_identity() and int(o.integer_code) == 16484):
            return f"from_string_code({sp!r}) is not recognised as the identity (is_identity() = {o.is_identity()}, code {int(o.integer_code)})"
    n = rng.choice([2, 14, 19, 62, 146, 167])
    sg = SpaceGroup(n)
    ops = [S.from_string_code("x, y, z" if int(o.integer_code) == 16484 else str(o).upper().replace(",", ", ")) for o in sg.symmetry_operations]
    sg2 = SpaceGroup.from_symmetry_operations(ops)
    try:
        first = sg2.ordered_symmetry_operations()[0]
        if not first.is_identity():
            return f"ordered_symmetry_operations() of space group {n} read from x,y,z strings does not start with the identity"
    except Exception as ex:  # noqa
        return f"ordered_symmetry_operations() of space group {n} read from x,y,z strings raised {type(ex).__name__}: {ex}"
    return None


def check_crystal_cartesian(rng):
    from chmpy.crystal import Crystal, SpaceGroup, UnitCell, AsymmetricUnit
    from chmpy.core.element import Element
    n = rng.choice([2, 14, 19, 62, 88, 148, 167, 194, 225])
    sg = SpaceGroup(n)
    if sg.lattice_type if hasattr(sg, "lattice_type") else False:
        pass
    cells = {"triclinic": lambda: UnitCell.from_lengths_and_angles([5, 6, 7], [1.4, 1.7, 1.9]),
             "monoclinic": lambda: UnitCell.monoclinic(5, 6, 7, 1.9), "orthorhombic": lambda: UnitCell.orthorhombic(5, 6, 7),
             "tetragonal": lambda: UnitCell.tetragonal(5, 7), "trigonal": lambda: UnitCell.hexagonal(5, 7), "hexagonal": lambda: UnitCell.hexagonal(5, 7),
             "rhombohedral": lambda: UnitCell.hexagonal(5, 7), "cubic": lambda: UnitCell.cubic(6)}
    uc = cells.get(sg.crystal_system, cells["triclinic"])()
    kind = sg.crystal_system
    if rng.random() < 0.5:
        # the Cartesian form of an operation is defined for ANY cell it is written in (the conversion is a change of basis), also one
        # the operation is not a metric symmetry of: rectangular cells with three different edges, oblique cells
        kind = rng.choice(["orthorhombic-5-7-11", "orthorhombic-5-7-11", "triclinic", "monoclinic"])
        uc = {"orthorhombic-5-7-11": lambda: UnitCell.orthorhombic(5, 7, 11), "triclinic": cells["triclinic"], "monoclinic": cells["monoclinic"]}[kind]()
    c = Crystal(uc, sg, AsymmetricUnit([Element[6]], np.array([[0.1, 0.2, 0.3]])))
    pts = np.array([[rng.uniform(-1, 1) for _ in range(3)] for _ in range(3)])
    for (Rc, tc), s in zip(c.cartesian_symmetry_operations(), c.symmetry_operations):
        if not np.allclose(uc.to_cartesian(pts) @ Rc + tc, uc.to_cartesian(s.apply(pts)), rtol=0, atol=1e-9):
            return f"Crystal.cartesian_symmetry_operations disagrees with fractional application (space group {n} written in a {kind} cell, op {s})"
    return None


def search(ctx, budget):
    rng = ctx.rng
    # (1) packed codes
    if budget == "thorough" and ctx.thorough:
        N, step = 34012224, 200000
        jobs = [(lo, min(lo + step, N), False) for lo in range(0, N, step)]
        with mp.Pool(16) as pool:
            done = 0
            for n, bad in pool.imap_unordered(_chunk, jobs):
                done += n
                for c, r in bad:
                    ctx.fail(f"C11:code:{c}" if len(ctx.failures) < 3 else "C11:code", r, {"kind": "code", "code": c})
        ctx.evaluations += done
        ctx.note("codes_enumerated", done)
        ctx.note("exhaustive", done == N)
        nfull = 300000
    else:
        nfull = 6000 if budget == "quick" else 60000
    for c in [0, 16484, 34012223] + [rng.randrange(34012224) for _ in range(nfull)]:
        ctx.case({"code": c}, nontrivial=c != 16484, key=f"code{c}")
        r = check_code_full(c)
        if r:
            ctx.fail(f"C11:code:{c}" if len(ctx.failures) < 3 else "C11:code", r, {"kind": "code", "code": c})
            if len(ctx.failures) > 20:
                break
    # (2) spellings
    sp = all_row_spellings()
    pick = sp if budget == "thorough" else rng.sample(sp, 3000)
    for row, k, txt in pick:
        rows = ["+x", "+y", "+z"]
        rot = [1, 0, 0, 0, 1, 0, 0, 0, 1]
        digs = [0, 0, 0]
        i = rng.randrange(3)
        if not any(row):
            continue  # a row without variables is not an operation row; covered by the code round trip
        rows[i] = txt
        rot[3 * i:3 * i + 3] = row
        digs[i] = k
        ctx.case({"spelling": ",".join(rows)})
        r = check_spelling(rows, rot, digs)
        if r:
            ctx.fail("C11:spelling:" + txt, r, {"kind": "spelling", "rows": rows, "rot": rot, "digs": digs})
    for _ in range(1500 if budget == "quick" else 30000):
        rot, digs = random_op(rng)
        rows = [spell_row(rng, rot[3 * i:3 * i + 3], digs[i], "any") for i in range(3)]
        ctx.case({"spelling": ",".join(rows)})
        r = check_spelling(rows, rot, digs)
        if r:
            ctx.fail("C11:spelling:" + ",".join(rows), r, {"kind": "spelling", "rows": rows, "rot": rot, "digs": digs})
    # (3) integer offsets +- noise
    for _ in range(3000 if budget == "quick" else 60000):
        rot, digs = random_op(rng, proper_rows=False)
        offs = [rng.choice([0, 0, 1, -1, 2, -2, 7]) for _ in range(3)]
        noise = [rng.choice([0.0, 1e-12, -1e-12, 5e-13, -5e-13, 1e-13, -1e-13]) for _ in range(3)]
        ctx.case({"offset": [rot, digs, offs, noise]})
        r = check_offset(rot, digs, offs, noise)
        if r:
            ctx.fail("C11:offset", r, {"kind": "offset", "rot": rot, "digs": digs, "offs": offs, "noise": noise})
    # (4) application
    for _ in range(300 if budget == "quick" else 5000):
        ctx.case({"apply": _}, nontrivial=True, key=f"apply{ctx.evaluations}")
        r, w = check_apply(rng)
        if r:
            ctx.fail("C11:apply", r, {"kind": "apply", "op": w})
    try:
        r = check_identity_spellings(rng)
    except Exception as e:  # noqa
        r = f"identity spellings raised {type(e).__name__}: {e}"
    if r:
        ctx.fail("C11:identity", r, {"kind": "identity"})
    for _ in range(40 if budget == "quick" else 300):
        try:
            r = check_crystal_cartesian(rng)
        except Exception as e:  # noqa
            r = f"Crystal.cartesian_symmetry_operations raised {type(e).__name__}: {e}"
        if r:
            ctx.fail("C11:cartesian", r, {"kind": "cartesian"})


def replay(ctx, obj):
    i = obj["input"]
    if i["kind"] == "code":
        return check_code_full(i["code"])
    if i["kind"] == "spelling":
        return check_spelling(i["rows"], i["rot"], i["digs"])
    if i["kind"] == "offset":
        return check_offset(i["rot"], i["digs"], i["offs"], i["noise"])
    c2 = core.Ctx(ID, "quick", ctx.seed)
    search(c2, "quick")
    return c2.failures[0]["what"] if c2.failures else None
