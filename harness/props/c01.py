"""C01 — unit-cell contents are exactly the symmetry orbit of the asymmetric unit."""
import math
from fractions import Fraction as F

import numpy as np

from harness.common import core
from harness.common.core import rat
from harness.gen import sgdata as gen_sg
from harness.gen.sgdata import dec

ID = "C01"
LEAN_TARGETS = ["ChmpyVerif.Props.C01", "ChmpyVerif.Props.C01Shift"]
T = "ChmpyVerif.Props.C01."
THEOREMS = [T + n for n in (
    "uca_frac_in_unit_interval", "uca_complete", "uca_nodup", "uca_provenance", "uca_first_image", "uca_occupancy_merge",
    "uca_total_occupancy", "uca_identity_first", "images_length", "uca_all_settings")]
# non-tabulated settings (origin moved by twelfths): the shifted operation maps the shifted site to the shifted image
THEOREMS += [T + n for n in ("applyOp_shift", "wrap_add_int", "wrap_image_lattice_shift")]
TRUSTED = [
    "hand model Model/UnitCellAtoms.lean of SpaceGroup.apply_all_symops + Crystal.unit_cell_atoms in exact rationals; merging by EQUAL wrapped "
    "positions stands for the KD-tree merge within 1e-2 (valid under the generator's separation margin, the property's own proviso)",
    "scipy cKDTree.sparse_distance_matrix: returns every pair within the tolerance, iterated in lexicographic order (assumed; exercised on high site symmetry)",
    "np.fmod(x+7,1) modelled as x - floor(x) for x > -7; floating-point rounding not modelled",
    "the group property of each operation list is C02's theorem sg_closed (imported, not re-proved)",
]
RULE = ("every one of the 530 settings each run (quick: 1 site set per setting; thorough: 20), 1-3 sites per set drawn from general rational "
        "positions (denominators <= 97) and exact special positions (coordinate patterns tested for a non-trivial stabiliser), partial occupancies; "
        "site sets rejected unless distinct images are >= 0.05 apart in fractional units. distinct = distinct (setting, sites); "
        "non-trivial = group order > 1 and at least one site with a non-trivial stabiliser")
MANIFEST = {
    "text": ("Proof. For EVERY operation list and EVERY site list (no bound): all fractional coordinates lie in [0,1); every image of every site "
             "under every operation occurs; positions occur once; each row carries the element/label/parent index of its site and the code of the "
             "FIRST operation (identity first) producing it; the occupancy of a kept row is the sum over the coincident images and the total is "
             "|G| x sum of site occupancies. Instantiated for all 530 regenerated settings (whose lists are groups by C02). Hand model tied by a "
             "correspondence run over all 530 settings each run plus an independent exact-rational orbit oracle on the real code."
             " For space groups given by explicit operations in a non-tabulated setting (origin moved): the shifted operation maps the shifted site to the shifted image (applyOp_shift), so the orbit is the shifted orbit."),
    "note": ("Trusted: Lean kernel; hand model (exact coincidence for the 1e-2 KD-tree merge, lexicographic pair order of scipy, fmod(x+7,1) as wrap); "
             "floats not modelled; correspondence + oracle sample sites per setting."),
    "technique": "Lean 4 proof (list induction over the merge/tiling model) + correspondence over all 530 settings + exact-rational orbit oracle",
}

_SYS_CELL = {
    "triclinic": lambda r: ("triclinic", (r.uniform(5, 9), r.uniform(6, 11), r.uniform(7, 13), math.radians(r.uniform(75, 105)), math.radians(r.uniform(80, 110)), math.radians(r.uniform(70, 100)))),
    "monoclinic": lambda r: ("monoclinic", (r.uniform(5, 9), r.uniform(6, 11), r.uniform(7, 13), math.pi / 2, math.radians(r.uniform(95, 125)), math.pi / 2)),
    "orthorhombic": lambda r: ("orthorhombic", (r.uniform(5, 9), r.uniform(6, 11), r.uniform(7, 13), math.pi / 2, math.pi / 2, math.pi / 2)),
    "tetragonal": lambda r: (lambda a: ("tetragonal", (a, a, r.uniform(7, 13), math.pi / 2, math.pi / 2, math.pi / 2)))(r.uniform(5, 9)),
    "hexagonal": lambda r: (lambda a: ("hexagonal", (a, a, r.uniform(7, 13), math.pi / 2, math.pi / 2, 2 * math.pi / 3)))(r.uniform(5, 9)),
    "rhombohedral": lambda r: (lambda a, al: ("rhombohedral", (a, a, a, al, al, al)))(r.uniform(5, 9), math.radians(r.uniform(50, 110))),
    "cubic": lambda r: (lambda a: ("cubic", (a, a, a, math.pi / 2, math.pi / 2, math.pi / 2)))(r.uniform(5, 9)),
}


def gen(ctx):
    gen_sg.generate()


def entries():
    from chmpy.crystal.space_group import SG_FROM_NUMBER
    return [e for v in SG_FROM_NUMBER.values() for e in v]


def make_sg(e):
    from chmpy.crystal.space_group import SpaceGroup
    sg = SpaceGroup(e.number, choice=e.choice) if e.choice else SpaceGroup(e.number)
    return sg if sg._sgdata is e else None


def cell_for(sg, rng):
    from chmpy.crystal.unit_cell import UnitCell
    lt = sg.lattice_type if sg.international_tables_number >= 143 and sg.international_tables_number <= 167 else sg.crystal_system
    if sg.crystal_system == "trigonal":
        lt = "rhombohedral" if (sg.choice == "R") else "hexagonal"
    kind, prm = _SYS_CELL[lt](rng)
    return UnitCell.from_lengths_and_angles(list(prm[:3]), list(prm[3:]))


# ---- exact reference --------------------------------------------------------------
def apply_exact(op, x):
    R, t = op
    return tuple(sum(R[3 * i + k] * x[k] for k in range(3)) + F(t[i], 12) for i in range(3))


def wrap(v):
    return tuple(c - math.floor(c) for c in v)


def ordered_codes(symops):
    codes = list(symops)
    if 16484 in codes:
        codes.remove(16484)
        codes = [16484] + codes
    return codes


def ref_unit_cell(symops, sites):
    """expected rows: first image (op-major order) of each distinct wrapped position, occupancies summed"""
    rows, index = [], {}
    for c in ordered_codes(symops):
        op = dec(c)
        for i, (z, occ, pos) in enumerate(sites):
            p = wrap(apply_exact(op, pos))
            if p in index:
                rows[index[p]]["occ"] += occ
            else:
                index[p] = len(rows)
                rows.append({"asym": i, "elem": z, "symop": c, "occ": occ, "frac": p})
    return rows


SPECIAL_VALUES = [F(0), F(1, 2), F(1, 4), F(3, 4), F(1, 3), F(2, 3), F(1, 8), F(3, 8), F(5, 8), F(7, 8), F(1, 6), F(5, 6)]


TWELFTHS_BIAS = [0.25]


def random_general(rng):
    if rng.random() < TWELFTHS_BIAS[0]:
        # coordinates on the twelfths grid in two directions: images whose coordinate is mathematically 0 come out of the float
        # arithmetic as ±1e-17, which the wrapping must still map into [0,1)
        g = lambda: F(rng.randint(0, 11), 12)
        r = F(rng.randint(1, 96), 97)
        return tuple(rng.sample([g(), g(), r], 3))
    d = rng.choice([7, 11, 13, 17, 19, 23, 29, 31, 37, 41, 43, 53, 59, 61, 67, 71, 73, 79, 83, 89, 97, 64, 128])
    p = [F(rng.randint(1, d - 1), d) for _ in range(3)]
    if rng.random() < 0.08:
        # one coordinate a few millionths of a cell edge inside a face (0.999995, 0.000003): still a general position
        p[rng.randrange(3)] = rng.choice([1 - F(rng.randint(2, 9), 10**6), F(rng.randint(2, 9), 10**6)])
    return tuple(p)


def random_special_candidate(rng):
    x, y = random_general(rng)[:2]
    if rng.random() < 0.5:
        # coordinates as files quote them, four decimals ending in 5 (0.1225, 0.6225): exactly between two 3-decimal grid values
        x = F(rng.randint(10, 989) * 10 + 5, 10000)
        y = F(rng.randint(10, 989) * 10 + 5, 10000)
    pats = [lambda: (rng.choice(SPECIAL_VALUES), rng.choice(SPECIAL_VALUES), rng.choice(SPECIAL_VALUES)),
            lambda: (x, x, x), lambda: (x, -x, F(0)), lambda: (x, 2 * x, y), lambda: (x, F(0), F(0)), lambda: (F(0), x, F(0)),
            lambda: (F(0), F(0), x), lambda: (x, x, y), lambda: (x, y, F(1, 4)), lambda: (x, F(1, 4), y), lambda: (F(1, 4), x, y),
            lambda: (x, F(1, 2) + x, y), lambda: (x, y, F(0)), lambda: (x, F(0), y), lambda: (F(0), x, y), lambda: (x, x, F(0)),
            lambda: (x, -x, y), lambda: (x, F(1, 2), F(1, 4)), lambda: (F(1, 3), F(2, 3), x), lambda: (x, x + F(1, 2), F(1, 4)),
            lambda: (F(1, 8), F(1, 8), F(1, 8)), lambda: (x, F(1, 8), F(1, 8)), lambda: (x, F(1, 4) - x, F(1, 8))]
    return wrap(rng.choice(pats)())


def separation_ok(symops, sites, margin=0.05):
    pts = {}
    for c in symops:
        op = dec(c)
        for _, _, pos in sites:
            p = wrap(apply_exact(op, pos))
            pts[p] = True
    P = np.array([[float(c) for c in p] for p in pts])
    if len(P) > 1:
        from scipy.spatial import cKDTree
        if cKDTree(P).query_pairs(margin):
            return False
        # also periodic closeness (0.999 vs 0.001) is avoided so that the expected answer is unambiguous
        if cKDTree(P, boxsize=1.0 + 1e-12).query_pairs(margin):
            return False
    # keep coordinates off the 0/1 seam unless they are exactly on it
    # coordinates a few millionths of a cell edge from a face are legal and unambiguous; only closer than 1e-7 (where the float image may
    # land on either side of the seam) is avoided
    for p in pts:
        for c in p:
            if c != 0 and (c < F(1, 10**7) or c > 1 - F(1, 10**7)):
                return False
    return True


def random_sites(rng, symops, want_special):
    ops = [dec(c) for c in symops]
    for _ in range(200):
        n = rng.choice([1, 1, 2, 2, 3]) if not want_special else rng.choice([1, 1, 1, 2, 3])
        sites, nspecial = [], 0
        for k in range(n):
            z = rng.choice([1, 6, 7, 8, 9, 14, 16, 17, 26, 29, 79])
            # exact fractions, and partial occupancies as files quote them (six decimals: three of them sum to 0.999999, not to 1)
            occ = rng.choice([F(1), F(1), F(1), F(1, 2), F(1, 4), F(3, 4), F(1, 8), F(333333, 10**6), F(166667, 10**6), F(499999, 10**6), F(250001, 10**6)])
            if want_special and k == 0:
                for _ in range(60):
                    pos = random_special_candidate(rng)
                    stab = sum(1 for op in ops if wrap(apply_exact(op, pos)) == wrap(pos))
                    if stab > 1:
                        nspecial += 1
                        break
                else:
                    pos = random_general(rng)
            else:
                pos = random_general(rng)
            sites.append((z, occ, pos))
        if rng.random() < 0.06:
            # whole-number coordinates handed over as an INTEGER array (e.g. an atom at the origin written [[0, 0, 0]])
            sites = [(rng.choice([6, 14, 29, 79]), F(1), (F(rng.randint(0, 1)), F(rng.randint(0, 1)), F(rng.randint(0, 2))))]
            return sites, 1
        if separation_ok(symops, sites):
            # asymmetric units are not confined to the reference cell (molecules straddle faces): move some sites by whole
            # lattice vectors; a quarter of the moved sites go far below -7 (the old `fmod(x + 7, 1)` wrapping left those outside [0,1), /repo 613aec5)
            # (only sites on general positions: for a site on a special position a coordinate that is mathematically 0 is computed as
            # 0 or 1-4e-16 depending on the shift, and the coincidence test of the code is not periodic — outside the stated quantifier)
            if rng.random() < 0.4:
                gen = [sum(1 for op in ops if wrap(apply_exact(op, pos)) == wrap(pos)) == 1 for (_, _, pos) in sites]
                far = rng.random() < 0.75       # True: near shifts (-2..2); False: shifts of -12..-8
                sites = [(z, occ, tuple(c + (rng.randint(-2, 2) if far else rng.randint(-12, -8)) for c in pos)) if (g and rng.random() < 0.7) else (z, occ, pos)
                         for (z, occ, pos), g in zip(sites, gen)]
            return sites, nspecial
    return None, 0


def build_crystal(e, sites, rng):
    from chmpy.core.element import Element
    from chmpy.crystal import AsymmetricUnit, Crystal
    sg = make_sg(e)
    if sg is None:
        return None
    uc = cell_for(sg, rng)
    if all(c.denominator == 1 for _, _, p in sites for c in p):
        pos = np.array([[int(c) for c in p] for _, _, p in sites], dtype=int)       # integer dtype, as a user would write it
    else:
        pos = np.array([[float(c) for c in p] for _, _, p in sites])
    asym = AsymmetricUnit([Element[z] for z, _, _ in sites], pos,
                          labels=[f"{Element[z].symbol}{i + 1}" for i, (z, _, _) in enumerate(sites)],
                          occupation=np.array([float(o) for _, o, _ in sites]))
    return Crystal(uc, sg, asym)


def impl_rows(c):
    u = c.unit_cell_atoms()
    rows = []
    for k in range(len(u["element"])):
        rows.append({"asym": int(u["asym_atom"][k]), "elem": int(u["element"][k]), "symop": int(u["symop"][k]),
                     "occ": float(u["occupation"][k]), "frac": [float(x) for x in u["frac_pos"][k]],
                     "cart": [float(x) for x in u["cart_pos"][k]], "label": str(u["label"][k])})
    return rows


def torus_far(x, y, tol):
    """positions are compared modulo the lattice: 0.9999999999999996 and 0.0 are the same coordinate"""
    d = abs(float(x) - float(y)) % 1.0
    return min(d, 1.0 - d) > tol


def rows_match(model_rows, impl, tol=1e-9):
    """None or description; rows keyed by (asym, symop) which is unique per kept image"""
    a = {(r["asym"], r["symop"]): r for r in model_rows}
    b = {(r["asym"], r["symop"]): r for r in impl}
    if len(b) != len(impl):
        return "implementation returned two rows with the same (site, generating operation)"
    if set(a) != set(b):
        return f"rows differ: only expected {sorted(set(a) - set(b))[:4]}, only returned {sorted(set(b) - set(a))[:4]} ({len(a)} vs {len(b)} rows)"
    for k in a:
        ra, rb = a[k], b[k]
        if ra["elem"] != rb["elem"]:
            return f"row {k}: element {rb['elem']} expected {ra['elem']}"
        if abs(float(ra["occ"]) - rb["occ"]) > 1e-9:
            return f"row {k}: occupancy {rb['occ']} expected {float(ra['occ'])}"
        if any(torus_far(x, y, tol) for x, y in zip(ra["frac"], rb["frac"])):
            return f"row {k}: position {rb['frac']} expected {[float(x) for x in ra['frac']]}"
    return None


def parse_model(out):
    rows = []
    for tok in out.split():
        asym, elem, label, symop, occ, frac = tok.split(":")
        rows.append({"asym": int(asym), "elem": int(elem), "symop": int(symop), "occ": F(occ), "frac": [F(x) for x in frac.split(",")]})
    return rows


def plan(ctx, per_setting):
    """(entry index, entry, sites, nspecial)"""
    ents = entries()
    out = []
    for i, e in enumerate(ents):
        if make_sg(e) is None:
            continue
        for k in range(per_setting):
            sites, nsp = random_sites(ctx.rng, e.symops, want_special=(ctx.rng.random() < 0.7))
            if sites is not None:
                out.append((i, e, sites, nsp))
        if 143 <= e.number <= 194:
            # hexagonal / rhombohedral axes: thirds and sixths in operations and coordinates cancel to ±1e-17 instead of 0
            TWELFTHS_BIAS[0] = 0.9
            try:
                for k in range(2):
                    sites, nsp = random_sites(ctx.rng, e.symops, want_special=False)
                    if sites is not None:
                        out.append((i, e, sites, nsp))
            finally:
                TWELFTHS_BIAS[0] = 0.25
    return out


def correspond(ctx):
    items = plan(ctx, 1 if not ctx.thorough else 6)
    lines = []
    for i, e, sites, _ in items:
        lines.append(f"uca {i} " + " ".join(f"{z} {rat(o)} {rat(p[0])} {rat(p[1])} {rat(p[2])}" for z, o, p in sites))
    try:
        outs = core.run_driver("C01", lines)
    except core.TieBroken as ex:
        ctx.tie_broken("driver C01", str(ex))
        return
    if len(outs) != len(lines):
        ctx.tie_broken("driver C01", f"{len(outs)} lines for {len(lines)} inputs")
        return
    for (i, e, sites, _), out in zip(items, outs):
        try:
            c = build_crystal(e, sites, ctx.rng)
            r = rows_match(parse_model(out), impl_rows(c))
        except Exception as ex:  # noqa
            r = f"raised {type(ex).__name__}: {ex}"
        if r:
            ctx.disagree("uca", {"setting": f"{e.number}:{e.choice}", "sites": [[z, str(o), [str(x) for x in p]] for z, o, p in sites]}, "model rows", r)
    ctx.count("correspondence_lines", len(lines))


def check_slab(c, lo, hi):
    """slab(bounds) is the current unit-cell atom list repeated over every cell of the block, nothing else"""
    u = c.unit_cell_atoms()
    s = c.slab(bounds=(tuple(lo), tuple(hi)))
    n = len(u["element"])
    ncell = (hi[0] - lo[0] + 1) * (hi[1] - lo[1] + 1) * (hi[2] - lo[2] + 1)
    if int(s["n_uc"]) != n or int(s["n_cells"]) != ncell or len(s["element"]) != n * ncell:
        return f"slab({lo}..{hi}) reports {s['n_uc']} unit-cell atoms x {s['n_cells']} cells = {len(s['element'])} sites; the cell has {n} atoms, the block {ncell} cells"
    cells = np.rint(np.asarray(s["cell"])).astype(int)
    seen = set()
    D = np.asarray(c.unit_cell.direct)
    key = {(int(a), int(o)): k for k, (a, o) in enumerate(zip(u["asym_atom"], u["symop"]))}
    for j in range(n * ncell):
        k = key.get((int(s["asym_atom"][j]), int(s["symop"][j])))
        if k is None:
            return f"slab({lo}..{hi}): a site (parent {int(s['asym_atom'][j])}, operation {int(s['symop'][j])}) is not in the current unit-cell atom list"
        cell = tuple(int(x) for x in cells[j])
        if not all(lo[i] <= cell[i] <= hi[i] for i in range(3)) or (k, cell) in seen:
            return f"slab({lo}..{hi}): cell {cell} outside the block or site repeated"
        seen.add((k, cell))
        if np.abs(np.asarray(s["frac_pos"][j]) - (np.asarray(u["frac_pos"][k]) + np.array(cell))).max() > 1e-12 or int(s["element"][j]) != int(u["element"][k]):
            return f"slab({lo}..{hi}): site {j} is not unit-cell atom {k} moved by {cell}"
        if np.abs(np.asarray(s["cart_pos"][j]) - np.asarray(s["frac_pos"][j]) @ D).max() > 1e-9:
            return f"slab({lo}..{hi}): cart_pos of site {j} inconsistent with its frac_pos and the cell"
    return None


def judge(e, sites, seed):
    """the statement on the real code against the exact-rational orbit; returns description or None"""
    import random
    rng = random.Random(seed)
    try:
        c = build_crystal(e, sites, rng)
        rows = impl_rows(c)
    except Exception as ex:  # noqa
        return f"unit_cell_atoms raised {type(ex).__name__}: {ex}"
    tag = f"{e.number}:{e.choice}"
    ref = ref_unit_cell(e.symops, sites)
    for r in rows:
        if not all(0 <= x < 1 for x in r["frac"]):
            return f"{tag}: fractional coordinate outside [0,1): {r['frac']}"
        want_cart = np.array(r["frac"]) @ np.asarray(c.unit_cell.direct)
        if not np.allclose(want_cart, r["cart"], rtol=0, atol=1e-9):
            return f"{tag}: cart_pos inconsistent with frac_pos and the cell"
        z, occ, pos = sites[r["asym"]] if r["asym"] < len(sites) else (None, None, None)
        if z != r["elem"]:
            return f"{tag}: row says parent site {r['asym']} but element {r['elem']}"
        if r["label"] != c.asymmetric_unit.labels[r["asym"]]:
            return f"{tag}: label {r['label']} is not the parent site's label"
        img = wrap(apply_exact(dec(r["symop"]), pos))
        if r["symop"] not in e.symops or any(torus_far(a, b, 1e-9) for a, b in zip(img, r["frac"])):
            return f"{tag}: recorded generating operation {r['symop']} does not map site {r['asym']} to {r['frac']}"
    m = rows_match(ref, rows)
    if m:
        return f"{tag}: {m}"
    tot = sum(r["occ"] for r in rows)
    want = len(e.symops) * sum(float(o) for _, o, _ in sites)
    if abs(tot - want) > 1e-9:
        return f"{tag}: total occupancy {tot} != |G| x sum(occ) = {want}"
    if seed % 3 == 0:
        try:
            lo = [-rng.randint(0, 2) for _ in range(3)]
            hi = [rng.randint(0, 2) for _ in range(3)]
            m = check_slab(c, lo, hi)
            if m:
                return f"{tag}: {m}"
            if e.number in (146, 148, 155, 160, 161, 166, 167):
                # the same block asked again after the axes were switched: it is built from the unit-cell atoms of the crystal as it is now
                c.choose_trigonal_lattice("R" if e.choice != "R" else "H")
                m = check_slab(c, lo, hi)
                if m:
                    return f"{tag}, after choose_trigonal_lattice: {m}"
        except Exception as ex:  # noqa
            return f"{tag}: slab raised {type(ex).__name__}: {ex}"
    return None


def enc(op):
    R, T = op
    r = 0
    for k in range(9):
        r = r * 3 + (R[k] + 1)
    t = 0
    for k in range(3):
        t = t * 12 + (T[k] % 12)
    return t * 19683 + r


def op_string(op):
    """x,y,z spelling of an operation, written here (not by the code under test)"""
    R, T = op
    out = []
    for i in range(3):
        terms = "".join(("+" if R[3 * i + k] > 0 else "-") + "xyz"[k] for k in range(3) if R[3 * i + k])
        if T[i] % 12:
            f = F(T[i] % 12, 12)
            terms += f"+{f.numerator}/{f.denominator}"
        out.append(terms.lstrip("+"))
    return ",".join(out)


class _Setting:
    def __init__(self, number, choice, symops):
        self.number, self.choice, self.symops = number, choice, symops


def judge_nonstandard(index, seed):
    """a crystal whose space group is given by its operations in a NON-tabulated setting (origin moved by twelfths), as a CIF declares
    it; afterwards an ordinary crystal of the tabulated setting with the same number: both are the orbit of their own operations"""
    import random
    from chmpy.crystal import Crystal
    rng = random.Random(seed)
    e = entries()[index]
    s12 = tuple(rng.randint(0, 11) for _ in range(3))
    conj = []
    for c in ordered_codes(e.symops):
        R, T = dec(c)
        conj.append((R, tuple((T[i] + s12[i] - sum(R[3 * i + k] * s12[k] for k in range(3))) % 12 for i in range(3))))
    codes = [enc(o) for o in conj]
    sites = None
    for _ in range(40):
        cand = [(rng.choice([6, 7, 8, 16]), F(1), random_general(rng)) for _ in range(rng.choice([1, 2]))]
        if separation_ok(codes, cand):
            sites = cand
            break
    if sites is None:
        return None
    sg0 = make_sg(e)
    if sg0 is None:
        return None
    uc = cell_for(sg0, rng)
    from chmpy.core.element import Element
    cif = {"atom_site_label": [f"{Element[z].symbol}{i + 1}" for i, (z, _, _) in enumerate(sites)],
           "atom_site_type_symbol": [Element[z].symbol for z, _, _ in sites],
           "atom_site_fract_x": [float(p[0]) for _, _, p in sites], "atom_site_fract_y": [float(p[1]) for _, _, p in sites],
           "atom_site_fract_z": [float(p[2]) for _, _, p in sites],
           "cell_length_a": uc.a, "cell_length_b": uc.b, "cell_length_c": uc.c,
           "cell_angle_alpha": uc.alpha_deg, "cell_angle_beta": uc.beta_deg, "cell_angle_gamma": uc.gamma_deg,
           "symmetry_equiv_pos_as_xyz": [op_string(o) for o in conj], "symmetry_Int_Tables_number": e.number,
           "symmetry_space_group_name_H-M": "nonstandard"}
    tag = f"{e.number}:{e.choice} with the origin moved by {s12}/12 (operations given explicitly, CIF style)"
    import logging
    logging.disable(logging.WARNING)
    try:
        c = Crystal.from_cif_data(cif)
        got = sorted(int(o.integer_code) for o in c.space_group.symmetry_operations)
        if got != sorted(codes):
            return f"{tag}: the crystal's space group does not hold the declared operations"
        rows = impl_rows(c)
    except Exception as ex:  # noqa
        return f"{tag}: raised {type(ex).__name__}: {ex}"
    finally:
        logging.disable(logging.NOTSET)
    # the code keeps the operations in the order they were declared (identity first here)
    order = [int(o.integer_code) for o in c.space_group.symmetry_operations]
    ref = ref_unit_cell(order, sites)
    m = rows_match(ref, rows)
    if m:
        return f"{tag}: {m}"
    # ... and now the tabulated setting of that number
    st = [(z, o, p) for z, o, p in sites]
    if separation_ok(e.symops, st):
        r = judge(e, st, seed)
        if r:
            return f"(after a crystal in a non-tabulated setting of No. {e.number} was expanded) " + r
    return None


def search(ctx, budget):
    # non-tabulated settings first (and a tabulated crystal of the same number right after each)
    nent = len(entries())
    for _ in range(24 if budget == "quick" else 400):
        i = ctx.rng.randrange(nent)
        seed = ctx.rng.randrange(1 << 30)
        e = entries()[i]
        ctx.case({"setting": f"{e.number}:{e.choice}", "nonstandard": True, "seed": seed}, nontrivial=len(e.symops) > 1)
        try:
            r = judge_nonstandard(i, seed)
        except Exception as ex:  # noqa
            r = f"{e.number}:{e.choice} non-tabulated setting: raised {type(ex).__name__}: {ex}"
        if r:
            ctx.fail(f"C01:nonstandard:{e.number}:{e.choice}", r, {"index": i, "seed": seed, "nonstandard": True})
    # hexagonal axes, in-plane coordinates on the sixths (thorough: twelfths) grid, complete: images whose coordinate is mathematically
    # 0 come out of the float arithmetic as +-1e-17 and must still be wrapped into [0,1) and merged with their coincident copies
    for i, e in enumerate(entries()):
        if not 143 <= e.number <= 194:
            continue
        sg_ = make_sg(e)
        if sg_ is None or (sg_.crystal_system == "trigonal" and e.choice == "R"):
            continue
        rcentred = len(e.symops) % 3 == 0 and e.number in (146, 148, 155, 160, 161, 166, 167)
        if budget == "quick" and not rcentred:
            continue
        den = 6 if budget == "quick" else 12
        zc = F(ctx.rng.randint(1, 96), 97)
        for a in range(den):
            for b in range(den):
                sites = [(ctx.rng.choice([6, 8, 14]), F(1), (F(a, den), F(b, den), zc if (a + b) % 2 else F(1, 3)))]
                if not separation_ok(e.symops, sites):
                    continue
                seed = ctx.rng.randrange(1 << 30)
                ctx.case({"setting": f"{e.number}:{e.choice}", "sites": [[z, str(o), [str(x) for x in p]] for z, o, p in sites]}, nontrivial=True)
                r = judge(e, sites, seed)
                if r:
                    ctx.fail(f"C01:{e.number}:{e.choice}", r, {"index": i, "sites": [[z, str(o), [str(x) for x in p]] for z, o, p in sites], "seed": seed})
        if len(ctx.failures) >= 20:
            break
    # tetragonal settings, single sites on the diagonal mirror / glide positions (x, x+1/2, z) and (x, x, z) with x quoted to four decimals
    # ending in 5: coincident images are computed along different routes (1/2 - (x + 1/2), -x + 1, ...) and agree only up to rounding
    tet = [(i, e) for i, e in enumerate(entries()) if 99 <= e.number <= 142 and make_sg(e) is not None]
    for i, e in ctx.rng.sample(tet, min(len(tet), 14 if budget == "quick" else 60)):
        for _ in range(8 if budget == "quick" else 30):
            x = F(ctx.rng.randint(10, 489) * 10 + 5, 10000)
            zc = F(ctx.rng.randint(1, 96), 97)
            for pos in ((x, x + F(1, 2), zc), (x, x, zc)):
                sites = [(ctx.rng.choice([6, 8, 14]), ctx.rng.choice([F(1), F(1, 2)]), pos)]
                if not separation_ok(e.symops, sites):
                    continue
                seed = ctx.rng.randrange(1 << 30)
                ctx.case({"setting": f"{e.number}:{e.choice}", "sites": [[z, str(o), [str(x_) for x_ in p]] for z, o, p in sites]}, nontrivial=True)
                r = judge(e, sites, seed)
                if r:
                    ctx.fail(f"C01:{e.number}:{e.choice}", r, {"index": i, "sites": [[z, str(o), [str(x_) for x_ in p]] for z, o, p in sites], "seed": seed})
        if len(ctx.failures) >= 20:
            break
    items = plan(ctx, 1 if budget == "quick" else 20)
    nsp = 0
    for i, e, sites, k in items:
        nsp += 1 if k else 0
        seed = ctx.rng.randrange(1 << 30)
        ctx.case({"setting": f"{e.number}:{e.choice}", "sites": [[z, str(o), [str(x) for x in p]] for z, o, p in sites]},
                 nontrivial=len(e.symops) > 1 and k > 0)
        r = judge(e, sites, seed)
        if r:
            ctx.fail(f"C01:{e.number}:{e.choice}", r, {"index": i, "sites": [[z, str(o), [str(x) for x in p]] for z, o, p in sites], "seed": seed})
            if len(ctx.failures) >= 20:
                break
    ctx.note("site_sets_with_special_position", nsp)
    ctx.note("site_sets", len(items))


def replay(ctx, obj):
    i = obj["input"]
    if i.get("nonstandard"):
        return judge_nonstandard(i["index"], i["seed"])
    e = entries()[i["index"]]
    sites = [(z, F(o), tuple(F(x) for x in p)) for z, o, p in i["sites"]]
    return judge(e, sites, i["seed"])
