"""C03 — periodic neighbourhood queries return exactly the atoms within the radius."""
import math

import numpy as np

from harness.common import core
from harness.common.core import rat

ID = "C03"
LEAN_TARGETS = ["ChmpyVerif.Props.C03", "ChmpyVerif.Props.C03Box"]
T = "ChmpyVerif.Props.C03."
THEOREMS = [T + n for n in ("cauchy3", "ball_in_frac_box", "cell_index_bounds", "ball_cell_in_bounds", "one_over_len_le_star",
                            "sortAbs_perm", "cells_mem_iff", "cells_nodup", "slab_enumerates_once", "atoms_in_radius_exact")]
# several centres (molecule, atom group, all sites): the accumulated block is sufficient; omitting an extreme layer cannot be right
THEOREMS += [T + n for n in ("union_box_sufficient", "foldl_min_le", "le_foldl_max", "accumulated_box_sufficient", "box_necessary_lo", "box_necessary_hi")]
TRUSTED = [
    "hand model Model/Slab.lean: cell enumeration, row layout (exact, over ℤ; the theorems are about these very definitions); the box from the radius "
    "and the distance filter are executed in Float by the driver and mirrored over ℝ in the theorem statements",
    "scipy cKDTree.query_ball_point returns exactly the points with distance <= r; tree.query returns the nearest point",
    "IEEE rounding not modelled: generated radii keep every image at least 1e-6 away from the sphere",
    "the reciprocal lengths a_star.. used for the box equal the column norms of the inverse matrix (C12 theorem star_lengths)",
]
RULE = ("seeded crystals over all seven lattice systems incl. rhombohedral alpha in [60,118] deg and triclinic angles up to 130 deg, several space groups, "
        "radii 1..25 A, centres inside and up to 3 cells outside; each query compared with a brute-force periodic search over a cube of cells sized from "
        "the reciprocal lattice; distinct = distinct (cell, radius, centre); non-trivial = at least one cell angle further than 10 deg from 90 deg")
MANIFEST = {
    "text": ("Proof. Over ℝ for ANY invertible lattice: an image within Cartesian distance r of the centre has every cell index within "
             "[floor(f - r|a*|), ceil(f + r|a*|)] (Cauchy-Schwarz + floor/ceil), and 1/|a| <= |a*| (why the original r/|a| box lost atoms on oblique cells). "
             "Over ℤ for the model's own slab: the cells of the box are visited exactly once in any |h|-ordering, every (atom, cell) pair is one row, and "
             "filtering by distance returns exactly the images within the radius, without duplicates, whenever the box covers them. Hand model tied by "
             "correspondence (cells, boxes, returned rows) and a brute-force periodic oracle on the real code for all four query kinds."
             " For queries about several centre atoms (molecule, atom group, all sites) the accumulated block is sufficient (accumulated_box_sufficient) and no block that omits an extreme layer can be right (box_necessary_lo/hi); the block the real code passes to slab() is checked against exactly that."),
    "note": ("Trusted: Lean kernel + Mathlib; the Float part of the model is mirrored, not shared, with the ℝ statements; KD-tree semantics; a_star = |a*| (C12); "
             "margin of 1e-6 around the sphere."),
    "technique": "Lean 4 proof (real geometry + list combinatorics over the model's definitions) + correspondence + brute-force periodic oracle",
}


def gen(ctx):
    pass


def random_cell(rng):
    from chmpy.crystal.unit_cell import UnitCell
    kind = rng.choice(["triclinic", "triclinic", "rhombohedral", "rhombohedral", "monoclinic", "hexagonal", "orthorhombic", "cubic", "tetragonal"])
    L = lambda: rng.uniform(4.0, 14.0)
    if kind == "triclinic":
        while True:
            al, be, ga = (math.radians(rng.uniform(50, 130)) for _ in range(3))
            co = rng.choice(["none", "none", "al=ga", "al=be", "be=ga"])      # equal angles that do not make the cell monoclinic
            if co == "al=ga":
                ga = al
            elif co == "al=be":
                be = al
            elif co == "be=ga":
                ga = be
            ca, cb, cg = math.cos(al), math.cos(be), math.cos(ga)
            if 1 - ca * ca - cb * cb - cg * cg + 2 * ca * cb * cg > 0.08:
                break
        return kind, UnitCell.from_lengths_and_angles([L(), L(), L()], [al, be, ga])
    if kind == "rhombohedral":
        a = L()
        al = math.radians(rng.uniform(60, 118))
        return kind, UnitCell.from_lengths_and_angles([a, a, a], [al, al, al])
    if kind == "monoclinic":
        return kind, UnitCell.monoclinic(L(), L(), L(), math.radians(rng.uniform(91, 130)))
    if kind == "hexagonal":
        return kind, UnitCell.hexagonal(L(), L())
    if kind == "orthorhombic":
        return kind, UnitCell.orthorhombic(L(), L(), L())
    if kind == "tetragonal":
        return kind, UnitCell.tetragonal(L(), L())
    return kind, UnitCell.cubic(L())


SG_FOR = {"triclinic": [1, 2], "rhombohedral": [(146, "R"), (148, "R"), 1], "monoclinic": [4, 14, 15, 1], "hexagonal": [143, 168, 173, 1],
          "orthorhombic": [19, 33, 62, 1], "tetragonal": [76, 88, 1], "cubic": [198, 205, 1]}


def random_crystal(rng, molecular=False):
    from chmpy.core.element import Element
    from chmpy.crystal import AsymmetricUnit, Crystal, SpaceGroup
    for _ in range(50):
        kind, uc = random_cell(rng)
        sgc = rng.choice(SG_FOR[kind])
        sg = SpaceGroup(*sgc) if isinstance(sgc, tuple) else SpaceGroup(sgc)
        if molecular:
            # one or two independent molecules (water, iodomethane: a heavy atom far from the centroid), sometimes a lone argon atom
            TEMPLATES = {
                "water": ([8, 1, 1], [[0, 0, 0], [0.757, 0.586, 0.0], [-0.757, 0.586, 0.0]]),
                "iodomethane": ([53, 6, 1, 1, 1], [[2.14, 0, 0], [0, 0, 0], [-0.36, 1.03, 0.0], [-0.36, -0.51, 0.89], [-0.36, -0.51, -0.89]]),
            }
            names = [rng.choice(["water", "water", "iodomethane"]) for _ in range(rng.choice([1, 2, 2]))]
            carts, els = [], []
            for nm in names:
                z, xyz = TEMPLATES[nm]
                o = np.array([rng.uniform(0.1, 0.9) for _ in range(3)]) @ np.asarray(uc.direct)
                carts.append(o + np.array(xyz) @ _rot(rng))
                els += [Element[k] for k in z]
            if rng.random() < 0.25:
                carts.append((np.array([rng.uniform(0.1, 0.9) for _ in range(3)]) @ np.asarray(uc.direct))[None, :])
                els.append(Element[18])
                names = names + ["argon"]
            cart = np.vstack(carts)
            if len(names) > 1 and rng.random() < 0.5:
                # the atoms of the molecules are LISTED interleaved (as after sorting a file by element or label): the k-th atom of the
                # first unique molecule is then not the k-th site of the asymmetric unit
                perm = list(range(len(els)))
                rng.shuffle(perm)
                els = [els[i_] for i_ in perm]
                cart = cart[perm]
            c = Crystal(uc, sg, AsymmetricUnit(els, uc.to_fractional(cart)))
            try:
                mols = c.symmetry_unique_molecules()
                sizes = sorted(len(m) for m in mols)
                want = sorted({"water": 3, "iodomethane": 5, "argon": 1}[nm] for nm in names)
                if sizes == want and len(c.unit_cell_molecules()) == len(names) * len(sg.symmetry_operations):
                    return kind, c
            except Exception:  # noqa
                continue
        else:
            n = rng.randint(1, 4)
            pos = np.array([[rng.uniform(0.02, 0.98) for _ in range(3)] for _ in range(n)])
            els = [Element[rng.choice([1, 6, 7, 8, 16])] for _ in range(n)]
            kw = {}
            extra = rng.random()
            if extra < 0.15:
                # an atom on the origin / a face centre whose zero coordinates carry round-off (as after Cartesian -> fractional)
                sp = np.array([rng.choice([0.0, 0.5]) for _ in range(3)])
                sp = np.where(sp == 0.0, np.array([rng.choice([-3.4e-17, 5.6e-17, -1.1e-16, 0.0]) for _ in range(3)]), sp)
                pos = np.vstack([pos, sp[None, :]])
                els = els + [Element[26]]
            elif extra < 0.3:
                # one site shared by two species (mixed occupancy 0.6 / 0.4)
                pos = np.vstack([pos, pos[-1:]])
                els = els + [Element[12 if els[-1].atomic_number != 12 else 26]]
                kw["occupation"] = np.array([1.0] * (len(els) - 2) + [0.6, 0.4])
            c = Crystal(uc, sg, AsymmetricUnit(els, pos, **kw))
            # the orbit computed here, independently: distinct images modulo the lattice (coincident within 1e-6 = the same site)
            from scipy.spatial import cKDTree
            imgs = np.vstack([np.asarray(pos, dtype=float) @ np.asarray(o.rotation, dtype=float).T + np.asarray(o.translation, dtype=float) for o in sg.symmetry_operations])
            imgs = np.mod(np.round(np.mod(imgs, 1.0), 9), 1.0)
            tree = cKDTree(imgs, boxsize=1.0 + 1e-9)
            same = tree.query_pairs(1e-6)
            drop = {j for (_, j) in same}
            uniq = np.array([p_ for k_, p_ in enumerate(imgs) if k_ not in drop])
            if len(uniq) > 1 and cKDTree(uniq, boxsize=1.0 + 1e-9).query_pairs(0.03):
                continue          # distinct sites closer than the merge tolerance: the expected answer would be ambiguous
            c._c03_orbit_size = len(uniq)
            return kind, c
    return None, None


def _rot(rng):
    q = np.array([rng.gauss(0, 1) for _ in range(4)])
    q /= np.linalg.norm(q)
    a, b, c, d = q
    return np.array([[a * a + b * b - c * c - d * d, 2 * (b * c - a * d), 2 * (b * d + a * c)],
                     [2 * (b * c + a * d), a * a - b * b + c * c - d * d, 2 * (c * d - a * b)],
                     [2 * (b * d - a * c), 2 * (c * d + a * b), a * a - b * b - c * c + d * d]])


# ---- brute force reference ----------------------------------------------------------
def brute(c, centres_cart, radius):
    """all (uc_atom, cell) whose distance to the nearest centre is <= radius, with that distance"""
    uc = c.unit_cell
    D = np.asarray(uc.direct, dtype=float)
    I = np.linalg.inv(D)
    star = np.linalg.norm(I, axis=0)
    u = c.unit_cell_atoms()
    F = np.asarray(u["frac_pos"], dtype=float)
    fc = np.asarray(centres_cart) @ I
    lo = np.floor(fc.min(axis=0) - radius * star).astype(int) - 1
    hi = np.ceil(fc.max(axis=0) + radius * star).astype(int) + 1
    hs, ks, ls = (np.arange(lo[i], hi[i] + 1) for i in range(3))
    cells = np.array(np.meshgrid(hs, ks, ls, indexing="ij")).reshape(3, -1).T
    out = {}
    mind = np.inf
    for a in range(len(F)):
        P = (F[a] + cells) @ D
        d = np.min(np.linalg.norm(P[:, None, :] - np.asarray(centres_cart)[None, :, :], axis=2), axis=1)
        near = np.abs(d - radius)
        mind = min(mind, near.min())
        for j in np.where(d <= radius)[0]:
            out[(a, tuple(int(x) for x in cells[j]))] = float(d[j])
    return out, mind, star


def key_of(c, pos_cart, I, F):
    """(uc_atom, cell) of a returned Cartesian position"""
    f = np.asarray(pos_cart) @ I
    for a in range(len(F)):
        d = f - F[a]
        n = np.round(d)
        if np.all(np.abs(d - n) < 1e-6):
            return (a, tuple(int(x) for x in n))
    return None


def check_air(c, radius, origin_cart):
    ref, margin, star = brute(c, [origin_cart], radius)
    if margin < 1e-6:
        return "skip"
    uc = c.unit_cell
    want = radius * star
    got = radius * np.array([uc.a_star, uc.b_star, uc.c_star])
    r = c.atoms_in_radius(radius, origin=tuple(origin_cart))
    u = c.unit_cell_atoms()
    rows = list(zip((int(x) for x in r["uc_atom"]), (tuple(int(y) for y in cell) for cell in r["cell"])))
    if len(set(rows)) != len(rows):
        return "atoms_in_radius returned a duplicated atom"
    if set(rows) != set(ref):
        miss = sorted(set(ref) - set(rows))[:3]
        extra = sorted(set(rows) - set(ref))[:3]
        return f"atoms_in_radius({radius:.4f}) returned {len(rows)} atoms, {len(ref)} periodic images lie within the radius (missing e.g. {miss}, extra {extra})"
    for k, (a, cell) in enumerate(rows):
        if int(r["element"][k]) != int(u["element"][a]) or int(r["asym_atom"][k]) != int(u["asym_atom"][a]):
            return "atoms_in_radius: element / parent site of a returned atom is not that of its unit-cell atom"
        p = (np.asarray(u["frac_pos"][a]) + np.array(cell)) @ np.asarray(uc.direct)
        if not np.allclose(p, r["cart_pos"][k], rtol=0, atol=1e-8) or abs(np.linalg.norm(p - origin_cart) - ref[(a, cell)]) > 1e-8:
            return "atoms_in_radius: returned position is not that periodic image"
    return None


def check_surroundings(c, radius):
    uc = c.unit_cell
    D = np.asarray(uc.direct, dtype=float)
    I = np.linalg.inv(D)
    u = c.unit_cell_atoms()
    F = np.asarray(u["frac_pos"], dtype=float)
    res = c.atomic_surroundings(radius=radius)
    cart_asym = c.to_cartesian(c.asymmetric_unit.positions)
    if len(res) != len(cart_asym):
        return "atomic_surroundings: one entry per asymmetric-unit atom expected"
    for i, s in enumerate(res):
        ref, margin, _ = brute(c, [cart_asym[i]], radius)
        if margin < 1e-6:
            return "skip"
        ref = {k: d for k, d in ref.items() if d > 1e-3}
        nb = s["neighbours"]
        keys = [key_of(c, p, I, F) for p in nb["cart_pos"]]
        if None in keys:
            return f"atomic_surroundings: site {i}: a reported position is not a periodic image of a unit-cell atom"
        if len(set(keys)) != len(keys):
            return f"atomic_surroundings: site {i}: duplicated neighbour"
        if set(keys) != set(ref):
            return (f"atomic_surroundings(radius={radius:.4f}): site {i} has {len(ref)} periodic images within the radius (centre excluded), "
                    f"{len(keys)} reported; missing e.g. {sorted(set(ref) - set(keys))[:3]}")
        for k, key in enumerate(keys):
            a = key[0]
            if int(nb["element"][k]) != int(u["element"][a]) or int(nb["asym_atom"][k]) != int(u["asym_atom"][a]) or abs(float(nb["distance"][k]) - ref[key]) > 1e-8:
                return f"atomic_surroundings: site {i}: element / parent / distance of a neighbour is wrong"
    return None


def check_environment(c, radius, group=None):
    uc = c.unit_cell
    D = np.asarray(uc.direct, dtype=float)
    I = np.linalg.inv(D)
    u = c.unit_cell_atoms()
    F = np.asarray(u["frac_pos"], dtype=float)
    mols = c.symmetry_unique_molecules()
    if group is None and len(mols) > 1:
        # every independent molecule, in both orders (an answer must not depend on which molecule was asked about before)
        for order in (range(len(mols)), reversed(range(len(mols)))):
            for k in order:
                r = check_environment_of(c, mols[k], radius, D, I, u, F, f"molecule_environment(molecule {k})")
                if r:
                    return r
        # all at once, and again with a smaller radius on the same crystal object
        for rad in (radius, 0.6 * radius):
            envs = c.molecule_environments(radius=rad)
            for k, (m, e_, p_) in enumerate(envs):
                r = compare_environment(c, np.asarray(m.positions), e_, p_, rad, I, u, F, f"molecule_environments()[{k}]")
                if r:
                    return r
        return None
    mol = mols[0]
    if group is not None:
        group = [g for g in group if g < len(mol)] or [0]
    if group is None:
        centres = np.asarray(mol.positions)
        m2, els, pos = c.molecule_environment(mol, radius=radius)
        name = "molecule_environment"
    else:
        centres = np.asarray(mol.positions)[group]
        (cel, cpos), (els, pos) = c.atom_group_surroundings(group, radius=radius)
        name = f"atom_group_surroundings({group})"
        if not np.allclose(cpos, centres, rtol=0, atol=1e-9) or list(cel) != [int(mol.atomic_numbers[g]) for g in group]:
            return name + ": central atoms are not the requested atoms"
    ref, margin, _ = brute(c, centres, radius)
    if margin < 1e-6:
        return "skip"
    central = {key_of(c, p, I, F) for p in centres}
    ref = {k: d for k, d in ref.items() if k not in central}
    keys = [key_of(c, p, I, F) for p in pos]
    if None in keys:
        return name + ": a reported position is not a periodic image of a unit-cell atom"
    if len(set(keys)) != len(keys):
        return name + ": duplicated atom"
    if set(keys) != set(ref):
        own = [k for k in keys if k in central]
        return (f"{name}(radius={radius:.4f}): {len(ref)} periodic images lie within the radius of the centre atoms (own atoms excluded), {len(keys)} reported"
                + (f"; {len(own)} of the centre's own atoms included" if own else f"; missing e.g. {sorted(set(ref) - set(keys))[:3]}"))
    for k, key in enumerate(keys):
        if int(els[k]) != int(u["element"][key[0]]):
            return name + ": element of a reported atom is wrong"
    return None


def compare_environment(c, centres, els, pos, radius, I, u, F, name):
    ref, margin, _ = brute(c, centres, radius)
    if margin < 1e-6:
        return None
    central = {key_of(c, p, I, F) for p in centres}
    ref = {k: d for k, d in ref.items() if k not in central}
    keys = [key_of(c, p, I, F) for p in pos]
    if None in keys:
        return name + ": a reported position is not a periodic image of a unit-cell atom"
    if len(set(keys)) != len(keys):
        return name + ": duplicated atom"
    if set(keys) != set(ref):
        return (f"{name}(radius={radius:.4f}): {len(ref)} periodic images lie within the radius of the centre atoms (own atoms excluded), "
                f"{len(keys)} reported; missing e.g. {sorted(set(ref) - set(keys))[:3]}")
    for k, key in enumerate(keys):
        if int(els[k]) != int(u["element"][key[0]]):
            return name + ": element of a reported atom is wrong"
    return None


def check_environment_of(c, mol, radius, D, I, u, F, name):
    m2, els, pos = c.molecule_environment(mol, radius=radius)
    return compare_environment(c, np.asarray(mol.positions), els, pos, radius, I, u, F, name)


# ---- correspondence --------------------------------------------------------------------
def scan_search_boxes(ctx):
    """source-level tie: every list of reciprocal lengths in crystal.py is [a*, b*, c*] in that order, and each of the periodic
    queries still sizes its box from such a list (the geometric theorem `ball_in_slab` is about exactly this box)"""
    import ast
    src = (core.SRC / "crystal" / "crystal.py").read_text()
    tree = ast.parse(src)
    cls = next(n for n in tree.body if isinstance(n, ast.ClassDef) and n.name == "Crystal")
    have = {}
    for fn in cls.body:
        if not isinstance(fn, ast.FunctionDef):
            continue
        for n in ast.walk(fn):
            if isinstance(n, (ast.List, ast.Tuple)) and n.elts and all(isinstance(e, ast.Attribute) and e.attr.endswith("_star") for e in n.elts):
                names = [e.attr for e in n.elts]
                have.setdefault(fn.name, []).append(names)
                if names != ["a_star", "b_star", "c_star"]:
                    ctx.tie_broken("search box", f"Crystal.{fn.name} builds its cell search box from {names}, not [a_star, b_star, c_star]")
    for name in ("atoms_in_radius", "atomic_surroundings", "atom_group_surroundings", "molecule_environment"):
        if name not in have:
            ctx.tie_broken("search box", f"Crystal.{name} no longer sizes its search box from the reciprocal lengths [a*, b*, c*]")
    ctx.note("search_box_sites", {k: len(v) for k, v in have.items()})


def correspond(ctx):
    import chmpy.crystal.crystal as cc
    scan_search_boxes(ctx)
    rng = ctx.rng
    cases = []
    for _ in range(60 if not ctx.thorough else 600):
        lo = [rng.randint(-4, 1) for _ in range(3)]
        hi = [l + rng.randint(0, 4) for l in lo]
        cells = cc.cartesian_product(*[np.arange(l, h + 1)[np.argsort(np.abs(np.arange(l, h + 1)))] for l, h in zip(lo, hi)])
        impl = " ".join(sorted(",".join(str(int(x)) for x in c) for c in cells))
        cases.append(("cells " + " ".join(map(str, lo + hi)), impl, ["cells", lo, hi]))
    try:
        outs = core.run_driver("C03", [c[0] for c in cases])
        for (line, impl, inp), m in zip(cases, outs):
            if " ".join(sorted(m.split())) != impl:
                ctx.disagree("cells", inp, m[:200], impl[:200])
    except core.TieBroken as ex:
        ctx.tie_broken("driver C03", str(ex))
        return
    n = len(cases)
    # whole queries: record the bounds the real code passes to slab()
    lines, expect = [], []
    for _ in range(40 if not ctx.thorough else 500):
        kind, c = random_crystal(rng)
        if c is None:
            continue
        uc = c.unit_cell
        radius = rng.uniform(1.0, 14.0 if not ctx.thorough else 25.0)
        fo = np.array([rng.uniform(-3, 4) if rng.random() < 0.3 else rng.uniform(0, 1) for _ in range(3)])
        o = fo @ np.asarray(uc.direct)
        ref, margin, _ = brute(c, [o], radius)
        if margin < 1e-6:
            continue
        rec = {}
        orig = cc.Crystal.slab

        def spy(self, bounds=((-1, -1, -1), (1, 1, 1))):
            rec["bounds"] = bounds
            return orig(self, bounds=bounds)
        cc.Crystal.slab = spy
        try:
            r = c.atoms_in_radius(radius, origin=tuple(o))
        finally:
            cc.Crystal.slab = orig
        (a0, a1, a2), (b0, b1, b2) = rec["bounds"]
        fr = radius * np.array([uc.a_star, uc.b_star, uc.c_star])
        fo_impl = uc.to_fractional(o)
        u = c.unit_cell_atoms()
        rows = sorted((int(a), tuple(int(y) for y in cell)) for a, cell in zip(r["uc_atom"], r["cell"]))
        impl = f"{int(a0)},{int(a1)},{int(a2)} {int(b0)},{int(b1)},{int(b2)} | " + " ".join(f"{a}:{h},{k},{l}" for a, (h, k, l) in rows)
        nums = [radius, *o, *fo_impl, *fr, *np.asarray(uc.direct, dtype=float).ravel(), *np.asarray(u["frac_pos"], dtype=float).ravel()]
        lines.append("air " + " ".join(rat(float(x)) for x in nums))
        expect.append((impl, {"kind": kind, "radius": radius, "origin": o.tolist()}))
    try:
        outs = core.run_driver("C03", lines)
    except core.TieBroken as ex:
        ctx.tie_broken("driver C03", str(ex))
        return
    for (impl, inp), m in zip(expect, outs):
        mb, _, mr = m.partition(" | ")
        ib, _, ir = impl.partition(" | ")
        if mb.strip() != ib.strip() or sorted(mr.split()) != sorted(ir.split()):
            ctx.disagree("atoms_in_radius", inp, m[:200], impl[:200])
    # the molecule / atom-group / per-site queries: the block of cells they hand to slab() must reach every cell layer that a ball of
    # the given radius about one of the centre atoms reaches (hypothesis of `ball_in_slab`, per axis: lower <= floor(min(f - r s)),
    # upper >= floor(max(f + r s)) with s = (|a*|, |b*|, |c*|) from the inverse cell matrix)
    nb = 0
    for _ in range(120 if not ctx.thorough else 1200):
        kind, c = random_crystal(rng, molecular=True)
        if c is None:
            continue
        radius = rng.uniform(2.0, 12.0)
        D = np.asarray(c.unit_cell.direct, dtype=float)
        star = np.linalg.norm(np.linalg.inv(D), axis=0)
        # the box is sized with the cell's own reciprocal lengths: they must be the column norms of the inverse cell matrix (the
        # hypothesis under which `ball_in_frac_box` applies; C12 proves it for the formulas, here it is checked on the object in use)
        own = np.array([c.unit_cell.a_star, c.unit_cell.b_star, c.unit_cell.c_star], dtype=float)
        if np.abs(own - star).max() > 1e-9 * star.max():
            ctx.disagree("search box", {"kind": kind, "cell": np.round(c.unit_cell.lengths, 4).tolist() + np.round(np.degrees(c.unit_cell.angles), 3).tolist()},
                         f"|a*|,|b*|,|c*| = {star.tolist()} (column norms of the inverse cell matrix)", f"a_star, b_star, c_star = {own.tolist()}")
        rec = []
        orig = cc.Crystal.slab

        def spy2(self, bounds=((-1, -1, -1), (1, 1, 1))):
            rec.append(bounds)
            return orig(self, bounds=bounds)
        mols = c.symmetry_unique_molecules()
        queries = [("molecule_environment", lambda m=m: c.molecule_environment(m, radius=radius), np.asarray(m.positions)) for m in mols]
        g = sorted(rng.sample(range(len(mols[0])), min(len(mols[0]), rng.randint(1, 2))))
        queries.append((f"atom_group_surroundings({g})", lambda: c.atom_group_surroundings(g, radius=radius), np.asarray(mols[0].positions)[g]))
        queries.append(("atomic_surroundings", lambda: c.atomic_surroundings(radius=radius), c.to_cartesian(c.asymmetric_unit.positions)))
        for name, call, centres in queries:
            del rec[:]
            cc.Crystal.slab = spy2
            try:
                call()
            except Exception:  # noqa   (reported by the oracle)
                continue
            finally:
                cc.Crystal.slab = orig
            if not rec:
                ctx.tie_broken("search box", f"Crystal.{name} no longer builds its neighbourhood from slab()")
                continue
            fc = centres @ np.linalg.inv(D)
            need_lo = np.floor((fc - radius * star).min(axis=0) + 1e-9).astype(int)
            need_hi = np.floor((fc + radius * star).max(axis=0) - 1e-9).astype(int)
            lo = np.min([np.asarray(b[0], dtype=float) for b in rec], axis=0)
            hi = np.max([np.asarray(b[1], dtype=float) for b in rec], axis=0)
            nb += 1
            if np.any(lo > need_lo) or np.any(hi < need_hi):
                ctx.disagree("search box", {"query": name, "kind": kind, "radius": radius, "centres": np.round(fc, 4).tolist()},
                             f"cells {need_lo.tolist()}..{need_hi.tolist()} are reached by a ball of the radius about a centre atom",
                             f"slab bounds {lo.astype(int).tolist()}..{hi.astype(int).tolist()}")
    ctx.count("correspondence_lines", n + len(lines) + nb)


def judge_exact(seed):
    """atoms exactly ON the cut-off: cubic P1 cells whose edge is a power of two, atoms on quarter positions, radius a whole number of
    edges, so every distance and the comparison with the radius are exact in binary floating point; the expected set comes from
    integer arithmetic (distance^2 <= radius^2 in units of a/4). "Within the radius" includes the boundary."""
    import random
    from chmpy.core.element import Element
    from chmpy.crystal import AsymmetricUnit, Crystal, SpaceGroup
    from chmpy.crystal.unit_cell import UnitCell
    rng = random.Random(seed)
    a = rng.choice([2.0, 4.0, 8.0])
    n = rng.choice([1, 1, 2, 3])
    sites = set()
    while len(sites) < n:
        sites.add(tuple(rng.randrange(4) for _ in range(3)))
    sites = sorted(sites)
    els = [Element[rng.choice([6, 7, 8, 18])] for _ in sites]
    c = Crystal(UnitCell.cubic(a), SpaceGroup(1), AsymmetricUnit(els, np.array(sites, dtype=float) / 4.0))
    k = rng.choice([1, 1, 2, 3] if a > 2 else [1, 2, 3, 5])
    radius = k * a
    u = c.unit_cell_atoms()
    Fq = np.rint(np.asarray(u["frac_pos"]) * 4).astype(int)          # quarter units
    if len(Fq) != len(sites) or sorted(map(tuple, Fq)) != sites:
        return "exact", f"unit_cell_atoms of the P1 test crystal are not its {len(sites)} sites"
    R2 = (4 * k) ** 2
    rngc = range(-k - 1, k + 2)

    def expected(centre_q, exclude_self):
        out = set()
        for ai, f in enumerate(Fq):
            for h in rngc:
                for kk in rngc:
                    for l in rngc:
                        d = f + 4 * np.array([h, kk, l]) - centre_q
                        d2 = int(d @ d)
                        if d2 <= R2 and not (exclude_self and d2 == 0):
                            out.add((ai, (h, kk, l)))
        return out
    try:
        oq = np.array(rng.choice([sites[0], tuple(rng.randrange(-4, 8) for _ in range(3))]))
        r = c.atoms_in_radius(radius, origin=tuple(oq / 4.0 * a))
        rows = {(int(x), tuple(int(y) for y in cell)) for x, cell in zip(r["uc_atom"], r["cell"])}
        want = expected(oq, False)
        if rows != want or len(r["uc_atom"]) != len(want):
            on = sum(1 for (ai, cell) in want - rows)
            return "exact", (f"cubic a={a}, sites/4={sites}: atoms_in_radius({radius}, origin={tuple(oq / 4.0 * a)}) returned {len(r['uc_atom'])} atoms, "
                             f"{len(want)} periodic images lie within the radius ({on} missing, {len(rows - want)} extra; atoms at exactly the radius count as within)")
        res = c.atomic_surroundings(radius=radius)
        D = np.asarray(c.unit_cell.direct)
        I = np.linalg.inv(D)
        F = np.asarray(u["frac_pos"], dtype=float)
        for i, sres in enumerate(res):
            want = expected(np.array(sites[i]), True)
            keys = [key_of(c, pp, I, F) for pp in sres["neighbours"]["cart_pos"]]
            if None in keys or len(set(keys)) != len(keys) or set(keys) != want:
                return "exact", (f"cubic a={a}, sites/4={sites}: atomic_surroundings(radius={radius}) site {i}: {len(keys)} neighbours reported, "
                                 f"{len(want)} periodic images lie within the radius (atoms at exactly the radius count as within)")
    except Exception as ex:  # noqa
        return "exact", f"exact-boundary query raised {type(ex).__name__}: {ex}"
    return "exact", None


def judge_big(seed):
    """a query whose slab holds tens of thousands of sites (many atoms per cell, radius of a few cell edges): same statement"""
    import random
    from chmpy.core.element import Element
    from chmpy.crystal import AsymmetricUnit, Crystal, SpaceGroup, UnitCell
    rng = random.Random(seed)
    uc = UnitCell.from_lengths_and_angles([7.0, 8.0, 9.0], [math.radians(rng.uniform(80, 100)) for _ in range(3)])
    n = 70
    pts = []
    while len(pts) < n:
        p_ = [rng.uniform(0, 1) for _ in range(3)]
        if all(np.linalg.norm((np.array(p_) - np.array(q) + 0.5) % 1.0 - 0.5) > 0.09 for q in pts):
            pts.append(p_)
    els = [Element[rng.choice([1, 6, 7, 8, 16, 17])] for _ in range(n)]
    c = Crystal(uc, SpaceGroup(2), AsymmetricUnit(els, np.array(pts)))
    radius = rng.uniform(17.0, 19.0)
    o = np.array([rng.uniform(0, 1) for _ in range(3)]) @ np.asarray(uc.direct)
    r = check_air(c, radius, o)
    return "big:triclinic", (None if r == "skip" else r), True


def judge(seed):
    import random
    rng = random.Random(seed)
    which = rng.choice(["air", "air", "surround", "env", "env", "group", "exact"])
    if which == "exact":
        tag, r = judge_exact(seed)
        return "exact:cubic", r, True
    kind, c = random_crystal(rng, molecular=which in ("env", "group"))
    if c is None:
        return None, None, True
    ang = np.degrees(c.unit_cell.angles)
    nontrivial = bool(np.any(np.abs(ang - 90) > 10))
    n_orbit = getattr(c, "_c03_orbit_size", None)
    if n_orbit is not None and len(c.unit_cell_atoms()["element"]) != n_orbit:
        return which + ":" + kind, (f"the cell holds {n_orbit} distinct sites (orbit of the asymmetric unit modulo the lattice) but {len(c.unit_cell_atoms()['element'])} "
                                    "unit-cell atoms are used for every neighbourhood query: an atom is reported twice / missing in every periodic image"), nontrivial
    # a crystal whose atoms were moved in place (X-H bond lengths normalised) after it had already answered a query is still a crystal
    history = which in ("env", "group") and rng.random() < 0.35
    for _ in range(6):
        radius = rng.choice([rng.uniform(1.0, 6.0), rng.uniform(6.0, 14.0), 12.0, rng.uniform(14, 25)]) if which in ("air", "surround") else rng.choice([rng.uniform(2.0, 9.0), rng.uniform(9.0, 14.0)])
        try:
            if history:
                uc_ = c.unit_cell
                small = 0.9 / max(uc_.a_star, uc_.b_star, uc_.c_star)      # the 3x3x3 block of cells around the origin
                if which == "env":
                    check_environment(c, radius)
                c.atomic_surroundings(radius=min(radius, 6.0))
                c.atoms_in_radius(small)
                c.atoms_in_radius(radius)
                c.normalize_hydrogen_bondlengths()
                kind = kind + "+moved"
                history = False
                # the same questions again, the most recent one first
                for rr, oo in ((radius, np.zeros(3)), (small, np.zeros(3))):
                    r = check_air(c, rr, oo)
                    if r and r != "skip":
                        return which + ":" + kind, "after normalize_hydrogen_bondlengths: " + r, nontrivial
                r = check_surroundings(c, min(radius, 6.0))
                if r and r != "skip":
                    return which + ":" + kind, "after normalize_hydrogen_bondlengths: " + r, nontrivial
            if which == "air":
                fo = np.array([rng.uniform(-3, 4) if rng.random() < 0.3 else rng.uniform(0, 1) for _ in range(3)])
                r = check_air(c, radius, fo @ np.asarray(c.unit_cell.direct))
            elif which == "surround":
                r = check_surroundings(c, min(radius, 13.0))
            elif which == "env":
                r = check_environment(c, radius)
            else:
                g = sorted(rng.sample(range(3), rng.randint(1, 2)))
                r = check_environment(c, radius, group=g)
        except Exception as ex:  # noqa
            r = f"{which} query raised {type(ex).__name__}: {ex}"
        if r != "skip":
            return which + ":" + kind, r, nontrivial
    return which + ":" + kind, None, nontrivial


def search(ctx, budget):
    for _ in range(1 if budget == "quick" else 6):
        seed = ctx.rng.randrange(1 << 30)
        try:
            tag, r, nontrivial = judge_big(seed)
        except Exception as ex:  # noqa
            tag, r, nontrivial = "big:triclinic", f"big slab query raised {type(ex).__name__}: {ex}", True
        ctx.case({"seed": seed, "case": tag}, nontrivial=True, key="big" + str(seed))
        if r:
            ctx.fail("C03:big", r, {"seed": seed, "case": tag, "big": True})
    n = 240 if budget == "quick" else 2500
    for _ in range(n):
        seed = ctx.rng.randrange(1 << 30)
        tag, r, nontrivial = judge(seed)
        ctx.case({"seed": seed, "case": tag}, nontrivial=nontrivial, key=str(seed))
        if r:
            ctx.fail(f"C03:{tag.split(':')[0] if tag else 'x'}", r, {"seed": seed, "case": tag})
            if len(ctx.failures) >= 8:
                break


def replay(ctx, obj):
    if obj["input"].get("big"):
        return judge_big(obj["input"]["seed"])[1]
    return judge(obj["input"]["seed"])[1]
