"""C20 — quasi-random sequences: deterministic, in the unit cube, evenly stratified."""
import numpy as np

from harness.common import core
from harness.gen import sobol as gen_sobol
from harness.pyx import drift

ID = "C20"
LEAN_TARGETS = ["ChmpyVerif.Props.C20", "ChmpyVerif.Props.C20Strat", "ChmpyVerif.Props.C20Net", "ChmpyVerif.Props.C20Shape"]
T = "ChmpyVerif.Props.C20."
THEOREMS = [T + n for n in ("buildV_prefix", "batch_eq_single", "sobol_in_unit", "table_premise", "dirnum_lowbit",
                            "front_end_dispatch", "kgf_in_unit", "kgf_batch_eq_single",
                            "xSeq_second_half", "stratified_of_triangular", "stratified_onto", "sobol_coordinate_stratified",
                            "maskBlock_spec", "net_check", "sobol_net")]
# shapes: a window yields stop+1-start rows of D coordinates; the batch IS the list of single points
THEOREMS += [T + n for n in ("sobolBatch_length", "sobolBatch_row_length", "sobol_length", "sobolBatch_eq_map_single", "kgfBatch_length", "kgf_length",
                             "kgfBatch_eq_map_single")]
TRUSTED = [
    "translator harness/gen/sobol.py (rows 0..1001 of _sobol_parameters.npz -> Gen/Sobol*.lean)",
    "hand model Model/Sobol.lean of _sobol.pyx on naturals mod 2^32 (the two L<=s / else branches merged into one incremental rule; "
    "L = exact ceil(log2 N) instead of the floating-point expression); tied by exact integer correspondence",
    "the prebuilt _sobol/_lds extensions are faithful compilations of the .pyx reconstructed from their .c (drift guard; no Cython in this sandbox)",
    "Korobov generator: floating-point pow/%; only the structure (same expression per element, fractional part) is modelled",
]
RULE = ("exact integer comparison of pts*2^32: quick = all D<=64 and D=1000 at seeds 1..256, 200 seeded windows; thorough = all D=1..1000 x first 4096 "
        "points (stratification for every m<=12 and the (0,m,2)-net of coordinates 0,1 enumerated completely) and 5000 windows [s,s+k], s<=1e6, k<=256. "
        "distinct = distinct (seed or window, dimension); non-trivial = seed > 1")
MANIFEST = {
    "text": ("Proof. The direction-number table is REGENERATED from the .npz each run. Proved for every seed, range and dimension: the direction "
             "numbers built for a longer sequence extend those for a shorter one, hence batch = single point by point; every coordinate numerator "
             "is < 2^32 (coordinates in [0,1)); every table row used for D <= 1000 satisfies the Joe-Kuo premise (m_i odd, < 2^i; kernel-checked "
             "over the whole table) which gives each direction number its lowest set bit at 32-i; the front end dispatches to single/batch with "
             "seeds [seed, seed+d1-1]. ONE-DIMENSIONAL STRATIFICATION IS PROVED: for any triangular direction numbers and every k, the first 2^k points "
             "fall into pairwise different sub-intervals of width 2^-k and hit every one of them (from the ruler structure of the index sequence and "
             "xor/bit lemmas), instantiated for every tabulated coordinate and k <= 12. THE (0,m,2)-NET PROPERTY of the first two coordinates is proved for every m <= 12 and every split a+b=m "
             "(the property's whole range): the kernel evaluates a mask of the elementary boxes hit, by a divide-and-conquer recursion justified by "
             "the proved block structure X[2^k+r] = X[2^k] xor X[r], and a bit-mask lemma turns 'all 2^m boxes hit by 2^m points' into 'exactly one "
             "each'. Both are also enumerated on the real code in the thorough tier."
             " A window yields exactly stop+1-start rows of D coordinates and the batch IS the list of single points (sobolBatch_eq_map_single, kgfBatch_eq_map_single)."),
    "note": ("Trusted: Lean kernel; .npz translator; hand model (branch merge, exact L); compiled extension = its .pyx (drift guard); Korobov floats. "
             "All clauses of the statement have theorems; the tie to the compiled generator is the exact integer correspondence."),
    "technique": "Lean 4 proof (list/bit lemmas + decide +kernel over the regenerated table) + exact integer correspondence + complete enumeration oracle",
}


def gen(ctx):
    gen_sobol.generate()


def ints(a):
    v = np.asarray(a, dtype=np.float64) * 4294967296.0
    r = np.round(v)
    if not np.array_equal(v, r):
        raise ValueError("coordinate is not a multiple of 2^-32")
    return [int(x) for x in r.ravel()]


def correspond(ctx):
    from chmpy.sampling import quasirandom, quasirandom_sobol, quasirandom_sobol_batch
    rng = ctx.rng
    cases = []

    def add(line, f):
        try:
            out = f()
        except Exception as ex:  # noqa
            out = "err " + type(ex).__name__
        cases.append((line, out, line))
    seeds = list(range(1, 40)) + [63, 64, 65, 127, 128, 129, 255, 256, 257, 1023, 1024, 1025, 4095, 4096, 4097] + [rng.randint(1, 20000) for _ in range(10)]
    for n in seeds:
        for d in ([1, 2, 3, 7, 21, 64] if not ctx.thorough else [1, 2, 3, 5, 8, 13, 21, 40, 64, 100, 333, 1000]):
            if n * d > 2_000_000:
                continue
            add(f"sobol {n} {d}", lambda n=n, d=d: " ".join(map(str, ints(quasirandom_sobol(n, d)))))
    for n in [1, 2, 3, 4, 100, 256, 257]:
        add(f"sobol {n} 1000", lambda n=n: " ".join(map(str, ints(quasirandom_sobol(n, 1000)))))
    for _ in range(30 if not ctx.thorough else 400):
        s = rng.randint(1, 3000)
        k = rng.randint(0, 12)
        d = rng.choice([1, 2, 3, 6, 17])
        add(f"batch {s} {s + k} {d}", lambda s=s, k=k, d=d: " | ".join(" ".join(map(str, ints(r))) for r in quasirandom_sobol_batch(s, s + k, d)))
    # front end: observe which generator is reached by comparing results
    for _ in range(20):
        d1, d2, seed = rng.randint(1, 6), rng.choice([-1, 1, 2, 5]), rng.randint(1, 50)

        def fe(d1=d1, d2=d2, seed=seed):
            r = quasirandom(d1, None if d2 < 0 else d2, method="sobol", seed=seed)
            if d2 < 0:
                assert np.array_equal(r, quasirandom_sobol(seed, d1))
                return f"single {seed} {d1}"
            assert np.array_equal(r, quasirandom_sobol_batch(seed, seed + d1 - 1, d2))
            return f"batch {seed} {seed + d1 - 1} {d2}"
        add(f"front {d1} {d2} {seed}", fe)
    core.correspond_lines(ctx, "C20", cases)


# ---------------------------------------------------------------------------
def search(ctx, budget):
    from chmpy.sampling import (quasirandom, quasirandom_kgf, quasirandom_kgf_batch, quasirandom_sobol,
                                quasirandom_sobol_batch)
    drift.report(ctx, ["sampling/_sobol", "sampling/_lds"])
    rng = ctx.rng
    full = budget == "thorough"
    # (1) stratification of every coordinate and the (0,m,2)-net of the first two
    dims = 1000 if full else 64
    mmax = 12 if full else 9
    npts = 2 ** mmax
    P = quasirandom_sobol_batch(1, npts, dims)
    ctx.case({"stratification": [dims, mmax]})
    if not (np.all(P >= 0) and np.all(P < 1)):
        ctx.fail("C20:range", "Sobol coordinate outside [0,1)", {"kind": "range"})
    for m in range(0, mmax + 1):
        n = 2 ** m
        cells = np.floor(P[:n] * n).astype(np.int64)
        srt = np.sort(cells, axis=0)
        badd = np.where(np.any(srt != np.arange(n)[:, None], axis=0))[0]
        if len(badd):
            ctx.fail(f"C20:stratification:m={m}:dim={int(badd[0])}", f"first 2^{m} points do not hit each of the 2^{m} sub-intervals once in coordinate {int(badd[0])}",
                     {"kind": "strat", "m": m, "dim": int(badd[0])})
            break
        if dims >= 2:
            for a in range(0, m + 1):
                b = m - a
                ia = np.floor(P[:n, 0] * 2 ** a).astype(np.int64)
                ib = np.floor(P[:n, 1] * 2 ** b).astype(np.int64)
                if len(set(zip(ia.tolist(), ib.tolist()))) != n:
                    ctx.fail(f"C20:net:m={m}:a={a}", f"first 2^{m} points are not a (0,{m},2)-net in coordinates 0,1 (boxes 2^-{a} x 2^-{b})", {"kind": "net", "m": m, "a": a})
                    break
    if full:
        ctx.note("exhaustive", True)
    # (2) batch = single on windows, determinism
    nwin = 120 if not full else 5000
    ROUND = [2 ** p_ for p_ in range(8, 20)] + [m_ * 10 ** p_ for p_ in range(2, 6) for m_ in (1, 2, 5)] + [10 ** 6 - 300]
    for iw in range(nwin):
        s = rng.randint(1, 10**6) if rng.random() < 0.5 else rng.randint(1, 5000)
        k = rng.choice([rng.randint(0, 256 if full else 24), rng.randint(0, 24), 256])
        d = rng.choice([1, 2, 3, 5, 11, 64, 200]) if rng.random() < 0.9 else 1000
        if s > 20000 and (d > 11 or k > 8):
            d, k = min(d, 5), min(k, 8)
        if iw < 2 * len(ROUND) or rng.random() < 0.2:
            # windows that straddle a round seed number (powers of two and 1-2-5 x powers of ten: natural sizes for tables and blocks):
            # each of them once in a low and once in a higher dimension, then at random
            R = ROUND[iw % len(ROUND)] if iw < 2 * len(ROUND) else rng.choice(ROUND)
            if iw < 2 * len(ROUND):
                d = rng.choice([1, 2, 3, 5]) if iw < len(ROUND) else rng.choice([9, 11, 16, 40])
            k = min(max(k, 2), 8)
            s = max(1, R - rng.randint(0, k - 1))          # s <= R < s + k
        ctx.case({"window": [s, s + k, d]}, nontrivial=s > 1)
        B = quasirandom_sobol_batch(s, s + k, d)
        B2 = quasirandom_sobol_batch(s, s + k, d)
        if np.shape(B) != (k + 1, d):
            ctx.fail("C20:sobol-shape", f"quasirandom_sobol_batch({s},{s + k},{d}) has shape {np.shape(B)}, expected {(k + 1, d)}", {"kind": "window", "s": s, "k": k, "d": d})
            continue
        if not np.array_equal(B, B2):
            ctx.fail("C20:determinism", f"two calls of quasirandom_sobol_batch({s},{s + k},{d}) differ", {"kind": "window", "s": s, "k": k, "d": d})
        if not (np.all(B >= 0) and np.all(B < 1)):
            ctx.fail("C20:range", f"coordinate outside [0,1) in batch({s},{s + k},{d})", {"kind": "window", "s": s, "k": k, "d": d})
        picks = [0, k] if (k > 1 and s > 20000) else range(k + 1)
        for i in picks:
            S = quasirandom_sobol(s + i, d)
            if not np.array_equal(S, B[i]):
                ctx.fail("C20:batch-vs-single:sobol", f"quasirandom_sobol({s + i},{d}) != row {i} of quasirandom_sobol_batch({s},{s + k},{d})",
                         {"kind": "window", "s": s, "k": k, "d": d})
                break
        # results belong to the caller: scribbling over them must not change what the generators return next
        keepB, keepS = B.copy(), np.array(quasirandom_sobol(s, d), copy=True)
        S0 = quasirandom_sobol(s, d)
        S0 *= 2.0
        B *= -1.0
        f1 = quasirandom(d, method="sobol", seed=s)
        keepf = np.array(f1, copy=True)
        f1 -= 5.0
        if not (np.array_equal(quasirandom_sobol(s, d), keepS) and np.array_equal(quasirandom_sobol_batch(s, s + k, d), keepB)
                and np.array_equal(quasirandom(d, method="sobol", seed=s), keepf) and np.array_equal(keepf, keepS)):
            ctx.fail("C20:determinism", f"Sobol generators for seed {s}, dimension {d} return other values after a previously returned array was modified in place",
                     {"kind": "window", "s": s, "k": k, "d": d})
        B = keepB
        try:
            F = quasirandom(k + 1, d, method="sobol", seed=s)
        except BaseException as ex:  # noqa  (a wrong seed window can ask for an absurd allocation)
            F = f"raised {type(ex).__name__}"
        if isinstance(F, str) or not np.array_equal(F, B):
            ctx.fail("C20:frontend", f"quasirandom({k + 1},{d},seed={s}) != the {k + 1} points of seeds {s}..{s + k}"
                     + (f" ({F})" if isinstance(F, str) else f" (shape {np.shape(F)})"), {"kind": "window", "s": s, "k": k, "d": d})
    # (2b) the front end's defaults are constants (method 'sobol', seed 1), whatever was asked for before — and seed 0 is a seed
    d = rng.choice([2, 3, 5])
    ctx.case({"frontend-defaults": d})
    try:
        quasirandom(4, d, method="kgf", seed=1000)
        quasirandom(d, method="kgf", seed=77)
        if not (np.array_equal(quasirandom(6, d), quasirandom_sobol_batch(1, 6, d)) and np.array_equal(quasirandom(d), quasirandom_sobol(1, d))
                and np.array_equal(quasirandom(6, d, seed=40), quasirandom_sobol_batch(40, 45, d))
                and np.array_equal(quasirandom(6, d, method="kgf"), quasirandom_kgf_batch(1, 6, d))):
            ctx.fail("C20:frontend-defaults", f"quasirandom(6, {d}) / quasirandom({d}) without method= and seed= are not the Sobol points of seeds 1.. after calls "
                     "that named method='kgf' and other seeds", {"kind": "defaults", "d": d})
        z1, z2 = quasirandom(d, method="kgf", seed=0), quasirandom(5, d, method="kgf", seed=0)
        if not (np.array_equal(z1, quasirandom_kgf(0, d)) and np.array_equal(z2, quasirandom_kgf_batch(0, 4, d)) and np.array_equal(z2[1], quasirandom_kgf(1, d))):
            ctx.fail("C20:frontend-kgf", f"quasirandom(..., method='kgf', seed=0) is not the Korobov point(s) of seed 0.. in dimension {d}", {"kind": "kgf0", "d": d})
    except BaseException as ex:  # noqa
        ctx.fail("C20:frontend-defaults", f"front-end default/seed-0 calls raised {type(ex).__name__}: {ex}", {"kind": "defaults", "d": d})
    # (3) Korobov
    for ik in range(150 if not full else 3000):
        s = rng.randint(1, 10**6) if ik % 10 else rng.randint(0, 3)
        k = rng.choice([rng.randint(0, 64), rng.randint(0, 64), 255, 256, 128])     # up to the edge of the stated range (k <= 256)
        d = rng.randint(1, 64)
        ctx.case({"kgf": [s, s + k, d]})
        B = quasirandom_kgf_batch(s, s + k, d)
        if np.shape(B) != (k + 1, d):
            ctx.fail("C20:kgf-shape", f"quasirandom_kgf_batch({s},{s + k},{d}) has shape {np.shape(B)}, expected {(k + 1, d)}", {"kind": "kgf", "s": s, "k": k, "d": d})
            continue
        if not (np.all(B >= 0) and np.all(B < 1)):
            ctx.fail("C20:kgf-range", f"Korobov coordinate outside [0,1) in batch({s},{s + k},{d})", {"kind": "kgf", "s": s, "k": k, "d": d})
        for i in {0, k, rng.randint(0, k)}:
            if not np.array_equal(quasirandom_kgf(s + i, d), B[i]):
                ctx.fail("C20:batch-vs-single:kgf", f"quasirandom_kgf({s + i},{d}) != row {i} of quasirandom_kgf_batch({s},{s + k},{d})", {"kind": "kgf", "s": s, "k": k, "d": d})
                break
        g1 = quasirandom(d, method="kgf", seed=s)
        keepg = np.array(g1, copy=True)
        g1 *= 3.0
        if not np.array_equal(quasirandom(d, method="kgf", seed=s), keepg):
            ctx.fail("C20:determinism", f"quasirandom({d}, method='kgf', seed={s}) returns other values after its previous result was modified in place", {"kind": "kgf", "s": s, "k": k, "d": d})
        try:
            okf = np.array_equal(quasirandom(k + 1, d, method="kgf", seed=s), B) and np.array_equal(quasirandom(d, method="kgf", seed=s), quasirandom_kgf(s, d))
        except BaseException:  # noqa
            okf = False
        if not okf:
            ctx.fail("C20:frontend-kgf", f"quasirandom front end disagrees with the kgf generators for seed {s}", {"kind": "kgf", "s": s, "k": k, "d": d})


def replay(ctx, obj):
    c2 = core.Ctx(ID, "quick", obj.get("seed", 0))
    search(c2, "quick")
    return c2.failures[0]["what"] if c2.failures else None
