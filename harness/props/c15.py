"""C15 — CIF text written by the library parses back to the same data."""
from fractions import Fraction as F

import numpy as np

from harness.common import core
from harness.common.core import pct, rat, unpct

ID = "C15"
LEAN_TARGETS = ["ChmpyVerif.Props.C15", "ChmpyVerif.Props.C15Line", "ChmpyVerif.Props.C15Row", "ChmpyVerif.Props.C15Float"]
T = "ChmpyVerif.Props.C15."
THEOREMS = [T + n for n in ("matchNumber_int", "parse_value_int", "parse_value_quoted", "parse_value_plain", "needsQuote_iff",
                            "tokens_single_quoted", "wellformed_example",
                            "splitWs_head", "scalar_line", "scalar_line_int", "scalar_line_quoted",
                            "go_fuel2", "tokens_pad", "tokens_word", "tokens_quoted", "row_tokens", "fmtInt_field")]
# loop rows with fixed-point numbers (atom-site loops): the written number is a well-formed field, the row is cut into its fields, the
# token reads back as the 12-decimal rounding of the value
THEOREMS += ["ChmpyVerif.Props.C15." + n for n in ("empty_string_quoted", "fmtFixed_field", "fixedCore_reads_back", "fixedCore_error", "atom_site_row_tokens", "alnum_isWord", "atom_site_row_tokens_alnum")]
TRUSTED = [
    "hand model Model/Cif.lean of parse_value / NUM_ERR_REGEX / parse_quote / VALUES_REGEX / format_field / Cif.to_string / Cif.parse "
    "(line-driven state machine; multi-line ';' text fields not modelled); tied by whole-document correspondence incl. a malformed stream",
    "Python str(float) (shortest round-tripping repr) is not modelled: scalar floats carry the text Python printed; float(text) = exact decimal reading",
    "IEEE negative zero is not a rational: the correspondence feeds +0.0 to model and code; -0.0 is covered by the round-trip oracle only",
    "the whole-document round trip parse(print d) = d is NOT proved in Lean (value-, field- and token-level theorems are); it is checked by the oracle",
]
RULE = ("documents from a grammar: 1-4 blocks, 0-12 items, scalars and loops of 0-6 columns x 0-8 rows (3 % of the loops 96-130 columns wide), ints, floats (integral floats, 1e±k magnitudes, "
        "negative, tiny), strings with single and multiple embedded blanks; plus a malformed stream (mutated lines, stray quotes); "
        "distinct = distinct document text; non-trivial = at least one loop with >= 2 columns and one string with blanks or one integral float")
MANIFEST = {
    "text": ("Proof (partial). Proved for ALL inputs at the value/token level: the decimal text of every integer parses back to that integer as an int, "
             "quoted strings (any content without quote characters, any embedded blanks) lose only their quotes, plain words parse to themselves, "
             "needs_quote is exactly 'has a blank and no quote character', a quoted field is ONE row token whatever blanks it holds; at the LINE level: a written scalar line `_name value` is read back by "
             "parse_data_name as that name with that value and the parser advances one line (any blank-free name; integer, quoted or any value text "
             "whose value-level parse is known); a written loop ROW (fields joined by single blanks, numbers right-aligned, strings plain or quoted) is "
             "cut by the row tokenizer into exactly its fields (row_tokens, with the tokenizer's fuel proved irrelevant); a concrete "
             "two-block document (scalars, integral float, strings with double blanks, a loop, an empty block) is parsed back by kernel evaluation. "
             "Float type preservation (2.0 stays float) and `n(u)` are covered by correspondence/oracle, not yet by theorems. The assembly of lines into loops and blocks (grouping, transposition, the loop state machine) is NOT proved, so neither is the whole-document theorem parse(print d) = d; whole documents are tied by "
             "correspondence (model vs implementation on generated and malformed texts) and a round-trip oracle."
             " Loop numbers written 20.12f are well-formed fields (fmtFixed_field), an atom-site row tokenises into its fields (atom_site_row_tokens) and the empty string is written as '' (empty_string_quoted)."),
    "note": ("Trusted: Lean kernel; hand model of the regexes and of the parser state machine; str(float)/float(str) of CPython; "
             "document-level round trip by oracle only."),
    "technique": "Lean 4 proof (value, line and row level; decimal round-trip lemmas) + whole-document correspondence incl. malformed stream + round-trip oracle",
}

WORDS = ["abc", "x-1", "P21/c", "C6H6", "a_b", "alpha", "Mo", "note", "?", ".", "n/a", "x,y,z", "1-x", "+x", "v1.2b", "A1", "O1W", "12a", "e5", "-y,x-y,z+1/3"]
RESERVED_PREFIX = ("_", "#", ";", "data_", "loop_", "'", '"')


def gen(ctx):
    pass


def rand_string(rng, blanks):
    if rng.random() < 0.04:
        return ""                         # the empty string is a string (written '')
    k = rng.randint(1, 3) if blanks else 1
    if blanks and rng.random() < 0.06:
        k = rng.randint(14, 40)          # a long free-text value (80-250 characters), ';' and '#' among its later words
    parts = [rng.choice(WORDS)] + [rng.choice(WORDS + ["#3", "#", "a#b", "_x", "loop_", "data_y", ";"]) for _ in range(k - 1)]
    s = parts[0]
    for p in parts[1:]:
        s += " " * rng.choice([1, 1, 2, 3]) + p
    if rng.random() < 0.05:
        s = s + " " * rng.choice([1, 2])          # a blank at the end is part of the string (it is written quoted)
    return s


def rand_float(rng):
    k = rng.random()
    if k < 0.25:
        return float(rng.randint(-20, 20))            # integral floats
    if k < 0.5:
        return round(rng.uniform(-100, 100), rng.choice([1, 2, 4, 6]))
    if k < 0.7:
        return rng.uniform(-1, 1) * 10.0 ** rng.randint(-9, 6)
    if k < 0.8:
        return rng.choice([0.0, 1e-5, -1.23e-5, 1e16, 123456789.125, 0.5, -0.25, 1e-12, 2.5e-13])
    return rng.uniform(-1e4, 1e4)


def rand_value(rng, kind):
    if kind == "int":
        # also integers that a double cannot hold exactly (they still fit the 20-character field)
        return rng.choice([0, 1, -1, 7, 42, -300, 10**6, rng.randint(-10**9, 10**9), rng.randint(-10**9, 10**9), 2**53 + 1, -(2**53) - 1, 10**17 + 3, rng.randint(2**53, 10**18) | 1])
    if kind == "float":
        return rand_float(rng)
    return rand_string(rng, blanks=rng.random() < 0.5)


def rand_doc(rng):
    doc = {}
    for b in range(rng.randint(1, 4)):
        blk = {}
        names = set()

        def fresh(prefix=None):
            while True:
                n = (prefix or rng.choice(["cell", "atom", "symmetry", "x", "refine", "diffrn"])) + "_" + rng.choice(["a", "b", "len", "site_x", "id", "label", "n1", "U11"]) + str(rng.randint(0, 99))
                if n not in names:
                    names.add(n)
                    return n
        for _ in range(rng.randint(0, 6)):
            blk[fresh()] = rand_value(rng, rng.choice(["int", "float", "str"]))
        for _ in range(rng.randint(0, 3)):
            ncol = rng.randint(1, 6)
            nrow = rng.randint(0, 8)
            prefix = rng.choice(["atom", "symmetry", "geom", "x"])
            wide = rng.random() < 0.03
            if wide:
                # a very wide table (rows of 2000-2700 characters): one physical line per row all the same
                ncol, nrow = rng.randint(96, 130), rng.randint(1, 3)
            for c in range(ncol):
                kind = rng.choice(["int", "float", "str"]) if not wide else rng.choice(["int", "float", "float"])
                blk[fresh(prefix)] = [rand_value(rng, kind) for _ in range(nrow)]
        doc[rng.choice(["crystal", "blk", "I", "global", "test-1", "a", "powder_data_", "data_", "DATA_x", "loop_"]) + str(b)] = blk
    return doc


def pos_zero(doc):
    """-0.0 (e.g. round(-0.04, 1)) is not a rational number: the model, which computes with exact rationals, has no negative zero, while
    Python prints its sign ('-0.000000000000'). The correspondence therefore feeds +0.0 to both sides; the round-trip oracle (judge) keeps
    -0.0 among its inputs (it reads back as a float equal to 0.0)."""
    fix = lambda v: v + 0.0 if isinstance(v, float) and v == 0.0 else v
    return {bn: {k: ([fix(x) for x in v] if isinstance(v, list) else fix(v)) for k, v in blk.items()} for bn, blk in doc.items()}


def nontrivial(doc):
    big = any(sum(1 for v in blk.values() if isinstance(v, list)) >= 2 for blk in doc.values())
    flat = [x for blk in doc.values() for v in blk.values() for x in (v if isinstance(v, list) else [v])]
    return big and any((isinstance(x, str) and " " in x) or (isinstance(x, float) and x.is_integer()) for x in flat)


# ---- encodings for the driver -------------------------------------------------------
def wval(x):
    if isinstance(x, bool):
        raise ValueError
    if isinstance(x, int):
        return f"I {x}"
    if isinstance(x, float):
        return f"F {rat(F(x))} {pct(str(x))}"
    return f"T {pct(x)}"


def print_line(doc):
    out = ["print"]
    for bn, blk in doc.items():
        out.append(f"B {pct(bn)}")
        for k, v in blk.items():
            if isinstance(v, list):
                out.append(f"C {pct(k)} {len(v)} " + " ".join(wval(x) for x in v) if v else f"C {pct(k)} 0")
            else:
                out.append(f"S {pct(k)} {wval(v)}")
    return " ".join(out)


def show_val(v):
    if isinstance(v, bool):
        return "S:" + pct(str(v))
    if isinstance(v, int):
        return f"I:{v}"
    if isinstance(v, float):
        import math
        if math.isinf(v):
            return "F:-inf" if v < 0 else "F:inf"
        return "F:" + rat(F(v))
    return "S:" + pct(str(v))


def show_data(d):
    parts = []
    for bn, blk in d.items():
        s = f"B {pct(bn)}"
        for k, v in blk.items():
            if isinstance(v, list):
                s += f" L {pct(k)} {len(v)}" + "".join(" " + show_val(x) for x in v)
            else:
                s += f" K {pct(k)} {show_val(v)}"
        parts.append(s)
    return "ok " + " ".join(parts)


def impl_parse(text):
    from chmpy.fmt.cif import Cif
    try:
        return show_data(Cif.from_string(text).data)
    except Exception as ex:  # noqa
        n = type(ex).__name__
        return "err " + (n if n in ("ValueError", "IndexError", "TypeError") else "other:" + n)


def same_tokens(m, i):
    a, b = m.split(), i.split()
    if len(a) != len(b):
        return False
    for x, y in zip(a, b):
        if x == y:
            continue
        if x.startswith("F:") and y.startswith("F:"):
            fx, fy = F(x[2:]), F(y[2:])
            if abs(fx - fy) <= F(1, 10**15) * max(1, abs(fx)):
                continue
        return False
    return True


def mutate(rng, text):
    lines = text.split("\n")
    for _ in range(rng.randint(1, 3)):
        k = rng.random()
        i = rng.randrange(len(lines))
        if k < 0.2:
            del lines[i]
        elif k < 0.4:
            lines.insert(i, rng.choice(["", "# comment", "loop_", "_x_extra 5", "data_other", "  ", "'a b", "1.5(3) 2(1) 'q r' s", "_y_alone", ";", "_z 1,5"]))
        elif k < 0.6 and lines[i]:
            j = rng.randrange(len(lines[i]))
            lines[i] = lines[i][:j] + rng.choice(["'", '"', " ", "_", "#", "(", "1", "e", "."]) + lines[i][j:]
        elif k < 0.8:
            lines[i] = lines[i].strip()
        else:
            lines[i] = "  " + lines[i] + "  "
    return "\n".join(lines)


def correspond(ctx):
    from chmpy.fmt.cif import Cif, parse_value
    rng = ctx.rng
    cases = []
    ndoc = 150 if not ctx.thorough else 2500
    for _ in range(ndoc):
        doc = pos_zero(rand_doc(rng))
        text = Cif(doc).to_string()
        cases.append((print_line(doc), pct(text), {"op": "print", "doc": str(doc)[:300]}))
        cases.append(("parse " + pct(text), impl_parse(text), {"op": "parse", "text": text[:400]}))
        if rng.random() < 0.7:
            bad = mutate(rng, text)
            if bad.isascii():
                cases.append(("parse " + pct(bad), impl_parse(bad), {"op": "parse-malformed", "text": bad[:4000]}))
    for s in ["2.3(1)", "5(2)", "2.0", "-3", "+7", "1e5", "1.5e-3(2)", ".5", "5.", "1,5", "abc", "'a b'", '"a b"', ";txt;", "' a b '", "'a", "a'b", "1.2.3", "1e", "--1",
              "1(2", "(3)", "  12", "12  ", "", " ", "'", "''", "-", ".", "e5", "0x10", "1_000", "nan", "inf", "1.5(3)x"]:
        def pv(s=s):
            try:
                return show_val(parse_value(s))
            except Exception as ex:  # noqa
                n = type(ex).__name__
                return "err " + (n if n in ("ValueError", "IndexError", "TypeError") else "other:" + n)
        cases.append(("value " + pct(s), pv(), {"op": "value", "text": s}))
    try:
        outs = core.run_driver("C15", [c[0] for c in cases])
    except core.TieBroken as ex:
        ctx.tie_broken("driver C15", str(ex))
        return
    if len(outs) != len(cases):
        ctx.tie_broken("driver C15", f"{len(outs)} lines for {len(cases)} inputs")
        return
    for (line, impl, inp), m in zip(cases, outs):
        if m.strip() == "unmodelled":       # multi-line ';' text field reached (malformed stream only)
            ctx.count("unmodelled_inputs_skipped")
            continue
        if not same_tokens(m.strip(), impl.strip()):
            ctx.disagree(inp["op"], inp, m.strip()[:300], impl.strip()[:300])
    ctx.count("correspondence_lines", len(cases))


# ---- oracle -------------------------------------------------------------------------
def same_value(a, b, loop):
    if type(a) is not type(b) and not (isinstance(a, float) and isinstance(b, float)):
        return False
    if isinstance(a, float):
        import math
        return abs(a - b) <= ((0.50001e-12 + 2 * math.ulp(a)) if loop else 0.0)
    return a == b


def judge(seed):
    import random
    from chmpy.fmt.cif import Cif
    rng = random.Random(seed)
    doc = rand_doc(rng)
    try:
        text = Cif(doc).to_string()
        back = Cif.from_string(text).data
    except Exception as ex:  # noqa
        return f"round trip raised {type(ex).__name__}: {ex}", doc
    if list(back.keys()) != list(doc.keys()):
        return f"block names {list(back.keys())} != {list(doc.keys())}", doc
    for bn, blk in doc.items():
        got = back[bn]
        if set(got) != set(blk):
            return f"block {bn}: item names differ: {sorted(set(got) ^ set(blk))[:4]}", doc
        for k, v in blk.items():
            g = got[k]
            if isinstance(v, list):
                if not isinstance(g, list) or len(g) != len(v):
                    return f"block {bn}: loop column {k} has {len(g) if isinstance(g, list) else 'scalar'} values, expected {len(v)} (rows misaligned)", doc
                for i, (x, y) in enumerate(zip(v, g)):
                    if not same_value(x, y, True):
                        return f"block {bn}: {k}[{i}] written {x!r} ({type(x).__name__}) read back {y!r} ({type(y).__name__})", doc
            else:
                if isinstance(g, list) or not same_value(v, g, False):
                    return f"block {bn}: {k} written {v!r} ({type(v).__name__}) read back {g!r} ({type(g).__name__})", doc
    return None, doc


def search(ctx, budget):
    from chmpy.fmt.cif import parse_value
    n = 300 if budget == "quick" else 6000
    for _ in range(n):
        seed = ctx.rng.randrange(1 << 30)
        r, doc = judge(seed)
        ctx.case({"seed": seed, "blocks": len(doc), "items": sum(len(b) for b in doc.values())}, nontrivial=nontrivial(doc), key=str(seed))
        if r:
            ctx.fail("C15:roundtrip:" + r.split(":")[0][:40], r, {"seed": seed})
            if len(ctx.failures) >= 8:
                break
    for txt, want in [("2.3(1)", 2.3), ("5(2)", 5), ("-1.50(12)", -1.5), ("1e3(1)", 1000.0), ("'a b'", "a b"), ('"q r s"', "q r s"), ("'-y, x-y, z'", "-y, x-y, z")]:
        ctx.case({"value": txt})
        try:
            got = parse_value(txt)
            if type(got) is not type(want) or got != want:
                ctx.fail("C15:value:" + txt, f"parse_value({txt!r}) = {got!r}, expected {want!r}", {"value": txt})
        except Exception as ex:  # noqa
            ctx.fail("C15:value:" + txt, f"parse_value({txt!r}) raised {type(ex).__name__}", {"value": txt})


def replay(ctx, obj):
    i = obj["input"]
    if "seed" in i:
        return judge(i["seed"])[0]
    return None
