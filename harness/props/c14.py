"""C14 — derived crystal data always reflect the crystal's current state."""
import copy
import itertools
import math

import numpy as np

from harness.common import core
from harness.gen import crystalcaches as gen_cc
from harness.gen import sgdata as gen_sg

ID = "C14"
LEAN_TARGETS = ["ChmpyVerif.Props.C14", "ChmpyVerif.Props.C14Groups"]
T = "ChmpyVerif.Props.C14."
THEOREMS = [T + n for n in ("fresh_inv", "step_inv", "every_answer_fresh", "tables_clear_all", "every_answer_fresh_generated",
                            "queries_pure", "repeat_equal", "stale_if_not_cleared")]
# which groups have both trigonal settings: read off the regenerated table (kernel-checked), not asked of the code under test
THEOREMS += ["ChmpyVerif.Props.C14.both_settings_groups"]
TRUSTED = [
    "translator harness/gen/crystalcaches.py (AST scan of crystal.py: hasattr/getattr/setattr memo pattern, methods assigning "
    "self.unit_cell / space_group / asymmetric_unit[.positions], delattr loops) -> Gen/CrystalCaches.lean",
    "hand model Model/CrystalState.lean: a cached value is identified with the base version it was derived from (derive is an "
    "uninterpreted function of the base); deepcopy copies base and caches; tied by comparing cache occupancy after every operation",
    "state changed behind the API's back (assigning attributes directly, mutating arrays in place) is outside the model",
]
RULE = ("every history up to length 3 (quick) / 4 (thorough) over 6 read-only queries, the two trigonal switches and deepcopy, plus random longer "
        "ones, on a synthetic R-3 molecular crystal (+ r3c_example.cif, a P2_1/c crystal in thorough); after every operation the real cache "
        "occupancy is compared with the model and every real answer with the answer of a freshly constructed crystal; "
        "distinct = distinct history; non-trivial = history containing a query after a state change or a copy")
MANIFEST = {
    "text": ("Proof. The memo slots, the slots every method fills and the slots every mutator deletes are REGENERATED from crystal.py each run; "
             "Lean proves by induction over operations that for histories of ANY length and any interleaving with deep copies every answer is "
             "derived from the crystal's current base, queries do not change the base and repeated queries agree — given that every mutator "
             "deletes every slot, which the kernel checks on the regenerated tables. Tie: cache occupancy after every operation of every short "
             "history matches the model; every real answer is compared with a freshly constructed crystal."),
    "note": ("Trusted: Lean kernel; the AST scanner (patterns listed in its docstring); the abstraction of derived values to base versions; "
             "the correspondence/oracle runs over short and random histories."),
    "technique": "Lean 4 proof (state-machine invariant by induction over operations) over tables regenerated from the source + history correspondence",
}

QUERIES = ["unit_cell_atoms", "unit_cell_connectivity", "unit_cell_molecules", "symmetry_unique_molecules", "density", "atoms_in_radius", "to_cif_string"]


def gen(ctx):
    gen_cc.generate()
    gen_sg.generate()      # the table `both_settings_groups` is checked against


def synthetic():
    from chmpy.core.element import Element
    from chmpy.crystal import AsymmetricUnit, Crystal, SpaceGroup, UnitCell
    uc = UnitCell.hexagonal(12.0, 9.0)
    o = np.array([1.9, 3.1, 2.6])
    cart = np.array([o, o + [0.757, 0.586, 0.0], o + [-0.757, 0.586, 0.0]])
    asym = AsymmetricUnit([Element[8], Element[1], Element[1]], uc.to_fractional(cart), labels=["O1", "H1", "H2"])
    return Crystal(uc, SpaceGroup(148, choice="H"), asym, titl="synthetic")


def synthetic_split():
    """the same kind of crystal with the asymmetric unit spread over two molecule images: the second hydrogen is listed at its
    image under the second operation of the group (still the same crystal)"""
    from chmpy.crystal import AsymmetricUnit, Crystal
    c = synthetic()
    op = c.space_group.symmetry_operations[1]
    pos = np.array(c.asymmetric_unit.positions, dtype=float).copy()
    pos[0] = op.apply(pos[0:1])[0]      # the FIRST listed atom sits in the minority image
    asym = AsymmetricUnit(list(c.asymmetric_unit.elements), pos, labels=np.array(c.asymmetric_unit.labels).copy())
    return Crystal(c.unit_cell, c.space_group, asym, titl="synthetic-split")


def synthetic_group(number, a=12.0, c=9.0):
    """the synthetic water crystal in any of the seven R-lattice groups, hexagonal axes, any axial ratio"""
    def make():
        from chmpy.core.element import Element
        from chmpy.crystal import AsymmetricUnit, Crystal, SpaceGroup, UnitCell
        uc = UnitCell.hexagonal(a, c)
        o = np.array([1.9, 3.1, 2.6])
        cart = np.array([o, o + [0.757, 0.586, 0.0], o + [-0.757, 0.586, 0.0]])
        asym = AsymmetricUnit([Element[8], Element[1], Element[1]], uc.to_fractional(cart), labels=["O1", "H1", "H2"])
        return Crystal(uc, SpaceGroup(number, choice="H"), asym, titl=f"synthetic-{number}")
    return make


def synthetic_near_special():
    """R3 with an atom NEAR the three-fold axis, as a CIF quotes it to three decimals (0.333, 0.667, z): its three images are 0.0006
    of a cell edge apart — one site at the default merge tolerance of every query"""
    from chmpy.core.element import Element
    from chmpy.crystal import AsymmetricUnit, Crystal, SpaceGroup, UnitCell
    uc = UnitCell.hexagonal(10.0, 12.0)
    asym = AsymmetricUnit([Element[6], Element[8]], np.array([[0.333, 0.667, 0.21], [0.12, 0.31, 0.45]]), labels=["C1", "O1"])
    return Crystal(uc, SpaceGroup(146, choice="H"), asym, titl="near-special")


def synthetic_cif_sqrt6():
    """a crystal LOADED FROM A CIF whose hexagonal cell has c/a = sqrt(6): the rhombohedral cell then has the same edge length a
    (angle 60 degrees), only c and the angles change in a trigonal switch"""
    from chmpy.core.element import Element
    from chmpy.crystal import AsymmetricUnit, Crystal, SpaceGroup, UnitCell
    uc = UnitCell.hexagonal(4.0, round(4.0 * math.sqrt(6.0), 6))
    asym = AsymmetricUnit([Element[14], Element[8]], np.array([[0.0, 0.0, 0.13], [0.21, 0.08, 0.37]]), labels=["Si1", "O1"])
    c = Crystal(uc, SpaceGroup(166, choice="H"), asym, titl="sqrt6")
    return Crystal.from_cif_string(c.to_cif_string())


def ordered(c, q):
    """order-SENSITIVE form of a list-valued answer (users index these lists)"""
    mols = getattr(c, q)()
    frac = [c.to_fractional(m.center_of_mass.reshape(1, 3))[0] for m in mols]
    return [(tuple(int(z) for z in m.atomic_numbers), tuple(float(x) for x in wrap01(f, 4))) for m, f in zip(mols, frac)]


def synthetic_disorder():
    """P1 (a single operation), explicit occupancies, two half-occupied sites on the same position"""
    from chmpy.core.element import Element
    from chmpy.crystal import AsymmetricUnit, Crystal, SpaceGroup, UnitCell
    uc = UnitCell.from_lengths_and_angles([7.0, 8.0, 9.0], [math.radians(85), math.radians(100), math.radians(95)])
    pos = np.array([[0.2, 0.3, 0.4], [0.2, 0.3, 0.4], [0.6, 0.1, 0.8], [0.75, 0.6, 0.2]])
    asym = AsymmetricUnit([Element[8], Element[7], Element[6], Element[1]], pos, labels=["O1", "N1", "C1", "H1"],
                          occupation=np.array([0.5, 0.5, 1.0, 1.0]))
    return Crystal(uc, SpaceGroup(1), asym, titl="disorder")


def load_modern_tags():
    """r3c_example.cif with the symmetry loop spelled with the current dictionary tags"""
    from chmpy.crystal import Crystal
    text = (core.SRC / "tests" / "test_files" / "r3c_example.cif").read_text()
    text = text.replace("_symmetry_equiv_pos_as_xyz", "_space_group_symop_operation_xyz").replace("_symmetry_equiv_pos_site_id", "_space_group_symop_id")
    return Crystal.from_cif_string(text)


def load_both_tags():
    """r3c_example.cif carrying the symmetry loop twice, under the legacy AND the current dictionary tag (as files converted between
    dictionary versions do)"""
    from chmpy.crystal import Crystal
    text = (core.SRC / "tests" / "test_files" / "r3c_example.cif").read_text()
    i = text.index("loop_\n_symmetry_equiv_pos_as_xyz")
    j = text.index("loop_", i + 5)
    block = text[i:j]
    text = text[:j] + block.replace("_symmetry_equiv_pos_as_xyz", "_space_group_symop_operation_xyz") + text[j:]
    return Crystal.from_cif_string(text)


def load(name):
    from chmpy.crystal import Crystal
    return Crystal.load(str(core.SRC / "tests" / "test_files" / name))


def rnd(a, d=5):
    a = np.round(np.asarray(a, dtype=float), d) + 0.0
    return a


def wrap01(fr, d=5):
    f = np.round(np.asarray(fr, dtype=float), d)
    f = np.where(f >= 1.0, f - 1.0, f) + 0.0
    return f


def canon(c, q):
    """canonical, comparable form of the answer of query q on crystal c"""
    if q == "unit_cell_atoms":
        u = c.unit_cell_atoms()
        rows = sorted((int(e), tuple(wrap01(f)), round(float(o), 6)) for e, f, o in zip(u["element"], u["frac_pos"], u["occupation"]))
        return ("uca", len(rows), rows)
    if q == "unit_cell_connectivity":
        g, edges = c.unit_cell_connectivity()
        n = len(c.unit_cell_atoms()["element"])
        return ("conn", n, len(edges), sorted(round(float(v), 4) for v in (g.data if hasattr(g, "data") else [])))
    if q in ("unit_cell_molecules", "symmetry_unique_molecules"):
        mols = getattr(c, q)()
        frac = [c.to_fractional(m.center_of_mass.reshape(1, 3))[0] for m in mols]
        return (q, len(mols), sorted((tuple(sorted(int(z) for z in m.atomic_numbers)), tuple(wrap01(f, 4))) for m, f in zip(mols, frac)))
    if q == "density":
        return ("density", round(float(c.density), 6))
    if q == "atoms_in_radius":
        r = c.atoms_in_radius(4.0, origin=(0.3, 0.2, 0.1))
        return ("air", len(r["element"]), sorted(round(float(x), 4) for x in r["distance"]) if "distance" in r else sorted(int(e) for e in r["element"]))
    if q == "to_poscar_string":
        txt = c.to_poscar_string()
        L_ = txt.splitlines()
        counts = [int(x) for x in L_[6].split()] if len(L_) > 6 else []
        return ("poscar", sum(counts), tuple(L_[5].split()) if len(L_) > 5 else ())
    if q == "to_cif_string":
        from chmpy.crystal import Crystal
        c2 = Crystal.from_cif_string(c.to_cif_string())
        return ("cif", c2.space_group.international_tables_number, c2.space_group.choice, tuple(rnd(c2.unit_cell.lengths, 4)),
                tuple(rnd(np.degrees(c2.unit_cell.angles), 4)), sorted(tuple(wrap01(p, 4)) for p in c2.asymmetric_unit.positions))
    raise AssertionError(q)


def base_key(c):
    occ = c.asymmetric_unit.properties.get("occupation", None)
    return (c.space_group.international_tables_number, c.space_group.choice, tuple(rnd(c.unit_cell.lengths, 6)),
            tuple(rnd(c.unit_cell.angles, 6)), tuple(map(tuple, rnd(c.asymmetric_unit.positions, 6))),
            tuple(int(z) for z in c.asymmetric_unit.atomic_numbers), tuple(rnd(occ, 6)) if occ is not None else None)


def fresh_of(c):
    from chmpy.crystal import AsymmetricUnit, Crystal, SpaceGroup, UnitCell
    sg = SpaceGroup(c.space_group.international_tables_number, choice=c.space_group.choice)
    asym = AsymmetricUnit(list(c.asymmetric_unit.elements), np.array(c.asymmetric_unit.positions, dtype=float).copy(),
                          labels=np.array(c.asymmetric_unit.labels).copy(), **{k: copy.deepcopy(v) for k, v in c.asymmetric_unit.properties.items()})
    f = Crystal(UnitCell(np.array(c.unit_cell.direct, dtype=float).copy()), sg, asym, titl=c.titl)
    return f


_FRESH = {}


def fresh_answer(c, q):
    k = (base_key(c), q)
    if k not in _FRESH:
        _FRESH[k] = canon(fresh_of(c), q)
    return _FRESH[k]


def approx_eq(a, b):
    if type(a) != type(b):
        return False
    if isinstance(a, (tuple, list)):
        return len(a) == len(b) and all(approx_eq(x, y) for x, y in zip(a, b))
    if isinstance(a, float):
        return abs(a - b) <= 2e-4 or abs(abs(a - b) - 1.0) <= 2e-4   # 0.99999 ~ 0.0 on wrapped coordinates
    return a == b


def history_ops(alphabet_q):
    return [("q", q) for q in alphabet_q] + [("sw", "R"), ("sw", "H"), ("copy", None)]


def run_history(make, hist, slots):
    """returns (driver lines, observed outputs, list of failures[(desc)], nontrivial)"""
    world = [make()]
    vers = [0]
    nextv = [1]
    seen_order = [{}]        # per crystal: the ordered answers given since its last mutation
    lines, outs, fails = ["init 1"], ["ok"], []
    changed = False
    nontrivial = False
    for k, (kind, arg) in enumerate(hist):
        tgt = (k * 7 + len(world)) % len(world)   # deterministic choice of the crystal addressed
        c = world[tgt]
        occ = lambda x: "".join("1" if hasattr(x, s) else "0" for s in slots)
        if kind == "q":
            before = base_key(c)
            try:
                got = canon(c, arg)
                want = fresh_answer(c, arg)
                ok = approx_eq(got, want)
                again = canon(c, arg)
                if not approx_eq(got, again):
                    fails.append(f"step {k}: repeating {arg} returned a different result")
                if arg in ("unit_cell_molecules", "symmetry_unique_molecules"):
                    now = ordered(c, arg)
                    if arg in seen_order[tgt] and not approx_eq(seen_order[tgt][arg], now):
                        fails.append(f"step {k}: {arg} returned its molecules in a different ORDER than the same query earlier in this history "
                                     f"(no change to the crystal in between): another query modified the memoised list")
                    seen_order[tgt][arg] = now
            except Exception as ex:  # noqa
                ok, got, want = False, f"raised {type(ex).__name__}: {ex}", "an answer"
            if base_key(c) != before:
                fails.append(f"step {k}: query {arg} modified the cell, space group or asymmetric unit")
            if not ok:
                fails.append(f"step {k}: {arg} on crystal {tgt} returned {str(got)[:160]} but a freshly constructed crystal gives {str(want)[:160]}")
            lines.append(f"query {tgt} {arg}")
            outs.append(("fresh" if ok else "stale") + " " + occ(c))
            if changed:
                nontrivial = True
        elif kind == "sw":
            # which groups have both settings is crystallography, not something to ask the code under test
            if c.space_group.international_tables_number in (146, 148, 155, 160, 161, 166, 167) and c.space_group.choice != arg:
                try:
                    c.choose_trigonal_lattice(arg)
                except Exception as ex:  # noqa
                    fails.append(f"choose_trigonal_lattice({arg!r}) on space group {c.space_group.international_tables_number} ({c.space_group.choice} axes, cell "
                                 f"{np.round(c.unit_cell.lengths, 4).tolist()} / {np.round(np.degrees(c.unit_cell.angles), 3).tolist()}) raised {type(ex).__name__}: {ex}")
                    lines.append(f"noop {tgt}")
                    outs.append(occ(c))
                    continue
                seen_order[tgt] = {}
                lines.append(f"mutate {tgt} choose_trigonal_lattice {nextv[0]}")
                nextv[0] += 1
                changed = True
            else:
                try:
                    c.choose_trigonal_lattice(arg)
                except ValueError:
                    pass
                lines.append(f"noop {tgt}")
            outs.append(occ(c))
        else:
            world.append(copy.deepcopy(c))
            seen_order.append(copy.deepcopy(seen_order[tgt]))
            lines.append(f"copy {tgt}")
            outs.append(f"{len(world) - 1} {occ(world[-1])}")
            changed = True
    return lines, outs, fails, nontrivial


def histories(ctx, maxlen, nrandom, qs):
    ops = history_ops(qs)
    out = []
    for n in range(1, maxlen + 1):
        out += list(itertools.product(ops, repeat=n))
    for _ in range(nrandom):
        out.append(tuple(ctx.rng.choice(ops) for _ in range(ctx.rng.randint(maxlen + 1, maxlen + 6))))
    return out


FALLBACK_SLOTS = ["_unit_cell_atom_dict", "_uc_graph", "_unit_cell_molecules", "_symmetry_unique_molecules"]


def _all(ctx, budget):
    try:
        slots = gen_cc.scan()["slots"]
    except core.TieBroken:
        # the memoisation pattern is no longer recognised (reported by gen/correspond): the search on the real code goes on, the
        # occupancy strings it prints are only used by the correspondence
        slots = FALLBACK_SLOTS
    plans = [(synthetic, "synthetic R-3", histories(ctx, 3 if budget == "quick" else 4, 150 if budget == "quick" else 1500, QUERIES[:6]))]
    # "switch sandwiches": something memoised in one setting, something else asked in the other setting, a third thing asked back in
    # the first (all triples of queries, both directions)
    sand = [(("q", q1), ("sw", a), ("q", q2), ("sw", b), ("q", q3)) for (a, b) in (("R", "H"), ("H", "R"))
            for q1 in QUERIES[:6] for q2 in QUERIES[:6] for q3 in QUERIES[:6]]
    sand += [(("sw", "R"),) + h for h in sand if h[1] == ("sw", "H")]
    plans.append((synthetic, "synthetic R-3, switch sandwiches", sand))
    mq = ["unit_cell_molecules", "symmetry_unique_molecules", "unit_cell_atoms"]
    plans.append((synthetic_split, "synthetic R-3, asymmetric unit split over two molecules", histories(ctx, 3, 40 if budget == "quick" else 400, mq)))
    plans.append((synthetic_disorder, "P1 with two half-occupied sites on one position",
                  [(("q", "unit_cell_atoms"), ("q", "unit_cell_atoms"), ("q", "to_cif_string")), (("q", "density"), ("copy", None), ("q", "unit_cell_atoms")),
                   (("q", "to_cif_string"), ("q", "unit_cell_atoms"), ("q", "to_cif_string"))]))
    plans.append((load_modern_tags, "r3c_example.cif with _space_group_symop_* tags",
                  [(("q", "to_cif_string"), ("sw", "R"), ("q", "to_cif_string"), ("q", "unit_cell_atoms")),
                   (("sw", "R"), ("q", "to_cif_string"), ("sw", "H"), ("q", "to_cif_string"))]))
    plans.append((load_both_tags, "r3c_example.cif with the symmetry loop under both the legacy and the current tag",
                  [(("q", "to_cif_string"), ("sw", "R"), ("q", "to_cif_string"), ("q", "unit_cell_atoms")),
                   (("sw", "R"), ("q", "to_cif_string"), ("sw", "H"), ("q", "to_cif_string"))]))
    # every one of the seven groups that has both settings, and the metrically special cells c = a and c/a = sqrt(3/2) (alpha = 90)
    for num_, a_, c_ in [(146, 12.0, 9.0), (148, 12.0, 12.0), (155, 12.0, 9.0), (160, 11.0, 11.0 * math.sqrt(1.5)), (161, 12.0, 9.0), (166, 12.0, 9.0), (167, 12.0, 12.0)]:
        plans.append((synthetic_group(num_, a_, c_), f"synthetic-group {num_} a={a_:g} c={c_:.4g}",
                      [(("q", "unit_cell_atoms"), ("sw", "R"), ("q", "unit_cell_atoms"), ("sw", "H"), ("q", "density")),
                       (("sw", "R"), ("q", "to_cif_string"), ("q", "unit_cell_molecules"))]))
    pq = ["to_poscar_string", "unit_cell_atoms", "density", "to_cif_string"]
    plans.append((synthetic_near_special, "R3 with an atom 0.0006 from the three-fold axis, POSCAR export among the queries",
                  [h for h in histories(ctx, 3, 0, pq) if any(x == ("q", "to_poscar_string") for x in h)][:120]
                  + [(("q", "to_poscar_string"), ("q", "unit_cell_atoms")), (("sw", "R"), ("q", "to_poscar_string"), ("q", "unit_cell_atoms"), ("q", "density"))]))
    plans.append((synthetic_cif_sqrt6, "R-3m loaded from a CIF, c/a = sqrt(6) (a is the same in both settings)",
                  [(("q", "to_cif_string"), ("sw", "R"), ("q", "to_cif_string"), ("q", "density")),
                   (("sw", "R"), ("q", "to_cif_string"), ("sw", "H"), ("q", "to_cif_string")),
                   (("sw", "R"), ("q", "density"), ("q", "to_cif_string"))]))
    if budget != "quick":
        plans.append((lambda: load("r3c_example.cif"), "r3c_example.cif", histories(ctx, 2, 40, ["unit_cell_atoms", "density", "to_cif_string", "atoms_in_radius"])))
        plans.append((lambda: load("acetic_acid.cif"), "acetic_acid.cif", histories(ctx, 2, 60, QUERIES)))
    else:
        plans.append((lambda: load("r3c_example.cif"), "r3c_example.cif",
                      [(("q", "unit_cell_atoms"), ("sw", "R"), ("q", "unit_cell_atoms"), ("q", "density"), ("q", "to_cif_string"), ("sw", "H"), ("q", "unit_cell_atoms")),
                       (("q", "density"), ("copy", None), ("sw", "R"), ("q", "density"), ("q", "density"), ("q", "to_cif_string"))]))
    return slots, plans


def correspond(ctx):
    slots, plans = _all(ctx, "thorough" if ctx.thorough else "quick")
    ctx._c14 = []
    all_lines, all_outs, index = [], [], []
    for make, name, hists in plans:
        for h in hists:
            lines, outs, fails, nontrivial = run_history(make, h, slots)
            ctx._c14.append((name, h, fails, nontrivial))
            index.append((name, h, len(all_lines), len(lines)))
            all_lines += lines
            all_outs += outs
    try:
        model = core.run_driver("C14", all_lines)
    except core.TieBroken as ex:
        ctx.tie_broken("driver C14", str(ex))
        return
    if len(model) != len(all_lines):
        ctx.tie_broken("driver C14", f"{len(model)} lines for {len(all_lines)} inputs")
        return
    for name, h, start, n in index:
        for j in range(start, start + n):
            if model[j].strip() != all_outs[j].strip():
                ctx.disagree("history", {"structure": name, "history": [list(x) for x in h], "line": all_lines[j]}, model[j].strip(), all_outs[j].strip())
                break
    ctx.count("correspondence_lines", len(all_lines))


def search(ctx, budget):
    if not hasattr(ctx, "_c14") or (budget == "thorough" and not ctx.thorough):
        slots, plans = _all(ctx, budget)
        ctx._c14 = []
        for make, name, hists in plans:
            for h in hists:
                lines, outs, fails, nontrivial = run_history(make, h, slots)
                ctx._c14.append((name, h, fails, nontrivial))
    for name, h, fails, nontrivial in ctx._c14:
        ctx.case({"structure": name, "history": [f"{k}:{a}" if a else k for k, a in h]}, nontrivial=nontrivial)
        if fails:
            ctx.fail("C14:" + name + ":" + ">".join(f"{k}:{a}" if a else k for k, a in h)[:150], fails[0],
                     {"structure": name, "history": [list(x) for x in h]})
            if len(ctx.failures) >= 12:
                break
    ctx.case({"structure": "two crystals sharing one UnitCell object"}, nontrivial=True)
    try:
        r = judge_shared()
    except Exception as ex:  # noqa
        r = f"shared-cell scenario raised {type(ex).__name__}: {ex}"
    if r:
        ctx.fail("C14:shared-unit-cell", r, {"shared": True})


def judge_shared():
    """two crystals built on the SAME UnitCell and SpaceGroup objects (as the package's own tests do with a module-level cell): operating
    on one of them must not change what the other one answers"""
    from chmpy.crystal import AsymmetricUnit, Crystal
    a = synthetic()
    b = Crystal(a.unit_cell, a.space_group, AsymmetricUnit(list(a.asymmetric_unit.elements), np.array(a.asymmetric_unit.positions, dtype=float).copy(),
                                                            labels=np.array(a.asymmetric_unit.labels).copy()), titl="twin")
    qs = ["unit_cell_atoms", "density", "to_cif_string", "unit_cell_molecules"]
    for switch_first in (False, True):
        if switch_first:
            a, b = synthetic(), None
            b = Crystal(a.unit_cell, a.space_group, AsymmetricUnit(list(a.asymmetric_unit.elements), np.array(a.asymmetric_unit.positions, dtype=float).copy(),
                                                                    labels=np.array(a.asymmetric_unit.labels).copy()), titl="twin")
        else:
            for q in qs:
                canon(b, q)
        want = {q: canon(fresh_of(b), q) for q in qs}
        key0 = base_key(b)
        a.choose_trigonal_lattice("R")
        canon(a, "unit_cell_atoms")
        if base_key(b) != key0:
            return ("choose_trigonal_lattice on one crystal changed the cell / space group / asymmetric unit of ANOTHER crystal built on the same "
                    "UnitCell and SpaceGroup objects")
        for q in qs:
            got = canon(b, q)
            if not approx_eq(got, want[q]):
                return (f"after choose_trigonal_lattice('R') on a crystal sharing its UnitCell object, the untouched crystal answers {q} differently from a "
                        f"fresh crystal with its cell, space group and asymmetric unit: {str(got)[:150]} vs {str(want[q])[:150]}")
    return None


def replay(ctx, obj):
    i = obj["input"]
    if i.get("shared"):
        return judge_shared()
    slots = gen_cc.scan()["slots"]
    st = i["structure"]
    if st.startswith("synthetic-group"):
        _, num_, a_, c_ = st.replace("a=", "").replace("c=", "").split()
        return_make = synthetic_group(int(num_), float(a_), float(c_))
        _, _, fails, _ = run_history(return_make, [tuple(x) for x in i["history"]], slots)
        return fails[0] if fails else None
    make = (synthetic_near_special if st.startswith("R3 with an atom") else synthetic_cif_sqrt6 if st.startswith("R-3m loaded") else
            synthetic_split if "split" in st else synthetic_disorder if st.startswith("P1 with two") else load_modern_tags if "_space_group_symop_*" in st else
            load_both_tags if "both the legacy" in st else synthetic if st.startswith("synthetic") else (lambda: load(st)))
    _, _, fails, _ = run_history(make, [tuple(x) for x in i["history"]], slots)
    return fails[0] if fails else None
