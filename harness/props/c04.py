"""C04 — unit-cell molecules partition the cell into whole, symmetry-related molecules."""
import math
from fractions import Fraction as F

import numpy as np

from harness.common import core
from harness.common.core import rat

ID = "C04"
LEAN_TARGETS = ["ChmpyVerif.Props.C04"]
T = "ChmpyVerif.Props.C04."
THEOREMS = [T + n for n in ("mols_partition", "nodesOf_nodup", "recentre_is_lattice_translation", "root_shift_zero", "consistent_bond",
                            "greedy_indices_valid", "go_cover", "greedy_covers", "go_disjoint", "greedy_disjoint", "every_mol_labelled")]
TRUSTED = [
    "hand model Model/Molecules.lean of the bookkeeping of unit_cell_molecules / symmetry_unique_molecules on exact integers; the component labels "
    "(scipy connected_components) and the periodic bond list (KD-tree search with covalent radii) are inputs taken from the real run",
    "scipy breadth_first_order visits neighbours in ascending index order (model's walk); exercised by comparing every shift",
    "bond perception, the geometric equivalence of symmetry images and Z' x |G| counting are checked by the oracle, not proved",
]
RULE = ("seeded molecular crystals: 1-3 rigid template molecules (water, CO, CO2, HCN, methane, equal and different sizes), random rigid placement anywhere "
        "relative to the cell faces, many settings with compatible cells; rejected unless the closest intermolecular contact exceeds the bonding threshold "
        "by 0.3 A; distinct = distinct crystal; non-trivial = more than one molecule in the asymmetric unit or a molecule crossing a cell face")
MANIFEST = {
    "text": ("Proof. On the exact-integer model: the molecules partition the labelled atoms (each atom in exactly one); recentring moves a molecule by an "
             "integer lattice vector and puts its centre in [0,1); unwrapping shifts are integer vectors starting from zero at the root and, when consistent "
             "with every bond, give each bonded pair its bond offset; the greedy choice of unique molecules covers every asymmetric-unit atom that occurs "
             "in a molecule, the chosen molecules are pairwise disjoint when asymmetric-unit sets are pairwise equal or disjoint (so each atom exactly "
             "once), and every molecule whose index array equals a unique molecule's is labelled with it. Tie: model run on the real graph and labels "
             "(nodes, shifts, unique choice, labels compared exactly) + geometric oracle (wholeness, internal geometry, counts)."),
    "note": "Trusted: Lean kernel; scipy csgraph (labels, BFS order) and KD-tree bond search; geometry by oracle.",
    "technique": "Lean 4 proof (list induction over the greedy/partition/BFS bookkeeping) + correspondence on the real bond graph + geometric oracle",
}

TEMPLATES = {
    "water": ([8, 1, 1], [[0, 0, 0], [0.757, 0.586, 0.0], [-0.757, 0.586, 0.0]]),
    "co": ([6, 8], [[0, 0, 0], [0, 0, 1.13]]),
    "co2": ([6, 8, 8], [[0, 0, 0], [0, 0, 1.16], [0, 0, -1.16]]),
    "hcn": ([1, 6, 7], [[0, 0, -1.06], [0, 0, 0], [0, 0, 1.16]]),
    "methane": ([6, 1, 1, 1, 1], [[0, 0, 0], [0.63, 0.63, 0.63], [-0.63, -0.63, 0.63], [-0.63, 0.63, -0.63], [0.63, -0.63, -0.63]]),
    # chains: the order in which the atoms are LISTED is shuffled below, so a child can come before the atom that connects it
    "ethane": ([6, 6, 1, 1, 1, 1, 1, 1], [[0, 0, 0], [1.53, 0, 0], [-0.36, 1.03, 0], [-0.36, -0.51, 0.89], [-0.36, -0.51, -0.89],
                                          [1.89, -1.03, 0], [1.89, 0.51, -0.89], [1.89, 0.51, 0.89]]),
    "c3": ([6, 6, 6], [[0, 0, 0], [1.3, 0.75, 0], [2.6, 0, 0]]),
    "c5": ([6] * 5, [[1.3 * i, 0.75 * (i % 2), 0] for i in range(5)]),
    "rod": ([6] * 16, [[1.3 * i, 0, 0] for i in range(16)]),
}


def gen(ctx):
    pass


def rot(rng):
    q = np.array([rng.gauss(0, 1) for _ in range(4)])
    q /= np.linalg.norm(q)
    a, b, c, d = q
    return np.array([[a * a + b * b - c * c - d * d, 2 * (b * c - a * d), 2 * (b * d + a * c)],
                     [2 * (b * c + a * d), a * a - b * b + c * c - d * d, 2 * (c * d - a * b)],
                     [2 * (b * d - a * c), 2 * (c * d + a * b), a * a - b * b - c * c + d * d]])


SETTINGS = [(1, "tric"), (2, "tric"), (4, "mono"), (7, "mono"), (14, "mono"), (15, "mono"), (19, "ortho"), (29, "ortho"), (33, "ortho"), (61, "ortho"),
            (76, "tetra"), (92, "tetra"), (143, "hex"), (144, "hex"), (169, "hex"), (146, "hexR"), (198, "cubic")]


def make_crystal(rng):
    from chmpy.core.element import Element
    from chmpy.crystal import AsymmetricUnit, Crystal, SpaceGroup, UnitCell
    from scipy.spatial import cKDTree
    for _ in range(80):
        n, kind = rng.choice(SETTINGS)
        names = [rng.choice(list(TEMPLATES)) for _ in range(rng.choice([1, 1, 2, 2, 3]))]
        fam = rng.random()
        if fam < 0.08:
            names = ["rod"]
        twins = 0.9 <= fam
        fam_edge = 0.8 <= fam < 0.9
        if fam_edge:
            names = [rng.choice(["co", "co2", "hcn", "c3"])] + names[1:2]
            names = [x for x in names if x != "rod"]
        if twins:
            # Z' = 2 or 3 with EQUAL molecules, labelled per molecule (O1 H1 H2, O1 H1 H2): which image belongs to which is decided by the
            # atoms, not by their labels
            nm_ = rng.choice([t for t in TEMPLATES if t != "rod"])
            names = [nm_] * rng.choice([2, 2, 3])
        if "rod" in names:
            names = ["rod"]                       # a molecule several times longer than a short cell axis
            n, kind = rng.choice([(1, "short"), (2, "short")])
        elif fam < 0.6:
            n, kind = rng.choice([(2, "oblique"), (14, "oblique"), (4, "oblique")])
        sg = SpaceGroup(n)
        L = lambda lo=8, hi=14: rng.uniform(lo, hi)
        uc = {"tric": lambda: UnitCell.from_lengths_and_angles([L(), L(), L()], [math.radians(rng.uniform(75, 110)) for _ in range(3)]),
              "mono": lambda: UnitCell.monoclinic(L(), L(), L(), math.radians(rng.uniform(95, 120))),
              "ortho": lambda: UnitCell.orthorhombic(L(), L(), L()), "tetra": lambda: UnitCell.tetragonal(L(9, 13), L(9, 15)),
              "hex": lambda: UnitCell.hexagonal(L(10, 14), L(8, 13)), "hexR": lambda: UnitCell.hexagonal(L(13, 17), L(9, 13)),
              "cubic": lambda: UnitCell.cubic(L(11, 15)),
              "oblique": lambda: UnitCell.monoclinic(L(7, 10), L(8, 11), L(9, 12), math.radians(rng.uniform(120, 136))),
              "short": lambda: UnitCell.from_lengths_and_angles([L(4.0, 5.0), L(28, 34), L(11, 14)], [math.radians(rng.uniform(85, 95)) for _ in range(3)])}[kind]()
        zs, cart, owner = [], [], []
        for k, nm in enumerate(names):
            z, p = TEMPLATES[nm]
            perm = list(range(len(z)))
            if nm == "rod" and rng.random() < 0.5:
                perm.reverse()                    # the first-listed (root) atom is at the far end: the centre of mass lies cells away from it
            elif rng.random() < 0.6:
                rng.shuffle(perm)                 # listing order is not parent-before-child
            z, p = [z[i] for i in perm], [p[i] for i in perm]
            o = np.array([rng.uniform(-1.3, 2.3) if rng.random() < 0.3 else rng.uniform(-0.3, 1.3) for _ in range(3)]) @ np.asarray(uc.direct)
            if kind == "oblique" and k == 0 and len(z) >= 2 and rng.random() < 0.8:
                # a bond along a* (perpendicular to the b-c face) leaving the cell through the face x = 1: the partner atom is further
                # from the cell in FRACTIONAL terms than its Cartesian distance over |a| suggests
                Dm = np.asarray(uc.direct)
                astar = np.linalg.inv(Dm)[:, 0]
                astar = astar / np.linalg.norm(astar)
                q = np.array(p, dtype=float)
                # the first two LISTED atoms that are bonded in the template
                b0 = q[1] - q[0]
                b0 = b0 / np.linalg.norm(b0)
                v = np.cross(b0, astar)
                cth = float(np.dot(b0, astar))
                if np.linalg.norm(v) > 1e-8:
                    vx = np.array([[0, -v[2], v[1]], [v[2], 0, -v[0]], [-v[1], v[0], 0]])
                    Rr = np.eye(3) + vx + vx @ vx * (1 / (1 + cth))
                else:
                    Rr = np.eye(3)
                # the first atom sits u bond lengths (perpendicular) inside the face x = 1, its partner (1-u) bond lengths outside: from just
                # inside the face up to almost a whole bond length away from it
                width = 1.0 / np.linalg.norm(np.linalg.inv(Dm)[:, 0])
                blen = float(np.linalg.norm(q[1] - q[0]))
                x0 = 1.0 - rng.choice([rng.uniform(0.01, 0.12), rng.uniform(0.01, 0.12), rng.uniform(0.02, 0.5), rng.uniform(0.5, 0.9), rng.uniform(0.9, 0.995), rng.uniform(0.9, 0.995)]) * blen / width
                o = np.array([x0, rng.uniform(0.2, 0.8), rng.uniform(0.2, 0.8)]) @ Dm
                P = o + (q - q[0]) @ Rr.T
            elif k == 0 and len(z) <= 3 and fam_edge:
                # a small molecule lying across a cell EDGE: its first bond leaves the cell through two faces at once, in opposite senses
                # (cell offset (+1, -1, 0) and the like)
                Dm = np.asarray(uc.direct)
                i1, i2 = rng.sample(range(3), 2)
                dirv = Dm[i1] / np.linalg.norm(Dm[i1]) - Dm[i2] / np.linalg.norm(Dm[i2])
                dirv /= np.linalg.norm(dirv)
                q = np.array(p, dtype=float)
                b0 = (q[1] - q[0]) / np.linalg.norm(q[1] - q[0])
                v = np.cross(b0, dirv)
                cth = float(np.dot(b0, dirv))
                if np.linalg.norm(v) > 1e-8 and cth > -0.999:
                    vx = np.array([[0, -v[2], v[1]], [v[2], 0, -v[0]], [-v[1], v[0], 0]])
                    Rr = np.eye(3) + vx + vx @ vx * (1 / (1 + cth))
                else:
                    Rr = np.eye(3)
                fm = np.array([rng.uniform(0.2, 0.8) for _ in range(3)])
                fm[i1], fm[i2] = 1.0, 0.0                      # the bond midpoint sits ON the edge
                mid = fm @ Dm
                P = mid + (q - 0.5 * (q[0] + q[1])) @ Rr.T
            elif nm == "rod":
                # tilted about 60 degrees from the short axis, in the a-b plane
                t = math.radians(rng.uniform(35, 70))
                Rr = np.array([[math.cos(t), math.sin(t), 0], [-math.sin(t), math.cos(t), 0], [0, 0, 1]])
                P = o + np.array(p) @ Rr
            else:
                P = o + np.array(p) @ rot(rng)
            zs += z
            cart += list(P)
            owner += [k] * len(z)
        cart = np.array(cart)
        if rng.random() < 0.12:
            # the centre of mass of the first molecule a few millionths of a cell edge below (or above) a cell face
            idx0 = [a for a in range(len(owner)) if owner[a] == 0]
            mass = np.array([Element[zs[a]].mass for a in idx0])
            com = (cart[idx0] * mass[:, None]).sum(axis=0) / mass.sum()
            fcom = uc.to_fractional(com[None, :])[0]
            target = fcom.copy()
            target[rng.randrange(3)] = rng.choice([1.0 - rng.uniform(1e-7, 9e-6), rng.uniform(1e-7, 9e-6), 1.0 - 1e-12])
            cart[idx0] += uc.to_cartesian((target - fcom)[None, :])[0]
        # site labels as users supply them (PDB-style: the same label set repeated for every copy of a molecule), and site occupancies
        # (a half-occupied solvent molecule): neither changes which atoms are bonded or which molecule is an image of which
        extra = {}
        style = rng.choice(["default", "default", "per-molecule", "occupancy", "both"]) if not twins else rng.choice(["per-molecule", "both"])
        if style in ("per-molecule", "both"):
            cnt = {}
            labs = []
            for a, z in enumerate(zs):
                kk = (owner[a], z)
                cnt[kk] = cnt.get(kk, 0) + 1
                labs.append(f"{Element[z].symbol}{cnt[kk]}")
            extra["labels"] = labs
        if style in ("occupancy", "both"):
            occ_of = [rng.choice([1.0, 0.5, 0.5, 0.35]) for _ in names]
            extra["occupation"] = [occ_of[o] for o in owner]
        c = Crystal(uc, sg, AsymmetricUnit([Element[z] for z in zs], uc.to_fractional(cart), **extra))
        # intermolecular contacts must be clearly longer than the bonding threshold
        try:
            slab = c.slab(bounds=((-1, -1, -1), (1, 1, 1)))
        except Exception:  # noqa
            continue
        P = np.asarray(slab["cart_pos"])
        n_uc = slab["n_uc"]
        u = c.unit_cell_atoms()
        if len(u["element"]) != len(zs) * len(sg.symmetry_operations):
            continue  # an atom landed on a special position
        els = np.asarray(slab["element"])
        cov = np.array([Element[int(z)].cov for z in els])
        tree = cKDTree(P)
        ok = True
        pairs = tree.query_pairs(2 * cov.max() + 0.4 + 0.3)
        # identify which (asym molecule, symop, cell) each slab atom belongs to
        asym = np.asarray(slab["asym_atom"])
        sym = np.asarray(slab["symop"])
        cell = np.asarray(slab["cell"])
        own = np.array(owner)[asym]
        for i, j in pairs:
            d = np.linalg.norm(P[i] - P[j])
            thr = cov[i] + cov[j] + 0.4
            same = own[i] == own[j] and sym[i] == sym[j]
            if same:
                # same molecule image possibly in different cells: bonded only if the template says so; template bonds are < thr, non-bonds > thr+0.3
                continue
            if d < thr + 0.3:
                ok = False
                break
        if ok:
            return c, names, owner
    return None, None, None


def model_inputs(c):
    g, edge_cells = c.unit_cell_connectivity()
    from scipy.sparse import csgraph
    n_mols, labels = csgraph.connected_components(csgraph=g, directed=False, return_labels=True)
    edges = [(int(i), int(j), tuple(int(x) for x in cell)) for (i, j), cell in edge_cells.items()]
    return int(n_mols), [int(x) for x in labels], edges


def correspond(ctx):
    from scipy.sparse import csgraph
    rng = ctx.rng
    lines, expect = [], []
    for _ in range(25 if not ctx.thorough else 300):
        c, names, owner = make_crystal(rng)
        if c is None:
            continue
        try:
            nm, labels, edges = model_inputs(c)
            mols = c.unit_cell_molecules()
            uniq = c.symmetry_unique_molecules()
        except Exception as ex:  # noqa
            ctx.disagree("molecules", {"names": names}, "(model evaluates)", f"raised {type(ex).__name__}: {ex}")
            continue
        n_uc = len(labels)
        inp = {"names": names, "sg": c.space_group.international_tables_number}
        lines.append(f"mols {nm} " + " ".join(map(str, labels)))
        expect.append((" | ".join(" ".join(str(int(x)) for x in sorted(m.properties["unit_cell_atoms"])) for m in mols), inp, "mols"))
        # shifts per molecule: recover from the real positions (before recentring the shift differs by one common integer vector)
        u = c.unit_cell_atoms()
        F_ = np.asarray(u["frac_pos"], dtype=float)
        edge_txt = " ".join(f"{i} {j} {a} {b} {cc}" for i, j, (a, b, cc) in edges)
        for m in mols:
            nodes = [int(x) for x in m.properties["unit_cell_atoms"]]
            root = min(nodes)
            fr = c.to_fractional(m.positions)
            sh = np.round(fr - F_[nodes]).astype(int)
            rel = sh - sh[nodes.index(root)]
            impl = "consistent " + " ".join(f"{n}:{a},{b},{cc}" for n, (a, b, cc) in sorted(zip(nodes, map(tuple, rel))))
            lines.append(f"shifts {n_uc} {root} {edge_txt}")
            expect.append((impl, inp, "shifts"))
        # unique selection: order by identity fraction (stable, descending), then greedy
        keys = [F(int(np.sum(np.asarray(m.asym_symops) == 16484)), len(m)) for m in mols]
        order_impl = sorted(range(len(mols)), key=lambda k: keys[k], reverse=True)
        lines.append("order " + " ".join(rat(k) for k in keys))
        expect.append((" ".join(map(str, order_impl)), inp, "order"))
        sets = [[int(x) for x in mols[k].properties["asymmetric_unit_atoms"]] for k in order_impl]
        lines.append(f"greedy {len(c.asymmetric_unit)} " + " ; ".join(" ".join(map(str, s)) for s in sets))
        taken_impl = [order_impl.index(mols.index(mm)) for mm in uniq]
        expect.append((" ".join(map(str, taken_impl)), inp, "greedy"))
    try:
        outs = core.run_driver("C04", lines)
    except core.TieBroken as ex:
        ctx.tie_broken("driver C04", str(ex))
        return
    if len(outs) != len(lines):
        ctx.tie_broken("driver C04", f"{len(outs)} lines for {len(lines)} inputs")
        return
    for (impl, inp, op), m in zip(expect, outs):
        a = m.strip()
        if op == "shifts":
            a = a.split(" ", 1)[0] + " " + " ".join(sorted(a.split(" ")[1:], key=lambda t: int(t.split(":")[0])))
        if a != impl.strip():
            ctx.disagree(op, inp, m.strip()[:200], impl.strip()[:200])
    ctx.count("correspondence_lines", len(lines))


def judge(seed):
    import random
    from chmpy.core.element import Element
    rng = random.Random(seed)
    c, names, owner = make_crystal(rng)
    if c is None:
        return None, False
    nontrivial = len(names) > 1
    tag = f"sg {c.space_group.international_tables_number} {'+'.join(names)}"
    try:
        mols = c.unit_cell_molecules()
        uniq = c.symmetry_unique_molecules()
    except Exception as ex:  # noqa
        return f"{tag}: raised {type(ex).__name__}: {ex}", nontrivial
    u = c.unit_cell_atoms()
    n_uc = len(u["element"])
    F_ = np.asarray(u["frac_pos"], dtype=float)
    seen = []
    for m in mols:
        seen += [int(x) for x in m.properties["unit_cell_atoms"]]
    if sorted(seen) != list(range(n_uc)):
        return f"{tag}: molecules do not partition the {n_uc} unit-cell atoms", nontrivial
    nops = len(c.space_group.symmetry_operations)
    if len(mols) != len(names) * nops:
        return f"{tag}: {len(mols)} molecules, expected Z' x |G| = {len(names)} x {nops}", nontrivial
    D = np.asarray(c.unit_cell.direct)
    for m in mols:
        nodes = [int(x) for x in m.properties["unit_cell_atoms"]]
        fr = c.to_fractional(m.positions)
        sh = fr - F_[nodes]
        if not np.allclose(sh, np.round(sh), rtol=0, atol=1e-6):
            return f"{tag}: an atom of a molecule is not a lattice translate of its unit-cell site", nontrivial
        if [int(z) for z in m.atomic_numbers] != [int(u["element"][n]) for n in nodes]:
            return f"{tag}: molecule elements do not match its unit-cell atoms", nontrivial
        com = c.to_fractional(m.center_of_mass.reshape(1, 3))[0]
        if not np.all((com > -1e-9) & (com < 1 + 1e-9)):
            return f"{tag}: centre of mass {com} outside the reference cell", nontrivial
        # internal geometry equals that of the asymmetric-unit parent
        asym_idx = [int(a) for a in m.properties["asymmetric_unit_atoms"]]
        parent = c.to_cartesian(c.asymmetric_unit.positions[asym_idx])
        d1 = np.linalg.norm(m.positions[:, None, :] - m.positions[None, :, :], axis=2)
        d0 = np.linalg.norm(parent[:, None, :] - parent[None, :, :], axis=2)
        own = [owner[a] for a in asym_idx]
        if len(set(own)) != 1:
            return f"{tag}: a molecule mixes atoms of different asymmetric-unit molecules", nontrivial
        if sorted(asym_idx) != [a for a in range(len(owner)) if owner[a] == own[0]]:
            return f"{tag}: a molecule is not whole (atoms {asym_idx})", nontrivial
        if not np.allclose(d1, d0, rtol=0, atol=1e-6):
            return f"{tag}: internal distances differ from the asymmetric-unit parent by {np.abs(d1 - d0).max():.3g}", nontrivial
        cov = np.array([Element[int(z)].cov for z in m.atomic_numbers])
        thr = cov[:, None] + cov[None, :] + 0.4
        bonded = (d0 < thr) & (d0 > 1e-3)
        if np.any(d1[bonded] >= thr[bonded]):
            return f"{tag}: bonded atoms are not at bonding distance", nontrivial
        if "asym_mol_idx" not in m.properties:
            return f"{tag}: a unit-cell molecule is not labelled with its unique molecule", nontrivial
        um = uniq[m.properties["asym_mol_idx"]]
        if sorted(int(a) for a in um.properties["asymmetric_unit_atoms"]) != sorted(asym_idx):
            return f"{tag}: a unit-cell molecule is labelled with a unique molecule it is not an image of", nontrivial
    cover = sorted(int(a) for mm in uniq for a in np.unique(mm.properties["asymmetric_unit_atoms"]))
    if cover != list(range(len(owner))):
        return f"{tag}: symmetry-unique molecules cover asymmetric-unit atoms {cover}, expected each of {len(owner)} exactly once", nontrivial
    if len(uniq) != len(names):
        return f"{tag}: {len(uniq)} unique molecules for {len(names)} molecules in the asymmetric unit", nontrivial
    return None, nontrivial


def judge_radii_option(seed):
    """the covalent_radii option: with a larger radius for one element, pairs that are further apart than the default threshold are
    bonded — also across cell faces (long bonds to heavy or hypervalent atoms are entered this way)"""
    import random
    from chmpy.core.element import Element
    from chmpy.crystal import AsymmetricUnit, Crystal, SpaceGroup, UnitCell
    rng = random.Random(seed)
    z = rng.choice([9, 8, 7])
    cov = Element[z].cov
    d = 2 * cov + 0.4 + rng.uniform(0.15, 0.3)                 # not bonded by default ...
    big = 0.5 * (d - 0.4) + rng.uniform(0.05, 0.15)            # ... bonded with this radius
    uc = UnitCell.monoclinic(rng.uniform(7, 9), rng.uniform(7, 9), rng.uniform(8, 10), math.radians(rng.uniform(95, 115)))
    for _ in range(50):
        o = np.array([rng.uniform(-0.2, 1.2) for _ in range(3)]) @ np.asarray(uc.direct)
        v = np.array([rng.gauss(0, 1) for _ in range(3)])
        v *= d / np.linalg.norm(v)
        cart = np.array([o, o + v])
        c = Crystal(uc, SpaceGroup(14), AsymmetricUnit([Element[z], Element[z]], uc.to_fractional(cart)))
        P = np.asarray(c.slab(bounds=((-1, -1, -1), (1, 1, 1)))["cart_pos"])
        from scipy.spatial import cKDTree
        pairs = cKDTree(P).query_pairs(2 * big + 0.4 + 0.4)
        dd = sorted(np.linalg.norm(P[i] - P[j]) for i, j in pairs)
        if all(abs(x - d) < 1e-6 or x > 2 * big + 0.4 + 0.3 for x in dd):
            break
    else:
        return None
    c = Crystal(uc, SpaceGroup(14), AsymmetricUnit([Element[z], Element[z]], uc.to_fractional(cart)))
    try:
        mols = c.unit_cell_molecules(covalent_radii={z: big})
    except Exception as ex:  # noqa
        return f"sg 14 stretched {Element[z].symbol}2: unit_cell_molecules(covalent_radii={{{z}: {big:.3f}}}) raised {type(ex).__name__}: {ex}"
    if len(mols) != 4 or sorted(len(m) for m in mols) != [2, 2, 2, 2]:
        return (f"sg 14 stretched {Element[z].symbol}2 (bond {d:.3f} A): with covalent_radii={{{z}: {big:.3f}}} the pairs are within bonding distance "
                f"({2 * big + 0.4:.3f} A) but unit_cell_molecules returns molecules of sizes {sorted(len(m) for m in mols)} instead of four pairs")
    for m in mols:
        if abs(np.linalg.norm(m.positions[0] - m.positions[1]) - d) > 1e-6:
            return f"sg 14 stretched {Element[z].symbol}2: a molecule's two atoms are {np.linalg.norm(m.positions[0] - m.positions[1]):.3f} A apart, not {d:.3f}"
    return None


def search(ctx, budget):
    for _ in range(6 if budget == "quick" else 60):
        seed = ctx.rng.randrange(1 << 30)
        ctx.case({"seed": seed, "option": "covalent_radii"}, nontrivial=True, key="opt" + str(seed))
        try:
            r = judge_radii_option(seed)
        except Exception as ex:  # noqa
            r = f"sg 14 covalent_radii option: raised {type(ex).__name__}: {ex}"
        if r:
            ctx.fail("C04:covalent_radii option", r, {"seed": seed, "option": True})
    n = 160 if budget == "quick" else 1500
    for _ in range(n):
        seed = ctx.rng.randrange(1 << 30)
        try:
            r, nontrivial = judge(seed)
        except Exception as ex:  # noqa
            r, nontrivial = f"raised {type(ex).__name__}: {ex}", True
        ctx.case({"seed": seed}, nontrivial=nontrivial, key=str(seed))
        if r:
            ctx.fail("C04:" + r.split(":")[1][:50].strip(), r, {"seed": seed})
            if len(ctx.failures) >= 8:
                break


def replay(ctx, obj):
    if obj["input"].get("option"):
        return judge_radii_option(obj["input"]["seed"])
    return judge(obj["input"]["seed"])[0]
