"""C02 — every tabulated space-group setting is a closed, consistently identified group."""
import numpy as np

from harness.common import core
from harness.common.core import pct
from harness.gen import sgdata as gen_sg
from harness.gen.sgdata import comp, dec

ID = "C02"
LEAN_TARGETS = ["ChmpyVerif.Props.C02", "ChmpyVerif.Props.C02Shelx"]
T = "ChmpyVerif.Props.C02."
THEOREMS = [T + n for n in (
    "entry_checked", "sg_nodup", "sg_symops_sorted", "sg_has_identity", "sg_closed", "sg_inverses", "sg_packable",
    "sg_centro_flag_iff", "sg_dup_same_number", "sg_lookup_full", "sg_lookup_reduced", "sg_construct", "table_size")] + [
    "ChmpyVerif.SG.closed_of_cert", "ChmpyVerif.SG.compose_assoc", "ChmpyVerif.SG.decode_encode_of_packable",
    "ChmpyVerif.SG.inverses_of_cert", "ChmpyVerif.Gen.sgChunks_ok", "ChmpyVerif.Gen.sgTable_covered"]
# the SYMM cards of a SHELX file never list the identity: the expansion supplies it
THEOREMS += ["ChmpyVerif.Props.C02." + n for n in ("implicit_identity_members", "expanded_without_identity")]
TRUSTED = [
    "translator harness/gen/sgdata.py (sgdata.json, SG_DEFAULT_SETTING_CHOICE, centering_to_latt, LATTICE_TYPE_TRANSLATIONS -> Gen/SG*.lean); "
    "its closure certificates are untrusted hints that the kernel re-checks",
    "hand model Model/SGroup.lean of SpaceGroup.__init__ selection, latt, reduced/expanded_symmetry_list, from_symmetry_operations "
    "(dict comprehension = last writer wins, sorted-tuple key), tied by an exhaustive 530-setting correspondence run",
    "composition of operations is matrix/vector arithmetic modulo the lattice on twelfths (floats in the code are exact on twelfths up to rounding)",
]
RULE = ("exhaustive: all 530 (number, choice) settings through the real SpaceGroup constructor, latt, reduced_symmetry_operations, "
        "from_symmetry_operations (full and reduced), plus all 230 default constructions and an independent group-axiom check of every "
        "operation list; distinct = distinct setting; non-trivial = more than one operation")
MANIFEST = {
    "text": ("Proof. The 530-setting table and the maps it is used with are REGENERATED from /repo on every run; for every setting the Lean kernel "
             "re-checks (certificate-based, complete finite domain) and proved lemmas lift: no duplicates, sorted, identity present, closed "
             "under composition (spanning-tree certificate + associativity mod lattice), two-sided inverses, centrosymmetric flag iff an "
             "operation has rotation -I, lookup from the full list and from the reduced LATT+SYMM description returns the same number and "
             "operation set, every (number, choice) and every default construction selects the right entry."),
    "note": ("Trusted: Lean kernel; the JSON/AST translator (certificates are hints, re-checked); the hand model of the lookup/reduce/expand code "
             "(tied by exhaustive correspondence over all 530 settings every run); exact arithmetic on twelfths."),
    "technique": "Lean 4 proof: decide +kernel per setting over regenerated table with generator certificates, lifted by proved group lemmas; exhaustive correspondence",
}


def gen(ctx):
    gen_sg.generate()


def show_sg(sg):
    c2l = {"primitive": 1, "body": 2, "rcenter": 3, "face": 4, "aface": 5, "bface": 6, "cface": 7}
    return f"ok {sg.international_tables_number} '{sg.choice}' {c2l[sg.centering]} {1 if sg.centrosymmetric else 0} {len(sg.symmetry_operations)} {sg.latt}"


def entries():
    from chmpy.crystal.space_group import SG_FROM_NUMBER
    out = []
    for k, v in SG_FROM_NUMBER.items():
        for e in v:
            out.append(e)
    return out


def impl(op, arg):
    from chmpy.crystal.space_group import SpaceGroup
    from chmpy.crystal.symmetry_operation import SymmetryOperation as S, expanded_symmetry_list
    try:
        if op == "construct":
            n, ch = arg
            return show_sg(SpaceGroup(n, choice=ch))
        e = entries()[arg] if isinstance(arg, int) else None
        if op == "entry":
            return show_sg(SpaceGroup(e.number, choice=e.choice) if e.choice else _first(e))
        sg = SpaceGroup(e.number, choice=e.choice) if e is not None and e.choice else (_first(e) if e is not None else None)
        if op == "reduced":
            return " ".join(str(int(s.integer_code)) for s in sg.reduced_symmetry_operations())
        if op == "lookupfull":
            return show_sg(SpaceGroup.from_symmetry_operations([S.from_integer_code(c) for c in e.symops]))
        if op == "lookupreduced":
            return show_sg(SpaceGroup.from_symmetry_operations(sg.reduced_symmetry_operations(), expand_latt=sg.latt))
        if op == "expand":
            l, codes = arg
            return " ".join(str(int(s.integer_code)) for s in expanded_symmetry_list([S.from_integer_code(c) for c in codes], l))
        if op == "lookup":
            l, codes = arg
            return show_sg(SpaceGroup.from_symmetry_operations([S.from_integer_code(c) for c in codes], expand_latt=(None if l == 0 else l)))
    except ValueError:
        return "err ValueError"
    except Exception as ex:  # noqa
        return "err other:" + type(ex).__name__
    raise AssertionError(op)


def _first(e):
    """entry with empty choice: SpaceGroup(number) picks the default or the first; build the object for THIS entry"""
    from chmpy.crystal.space_group import SpaceGroup
    sg = SpaceGroup(e.number)
    if sg._sgdata is e:
        return sg
    # the empty-choice entry is shadowed by a default choice; construct and re-point (constructor logic is compared separately)
    sg = SpaceGroup.__new__(SpaceGroup)
    raise ValueError("unreachable entry")


def correspond(ctx):
    ents = entries()
    cases = []
    add = lambda line, op, arg: cases.append((line, impl(op, arg), [op, arg]))
    for i, e in enumerate(ents):
        if e.choice:
            add(f"construct {e.number} {pct(e.choice)}", "construct", (e.number, e.choice))
        add(f"reduced {i}", "reduced", i)
        add(f"lookupfull {i}", "lookupfull", i)
        add(f"lookupreduced {i}", "lookupreduced", i)
        add(f"entry {i}", "entry", i)
    for n in range(-2, 234):
        add(f"construct {n} %", "construct", (n, ""))
    for n, ch in [(14, "zz"), (1, "1"), (230, "2"), (48, "1"), (48, "3"), (5, "b1"), (146, "R"), (146, "H"), (146, "X")]:
        add(f"construct {n} {pct(ch)}", "construct", (n, ch))
    rng = ctx.rng
    for _ in range(200 if not ctx.thorough else 3000):
        e = rng.choice(ents)
        codes = list(e.symops)
        k = rng.randint(1, len(codes))
        sub = rng.sample(codes, k)
        l = rng.choice([-7, -4, -3, -2, -1, 1, 2, 3, 4, 5, 6, 7, 0, 8, -8])
        if l not in (0, 8, -8):
            add(f"expand {l} " + " ".join(map(str, sub)), "expand", (l, sub))
        add(f"lookup {l} " + " ".join(map(str, sub)), "lookup", (l, sub))
    core.correspond_lines(ctx, "C02", cases)


# ---------------------------------------------------------------------------
def judge(i):
    """the statement, checked on the real objects for table entry i with an independent composition"""
    from chmpy.crystal.space_group import SpaceGroup
    from chmpy.crystal.symmetry_operation import SymmetryOperation as S
    e = entries()[i]
    tag = f"{e.number}:{e.choice}"
    try:
        sg = SpaceGroup(e.number, choice=e.choice) if e.choice else SpaceGroup(e.number)
    except Exception as ex:  # noqa
        return f"SpaceGroup({e.number}, {e.choice!r}) raised {type(ex).__name__}: {ex}"
    if e.choice and (sg.international_tables_number != e.number or sg.choice != e.choice):
        return f"SpaceGroup({e.number}, {e.choice!r}) constructed {sg.international_tables_number}:{sg.choice}"
    if not e.choice and sg._sgdata is not e:
        # default-choice shadowing: judge the entry through its operations directly
        sg = None
    symops = sg.symmetry_operations if sg is not None else [S.from_integer_code(c) for c in e.symops]
    codes = [int(s.integer_code) for s in symops]
    if len(set(codes)) != len(codes):
        return f"{tag}: duplicate operations"
    ops = []
    for s in symops:
        R = tuple(int(round(x)) for x in np.asarray(s.rotation).ravel())
        t12 = np.asarray(s.translation) * 12
        if not np.allclose(t12, np.round(t12), rtol=0, atol=1e-9):
            return f"{tag}: translation {s.translation} is not on twelfths"
        ops.append((R, tuple(int(round(x)) % 12 for x in t12)))
    if any(o != dec(c) for o, c in zip(ops, codes)):
        return f"{tag}: matrix form of an operation disagrees with its packed code"
    S_ = set(ops)
    ident = dec(16484)
    if ident not in S_:
        return f"{tag}: identity missing"
    for a in ops:
        for b in ops:
            if comp(a, b) not in S_:
                return f"{tag}: not closed: {a} o {b} = {comp(a, b)} is not in the list"
        if not any(comp(a, b) == ident and comp(b, a) == ident for b in ops):
            return f"{tag}: {a} has no inverse in the list"
    centro = any(o[0] == (-1, 0, 0, 0, -1, 0, 0, 0, -1) for o in ops)
    flag = sg.centrosymmetric if sg is not None else e.centrosymmetric
    if bool(flag) != centro:
        return f"{tag}: centrosymmetric flag {flag} but rotation -I present: {centro}"
    try:
        f = SpaceGroup.from_symmetry_operations(list(symops))
        if f.international_tables_number != e.number or sorted(int(s.integer_code) for s in f.symmetry_operations) != sorted(codes):
            return f"{tag}: lookup from the full list returned {f.international_tables_number}:{f.choice}"
    except Exception as ex:  # noqa
        return f"{tag}: lookup from the full list raised {type(ex).__name__}: {ex}"
    if sg is not None:
        try:
            red = sg.reduced_symmetry_operations()
            r = SpaceGroup.from_symmetry_operations(red, expand_latt=sg.latt)
            if r.international_tables_number != e.number or sorted(int(s.integer_code) for s in r.symmetry_operations) != sorted(codes):
                return f"{tag}: lookup from the reduced description (LATT {sg.latt}, {len(red)} ops) returned {r.international_tables_number}:{r.choice}"
            # the description as SHELX files carry it: the SYMM cards never list the identity
            noid = [o for o in sg.reduced_symmetry_operations() if int(o.integer_code) != 16484]
            r3 = SpaceGroup.from_symmetry_operations(noid, expand_latt=sg.latt)
            if r3.international_tables_number != e.number or sorted(int(s.integer_code) for s in r3.symmetry_operations) != sorted(codes):
                return f"{tag}: lookup from the reduced description without the identity card (LATT {sg.latt}, {len(noid)} SYMM) returned {r3.international_tables_number}:{r3.choice}"
            # B-centred settings (the table files them under 'primitive' with the centring as an operation): SHELX lattice type 6 is an
            # equally legal description of them
            from chmpy.crystal.symmetry_operation import reduced_symmetry_list
            if abs(sg.latt) == 1 and 17140694 in codes:      # 1/2+x, y, 1/2+z
                L6 = 6 if sg.latt > 0 else -6
                r6 = SpaceGroup.from_symmetry_operations(reduced_symmetry_list(sg.symmetry_operations, L6), expand_latt=L6)
                if r6.international_tables_number != e.number or sorted(int(s.integer_code) for s in r6.symmetry_operations) != sorted(codes):
                    return f"{tag}: lookup from the B-centred description (LATT {L6}) returned {r6.international_tables_number}:{r6.choice}"
            # ... and as the library itself writes it into a SHELX file (LATT + SYMM cards) and reads it back
            from chmpy.core.element import Element
            from chmpy.crystal import AsymmetricUnit, Crystal, UnitCell
            cx = Crystal(UnitCell.from_lengths_and_angles([7.1, 8.2, 9.3], [1.45, 1.7, 1.62]), sg, AsymmetricUnit([Element[6]], np.array([[0.11, 0.27, 0.39]])))
            cy = Crystal.from_shelx_string(cx.to_shelx_string())
            if cy.space_group.international_tables_number != e.number or sorted(int(s.integer_code) for s in cy.space_group.symmetry_operations) != sorted(codes):
                return (f"{tag}: written with to_shelx_string and read back, the space group is {cy.space_group.international_tables_number}:{cy.space_group.choice} "
                        f"with {len(cy.space_group.symmetry_operations)} operations")
            # the same description (the very same list object) looked up a second time
            r2 = SpaceGroup.from_symmetry_operations(red, expand_latt=sg.latt)
            if r2.international_tables_number != e.number or sorted(int(s.integer_code) for s in r2.symmetry_operations) != sorted(codes):
                return f"{tag}: second lookup from the same reduced description (LATT {sg.latt}, now {len(red)} ops) returned {r2.international_tables_number}:{r2.choice}"
        except Exception as ex:  # noqa
            return f"{tag}: lookup from the reduced description raised {type(ex).__name__}: {ex}"
    return None


def table_settings():
    """(number, choice, operation codes) of every setting, read from the data file directly (not through the library's own index)"""
    import json
    data = json.loads((core.SRC / "crystal" / "sgdata.json").read_text())
    return [(int(e[0]), e[6], [int(c) for c in e[8]]) for k in data for e in data[k]]


def search(ctx, budget):
    # every (number, choice) of the data file can be constructed and is that setting
    from chmpy.crystal.space_group import SpaceGroup
    seen = {}
    for number, choice, codes in table_settings():
        if (number, choice) in seen:
            continue            # a later entry with the same (number, choice) is shadowed by construction (reported by the model's table)
        seen[(number, choice)] = True
        ctx.case({"setting": f"{number}:{choice}", "from": "sgdata.json"}, nontrivial=len(codes) > 1)
        try:
            sg = SpaceGroup(number, choice=choice) if choice else SpaceGroup(number)
            if choice and (sg.international_tables_number != number or sg.choice != choice
                           or sorted(int(o.integer_code) for o in sg.symmetry_operations) != sorted(codes)):
                ctx.fail(f"C02:{number}:{choice}", f"SpaceGroup({number}, {choice!r}) is {sg.international_tables_number}:{sg.choice} with other operations than the table lists",
                         {"number": number, "choice": choice, "construct": True})
        except Exception as ex:  # noqa
            ctx.fail(f"C02:{number}:{choice}", f"SpaceGroup({number}, {choice!r}) — a setting of the bundled table — raised {type(ex).__name__}: {ex}",
                     {"number": number, "choice": choice, "construct": True})
    n = len(entries())
    ctx.note("settings", n)
    for i in range(n):
        e = entries()[i]
        ctx.case({"setting": f"{e.number}:{e.choice}"}, nontrivial=len(e.symops) > 1)
        r = judge(i)
        if r:
            ctx.fail(f"C02:{e.number}:{e.choice}", r, {"index": i, "number": e.number, "choice": e.choice})
    # a second complete pass in the opposite order: the answers must not depend on which settings were asked about before
    for i in reversed(range(n)):
        e = entries()[i]
        r = judge(i)
        if r:
            ctx.fail(f"C02:{e.number}:{e.choice}", "(second pass, reverse table order) " + r, {"index": i, "number": e.number, "choice": e.choice, "pass": "reverse"})
    ctx.note("exhaustive", True)


def replay(ctx, obj):
    if obj["input"].get("construct"):
        from chmpy.crystal.space_group import SpaceGroup
        try:
            SpaceGroup(obj["input"]["number"], choice=obj["input"]["choice"])
            return None
        except Exception as ex:  # noqa
            return f"SpaceGroup({obj['input']['number']}, {obj['input']['choice']!r}) raised {type(ex).__name__}: {ex}"
    if obj["input"].get("pass") == "reverse":
        for i in reversed(range(len(entries()))):
            r = judge(i)
            if r and i == obj["input"]["index"]:
                return r
        return None
    return judge(obj["input"]["index"])
