"""C06 — isosurfaces are closed, consistently oriented meshes on the requested level."""
import math
import os
import struct
import warnings
from collections import Counter

import numpy as np

from harness.common import core
from harness.common.core import rat
from harness.gen import mc as gen_mc
from harness.pyx import drift

ID = "C06"
LEAN_TARGETS = ["ChmpyVerif.Props.C06", "ChmpyVerif.Props.C06Glue2", "ChmpyVerif.Props.C06Grid"]
T = "ChmpyVerif.Props.C06."
THEOREMS = [T + n for n in (["leaves_ok%d" % i for i in range(8)] + ["faces_match%d" % i for i in range(8)] + ["trees%d" % i for i in range(8)]
                            + ["every_leaf_ok", "every_leaf_faces_match", "same_face_data_same_segments", "opposite_faces_glue", "two_cells_glue", "expected_keys_distinct",
                               "vertex_inside_edge", "vertex_at_crossing", "slot_nf", "gridEdge_nf", "slot_eq_iff_same_edge", "mesh_closed", "sepOk_true", "renOk_true", "separation"])]
TRUSTED = [
    "translator harness/gen/mc.py: decodes the base64 lookup tables, parses the_big_switch / the reference-edge chain of test_internal from the .pyx "
    "with Python's ast (after dropping the Cython declarations) and executes the switch symbolically for all 256 configurations -> 766 leaves; the "
    "translator's own face table is re-checked leaf by leaf in Lean",
    "hand model Model/MC.lean of test_face, test_internal, cell.index, vertex interpolation and the face-layer slot — tied by single-cell and "
    "multi-cell correspondence with the compiled kernel (triangle sequences compared exactly, vertex parameters to 1e-6)",
    "the assembly argument itself is proved abstractly (mesh_closed: local nodup + interior-or-face + gluing across faces + 'two cells sharing a "
    "directed edge share its face' => every directed edge and its reverse occur exactly once); the grid geometry behind it is proved too (separation: two different cells with two different grid edges in common are face "
    "neighbours, both edges in the shared face, renamed as the tables say). NOT proved: that a chord lying in a face plane is never an interior edge of "
    "BOTH cells sharing that face — the tables alone allow it for the tunnel tilings (7.4.2, 10.x, 12.x, 13.x); only the numeric face/interior tests "
    "exclude it (checked on noise volumes every run: 0 of 40000 in the design experiment) — and that neighbouring leaves see consistent face data, that the 'Impossible case 13' branches are unreachable, exact-zero corner values (index uses > 0), volume convergence, "
    "and everything about the density grids of surface.py — all exercised by the oracle on the real code",
    "the prebuilt _mc_lewiner extension is a faithful compilation of the .pyx reconstructed from its .c (drift guard)",
]
RULE = ("single cells: every one of the 256 sign configurations x random magnitudes (incl. all-faces-ambiguous patterns); volumes 3..6 cells per side with "
        "random values; smooth multi-blob fields on random anisotropic grids (8..28 points per axis) x levels x both gradient directions; spheres on grids "
        "12/24/48 for volume convergence; promolecule / Hirshfeld surfaces of water, methanol, acetic acid and the acetic-acid crystal at separations "
        "1.0/0.5/0.2; distinct = distinct (kind, seed); non-trivial = a mesh with more than 20 faces")
MANIFEST = {
    "text": ("Proof (partial). The case logic and lookup tables are regenerated from the source on every run; kernel-checked over ALL 766 paths through "
             "the_big_switch (256 sign configurations x every outcome of the face/interior tests): triangles use only edge indices 0..12, every used "
             "cube edge joins corners on opposite sides of the level, no directed edge occurs twice, every directed edge has its reverse in the same cell "
             "or lies in exactly one cube face, every ambiguous face is resolved by a face test, the segments left on a face depend only on that face's "
             "own data, and opposite faces of neighbouring cells carry exactly reversed segments (two_cells_glue: any two leaves that see the same physical face data on a shared face leave mutually reversed directed segments on it); the test outcomes of each configuration form a complete "
             "decision tree. Proved over ℚ: a vertex lies strictly inside its grid edge, at the zero of the linear interpolant; the vertex-sharing slot "
             "identifies exactly the same physical grid edge. Not proved: the global assembly argument, volume convergence, the surface wrappers."),
    "note": "Trusted: Lean kernel + Mathlib; translator (symbolic execution of the switch); hand model of the numeric tests tied by correspondence; compiled extension = its .pyx.",
    "technique": "Lean 4 proof (tables regenerated from source, kernel decision over all case paths; field algebra; omega) + cell/volume correspondence + mesh oracle",
}


def gen(ctx):
    gen_mc.generate()


def bits2f(s):
    return struct.unpack("<d", struct.pack("<Q", int(s)))[0]


EDGE = {0: ((0, 0, 0), (1, 0, 0)), 1: ((1, 0, 0), (1, 1, 0)), 2: ((1, 1, 0), (0, 1, 0)), 3: ((0, 1, 0), (0, 0, 0)),
        4: ((0, 0, 1), (1, 0, 1)), 5: ((1, 0, 1), (1, 1, 1)), 6: ((1, 1, 1), (0, 1, 1)), 7: ((0, 1, 1), (0, 0, 1)),
        8: ((0, 0, 0), (0, 0, 1)), 9: ((1, 0, 0), (1, 0, 1)), 10: ((1, 1, 0), (1, 1, 1)), 11: ((0, 1, 0), (0, 1, 1))}
CORNERS = [(0, 0, 0), (1, 0, 0), (1, 1, 0), (0, 1, 0), (0, 0, 1), (1, 0, 1), (1, 1, 1), (0, 1, 1)]


def grid_edge(x, y, z, vi):
    """physical grid edge of cube edge vi of cell (x,y,z): replica of Model/MC.gridEdge"""
    if vi >= 12:
        return (x, y, z, 3)
    a, b = np.array(EDGE[vi][0]), np.array(EDGE[vi][1])
    lo = np.minimum(a, b)
    axis = int(np.argmax(np.abs(b - a)))
    return (x + int(lo[0]), y + int(lo[1]), z + int(lo[2]), axis)


def vertex_id(p, eps=1e-7):
    """grid edge (x,y,z,axis) a vertex (x,y,z order, index units) lies on, or the cell (x,y,z,3) containing it"""
    fr = p - np.floor(p)
    on = [abs(c - round(c)) < eps for c in p]
    if sum(on) >= 2:
        axis = [i for i in range(3) if not on[i]]
        if not axis:           # on a grid node: ambiguous, not generated by random data
            return None
        a = axis[0]
        q = [int(round(c)) for c in p]
        q[a] = int(math.floor(p[a]))
        return (q[0], q[1], q[2], a)
    return (int(math.floor(p[0])), int(math.floor(p[1])), int(math.floor(p[2])), 3)


def cell_values(vol, x, y, z):
    return [vol[z, y, x], vol[z, y, x + 1], vol[z, y + 1, x + 1], vol[z, y + 1, x], vol[z + 1, y, x], vol[z + 1, y, x + 1], vol[z + 1, y + 1, x + 1], vol[z + 1, y + 1, x]]


def sign_pattern_values(nrng, cfg):
    v = nrng.uniform(0.02, 1.0, size=8)
    for c in range(8):
        if not (cfg >> c) & 1:
            v[c] = -v[c]
    return v.astype(np.float32)


def correspond(ctx):
    from chmpy.mc._mc import _get_lookup_tables
    from chmpy.mc._mc_lewiner import marching_cubes as _mc
    L = _get_lookup_tables()
    nrng = np.random.default_rng(ctx.seed + 6)
    lines, expect = [], []
    reps = 4 if not ctx.thorough else 24
    cells = []
    for cfg in range(256):
        for _ in range(reps):
            cells.append(sign_pattern_values(nrng, cfg))
    for _ in range(300 if not ctx.thorough else 3000):
        cells.append(nrng.normal(size=8).astype(np.float32))
    for v in cells:
        vol = np.zeros((2, 2, 2), np.float32)
        vol[0, 0, 0], vol[0, 0, 1], vol[0, 1, 1], vol[0, 1, 0], vol[1, 0, 0], vol[1, 0, 1], vol[1, 1, 1], vol[1, 1, 0] = v
        for classic in (0, 1):
            verts, faces, _, _ = _mc(vol, 0.0, L, 1, classic)
            verts, faces = np.array(verts), np.array(faces)
            ids = [vertex_id(p) for p in verts]
            es, ts = [], {}
            ok = True
            for p, g in zip(verts, ids):
                if g is None:
                    ok = False
                    break
                if g[3] == 3:
                    es.append(12)
                    continue
                e = next(k for k in range(12) if grid_edge(0, 0, 0, k) == g)
                a, b = np.array(EDGE[e][0], float), np.array(EDGE[e][1], float)
                ts[e] = float(np.dot(p - a, b - a))
                es.append(e)
            if not ok:
                continue
            lines.append(("classic" if classic else "cell") + " 0 " + " ".join(rat(float(x)) for x in v))
            expect.append((classic, [es[i] for i in faces], ts, [float(x) for x in v]))
    # volumes: the global face sequence in terms of grid-edge identities
    nvol = 12 if not ctx.thorough else 80
    vols = []
    for _ in range(nvol):
        shape = tuple(int(nrng.integers(3, 7)) for _ in range(3))
        vol = nrng.normal(size=shape).astype(np.float32)
        verts, faces, _, _ = _mc(vol, 0.0, L, 1, 0)
        verts, faces = np.array(verts), np.array(faces)
        vids = [vertex_id(p) for p in verts]
        start = len(lines)
        nz, ny, nx = shape
        order = []
        for z in range(nz - 1):
            for y in range(ny - 1):
                for x in range(nx - 1):
                    lines.append("cell 0 " + " ".join(rat(float(c)) for c in cell_values(vol, x, y, z)))
                    expect.append(None)
                    order.append((x, y, z))
        vols.append((shape, vids, [int(i) for i in faces], start, order))
    try:
        outs = core.run_driver("C06", lines)
    except core.TieBroken as ex:
        ctx.tie_broken("driver C06", str(ex))
        return
    if len(outs) != len(lines):
        ctx.tie_broken("driver C06", f"{len(outs)} lines for {len(lines)} inputs")
        return
    cases = Counter()
    for e, o in zip(expect, outs):
        if e is None:
            continue
        classic, want, ts, v = e
        if classic:
            got = [int(x) for x in o.split()]
            if got != want:
                ctx.disagree("classic cell", {"values": v}, o[:80], str(want))
            continue
        parts = o.split("|")
        head = parts[0].split()
        cases[head[1] if len(head) > 1 else "?"] += 1
        got = [int(x) for x in parts[1].split()] if len(parts) > 1 else None
        if got != want:
            ctx.disagree("cell triangles", {"values": v}, o[:120], str(want))
            continue
        for tok in parts[2].split():
            ed, b = tok.split(":")
            if abs(bits2f(b) - ts[int(ed)]) > 1e-6:
                ctx.disagree("vertex parameter", {"values": v, "edge": int(ed)}, repr(bits2f(b)), repr(ts[int(ed)]))
                break
    for shape, vids, faces, start, order in vols:
        exp_ids = []
        for k, (x, y, z) in enumerate(order):
            parts = outs[start + k].split("|")
            tris = [int(t) for t in parts[1].split()] if len(parts) > 1 else []
            exp_ids += [grid_edge(x, y, z, t) for t in tris]
        got_ids = [vids[i] for i in faces]
        if len(set(v for v in vids if v is not None)) != len(vids):
            ctx.disagree("vertex sharing", {"shape": shape}, "one vertex per grid edge", "two vertices on the same grid edge")
        elif exp_ids != got_ids:
            k = next((i for i, (a, b) in enumerate(zip(exp_ids, got_ids)) if a != b), min(len(exp_ids), len(got_ids)))
            ctx.disagree("volume face sequence", {"shape": shape, "position": k}, str(exp_ids[k:k + 3]), str(got_ids[k:k + 3]))
    ctx.note("cases_hit", dict(cases))
    ctx.count("correspondence_lines", len(lines))


# ---------------------------------------------------------------------------
def mesh_topology(faces):
    d = Counter()
    for a, b, c in faces:
        for e in ((a, b), (b, c), (c, a)):
            d[e] += 1
    bad = [e for e in d if d[e] != 1 or d.get((e[1], e[0]), 0) != 1]
    return bad


def signed_volume(V, F):
    a, b, c = V[F[:, 0]], V[F[:, 1]], V[F[:, 2]]
    return float(np.einsum("ij,ij->i", a, np.cross(b, c)).sum() / 6)


def winding_number(V, F, p):
    """generalised winding number of the mesh around p (±1 inside a closed oriented surface, 0 outside)"""
    a, b, c = V[F[:, 0]] - p, V[F[:, 1]] - p, V[F[:, 2]] - p
    la, lb, lc = np.linalg.norm(a, axis=1), np.linalg.norm(b, axis=1), np.linalg.norm(c, axis=1)
    num = np.einsum("ij,ij->i", a, np.cross(b, c))
    den = la * lb * lc + np.einsum("ij,ij->i", a, b) * lc + np.einsum("ij,ij->i", b, c) * la + np.einsum("ij,ij->i", c, a) * lb
    return float(np.sum(2 * np.arctan2(num, den)) / (4 * np.pi))


def blob_field(nrng, shape, spacing):
    nz, ny, nx = shape
    ext = np.array([(nz - 1) * spacing[0], (ny - 1) * spacing[1], (nx - 1) * spacing[2]])
    Z, Y, X = np.meshgrid(np.arange(nz) * spacing[0], np.arange(ny) * spacing[1], np.arange(nx) * spacing[2], indexing="ij")
    f = np.zeros(shape)
    k = int(nrng.integers(1, 5))
    for _ in range(k):
        c = ext * nrng.uniform(0.35, 0.65, size=3)
        s = ext.min() * nrng.uniform(0.08, 0.16)
        f += nrng.uniform(0.6, 1.4) * np.exp(-((Z - c[0]) ** 2 + (Y - c[1]) ** 2 + (X - c[2]) ** 2) / (2 * s * s))
    return f.astype(np.float32)


def judge_field(seed):
    from chmpy.mc import marching_cubes
    nrng = np.random.default_rng(seed)
    shape = tuple(int(nrng.integers(8, 29)) for _ in range(3))
    spacing = tuple(float(x) for x in nrng.uniform(0.3, 1.7, size=3))
    unit = int(nrng.integers(0, 10))
    if unit < 4:
        # unit spacing along one or two of the axes only (a grid in Angstrom along x and y, in another step along z)
        keep = [(0,), (1,), (2,), (0, 1)][unit]
        spacing = tuple(spacing[i] if i in keep else 1.0 for i in range(3))
    f = blob_field(nrng, shape, spacing)
    level = float(np.float32(nrng.uniform(0.15, 0.6)))      # representable in single precision: the numpy-scalar variants below are the SAME level
    bmax = max(f[0].max(), f[-1].max(), f[:, 0].max(), f[:, -1].max(), f[:, :, 0].max(), f[:, :, -1].max())
    if bmax >= level or f.max() <= level:
        return None, 0          # the level set reaches the boundary (or is empty): outside the quantifier
    # the same samples in the memory layouts and float widths a caller may hold them in
    layout = ["C-float32", "F-float32", "C-float64", "F-float64", "strided-float32"][int(nrng.integers(0, 5))]
    f0 = f
    if layout == "F-float32":
        f = np.asfortranarray(f0)
    elif layout == "C-float64":
        f = f0.astype(np.float64)
    elif layout == "F-float64":
        f = np.asfortranarray(f0.astype(np.float64))
    elif layout == "strided-float32":
        big = np.zeros(tuple(2 * n for n in shape), np.float32)
        big[::2, ::2, ::2] = f0
        f = big[::2, ::2, ::2]
    tag = f"field seed={seed} shape={shape} spacing={tuple(round(s, 3) for s in spacing)} level={level:.4f} layout={layout}"
    vols = {}
    for gd in ("descent", "ascent"):
        # the level as a Python float, a numpy scalar of either width
        lv = [level, np.float32(level), np.float64(level)][int(nrng.integers(0, 3))] if gd == "ascent" else level
        V, F, N, vals = marching_cubes(f, lv, spacing=spacing, gradient_direction=gd)
        V, F = np.asarray(V, float), np.asarray(F)
        if F.ndim != 2 or F.shape[1] != 3 or F.min() < 0 or F.max() >= len(V):
            return f"{tag} {gd}: face indices out of range", 0
        if len(set(map(tuple, F.tolist()))) != len(F):
            return f"{tag} {gd}: duplicate faces", len(F)
        bad = mesh_topology(F.tolist())
        if bad:
            return f"{tag} {gd}: not a closed consistently oriented manifold: {len(bad)} directed edges unpaired, e.g. {bad[0]}", len(F)
        if len(np.unique(F)) != len(V):
            return f"{tag} {gd}: {len(V) - len(np.unique(F))} vertices are referenced by no face", len(F)
        vols[gd] = signed_volume(V, F)
        # vertices: on a straddling grid edge at the linear crossing, or inside a straddling cell
        P = V / np.array(spacing)             # (z, y, x) index units
        for p in P[:: max(1, len(P) // 400)]:
            q = p[::-1]                       # (x, y, z)
            g = vertex_id(q, 1e-5)
            if g is None:
                continue
            x, y, z, ax = g
            if ax == 3:
                cv = np.array(cell_values(f, x, y, z), float) - level
                if not (cv.max() > 0 and cv.min() <= 0):
                    return f"{tag} {gd}: interior vertex {p.tolist()} lies in a cell whose corners do not straddle the level", len(F)
            else:
                a = [x, y, z]
                b = list(a)
                b[ax] += 1
                fa, fb = float(f[a[2], a[1], a[0]]) - level, float(f[b[2], b[1], b[0]]) - level
                if not ((fa > 0) != (fb > 0)):
                    return f"{tag} {gd}: vertex {p.tolist()} lies on a grid edge whose ends do not straddle the level", len(F)
                t = q[ax] - a[ax]
                if abs(fa + t * (fb - fa)) > 1e-4 * (abs(fa) + abs(fb)):
                    return f"{tag} {gd}: vertex {p.tolist()} is not at the crossing point of its grid edge (t={t:.6f}, ends {fa:.4g}, {fb:.4g})", len(F)
    if not (vols["descent"] * vols["ascent"] < 0 and abs(vols["descent"] + vols["ascent"]) < 1e-6 * abs(vols["descent"])):
        return f"{tag}: the two gradient directions do not give opposite orientations (signed volumes {vols})", 1
    # documented convention (docstring of marching_cubes): windings follow the LEFT-hand rule in array-index coordinates, so for
    # 'descent' (object greater than exterior) the right-handed signed volume in (M, N, P) coordinates is negative
    if vols["descent"] >= 0:
        return f"{tag}: gradient_direction='descent' no longer gives the documented (left-hand rule) winding: signed volume {vols['descent']}", 1
    return None, len(F)


def judge_quantised(seed):
    """fields whose grid values hit the level EXACTLY (values rounded to multiples of 1/8, level 0.25 or 0.5)"""
    from chmpy.mc import marching_cubes
    nrng = np.random.default_rng(seed)
    shape = tuple(int(nrng.integers(8, 16)) for _ in range(3))
    q = (np.round(blob_field(nrng, shape, (1.0, 1.0, 1.0)) * 8) / 8).astype(np.float32)
    for level in (0.25, 0.5):
        b = max(q[0].max(), q[-1].max(), q[:, 0].max(), q[:, -1].max(), q[:, :, 0].max(), q[:, :, -1].max())
        if b >= level or q.max() <= level or not np.any(q == level):
            continue
        V, F, _, _ = marching_cubes(q, level)
        bad = mesh_topology(np.asarray(F).tolist())
        if bad:
            return (f"quantised field seed={seed} shape={shape} level={level} ({int((q == level).sum())} grid values equal the level exactly): "
                    f"mesh is not closed, {len(bad)} directed edges unpaired")
    return None


def judge_noise(seed):
    """white-noise volumes (padded so that the level set stays inside): every cell is ambiguous territory for the case logic"""
    from chmpy.mc._mc import _get_lookup_tables
    from chmpy.mc._mc_lewiner import marching_cubes as _mc
    L = _get_lookup_tables()
    nrng = np.random.default_rng(seed)
    for it in range(60):
        n = int(nrng.integers(3, 6))
        f = np.full((n + 2, n + 2, n + 2), -1.0, np.float32)
        mode = it % 3
        if mode == 0:
            inner = nrng.normal(size=(n, n, n))
        elif mode == 1:
            inner = nrng.choice([-1, 1], size=(n, n, n)) * nrng.uniform(0.05, 1, size=(n, n, n))
        else:
            inner = (np.indices((n, n, n)).sum(axis=0) % 2 * 2 - 1) * nrng.uniform(0.05, 1, size=(n, n, n)) * nrng.choice([1, 1, 1, -1], size=(n, n, n))
        f[1:-1, 1:-1, 1:-1] = inner
        V, F, _, _ = _mc(f, 0.0, L, 1, 0)
        bad = mesh_topology(np.asarray(F).reshape(-1, 3).tolist())
        if bad:
            return f"noise volume seed={seed} #{it} (inner {n}^3, mode {mode}): mesh not closed/oriented: {len(bad)} directed edges unpaired or repeated, e.g. {bad[0]}"
    return None


def judge_convergence(seed):
    from chmpy.mc import marching_cubes
    nrng = np.random.default_rng(seed)
    R = float(nrng.uniform(0.25, 0.4))
    ax = nrng.uniform(0.7, 1.0, size=3)
    c = nrng.uniform(0.45, 0.55, size=3)
    true = 4 / 3 * math.pi * R ** 3 * ax[0] * ax[1] * ax[2]
    errs = []
    for n in (12, 24, 48):
        g = np.linspace(0, 1, n)
        Z, Y, X = np.meshgrid(g, g, g, indexing="ij")
        f = (R - np.sqrt(((Z - c[0]) / ax[0]) ** 2 + ((Y - c[1]) / ax[1]) ** 2 + ((X - c[2]) / ax[2]) ** 2)).astype(np.float32)
        h = 1 / (n - 1)
        V, F, _, _ = marching_cubes(f, 0.0, spacing=(h, h, h))
        errs.append(abs(abs(signed_volume(np.asarray(V, float), np.asarray(F))) - true) / true)
    if not (errs[2] < errs[0] * 0.25 + 1e-4 and errs[2] < 0.01):
        return f"ellipsoid seed={seed}: enclosed volume does not converge: relative errors {errs} on grids 12/24/48"
    return None


MOLS = {
    # a rod (octatetrayne): bounding box very different along the three axes
    "rod": ([1] + [6] * 8 + [1], [[0, 0, -1.06]] + [[0, 0, 1.28 * i] for i in range(8)] + [[0, 0, 1.28 * 7 + 1.06]]),
    "water": ([8, 1, 1], [[0, 0, 0.117], [0, 0.757, -0.467], [0, -0.757, -0.467]]),
    "methanol": ([6, 8, 1, 1, 1, 1], [[0.0, 0.0, 0.0], [1.42, 0.0, 0.0], [-0.36, 1.03, 0.0], [-0.36, -0.51, 0.89], [-0.36, -0.51, -0.89], [1.74, 0.9, 0.0]]),
    "acetic": ([6, 6, 8, 8, 1, 1, 1, 1], [[0.0, 0.0, 0.0], [1.5, 0.0, 0.0], [2.1, 1.1, 0.0], [2.2, -1.1, 0.0], [-0.4, 1.0, 0.0], [-0.4, -0.5, 0.9],
                                          [-0.4, -0.5, -0.9], [3.1, -0.9, 0.0]]),
}


def judge_promolecule(name, seed):
    from chmpy import PromoleculeDensity
    from chmpy.surface import promolecule_density_isosurface
    warnings.filterwarnings("ignore")
    nrng = np.random.default_rng(seed)
    n, p = MOLS[name]
    q, r = np.linalg.qr(nrng.normal(size=(3, 3)))
    if seed % 3 == 0:
        q = np.eye(3)[nrng.permutation(3)]          # axis-aligned poses too
    p = np.array(p) @ q.T + nrng.normal(size=3) * 8  # anywhere in space, not near the coordinate origin
    pro = PromoleculeDensity((np.array(n), p))
    resid = []
    for sep in (1.0, 0.5, 0.2):
        for smoothing in (None, "laplacian"):
            iso = promolecule_density_isosurface(pro, isovalue=0.002, sep=sep, smoothing=smoothing)
            V, F = np.asarray(iso.vertices, float), np.asarray(iso.faces)
            tag = f"promolecule {name} seed={seed} sep={sep} smoothing={smoothing}"
            bad = mesh_topology(F.tolist())
            if bad:
                return f"{tag}: mesh is not closed/consistently oriented ({len(bad)} unpaired directed edges)"
            for a in p:
                w = winding_number(V, F, a)
                if abs(abs(w) - 1) > 1e-3:
                    return f"{tag}: atom at {a.tolist()} is not enclosed by the surface (winding number {w:.3f}) — mesh not in the molecule's Cartesian frame?"
            far = p.mean(axis=0) + np.array([9.0, 0, 0])
            if abs(winding_number(V, F, far)) > 1e-3:
                return f"{tag}: a point 9 A away is enclosed by the surface"
            if smoothing is None:
                resid.append(float(np.abs(pro.rho(V.astype(np.float32)) - 0.002).max()))
    if not (resid[2] < resid[1] < resid[0] and resid[2] < 0.15 * 0.002):
        return f"promolecule {name} seed={seed}: vertices do not converge to the isovalue: max |rho - 0.002| = {resid} at separations 1.0/0.5/0.2"
    return None


def judge_big_grid(seed):
    """a sampling box of about two million points (a 20-carbon chain along the body diagonal at separation 0.2): the surface is the same kind
    of closed mesh around every atom as for a small box"""
    from chmpy import PromoleculeDensity
    from chmpy.surface import promolecule_density_isosurface
    warnings.filterwarnings("ignore")
    nrng = np.random.default_rng(seed)
    d = np.array([1.0, 1.0, 1.0]) / math.sqrt(3)
    perp = np.array([1.0, -1.0, 0.0]) / math.sqrt(2)
    p = np.array([i * 1.27 * d + (0.42 if i % 2 else -0.42) * perp for i in range(20)]) + nrng.normal(size=3) * 3
    pro = PromoleculeDensity((np.array([6] * 20), p))
    iso = promolecule_density_isosurface(pro, isovalue=0.002, sep=0.2)
    V, F = np.asarray(iso.vertices, float), np.asarray(iso.faces)
    bad = mesh_topology(F.tolist())
    if bad:
        return f"big grid (C20 chain, sep 0.2, {len(V)} vertices): mesh is not closed ({len(bad)} unpaired directed edges)"
    for a in p[::3]:
        w = winding_number(V, F, a)
        if abs(abs(w) - 1) > 1e-3:
            return f"big grid (C20 chain along (1,1,1), sep 0.2): atom at {a.tolist()} is not enclosed by the surface (winding number {w:.3f})"
    res = float(np.abs(pro.rho(V.astype(np.float32)) - 0.002).max())
    if res > 0.3 * 0.002:
        return f"big grid (C20 chain, sep 0.2): a vertex has density {res / 0.002:.3g} isovalues away from the isovalue"
    return None


def judge_wrappers(seed):
    """user-level wrappers: Molecule.promolecule_density_isosurface and Crystal.hirshfeld_surfaces return closed trimesh objects
    around the right atoms"""
    from chmpy import Molecule
    from chmpy.crystal import Crystal
    warnings.filterwarnings("ignore")
    n, p = MOLS["acetic"]
    m = Molecule.from_arrays(np.array(n), np.array(p))
    try:
        mesh = m.promolecule_density_isosurface(separation=0.5)
    except Exception as ex:  # noqa
        return f"Molecule.promolecule_density_isosurface raised {type(ex).__name__}: {ex}"
    V, F = np.asarray(mesh.vertices, float), np.asarray(mesh.faces)
    if mesh_topology(F.tolist()):
        return "Molecule.promolecule_density_isosurface: mesh is not closed"
    for a in np.array(p):
        if abs(abs(winding_number(V, F, a)) - 1) > 1e-3:
            return f"Molecule.promolecule_density_isosurface: atom {a.tolist()} not enclosed"
    # the wrapper honours the requested isovalue: vertices sit on THAT level of the promolecule density
    from chmpy import PromoleculeDensity
    pro = PromoleculeDensity((np.array(n), np.array(p)))
    for iso in (0.01, 0.0005):
        try:
            mesh = m.promolecule_density_isosurface(separation=0.3, isovalue=iso)
        except Exception as ex:  # noqa
            return f"Molecule.promolecule_density_isosurface(isovalue={iso}) raised {type(ex).__name__}: {ex}"
        rv = pro.rho(np.asarray(mesh.vertices, dtype=np.float32))
        med = float(np.median(rv) / iso)
        if not 0.6 < med < 1.6:
            return (f"Molecule.promolecule_density_isosurface(isovalue={iso}, separation=0.3): the median density at the vertices is {med:.3g} times "
                    f"the requested isovalue — the surface is not the requested level")
    # a molecule moved in place after a surface was made: the next surface is around the atoms where they are now
    m2 = Molecule.from_arrays(np.array(n), np.array(p))
    m2.promolecule_density_isosurface(separation=0.5)
    for step, move in enumerate(((7.0, -5.0, 3.0), (-2.5, 0.0, 11.0))):
        m2.translate(np.array(move))
        if step == 1:
            m2.rotate(np.array([[0.0, -1.0, 0.0], [1.0, 0.0, 0.0], [0.0, 0.0, 1.0]]), origin=(0, 0, 0))
        mesh = m2.promolecule_density_isosurface(separation=0.5)
        V, F = np.asarray(mesh.vertices, float), np.asarray(mesh.faces)
        for a in np.asarray(m2.positions):
            if abs(abs(winding_number(V, F, a)) - 1) > 1e-3:
                return (f"Molecule.promolecule_density_isosurface after moving the molecule in place (step {step + 1}): atom at {a.tolist()} is not "
                        f"enclosed by the new surface — the surface is not in the molecule's current Cartesian frame")
    path = os.path.join(os.path.dirname(__import__("chmpy").__file__), "tests", "test_files", "acetic_acid.cif")
    c = Crystal.load(path)
    try:
        surfs = c.hirshfeld_surfaces(separation=0.5)
    except Exception as ex:  # noqa
        return f"Crystal.hirshfeld_surfaces raised {type(ex).__name__}: {ex}"
    mols = c.symmetry_unique_molecules()
    envs = c.molecule_environments(radius=6.0)
    if len(surfs) != len(mols):
        return f"Crystal.hirshfeld_surfaces: {len(surfs)} surfaces for {len(mols)} unique molecules"
    for mesh, mol, env in zip(surfs, mols, envs):
        V, F = np.asarray(mesh.vertices, float), np.asarray(mesh.faces)
        if mesh_topology(F.tolist()):
            return "Crystal.hirshfeld_surfaces: mesh is not closed/consistently oriented"
        for a in mol.positions:
            if abs(abs(winding_number(V, F, a)) - 1) > 1e-3:
                return f"Crystal.hirshfeld_surfaces: atom {a.tolist()} of the molecule is not enclosed by its Hirshfeld surface"
        for a in np.asarray(env[2])[:40]:
            if abs(winding_number(V, F, a)) > 1e-3:
                return f"Crystal.hirshfeld_surfaces: neighbouring atom {a.tolist()} is enclosed by the molecule's Hirshfeld surface"
    return None


def plan(ctx, budget):
    rng = ctx.rng
    for _ in range(40 if budget == "quick" else 400):
        yield ("field", rng.randrange(1 << 30))
    for _ in range(2 if budget == "quick" else 10):
        yield ("convergence", rng.randrange(1 << 30))
    for _ in range(12 if budget == "quick" else 200):
        yield ("noise", rng.randrange(1 << 30))
    yield ("quantised", 15)            # the listed finding's own input
    for _ in range(12 if budget == "quick" else 150):
        yield ("quantised", rng.randrange(1 << 30))
    for name in (("water", "acetic", "rod") if budget == "quick" else tuple(MOLS) * 3):
        yield ("promolecule:" + name, rng.randrange(1 << 30))
    yield ("wrappers", 0)
    yield ("big-grid", rng.randrange(1 << 30))


def run_case(c):
    kind, seed = c
    if kind == "field":
        return judge_field(seed)
    if kind == "convergence":
        return judge_convergence(seed), 100
    if kind == "quantised":
        return judge_quantised(seed), 100
    if kind == "noise":
        return judge_noise(seed), 100
    if kind == "big-grid":
        return judge_big_grid(seed), 100
    if kind.startswith("promolecule:"):
        return judge_promolecule(kind.split(":")[1], seed), 100
    return judge_wrappers(seed), 100


def search(ctx, budget):
    drift.report(ctx, ["mc/_mc_lewiner"])
    skipped = 0
    for c in plan(ctx, budget):
        try:
            r, nfaces = run_case(c)
        except Exception as ex:  # noqa
            r, nfaces = f"{c}: raised {type(ex).__name__}: {ex}", 0
        if r is None and nfaces == 0:
            skipped += 1
            continue
        ctx.case({"case": list(c)}, nontrivial=nfaces > 20)
        if r:
            key = "C06:grid-value-equals-level" if c[0] == "quantised" else f"C06:{c[0]}:" + r.split(":", 1)[1][:50].strip()
            ctx.fail(key, r, {"case": list(c)})
            if len(ctx.failures) >= 8:
                break
    ctx.note("fields_outside_quantifier_skipped", skipped)


def replay(ctx, obj):
    return run_case(tuple(obj["input"]["case"]))[0]
