"""C09 — shape descriptors of a molecule do not depend on its pose or atom ordering."""
import math
import os
import struct
import warnings

import numpy as np

from harness.common import core
from harness.common.core import rat
from harness.pyx import drift

ID = "C09"
LEAN_TARGETS = ["ChmpyVerif.Props.C09", "ChmpyVerif.Props.C09Real"]
T = "ChmpyVerif.Props.C09."
THEOREMS = [T + n for n in ("rebracket_mid", "swapBest_mid", "body_spec", "iterate_spec", "brent_noBracket_iff", "brent_noBracket_value",
                            "brent_converged", "brent_congr", "radius_perm", "radius_rigid", "brent_converged_root")]
TRUSTED = [
    "hand model Model/Brent.lean of brents_pro / brents_stock — ONE generic definition, proved for ℚ, executed with Float in the driver; the real "
    "code computes in float32 (radii compared to 2e-4 A)",
    "density/weight model of C05 (Model/Density.lean) for the scalar field along the ray; x/0 = 0 in ℚ coincides with the compiled code's behaviour "
    "(a ZeroDivisionError swallowed by a noexcept function returns 0)",
    "rotation invariance of the invariants given the coefficients is C08's theorems, exactness of the transform C07's; what is NOT proved is the "
    "size of the discretisation error of sampling a non-band-limited radial function — the oracle measures it and checks that it shrinks with l_max",
    "for a CONTINUOUS field a converged result lies within the tolerance of a true root (brent_converged_root, ℝ, intermediate value theorem); "
    "that the tabulated density / weight along a ray is continuous is not formalised",
    "the prebuilt _density extension is a faithful compilation of the .pyx reconstructed from its .c (drift guard)",
]
RULE = ("molecules: water, methanol, acetic acid, benzene-like ring, random 3-9 atom clusters of H/C/N/O/F/S/Cl; interior/exterior partitions; "
        "rigid motions (translation up to 30 A, random rotations), permutations; l_max in {4, 6, 8, 12}; surfaces promolecule / stockholder; "
        "property none / d_norm / esp; distinct = distinct (molecule, l_max, kind, motion seed); non-trivial = more than one atom")
MANIFEST = {
    "text": ("Proof (partial). Proved for the Brent root finder over ANY ordered field (ℚ for the executable model, ℝ for the analytic corollary), for every scalar function, bounds, tolerances and iteration "
             "budget: the loop maintains a bracket (invariant), 'not found' (-1, turned into ValueError) is returned exactly when the function has the "
             "same strict sign at both bounds, and a converged result is an exact zero or one end of a sign change narrower than xtol + tol|x| — hence, over ℝ and for a continuous field, within that distance of a true root; the "
             "result depends on the field only through its restriction to the ray, hence (with C05's density theorems) the radius is unchanged by any "
             "reordering of the atoms and by any rigid motion applied to atoms, origin and direction together. With C07 (exact transform) and C08 "
             "(rotation-invariant invariants) this gives pose independence up to the discretisation error, which is measured, not proved."),
    "note": "Trusted: Lean kernel + Mathlib; generic Brent definition instantiated at ℚ (proofs) and Float (driver); float32 not modelled; discretisation error by oracle.",
    "technique": "Lean 4 proof (loop invariant of the root finder, congruence with C05's invariance theorems) + correspondence on real radii + pose/permutation oracle",
}


def gen(ctx):
    pass


def bits2f(s):
    return struct.unpack("<d", struct.pack("<Q", int(s)))[0]


# ---------------------------------------------------------------------------
WATER = ([8, 1, 1], [[0, 0, 0.117], [0, 0.757, -0.467], [0, -0.757, -0.467]])
METHANOL = ([6, 8, 1, 1, 1, 1], [[0.0, 0.0, 0.0], [1.42, 0.0, 0.0], [-0.36, 1.03, 0.0], [-0.36, -0.51, 0.89], [-0.36, -0.51, -0.89], [1.74, 0.9, 0.0]])
ACETIC = ([6, 6, 8, 8, 1, 1, 1, 1], [[0.0, 0.0, 0.0], [1.5, 0.0, 0.0], [2.1, 1.1, 0.0], [2.2, -1.1, 0.0], [-0.4, 1.0, 0.0], [-0.4, -0.5, 0.9],
                                     [-0.4, -0.5, -0.9], [3.1, -0.9, 0.0]])
RING = ([6] * 6 + [1] * 6, [[1.39 * math.cos(k * math.pi / 3), 1.39 * math.sin(k * math.pi / 3), 0] for k in range(6)]
        + [[2.48 * math.cos(k * math.pi / 3), 2.48 * math.sin(k * math.pi / 3), 0] for k in range(6)])
TEMPLATES = {"water": WATER, "methanol": METHANOL, "acetic": ACETIC, "ring": RING}


def molecule(name, seed):
    if name in TEMPLATES:
        n, p = TEMPLATES[name]
        return np.array(n), np.array(p, dtype=float)
    nrng = np.random.default_rng(seed)
    k = int(nrng.integers(3, 10))
    els = nrng.choice([1, 6, 7, 8, 9, 16, 17], size=k)
    pos = [np.zeros(3)]
    while len(pos) < k:      # grow a connected, compact cluster
        base = pos[int(nrng.integers(0, len(pos)))]
        v = nrng.normal(size=3)
        cand = base + v / np.linalg.norm(v) * nrng.uniform(1.0, 1.6)
        if min(np.linalg.norm(cand - q) for q in pos) > 0.9:
            pos.append(cand)
    return np.array(els), np.array(pos)


def rotation(nrng):
    q, r = np.linalg.qr(nrng.normal(size=(3, 3)))
    q = q * np.sign(np.diag(r))
    if np.linalg.det(q) < 0:
        q[:, 0] = -q[:, 0]
    return q


def split_np(d, L):
    """N part and cubes of the P part (the P invariants are cube roots: compare what they are roots of)"""
    return d[:L + 1], d[L + 1:] ** 3


def close(d0, d1, L, rel):
    n0, p0 = split_np(d0, L)
    n1, p1 = split_np(d1, L)
    sn = max(np.abs(n0).max(), 1e-12)
    if np.abs(n0 - n1).max() > rel * sn:
        return f"N invariants differ by {np.abs(n0 - n1).max() / sn:.3g} (relative)"
    if p0.size:
        sp = max(np.abs(p0).max(), 1e-12)
        if np.abs(p0 - p1).max() > 3 * rel * sp:
            return f"P invariants (cubes) differ by {np.abs(p0 - p1).max() / sp:.3g} (relative)"
    return None


def err_of(d0, d1, L):
    n0, _ = split_np(d0, L)
    n1, _ = split_np(d1, L)
    return float(np.abs(n0 - n1).max() / max(np.abs(n0).max(), 1e-12))


# generic rotations move the sampling directions off the grid: the difference is the aliasing error of a radial function that
# is not band-limited (a few per cent for cusped stockholder surfaces at low l_max); grid-preserving rotations must be exact
ROT_TOL = {4: 0.12, 6: 0.10, 8: 0.08, 12: 0.05}


def grid_rotation(nrng, sht):
    """a rotation mapping the SHT grid onto itself: about z by a multiple of 2π/nphi, optionally followed by a half turn about x"""
    a = 2 * np.pi * int(nrng.integers(1, sht.nphi)) / sht.nphi
    Rz = np.array([[np.cos(a), -np.sin(a), 0], [np.sin(a), np.cos(a), 0], [0, 0, 1]])
    if nrng.random() < 0.5:
        return np.diag([1.0, -1.0, -1.0]) @ Rz
    return Rz


def describe(kind, sht, n, p, part, prop):
    from chmpy.shape import promolecule_density_descriptor, stockholder_weight_descriptor
    kw = {}
    if prop != "none":
        kw["with_property"] = prop
    if kind == "pro":
        return promolecule_density_descriptor(sht, n, p, **kw)
    ins = np.array(part, dtype=bool)
    return stockholder_weight_descriptor(sht, n[ins], p[ins], n[~ins], p[~ins], background=1e-5, bounds=(0.15, 12.0), **kw)


def judge(name, seed, L, kind, prop):
    from chmpy.shape import SHT
    warnings.filterwarnings("ignore")
    nrng = np.random.default_rng(seed)
    n, p = molecule(name, seed)
    part = None
    if kind == "stock":
        part = np.zeros(len(n), dtype=bool)
        part[: max(1, len(n) // 2)] = True
    sht = SHT(L)
    tag = f"{name} (seed {seed}) l_max={L} {kind} property={prop}"
    try:
        d0 = describe(kind, sht, n, p, part, prop)
    except ValueError as ex:
        return None, "no-surface"          # legitimately reported as an error; nothing to compare
    if not np.all(np.isfinite(d0)):
        return f"{tag}: descriptor contains non-finite values", "described"
    # translation
    t = nrng.normal(size=3) * 10
    d1 = describe(kind, sht, n, p + t, part, prop)
    r = close(d0, d1, L, 5e-3)
    if r:
        return f"{tag}: translation by {t.tolist()} changes the descriptor: {r}", "described"
    # permutation
    pi = nrng.permutation(len(n))
    d2 = describe(kind, sht, n[pi], p[pi], part[pi] if part is not None else None, prop)
    r = close(d0, d2, L, 5e-3)
    if r:
        return f"{tag}: reordering the atoms changes the descriptor: {r}", "described"
    # a reordering that keeps the SEQUENCE of elements (swaps atoms of the same element within the same part)
    pj = np.arange(len(n))
    for z in np.unique(n):
        for side in ((True, False) if part is not None else (None,)):
            idx = np.where((n == z) & ((part == side) if part is not None else True))[0]
            if len(idx) > 1:
                pj[idx] = idx[nrng.permutation(len(idx))]
    if not np.array_equal(pj, np.arange(len(n))):
        d5 = describe(kind, sht, n[pj], p[pj] + t, part[pj] if part is not None else None, prop)
        r = close(d0, d5, L, 5e-3)
        if r:
            return f"{tag}: swapping atoms of the same element (order {pj.tolist()}) changes the descriptor: {r}", "described"
    # a rotation that maps the sampling grid onto itself: no discretisation error at all
    c = p.mean(axis=0)
    if kind == "stock":
        c = p[part].mean(axis=0)       # the centre of the surface is the centroid of the interior atoms
    Rg = grid_rotation(nrng, sht)
    d4 = describe(kind, sht, n, (p - c) @ Rg.T + c, part, prop)
    r = close(d0, d4, L, 5e-3)
    if r:
        return f"{tag}: a grid-preserving rotation changes the descriptor: {r}", "described"
    # generic rotation: discretisation error only
    R = rotation(nrng)
    d3 = describe(kind, sht, n, (p - c) @ R.T + c, part, prop)
    e = err_of(d0, d3, L)
    if e > ROT_TOL[L]:
        return f"{tag}: rotation changes the N invariants by {e:.3g} (relative), beyond the discretisation error expected at this l_max", "described"
    return None, "described"


def judge_shrink(name, seed, kind):
    """the rotation error at l_max = 12 is smaller than at l_max = 4 (or both negligible)"""
    from chmpy.shape import SHT
    warnings.filterwarnings("ignore")
    nrng = np.random.default_rng(seed)
    n, p = molecule(name, seed)
    part = None
    if kind == "stock":
        part = np.zeros(len(n), dtype=bool)
        part[: max(1, len(n) // 2)] = True
    R = rotation(nrng)
    c = p.mean(axis=0)
    errs = {}
    for L in (4, 12):
        sht = SHT(L)
        try:
            a = describe(kind, sht, n, p, part, "none")
            b = describe(kind, sht, n, (p - c) @ R.T + c, part, "none")
        except ValueError:
            return None
        # compare the degrees both share
        errs[L] = float(np.abs(a[:5] - b[:5]).max() / max(np.abs(a[:5]).max(), 1e-12))
    if errs[12] > max(errs[4], 2e-3):
        return f"{name} (seed {seed}) {kind}: rotation error of the l<=4 N invariants grows with l_max: {errs[4]:.3g} at 4, {errs[12]:.3g} at 12"
    return None


def ref_weight(ni, pi_, ne, pe, bg, pts):
    """interior/(interior+exterior+background) from the tabulated atomic densities in float64; zero density beyond the table;
    nan where everything vanishes"""
    from chmpy.interpolate import density as D
    dom = np.asarray(D._DOMAIN, dtype=np.float64)

    def rho(nn, pp):
        out = np.zeros(len(pts))
        for z, q in zip(nn, pp):
            d2 = np.sum((pts - np.asarray(q, dtype=np.float64)) ** 2, axis=1) / (0.5291772108 ** 2)
            out += np.interp(d2, dom, np.asarray(D._RHO[int(z) - 1], dtype=np.float64), right=0.0)
        return out
    ra, rb = rho(ni, pi_), rho(ne, pe)
    with np.errstate(invalid="ignore", divide="ignore"):
        return ra / (ra + rb + bg)


def judge_radial(name, seed, kind):
    """the radii the descriptor is built from solve the isovalue equation; no surface inside the bounds => ValueError"""
    from chmpy import PromoleculeDensity, StockholderWeight
    from chmpy.interpolate._density import sphere_promolecule_radii, sphere_stockholder_radii
    from chmpy.shape import SHT, promolecule_density_descriptor, stockholder_weight_descriptor
    warnings.filterwarnings("ignore")
    n, p = molecule(name, seed)
    sht = SHT(4)
    x, y, z = sht.grid_cartesian
    g = np.c_[x.flatten(), y.flatten(), z.flatten()].astype(np.float32)
    o = np.mean(p, axis=0, dtype=np.float32) if True else None
    tag = f"{name} (seed {seed}) {kind}"
    if kind == "pro":
        pro = PromoleculeDensity((n, p))
        r = sphere_promolecule_radii(pro.dens, o, g, 0.4, 20.0, 1e-12, 30, 0.0002)
        if np.any(r < 0):
            return f"{tag}: no promolecule surface found between 0.4 and 20 A"
        v = pro.rho((o + r[:, None] * g).astype(np.float32))
        if np.abs(v - 0.0002).max() > 2e-6:
            return f"{tag}: radial function does not solve rho = 0.0002 (max residual {np.abs(v - 0.0002).max():.3g})"
        partial = []
        if r.max() - r.min() > 0.3:
            partial = [(0.4, float(0.5 * (r.min() + r.max()))), (float(0.5 * (r.min() + r.max())), 20.0)]   # found in SOME directions only
        # the surface leaves the bounds along a single grid direction only (the largest / the smallest radius)
        rs = np.sort(r)
        if rs[-1] - rs[-2] > 2e-3:
            partial.append((0.4, float(0.5 * (rs[-1] + rs[-2]))))
        if rs[1] - rs[0] > 2e-3 and rs[0] > 0.45:
            partial.append((float(0.5 * (rs[0] + rs[1])), 20.0))
        if rs[-1] - rs[-4] > 2e-3:
            partial.append((0.4, float(rs[-4] + 0.5 * (rs[-3] - rs[-4]) if rs[-3] - rs[-4] > 2e-3 else rs[-1] - 1e-3)))
        for bounds in [(0.4, 0.8), (float(r.max()) + 1.0, 20.0)] + partial:
            try:
                promolecule_density_descriptor(sht, n, p, bounds=bounds)
                return f"{tag}: bounds {bounds} do not contain the surface (radii {r.min():.2f}..{r.max():.2f}) but a descriptor was returned"
            except ValueError:
                pass
    else:
        k = max(1, len(n) // 2)
        nrng_ = np.random.default_rng(seed)
        # sparse exteriors: in some directions there is no 0.5 surface at all; an independent float64 evaluation of
        # interior/(interior+exterior+background) (tabulated densities, zero beyond the table) decides what a surface point is
        variants = [(n[:k], p[:k], n[k:], p[k:])]
        far = p.mean(axis=0) + np.array([1.0, 0.3, -0.2]) / np.linalg.norm([1.0, 0.3, -0.2]) * (np.linalg.norm(p - p.mean(axis=0), axis=1).max() + 2.4)
        for z in (2, 11, 17, 8):
            variants.append((n, p, np.array([z]), far[None, :]))
        variants.append((n, p, n.copy(), p + np.array([3.4, 0.2, 0.1]) + (p.max(axis=0) - p.min(axis=0)) * np.array([1.0, 0, 0])))
        # diffuse atoms (alkali / alkaline-earth metals): their tabulated density at the end of the table (10.58 A) is still far above a
        # tiny background, so away from the single neighbour the weight stays near 1 up to the table end and drops to 0 there
        zd = int(nrng_.choice([3, 11, 19, 20, 37]))
        variants.append((np.array([zd]), np.zeros((1, 3)), np.array([8]), np.array([[3.0, 0.0, 0.0]])))
        for (ni, pi_, ne, pe) in variants:
            for bg in (0.0, 1e-5, 1e-12, 1e-9):       # also backgrounds far below the tabulated density at the end of the table
                o2 = np.mean(pi_, axis=0, dtype=np.float32)
                try:
                    stockholder_weight_descriptor(sht, ni, pi_, ne, pe, background=bg)
                except ValueError:
                    continue
                # a descriptor was returned: every radius it was built from must lie on the isosurface
                s_ = StockholderWeight.from_arrays(ni, pi_, ne, pe, background=bg)
                r = sphere_stockholder_radii(s_.s, o2, g, 0.1, 20.0, 1e-7, 30, 0.5)
                pts = (o2 + r[:, None] * g).astype(np.float64)
                w = ref_weight(ni, pi_, ne, pe, bg, pts)
                ok = np.abs(w - 0.5) < 5e-3
                if not np.all(ok):
                    bad = int(np.argmax(~ok))
                    return (f"{tag} interior {list(map(int, ni))} exterior {list(map(int, ne))} background={bg}: a descriptor was returned although along grid "
                            f"direction {bad} the point at r={r[bad]:.3f} has weight {w[bad]!r}, not 0.5 (no isosurface inside the bounds)")
    return None


def judge_molecule_api(name, seed):
    """Molecule.shape_descriptors / atomic_shape_descriptors under a rigid motion and a permutation"""
    from chmpy import Molecule
    warnings.filterwarnings("ignore")
    nrng = np.random.default_rng(seed)
    n, p = molecule(name, seed)
    R, t = rotation(nrng), nrng.normal(size=3) * 5
    pi = nrng.permutation(len(n))
    m0 = Molecule.from_arrays(n, p)
    m1 = Molecule.from_arrays(n[pi], (p @ R.T + t)[pi])
    tag = f"{name} (seed {seed})"
    d0, d1 = m0.shape_descriptors(l_max=6), m1.shape_descriptors(l_max=6)
    e = err_of(d0, d1, 6)
    if e > ROT_TOL[6]:
        return f"{tag}: Molecule.shape_descriptors changes by {e:.3g} under a rigid motion + permutation"
    # an explicit origin moves with the molecule: described about one of its atoms, before and after a pure translation
    k0 = int(nrng.integers(0, len(n)))
    mT = Molecule.from_arrays(n, p + t)
    dO, dT = m0.shape_descriptors(l_max=6, origin=p[k0].copy()), mT.shape_descriptors(l_max=6, origin=(p + t)[k0].copy())
    e = err_of(dO, dT, 6)
    if e > 5e-3:
        return f"{tag}: Molecule.shape_descriptors(origin=atom {k0}) changes by {e:.3g} when the molecule and the origin are translated together by {t.tolist()}"
    if err_of(dO, d0, 6) < 1e-9 and np.linalg.norm(p[k0] - p.mean(axis=0)) > 0.3:
        return f"{tag}: Molecule.shape_descriptors ignores the requested origin (atom {k0}): same descriptor as about the default origin"
    try:
        a0, a1 = m0.atomic_shape_descriptors(l_max=4), m1.atomic_shape_descriptors(l_max=4)
    except Exception as ex:  # noqa   (with the default background every atom of a compact molecule has a closed surface)
        return f"{tag}: Molecule.atomic_shape_descriptors raised {type(ex).__name__}: {ex}"
    for j, i in enumerate(pi):          # atom i of m0 is atom j of m1
        e = err_of(a0[i], a1[j], 4)
        if e > ROT_TOL[4]:
            return f"{tag}: atomic_shape_descriptors of atom {i} changes by {e:.3g} under a rigid motion + permutation (atom order dependence)"
    return None


def judge_long_molecule(seed):
    """an elongated molecule (a C12H2 rod, 16 A) along a coordinate axis and along the body diagonal: the same molecule, so it is described in
    both poses (default search bounds) and the descriptors agree up to the discretisation error"""
    from chmpy import Molecule
    warnings.filterwarnings("ignore")
    nrng = np.random.default_rng(seed)
    nc = 12                                    # C12H2, 16 A long
    z = np.array([1] + [6] * nc + [1])
    x = np.array([-1.06] + [1.28 * i for i in range(nc)] + [1.28 * (nc - 1) + 1.06])
    p0 = np.c_[x, np.zeros(nc + 2), np.zeros(nc + 2)] + nrng.normal(size=3)
    d = np.array([1.0, 1.0, 1.0]) / np.sqrt(3)
    a = np.cross([1.0, 0, 0], d)
    sa, ca = np.linalg.norm(a), d[0]
    K = np.array([[0, -a[2], a[1]], [a[2], 0, -a[0]], [-a[1], a[0], 0]]) / sa
    R = np.eye(3) + sa * K + (1 - ca) * K @ K          # turns the x axis onto the body diagonal
    descs = []
    for name, pp in (("along x", p0), ("along (1,1,1)", p0 @ R.T), ("along (1,-1,1), shifted", (p0 @ R.T) * np.array([1, -1, 1]) @ np.eye(3) + np.array([3.0, -2.0, 5.0]))):
        try:
            descs.append(Molecule.from_arrays(z, pp).shape_descriptors(l_max=8))
        except Exception as ex:  # noqa
            return f"C12H2 rod {name}: Molecule.shape_descriptors raised {type(ex).__name__}: {ex} — the same molecule is described in another pose"
    for k in (1, 2):
        e = err_of(descs[0], descs[k], 8)
        if e > ROT_TOL[8]:
            return f"C12H2 rod: Molecule.shape_descriptors changes by {e:.3g} between the pose along x and pose #{k}"
    return None


def judge_crystal(fname, seed):
    """molecular shape descriptors in the crystal: origin shift of the whole structure (P1) leaves the set of descriptors unchanged"""
    from chmpy.crystal import AsymmetricUnit, Crystal, SpaceGroup
    warnings.filterwarnings("ignore")
    nrng = np.random.default_rng(seed)
    path = os.path.join(os.path.dirname(__import__("chmpy").__file__), "tests", "test_files", fname)
    c = Crystal.load(path)
    p1 = c.as_P1()
    d0 = p1.molecular_shape_descriptors(l_max=4)
    shift = nrng.uniform(0, 1, size=3)
    asym = p1.asymmetric_unit
    pi = nrng.permutation(len(asym.elements))
    els = [asym.elements[i] for i in pi]
    asym2 = AsymmetricUnit(els, (asym.positions + shift)[pi])
    c2 = Crystal(p1.unit_cell, SpaceGroup(1), asym2)
    d1 = c2.molecular_shape_descriptors(l_max=4)
    if d0.shape != d1.shape:
        return f"{fname}: {d0.shape[0]} unique molecules before and {d1.shape[0]} after an origin shift + atom permutation"
    # the same infinite structure described in another, strongly oblique cell of the same lattice (a' = a+b, c' = c+b) and with the origin
    # moved: every molecule has the same neighbours, so the set of descriptors is the same
    M = np.array([[1, 1, 0], [0, 1, 0], [0, 1, 1]], dtype=float)
    from chmpy.crystal import UnitCell
    uc3 = UnitCell(M @ np.asarray(p1.unit_cell.direct, dtype=float))
    # first the environments themselves (cheap, exact): the same molecules have the same number of neighbour atoms in every description
    envA = sorted(len(e_[1]) for e_ in p1.molecule_environments(radius=3.8))
    for _ in range(16):
        cart3 = p1.to_cartesian(np.asarray(asym.positions, dtype=float) + nrng.uniform(0, 1, size=3))
        c3 = Crystal(uc3, SpaceGroup(1), AsymmetricUnit(list(asym.elements), uc3.to_fractional(cart3)))
        envB = sorted(len(e_[1]) for e_ in c3.molecule_environments(radius=3.8))
        if envA != envB:
            return (f"{fname}: described in the cell (a+b, b, c+b) with the origin moved, the molecules have {envB} neighbour atoms within 3.8 A instead of "
                    f"{envA}: the crystal environment of a molecule (and with it its shape descriptor) depends on the description of the lattice")
    dA38 = p1.molecular_shape_descriptors(l_max=4, radius=3.8)
    for rad in (3.8,) * 2:          # two more origin shifts: where the molecules sit relative to the cell faces decides which cells are searched
        cart3 = p1.to_cartesian(np.asarray(asym.positions, dtype=float) + nrng.uniform(0, 1, size=3))
        c3 = Crystal(uc3, SpaceGroup(1), AsymmetricUnit(list(asym.elements), uc3.to_fractional(cart3)))
        dA = dA38
        dB = c3.molecular_shape_descriptors(l_max=4, radius=rad)
        if dA.shape != dB.shape:
            return f"{fname}: {dA.shape[0]} unique molecules in the reduced cell and {dB.shape[0]} in the sheared description of the same lattice"
        used = set()
        for a in dA:
            best = min((j for j in range(len(dB)) if j not in used), key=lambda j: err_of(a, dB[j], 4))
            if err_of(a, dB[best], 4) > 5e-4:
                return (f"{fname}: molecular shape descriptor (radius {rad}) changes by {err_of(a, dB[best], 4):.3g} when the same structure is described in the "
                        f"cell (a+b, b, c+b) with another origin — the molecule's environment is not the same set of atoms")
            used.add(best)
    # the same crystal object asked again with another environment radius answers like a crystal that is asked for the first time
    for rad in (3.8, 9.0):
        again = p1.molecular_shape_descriptors(l_max=4, radius=rad)
        fresh = Crystal.load(path).as_P1().molecular_shape_descriptors(l_max=4, radius=rad)
        if again.shape != fresh.shape or np.abs(again - fresh).max() > 1e-6:
            return (f"{fname}: molecular_shape_descriptors(radius={rad}) on a crystal already described with another radius differs from a fresh "
                    f"crystal's by {np.abs(again - fresh).max():.3g}")
    # match as multisets
    used = set()
    for a in d0:
        best = min((j for j in range(len(d1)) if j not in used), key=lambda j: err_of(a, d1[j], 4))
        if err_of(a, d1[best], 4) > 2e-2:
            return f"{fname}: molecular shape descriptor changes by {err_of(a, d1[best], 4):.3g} under origin shift {shift.tolist()} + atom permutation"
        used.add(best)
    return None


# ---------------------------------------------------------------------------
def correspond(ctx):
    from chmpy import PromoleculeDensity, StockholderWeight
    from chmpy.interpolate._density import sphere_promolecule_radii, sphere_stockholder_radii
    from chmpy.shape import SHT
    from harness.props.c05 import dump_table
    warnings.filterwarnings("ignore")
    rng = ctx.rng
    path = dump_table([1, 6, 7, 8, 9, 16, 17])
    lines, expect = [f"table {path}"], [None]
    sht = SHT(3)
    x, y, z = sht.grid_cartesian
    g = np.c_[x.flatten(), y.flatten(), z.flatten()].astype(np.float32)
    names = list(TEMPLATES) + ["random"] * (4 if not ctx.thorough else 20)
    for name in names:
        seed = rng.randrange(1 << 30)
        n, p = molecule(name, seed)
        p32 = p.astype(np.float32)
        for kind in ("pro", "stock"):
            for (l, u) in ((0.4, 20.0), (0.4, 1.0), (0.15, 6.0)):
                if kind == "pro":
                    o = np.mean(p32, axis=0, dtype=np.float32)
                    iso, tol, bg = 0.0002, 1e-12, 0.0
                    A, B = (n, p32), (n[:0], p32[:0])
                    pro = PromoleculeDensity((n, p32))
                    r = sphere_promolecule_radii(pro.dens, o, g, l, u, tol, 30, iso)
                else:
                    k = max(1, len(n) // 2)
                    o = np.mean(p32[:k], axis=0, dtype=np.float32)
                    iso, tol, bg = 0.5, 1e-7, 1e-5
                    A, B = (n[:k], p32[:k]), (n[k:], p32[k:])
                    s = StockholderWeight.from_arrays(A[0], A[1], B[0], B[1], background=bg)
                    r = sphere_stockholder_radii(s.s, o, g, l, u, tol, 30, iso)
                f32 = lambda v: rat(float(np.float32(v)))
                atoms = lambda a: " ".join(f"{int(zz)} " + " ".join(rat(float(c)) for c in q) for zz, q in zip(*a))
                lines.append(f"radii {kind} {f32(iso)} {f32(l)} {f32(u)} {f32(tol)} 30 {f32(bg)} | {atoms(A)} | {atoms(B)} | "
                             + " ".join(rat(float(c)) for c in o) + " | " + " ".join(rat(float(c)) for c in g.flatten()))
                expect.append((np.array(r), {"molecule": name, "seed": seed, "kind": kind, "bounds": [l, u]}))
    try:
        outs = core.run_driver("C09", lines)
    except core.TieBroken as ex:
        ctx.tie_broken("driver C09", str(ex))
        return
    if len(outs) != len(lines):
        ctx.tie_broken("driver C09", f"{len(outs)} lines for {len(lines)} inputs")
        return
    stats = {"nobracket": 0, "converged": 0, "exhausted": 0}
    for e, m in zip(expect, outs):
        if e is None:
            continue
        want, inp = e
        toks = m.split()
        got = np.array([bits2f(t) for t in toks[0::2]])
        st = toks[1::2]
        for s_ in st:
            stats[s_] = stats.get(s_, 0) + 1
        if got.shape != want.shape:
            ctx.disagree("radii", inp, m[:80], str(want[:4]))
            continue
        for i in range(len(want)):
            if st[i] == "exhausted":
                continue        # both unconverged: the values need not agree (counted in the evidence)
            if (want[i] < 0) != (got[i] < 0) or (want[i] >= 0 and abs(want[i] - got[i]) > 2e-4):
                ctx.disagree("radius", dict(inp, direction=i), repr(float(got[i])) + " " + st[i], repr(float(want[i])))
                break
    ctx.note("brent_status_counts", stats)
    ctx.count("correspondence_lines", len(lines))
    try:
        os.unlink(path)
    except OSError:
        pass


def plan(ctx, budget):
    rng = ctx.rng
    names = list(TEMPLATES) + ["random"] * (3 if budget == "quick" else 12)
    for name in names:
        for kind in ("pro", "stock"):
            if kind == "stock" and name == "water":
                pass
            for L in ((4, 8) if budget == "quick" else (4, 6, 8, 12)):
                props = ("none",) if (budget == "quick" and L != 4) else ("none", "d_norm", "esp")
                for prop in props:
                    yield ("pose", name, rng.randrange(1 << 30), L, kind, prop)
            yield ("radial", name, rng.randrange(1 << 30), 0, kind, "none")
            if budget != "quick" or name in ("acetic", "random"):
                yield ("shrink", name, rng.randrange(1 << 30), 0, kind, "none")
        yield ("molecule-api", name, rng.randrange(1 << 30), 0, "-", "none")
    yield ("long-molecule", "C8H2", rng.randrange(1 << 30), 0, "-", "none")
    for fname in ("acetic_acid.cif",) if budget == "quick" else ("acetic_acid.cif", "iceII.cif"):
        yield ("crystal", fname, rng.randrange(1 << 30), 0, "-", "none")


OUTCOMES = {}


def run_case(c):
    if c[0] == "transform-exact":
        from harness.props import c07
        return c07.judge(c[1], c[2])
    what, name, seed, L, kind, prop = c
    if what == "pose":
        r, outcome = judge(name, seed, L, kind, prop)
        OUTCOMES[outcome] = OUTCOMES.get(outcome, 0) + 1
        return r
    if what == "radial":
        return judge_radial(name, seed, kind)
    if what == "shrink":
        return judge_shrink(name, seed, kind)
    if what == "molecule-api":
        return judge_molecule_api(name, seed)
    if what == "long-molecule":
        return judge_long_molecule(seed)
    return judge_crystal(name, seed)


def search(ctx, budget):
    drift.report(ctx, ["interpolate/_density"])
    # the descriptors rest on the transform being exact at the l_max they are computed with (C07's statement, re-checked here for
    # the degrees this property quantifies over)
    from harness.props import c07
    for L in (4, 5, 6, 8, 10, 12):
        seed = ctx.rng.randrange(1 << 30)
        ctx.case({"case": ["transform-exact", L, seed]})
        try:
            r = c07.judge(L, seed)
        except Exception as ex:  # noqa
            r = f"L={L}: raised {type(ex).__name__}: {ex}"
        if r:
            ctx.fail(f"C09:transform:l_max={L}", f"the transform the descriptors are built on is not exact at l_max={L}: {r}", {"case": ["transform-exact", L, seed]})
    devnull = os.open(os.devnull, os.O_WRONLY)
    saved = os.dup(2)
    os.dup2(devnull, 2)         # the compiled kernel prints 'Exception ignored' for every swallowed ZeroDivisionError
    try:
        for c in plan(ctx, budget):
            ctx.case({"case": list(c)}, nontrivial=c[1] != "water" or True)
            try:
                r = run_case(c)
            except Exception as ex:  # noqa
                r = f"{c}: raised {type(ex).__name__}: {ex}"
            if r:
                ctx.fail(f"C09:{c[0]}:{c[1]}:{c[4]}:" + r.split(":", 1)[1][:40].strip(), r, {"case": list(c)})
                if len(ctx.failures) >= 8:
                    break
    finally:
        ctx.note("pose_case_outcomes", dict(OUTCOMES))
        os.dup2(saved, 2)
        os.close(devnull)


def replay(ctx, obj):
    return run_case(tuple(obj["input"]["case"]))
