"""C16 — saving a molecule to XYZ or SDF and loading it back reproduces it."""
import os
import shutil
import tempfile
from fractions import Fraction as F

import numpy as np

from harness.common import core
from harness.common.core import pct, rat, unpct
from harness.common.refdata import SYMBOLS
from harness.gen import molio as gen_molio

ID = "C16"
LEAN_TARGETS = ["ChmpyVerif.Props.C16"]
T = "ChmpyVerif.Props.C16."
THEOREMS = [T + n for n in ("atom_layout_agrees", "counts_layout_agrees", "bond_layout_agrees", "v2000_columns", "coord_map_correct",
                            "count_fields_no_space_flag", "slice_render_fixed", "fmtInt_width", "parseInt_fmtInt", "fmtFixed_width",
                            "parseFloat_fmtFixed", "fmtFixed_error", "xyz_fields_separated", "splitWs_blank_insensitive")]
TRUSTED = [
    "translator harness/gen/molio.py (AST of the f-strings of to_atom_line/to_bond_line/to_counts_line, the _*_FIELDS tables, the positions[:,k] "
    "sources in Molecule.to_sdf_string, the XYZ atom line) -> Gen/MolIO.lean",
    "hand model Model/MolIO.lean of format(x,'w.pf') as correct rounding of the exact value, format(n,'wd'), format(s,'ws'), float()/int() on plain "
    "decimal text, slicing by cumulative widths, str.split(); record splitting on '$$$$' and file dispatch are covered by the oracle only",
]
RULE = ("seeded molecules over Z=1..103 with 1..200 atoms, coordinates spanning the format range (|x|<1e4 for SDF 10.4f, <1e6 for XYZ), values on "
        "rounding boundaries, zero and negative zero, with and without perceived bonds; line-level model/implementation correspondence + whole-file "
        "save/load round trips, multi-record SDF, V2000 column positions, XYZ case/blank variants. distinct = distinct molecule/line; "
        "non-trivial = more than one atom or a non-zero coordinate")
MANIFEST = {
    "text": ("Proof. Writer format specs, reader field tables and the coordinate->column map are REGENERATED from sdf.py/molecule.py each run; the kernel "
             "checks that every parsed field is written at exactly the columns it is read from (counts, atom, bond lines), that x,y,z,symbol, counts and "
             "V2000 sit on the standard V2000 columns, that x/y/z come from positions[:,0/1/2] and that no 3-digit count field carries a sign slot. "
             "General theorems: slicing a line rendered from fixed-width fields returns the fields; format(n,'wd') has width w and int() reads it back "
             "for all n < 10^w; format(x,'w.pf') has width w, float() reads back the correctly rounded value, within 10^-p/2 of x, for all x that fit; "
             "XYZ fields are blank-separated and tokenisation ignores the amount of blank space."),
    "note": ("Trusted: Lean kernel; the f-string/AST translator; the number-formatting model (CPython's correctly rounded 'f' format, plain decimal "
             "float()/int()); record splitting, file dispatch and Element lookup (C17) are tied by the round-trip oracle."),
    "technique": "Lean 4 proof (decide over regenerated format tables + general fixed-width/decimal lemmas) + line-level correspondence and file round-trip oracle",
}


def gen(ctx):
    gen_molio.generate()


def random_coord(rng, lim):
    if lim == "sdf-wide":
        # the whole width of the SDF 10.4f field: -9999.9999 .. 99999.9999
        return rng.choice([rng.uniform(-9999.9, 99999.9), rng.uniform(9999.99995, 99999.99), rng.uniform(-9999.99, -999.9), 99999.9999, 10000.0, 9999.99996])
    k = rng.random()
    if k < 0.15:
        return rng.choice([0.0, -0.0, 0.00005, -0.00005, 0.00015, 1.00005, -2.5, 0.5, 9999.9999 if lim >= 1e4 else 99.5, -999.99995, 1e-13, -1e-13, 123.45675])
    if k < 0.2:
        # magnitudes around the last decimals of the 12-decimal XYZ field
        return rng.choice([-1, 1]) * rng.uniform(1, 9.9) * 10.0 ** rng.randint(-13, -8)
    if k < 0.5:
        return round(rng.uniform(-20, 20), rng.choice([1, 3, 4, 6, 12]))
    return rng.uniform(-lim, lim) * rng.choice([1, 1e-1, 1e-2, 1e-3])


def random_molecule(rng, nmax, lim):
    from chmpy import Molecule
    from chmpy.core.element import Element
    n = rng.choice([1, 2, 3, 5, 8, 13, 40, 99, 100, 101, 150, 200]) if rng.random() < 0.5 else rng.randint(1, nmax)
    zs = [rng.randint(1, 103) for _ in range(n)]
    pos = np.array([[random_coord(rng, lim) for _ in range(3)] for _ in range(n)])
    kw = {}
    r = rng.random()
    if r < 0.25:
        kw["name"] = ""                      # blank title line in the SDF record
    elif r < 0.5:
        kw["name"] = rng.choice(["water", "my molecule", "X-1 (2)"])
    return Molecule([Element[z] for z in zs], pos, **kw), zs, pos


# ---- line-level correspondence ---------------------------------------------------
def q(x):
    return rat(F(float(x)))


def correspond(ctx):
    from chmpy.fmt import sdf
    from chmpy import Molecule
    from chmpy.core.element import Element
    from chmpy.fmt.xyz_file import parse_xyz_string
    rng = ctx.rng
    cases = []
    n = 400 if not ctx.thorough else 6000
    for _ in range(n):
        x, y, z = (random_coord(rng, 9e3) + 0.0 for _ in range(3))   # -0.0 has no rational counterpart: oracle only
        sym = rng.choice(SYMBOLS)
        try:
            l = sdf.to_atom_line(x=x, y=y, z=z, symbol=sym)
            a = sdf.parse_atom_lines([l])
            out = f"{pct(l)} | {q(a['x'][0])} {q(a['y'][0])} {q(a['z'][0])} {pct(str(a['symbol'][0]))}"
        except Exception as ex:  # noqa
            out = "err " + type(ex).__name__
        cases.append((f"atomline {q(x)} {q(y)} {q(z)} {pct(sym)}", out, ["atomline", x, y, z, sym]))
        a_, b_ = rng.choice([1, 9, 10, 99, 100, 101, 200, 999, rng.randint(1, 200)]), rng.choice([0, 5, 99, 100, 420, 999, rng.randint(0, 400)])
        try:
            l = sdf.to_counts_line(atoms=a_, bonds=b_)
            c = sdf.parse_counts_line(l)
            out = f"{pct(l)} | {c['atoms']} {c['bonds']} {pct(c['version'])}"
        except Exception as ex:  # noqa
            out = "err " + type(ex).__name__
        cases.append((f"counts {a_} {b_}", out, ["counts", a_, b_]))
        try:
            l = sdf.to_bond_line(left=a_, right=max(1, b_ % 201))
            c = sdf.parse_bond_lines([l])
            out = f"{pct(l)} | {c['left'][0]} {c['right'][0]}"
        except Exception as ex:  # noqa
            out = "err " + type(ex).__name__
        cases.append((f"bondline {a_} {max(1, b_ % 201)}", out, ["bondline", a_, b_]))
        x, y, z = (random_coord(rng, 9e5) + 0.0 for _ in range(3))
        try:
            m = Molecule([Element[sym]], np.array([[x, y, z]]))
            l = m.to_xyz_string(header=False)
            els, pos = parse_xyz_string("1\n\n" + l)
            out = f"{pct(l)} | {pct(els[0].symbol)} {q(pos[0][0])} {q(pos[0][1])} {q(pos[0][2])}"
        except Exception as ex:  # noqa
            out = "err " + type(ex).__name__
        cases.append((f"xyzline {pct(sym)} {q(x)} {q(y)} {q(z)}", out, ["xyzline", sym, x, y, z]))
    try:
        outs = core.run_driver("C16", [c[0] for c in cases])
    except core.TieBroken as ex:
        ctx.tie_broken("driver C16", str(ex))
        return
    if len(outs) != len(cases):
        ctx.tie_broken("driver C16", f"{len(outs)} lines for {len(cases)} inputs")
        return

    def same(m, i):
        """text part exactly; parsed numbers to 1e-9 relative (the model keeps the exact decimal, float() the nearest double)"""
        if " | " not in m or " | " not in i:
            return m.strip() == i.strip()
        mt, mv = m.split(" | ", 1)
        it, iv = i.split(" | ", 1)
        if mt != it:
            return False
        a, b = mv.split(), iv.split()
        if len(a) != len(b):
            return False
        for x, y in zip(a, b):
            try:
                fx, fy = F(x), F(y)
                if abs(fx - fy) > F(1, 10**9) * max(1, abs(fx)):
                    return False
            except (ValueError, ZeroDivisionError):
                if x != y:
                    return False
        return True

    for (line, impl_out, inp), m in zip(cases, outs):
        if not same(m, impl_out):
            ctx.disagree(line.split(" ", 1)[0], inp, m.strip(), impl_out.strip())
    ctx.count("correspondence_lines", len(cases))


# ---- oracle: whole files ------------------------------------------------------------
def check_molecule(m, zs, pos, rng, tmp, with_bonds):
    from chmpy import Molecule
    from chmpy.fmt.sdf import parse_sdf_contents
    n = len(zs)
    if with_bonds:
        m.guess_bonds()
    # XYZ
    stem = rng.choice(["m", "M", "water.opt", "conf.1", "a b", "x.d.e"])       # the format is chosen by the LAST suffix
    p = os.path.join(tmp, stem + rng.choice([".xyz", ".XYZ", ".xyz"]))
    m.save(p)
    m2 = Molecule.load(p)
    if [int(z) for z in m2.atomic_numbers] != zs:
        return "xyz: elements differ after save/load"
    if not np.allclose(m2.positions, pos, rtol=0, atol=0.51e-12 + 1e-16 * np.abs(pos).max()):
        return f"xyz: coordinates differ by {np.abs(m2.positions - pos).max():.3g} (> 1e-12 precision of the format)"
    # the format named explicitly (fmt=) decides, for writing and for reading alike, whatever the file is called
    for name, fmt in (("as_xyz.sdf", "xyz"), ("as_xyz.dat", "xyz"), ("noext", ".xyz"), ("coord", "xyz"), ("control", "xyz")) + ((("as_sdf.xyz", "sdf"), ("coord", "sdf")) if (pos.max() < 99999.99994 and pos.min() > -9999.99994) else ()):
        pf = os.path.join(tmp, name)
        try:
            m.save(pf, fmt=fmt)
            mf = Molecule.load(pf, fmt=fmt)
        except Exception as ex:  # noqa
            return f"save/load of {name!r} with fmt={fmt!r} raised {type(ex).__name__}: {ex}"
        mf = mf if isinstance(mf, Molecule) else (mf[0] if len(mf) == 1 else None)
        if mf is None or [int(z) for z in mf.atomic_numbers] != zs or not np.allclose(mf.positions, pos, rtol=0, atol=(0.50001e-4 if "sdf" in fmt else 0.51e-12 + 1e-16 * np.abs(pos).max())):
            return f"save/load of {name!r} with fmt={fmt!r} does not reproduce the molecule"
    # case / blank variants of the same text
    txt = m.to_xyz_string()
    lines = txt.splitlines()
    var = lines[:2] + [rng.choice([l.upper(), l.lower(), l]).replace(" ", rng.choice([" ", "  ", "\t", "   "]), 1 if rng.random() < 0.5 else 3) for l in lines[2:]]
    var = [("  " + l if rng.random() < 0.3 else l) + ("  " if rng.random() < 0.3 else "") for l in var[:2]][:0] + var
    m3 = Molecule.from_xyz_string("\n".join(var))
    if [int(z) for z in m3.atomic_numbers] != zs or not np.allclose(m3.positions, m2.positions, rtol=0, atol=1e-12):
        return "xyz: reading is not insensitive to letter case / runs of blanks"
    # SDF (coordinates within the 10.4f range only)
    if (pos.max() < 99999.99994 and pos.min() > -9999.99994):
        p = os.path.join(tmp, stem + rng.choice([".sdf", ".SDF", ".sdf"]))
        m.save(p)
        text = open(p).read()
        L = text.splitlines()
        cl = L[3]
        if not (cl[0:3].strip() == str(n) and cl[3:6].strip().isdigit() and cl[34:39] == "V2000" and len(cl) == 39):
            return f"sdf: counts line not on V2000 columns: {cl!r}"
        nb = int(cl[3:6])
        for i, al in enumerate(L[4:4 + n]):
            try:
                ok = (abs(float(al[0:10]) - pos[i, 0]) <= 0.50001e-4 and abs(float(al[10:20]) - pos[i, 1]) <= 0.50001e-4
                      and abs(float(al[20:30]) - pos[i, 2]) <= 0.50001e-4 and al[30] == " " and al[31:34].strip() == SYMBOLS[zs[i] - 1] and len(al) == 69)
            except Exception:  # noqa
                ok = False
            if not ok:
                return f"sdf: atom line {i} not on V2000 columns (x 0-9, y 10-19, z 20-29, symbol 31-33): {al!r}"
        for bl in L[4 + n:4 + n + nb]:
            if not (len(bl) == 21 and 1 <= int(bl[0:3]) <= n and 1 <= int(bl[3:6]) <= n):
                return f"sdf: bond line not on V2000 columns: {bl!r}"
        if L[4 + n + nb].strip() not in ("M  END", "") or "M  END" not in L[4 + n + nb:4 + n + nb + 2]:
            return "sdf: 'M  END' does not follow the bond block"
        got = Molecule.load(p)
        got = got if isinstance(got, Molecule) else (got[0] if len(got) == 1 else None)
        if got is None:
            return "sdf: load did not return exactly one molecule"
        if [int(z) for z in got.atomic_numbers] != zs:
            return "sdf: elements differ after save/load"
        if not np.allclose(got.positions, pos, rtol=0, atol=0.50001e-4):
            return f"sdf: coordinates differ by {np.abs(got.positions - pos).max():.3g} (> 1e-4 precision of the format)"
        # several records
        k = rng.randint(2, 4)
        subs = []
        for j in range(k):
            idx = sorted(rng.sample(range(n), rng.randint(1, n)))
            subs.append(idx)
        from chmpy.core.element import Element
        mols = [Molecule([Element[zs[i]] for i in idx], pos[idx], **({"name": rng.choice(["", "a b"])} if rng.random() < 0.5 else {})) for idx in subs]
        multi = "".join(mm.to_sdf_string() + "\n$$$$\n" for mm in mols)
        recs = parse_sdf_contents(multi)
        if len(recs) != k:
            return f"sdf: {k} records gave {len(recs)} molecules"
        for idx, r in zip(subs, recs):
            mm = Molecule.from_sdf_dict(r)
            if [int(z) for z in mm.atomic_numbers] != [zs[i] for i in idx] or not np.allclose(mm.positions, pos[idx], rtol=0, atol=0.50001e-4):
                return "sdf: multi-record file returned the molecules out of order or altered"
    return None


def judge(seed, nmax, with_bonds):
    import random
    rng = random.Random(seed)
    tmp = tempfile.mkdtemp(prefix="chmpy_c16_")
    try:
        m, zs, pos = random_molecule(rng, nmax, rng.choice([9e3, 9e3, 9e3, 9e3, 9e5, 9e6, 9e8, "sdf-wide", "sdf-wide"]))
        try:
            return check_molecule(m, zs, pos, rng, tmp, with_bonds), len(zs)
        except Exception as ex:  # noqa
            return f"raised {type(ex).__name__}: {ex}", len(zs)
    finally:
        shutil.rmtree(tmp, ignore_errors=True)


def search(ctx, budget):
    n = 60 if budget == "quick" else 1500
    for i in range(n):
        seed = ctx.rng.randrange(1 << 30)
        wb = (i % 3 == 0)
        r, natoms = judge(seed, 200 if not wb else 60, wb)
        ctx.case({"seed": seed, "atoms": natoms, "bonds": wb}, nontrivial=natoms > 1, key=str(seed))
        if r:
            ctx.fail("C16:" + r.split(":")[0] + (":bonds" if wb else ""), r, {"seed": seed, "nmax": 200 if not wb else 60, "with_bonds": wb})
            if len(ctx.failures) >= 10:
                break


def replay(ctx, obj):
    i = obj["input"]
    return judge(i["seed"], i["nmax"], i["with_bonds"])[0]
