"""C12 — unit-cell geometry is self-consistent however the cell was specified."""
import math
import struct

import numpy as np

from harness.common import core
from harness.common.core import rat
from harness.gen import unitcell as gen_unitcell

ID = "C12"
LEAN_TARGETS = ["ChmpyVerif.Props.C12", "ChmpyVerif.Props.C12Orient"]
T = "ChmpyVerif.Props.C12."
THEOREMS = [T + n for n in (
    "volume_pos", "volume_sq", "direct_mul_inverse", "inverse_mul_direct", "frac_cart_roundtrip",
    "frac_cart_roundtrip_batch", "row_norms", "row_dots", "volume_eq_det", "star_lengths", "star_lengths_pos",
    "star_angles", "inverse_unique", "valid_ofAngles", "params_of_vectors_of_params", "deg_rad_roundtrip",
    "valid_orthogonal", "valid_monoclinic", "valid_hexagonal", "gram_rhombohedral", "valid_rhombohedral")]
# the lattice-vector route in any orientation (general matrix algebra, no generated definitions)
THEOREMS += [T + n for n in ("metric_apply", "metric_orientation_invariant", "inverse_of_reoriented", "reciprocal_metric_orientation_invariant",
                             "roundtrip_any", "det_of_reoriented", "det_sq_orientation_invariant")]
TRUSTED = [
    "translator harness/gen/pyexpr.py + unitcell.py (symbolic execution of set_lengths_and_angles, volume, a_star.., alpha_star.. "
    "into Lean definitions over ℝ and Float by one printer); validated on every run by executing the Float definitions against the real class",
    "real-number semantics: IEEE rounding, np.cos/sin/sqrt/arccos/clip and np.linalg.inv are modelled as their exact counterparts "
    "(np.linalg.inv only through the hypothesis `M * direct = 1` of inverse_unique)",
    "set_vectors, the named constructors and unit handling are hand-modelled inside the theorem statements (params_of_vectors_of_params, valid_*) and tied by the numeric oracle only",
]
RULE = ("random valid cells: lengths log-uniform in [1,100], angle triples rejection-sampled with Gram determinant >= 1e-3, "
        "all seven named constructors, degrees and radians; distinct = distinct parameter tuple; non-trivial = at least one angle != 90 deg")
MANIFEST = {
    "text": ("Proof. The closed-form direct/inverse matrices, volume and reciprocal lengths/angles are REGENERATED from unit_cell.py into Lean "
             "on every run and 21 theorems over ℝ are re-checked against them for every non-degenerate cell (no bound on parameters): "
             "direct·inverse = inverse·direct = 1 (hence Cartesian/fractional round trips for any number of points), row norms and row "
             "dot products equal the lengths/angles, det = volume > 0, reciprocal lengths/angles are those of the columns of the inverse, "
             "the vector route recovers the parameters and any left inverse equals the closed form, the named constructors give valid cells. "
             "Seven further theorems (general matrix algebra) cover lattice vectors in ANY orientation, proper or improper: the metric tensor — all "
             "lengths and angles — the reciprocal metric and det^2 do not depend on it, the inverse is Q^T·D^-1, and the round trip holds for any right inverse."),
    "note": ("Trusted: Lean kernel + Mathlib (standard axioms), the symbolic translator (validated by running its Float output against the "
             "real class each run), exact-real semantics for floating point and numpy primitives; set_vectors/constructors hand-modelled and "
             "tied numerically."),
    "technique": "Lean 4 proof over formulas regenerated from the source (field_simp/ring) + numeric validation of the translator and oracle on the real class",
}


def f2bits(x):
    return struct.unpack("<Q", struct.pack("<d", float(x)))[0]


def bits2f(s):
    return struct.unpack("<d", struct.pack("<Q", int(s)))[0]


def gram(al, be, ga):
    ca, cb, cg = math.cos(al), math.cos(be), math.cos(ga)
    return 1 - ca * ca - cb * cb - cg * cg + 2 * ca * cb * cg


def random_cell(rng, kind=None):
    kind = kind or rng.choice(["triclinic"] * 4 + ["monoclinic", "rhombohedral", "hexagonal", "orthorhombic", "tetragonal", "cubic"])
    L = lambda: math.exp(rng.uniform(0, math.log(100)))
    ang = lambda lo=25, hi=155: math.radians(rng.uniform(lo, hi))
    if kind == "triclinic":
        while True:
            al, be, ga = ang(), ang(), ang()
            # coincidences between parameters that do not make the cell any more symmetric: two equal angles, two equal lengths,
            # one right angle
            co = rng.choice(["none", "none", "none", "al=ga", "al=be", "be=ga", "al=90", "ga=90", "a=b", "b=c", "al=ga,a=c", "be~90", "ga~90", "acute"])
            if co == "be~90":        # an angle a few millionths of a radian away from a right angle is not a right angle
                be = math.pi / 2 + rng.choice([-1, 1]) * rng.uniform(1e-6, 2e-5)
            elif co == "ga~90":
                ga = math.pi / 2 + rng.choice([-1, 1]) * rng.uniform(1e-6, 2e-5)
            elif co == "acute":      # all three angles of a few degrees (numerically below pi even when expressed in degrees)
                al, be, ga = sorted((math.radians(rng.uniform(1.2, 3.1)) for _ in range(3)), reverse=True)
                if not (al < be + ga - math.radians(0.4)):
                    continue
                return kind, (L(), L(), L(), al, be, ga)
            if "al=ga" in co:
                ga = al
            elif co == "al=be":
                be = al
            elif co == "be=ga":
                ga = be
            elif co == "al=90":
                al = math.pi / 2
            elif co == "ga=90":
                ga = math.pi / 2
            if gram(al, be, ga) >= 1e-3:
                a_, b_, c_ = L(), L(), L()
                if co == "a=b":
                    b_ = a_
                elif co == "b=c":
                    c_ = b_
                elif co.endswith("a=c"):
                    c_ = a_
                return kind, (a_, b_, c_, al, be, ga)
    if kind == "monoclinic":
        return kind, (L(), L(), L(), math.pi / 2, ang(), math.pi / 2)
    if kind == "rhombohedral":
        a = L()
        while True:
            al = ang(20, 118)
            if gram(al, al, al) >= 1e-3:
                return kind, (a, a, a, al, al, al)
    if kind == "hexagonal":
        a = L()
        return kind, (a, a, L(), math.pi / 2, math.pi / 2, 2 * math.pi / 3)
    if kind == "orthorhombic":
        return kind, (L(), L(), L(), math.pi / 2, math.pi / 2, math.pi / 2)
    if kind == "tetragonal":
        a = L()
        return kind, (a, a, L(), math.pi / 2, math.pi / 2, math.pi / 2)
    a = L()
    return "cubic", (a, a, a, math.pi / 2, math.pi / 2, math.pi / 2)


def gen(ctx):
    gen_unitcell.generate()


def impl_line(params):
    from chmpy.crystal.unit_cell import UnitCell
    a, b, c, al, be, ga = params
    uc = UnitCell.from_lengths_and_angles([a, b, c], [al, be, ga])
    vals = [uc.volume(), uc.a_star, uc.b_star, uc.c_star, math.cos(uc.alpha_star), math.cos(uc.beta_star), math.cos(uc.gamma_star)]
    vals += list(np.asarray(uc.direct, dtype=float).ravel()) + list(np.asarray(uc.inverse, dtype=float).ravel())
    return [float(v) for v in vals]


def correspond(ctx):
    n = 150 if not ctx.thorough else 3000
    cases, impls = [], []
    for _ in range(n):
        kind, prm = random_cell(ctx.rng)
        line = "cell " + " ".join(rat(x) for x in prm)
        try:
            vals = impl_line(prm)
        except Exception as e:  # noqa
            ctx.disagree("cell", list(prm), "(model evaluates)", f"raised {type(e).__name__}: {e}")
            continue
        cases.append(line)
        impls.append((prm, vals))
    try:
        outs = core.run_driver("C12", cases)
    except core.TieBroken as e:
        ctx.tie_broken("driver C12", str(e))
        return
    if len(outs) != len(cases):
        ctx.tie_broken("driver C12", f"{len(outs)} lines for {len(cases)} inputs: {outs[-2:]}")
        return
    names = ["volume", "a_star", "b_star", "c_star", "cos(alpha_star)", "cos(beta_star)", "cos(gamma_star)"] + \
            [f"direct[{i}][{j}]" for i in range(3) for j in range(3)] + [f"inverse[{i}][{j}]" for i in range(3) for j in range(3)]
    worst = 0.0
    for (prm, vals), out in zip(impls, outs):
        mv = [bits2f(t) for t in out.split()]
        if len(mv) != len(vals):
            ctx.disagree("cell", list(prm), out[:80], "25 values")
            continue
        g = gram(*prm[3:])
        scale = max(abs(v) for v in vals[7:])
        for nm, m, v in zip(names, mv, vals):
            # generated Float code and numpy evaluate the same expression tree: agreement to a few ulp,
            # amplified near degenerate cells through 1/volume (and cos(star) is compared after arccos∘cos)
            tol = 1e-9 * max(1.0, abs(v), 1e-3 / max(g, 1e-6)) * (scale if nm.startswith(("direct", "inverse")) else 1.0)
            err = abs(m - v)
            worst = max(worst, err / tol)
            if not err <= tol:
                ctx.disagree("cell:" + nm, list(prm), repr(m), repr(v))
    ctx.count("correspondence_lines", len(cases))
    ctx.note("worst_err_over_tol", worst)


# ---------------------------------------------------------------------------
def angle_between(u, v):
    return math.acos(max(-1.0, min(1.0, float(np.dot(u, v) / (np.linalg.norm(u) * np.linalg.norm(v))))))


def check_cell(uc, prm, tag, rng):
    """numpy identities the statement lists; returns a failure description or None"""
    a, b, c, al, be, ga = prm
    D = np.asarray(uc.direct, dtype=float)
    I = np.asarray(uc.inverse, dtype=float)
    g = gram(al, be, ga)
    amp = 1.0 / math.sqrt(g)            # conditioning of the cell
    rt = 1e-9 * amp * amp
    n = np.linalg.norm
    if not np.allclose(D @ I, np.eye(3), rtol=0, atol=rt * 10) or not np.allclose(I @ D, np.eye(3), rtol=0, atol=rt * 10):
        return f"{tag}: direct @ inverse != identity (max dev {np.abs(D @ I - np.eye(3)).max():.3g})"
    lens = [n(D[0]), n(D[1]), n(D[2])]
    if not np.allclose(lens, [a, b, c], rtol=1e-9):
        return f"{tag}: lattice vector lengths {lens} != parameters {(a, b, c)}"
    if not np.allclose(np.asarray(uc.lengths, dtype=float), [a, b, c], rtol=1e-9):
        return f"{tag}: reported lengths {list(uc.lengths)} != {(a, b, c)}"
    angs = [angle_between(D[1], D[2]), angle_between(D[0], D[2]), angle_between(D[0], D[1])]
    if not np.allclose(angs, [al, be, ga], rtol=0, atol=1e-7):
        return f"{tag}: inter-vector angles {angs} != parameters {(al, be, ga)}"
    if not np.allclose(np.asarray(uc.angles, dtype=float), [al, be, ga], rtol=0, atol=1e-7):
        return f"{tag}: reported angles {list(uc.angles)} != {(al, be, ga)}"
    par = np.asarray(uc.parameters, dtype=float)
    if par.shape != (6,) or not np.allclose(par[:3], [a, b, c], rtol=1e-6, atol=0) or not np.allclose(par[3:], np.degrees([al, be, ga]), rtol=0, atol=1e-4):
        return f"{tag}: parameters = {par.tolist()} is not (a, b, c, alpha, beta, gamma in degrees) = {[a, b, c] + np.degrees([al, be, ga]).tolist()}"
    vol = uc.volume()
    detD = abs(np.linalg.det(D)) if "left-handed" in tag else np.linalg.det(D)
    if not (vol > 0 and abs(vol - detD) <= 1e-9 * amp * abs(vol) * 10):
        return f"{tag}: volume() = {vol} but det(direct) = {np.linalg.det(D)}"
    stars = [uc.a_star, uc.b_star, uc.c_star]
    cols = [n(I[:, 0]), n(I[:, 1]), n(I[:, 2])]
    if not np.allclose(stars, cols, rtol=1e-8 * amp):
        return f"{tag}: reciprocal lengths {stars} != column norms of inverse {cols}"
    sang = [uc.alpha_star, uc.beta_star, uc.gamma_star]
    cang = [angle_between(I[:, 1], I[:, 2]), angle_between(I[:, 0], I[:, 2]), angle_between(I[:, 0], I[:, 1])]
    if not np.allclose(sang, cang, rtol=0, atol=1e-6 * amp):
        return f"{tag}: reciprocal angles {sang} != angles between reciprocal vectors {cang}"
    R = np.asarray(uc.reciprocal_lattice, dtype=float)
    if not np.allclose(R @ D.T, np.eye(3), rtol=0, atol=rt * 10):
        return f"{tag}: reciprocal_lattice rows are not dual to the lattice vectors"
    pts = np.array([[rng.uniform(-3, 3) for _ in range(3)] for _ in range(rng.randint(1, 7))])
    back = uc.to_fractional(uc.to_cartesian(pts))
    if not np.allclose(back, pts, rtol=0, atol=rt * 100):
        return f"{tag}: to_fractional(to_cartesian(x)) != x (max dev {np.abs(back - pts).max():.3g})"
    cart = pts * max(a, b, c)
    back = uc.to_cartesian(uc.to_fractional(cart))
    if not np.allclose(back, cart, rtol=0, atol=rt * 100 * max(a, b, c)):
        return f"{tag}: to_cartesian(to_fractional(x)) != x (max dev {np.abs(back - cart).max():.3g})"
    if not np.allclose(uc.to_cartesian(pts), pts @ D, rtol=0, atol=1e-9 * max(a, b, c)):
        return f"{tag}: to_cartesian is not x @ direct"
    return None


def build_variants(kind, prm):
    """every way the API offers to build this cell: (tag, thunk)"""
    from chmpy.crystal.unit_cell import UnitCell
    a, b, c, al, be, ga = prm
    deg = np.degrees
    v = [("from_lengths_and_angles(radians)", lambda: UnitCell.from_lengths_and_angles([a, b, c], [al, be, ga])),
         ("from_lengths_and_angles(degrees)", lambda: UnitCell.from_lengths_and_angles([a, b, c], deg([al, be, ga]), unit="degrees")),
         ("triclinic(radians)", lambda: UnitCell.triclinic(a, b, c, al, be, ga)),
         ("triclinic(degrees)", lambda: UnitCell.triclinic(a, b, c, *deg([al, be, ga]), unit="degrees")),
         ("from_unique_parameters(triclinic)", lambda: UnitCell.from_unique_parameters((a, b, c, al, be, ga), cell_type="triclinic")),
         ("UnitCell(vectors)", lambda: UnitCell(np.array(UnitCell.from_lengths_and_angles([a, b, c], [al, be, ga]).direct)))]
    # the same lattice in other orientations (the geometry of a cell does not depend on how it sits in the Cartesian frame): half
    # turns about the axes keep the matrix triangular but flip signs on the diagonal; a general rotation fills it
    import random as _random
    std = lambda: np.array(UnitCell.from_lengths_and_angles([a, b, c], [al, be, ga]).direct, dtype=float)
    q = np.array([_random.Random(int(a * 1e6) + k).gauss(0, 1) for k in range(4)])
    q /= np.linalg.norm(q)
    w, x, y, z = q
    Q = np.array([[1 - 2 * (y * y + z * z), 2 * (x * y - z * w), 2 * (x * z + y * w)], [2 * (x * y + z * w), 1 - 2 * (x * x + z * z), 2 * (y * z - x * w)],
                  [2 * (x * z - y * w), 2 * (y * z + x * w), 1 - 2 * (x * x + y * y)]])
    v += [("UnitCell(vectors turned 180 deg about x)", lambda: UnitCell(std() @ np.diag([1.0, -1.0, -1.0]))),
          ("UnitCell(vectors turned 180 deg about y)", lambda: UnitCell(std() @ np.diag([-1.0, 1.0, -1.0]))),
          ("UnitCell(vectors turned 180 deg about z)", lambda: UnitCell(std() @ np.diag([-1.0, -1.0, 1.0]))),
          ("UnitCell(vectors in a general orientation)", lambda: UnitCell(std() @ Q.T)),
          # a left-handed set of lattice vectors (mirror image / two vectors listed in the other order) spans the same kind of cell
          ("UnitCell(vectors as a Fortran-ordered array)", lambda: UnitCell(np.asfortranarray(std() @ Q.T))),
          ("UnitCell(vectors as a transposed view)", lambda: UnitCell(np.ascontiguousarray((std() @ Q.T).T).T)),
          ("UnitCell(left-handed vectors: mirrored in z)", lambda: UnitCell(std() @ np.diag([1.0, 1.0, -1.0]))),
          ("UnitCell(left-handed vectors: general orientation, mirrored)", lambda: UnitCell(std() @ Q.T @ np.diag([-1.0, 1.0, 1.0])))]

    def respecified():
        u = UnitCell.cubic(3.0 + a)
        u.volume(), u.a_star, u.reciprocal_lattice      # an existing cell that has already been asked about ...
        u.set_vectors(std() @ np.diag([-1.0, -1.0, 1.0]))  # ... is given other vectors
        return u
    v += [("set_vectors on an existing cell", respecified)]

    def respecified2():
        u = UnitCell(std() @ Q.T)
        u.volume(), u.a_star
        u.set_lengths_and_angles([a, b, c], [al, be, ga])
        return u
    v += [("set_lengths_and_angles on an existing cell", respecified2)]
    if kind == "monoclinic":
        v += [("monoclinic(radians)", lambda: UnitCell.monoclinic(a, b, c, be)),
              ("monoclinic(degrees)", lambda: UnitCell.monoclinic(a, b, c, deg(be), unit="degrees"))]
    if kind == "rhombohedral":
        v += [("rhombohedral(radians)", lambda: UnitCell.rhombohedral(a, al)),
              ("rhombohedral(degrees)", lambda: UnitCell.rhombohedral(a, deg(al), unit="degrees"))]
    if kind == "hexagonal":
        v += [("hexagonal()", lambda: UnitCell.hexagonal(a, c)), ("hexagonal(unit=degrees)", lambda: UnitCell.hexagonal(a, c, unit="degrees"))]
    if kind == "tetragonal":
        v += [("tetragonal(radians)", lambda: UnitCell.tetragonal(a, c)), ("tetragonal(degrees)", lambda: UnitCell.tetragonal(a, c, unit="degrees"))]
    if kind == "orthorhombic":
        v += [("orthorhombic()", lambda: UnitCell.orthorhombic(a, b, c))]
    if kind == "cubic":
        v += [("cubic()", lambda: UnitCell.cubic(a))]
    return v


def judge(kind, prm, seed):
    import random
    rng = random.Random(seed)
    ref = None
    for tag, thunk in build_variants(kind, prm):
        try:
            uc = thunk()
        except Exception as e:  # noqa
            return tag, f"{tag} raised {type(e).__name__}: {e}"
        r = check_cell(uc, prm, tag, rng)
        if r:
            return tag, r
        M = np.asarray(uc.direct, dtype=float)
        G = M @ M.T   # metric tensor: orientation-independent geometry
        if ref is None:
            ref = G
        elif not np.allclose(G, ref, rtol=1e-9, atol=1e-9 * max(prm[:3]) ** 2):
            return tag, f"{tag}: metric tensor differs from from_lengths_and_angles for the same parameters"
    return None, None


def judge_int(seed):
    """cells given with INTEGER numbers: whole-number lengths in the named constructors, lattice vectors as an integer array"""
    import random
    from chmpy.crystal.unit_cell import UnitCell
    rng = random.Random(seed)
    a, b, c = (rng.randint(2, 30) for _ in range(3))
    for tag, thunk, prm in (("orthorhombic(ints)", lambda: UnitCell.orthorhombic(a, b, c), (a, b, c, math.pi / 2, math.pi / 2, math.pi / 2)),
                            ("cubic(int)", lambda: UnitCell.cubic(a), (a, a, a, math.pi / 2, math.pi / 2, math.pi / 2)),
                            ("tetragonal(ints)", lambda: UnitCell.tetragonal(a, c), (a, a, c, math.pi / 2, math.pi / 2, math.pi / 2)),
                            ("hexagonal(ints)", lambda: UnitCell.hexagonal(a, c), (a, a, c, math.pi / 2, math.pi / 2, 2 * math.pi / 3)),
                            ("from_lengths_and_angles(ints, degrees)", lambda: UnitCell.from_lengths_and_angles([a, b, c], [90, 100, 90], unit="degrees"),
                             (a, b, c, math.pi / 2, math.radians(100), math.pi / 2))):
        try:
            uc = thunk()
        except Exception as e:  # noqa
            return tag, f"{tag} raised {type(e).__name__}: {e}"
        r = check_cell(uc, tuple(float(x) for x in prm), tag, rng)
        if r:
            return tag, r
    while True:
        M = np.array([[rng.randint(3, 12), 0, 0], [rng.randint(-3, 3), rng.randint(3, 12), 0], [rng.randint(-3, 3), rng.randint(-3, 3), rng.randint(3, 12)]], dtype=int)
        if abs(np.linalg.det(M)) > 1:
            break
    Mf = M.astype(float)
    ln = np.linalg.norm(Mf, axis=1)
    ang = lambda u, v: math.acos(float(np.dot(u, v) / (np.linalg.norm(u) * np.linalg.norm(v))))
    prm = (ln[0], ln[1], ln[2], ang(Mf[1], Mf[2]), ang(Mf[0], Mf[2]), ang(Mf[0], Mf[1]))
    tag = f"UnitCell(integer array {M.tolist()})"
    try:
        uc = UnitCell(M)
    except Exception as e:  # noqa
        return tag, f"{tag} raised {type(e).__name__}: {e}"
    r = check_cell(uc, prm, tag, rng)
    return (tag, r) if r else (None, None)


def search(ctx, budget):
    for _ in range(10 if budget == "quick" else 200):
        seed = ctx.rng.randrange(1 << 30)
        ctx.case({"kind": "integer-input", "seed": seed}, nontrivial=True)
        tag, r = judge_int(seed)
        if r:
            ctx.fail(f"C12:{tag.split('(')[0]}:integer-input", r, {"kind": "integer-input", "params": [], "seed": seed})
    n = 300 if budget == "quick" else 6000
    kinds = ["triclinic", "monoclinic", "rhombohedral", "hexagonal", "orthorhombic", "tetragonal", "cubic"]
    for i in range(n):
        kind, prm = random_cell(ctx.rng, kinds[i % 7] if i < 70 else None)
        seed = ctx.rng.randrange(1 << 30)
        ctx.case({"kind": kind, "params": list(prm)}, nontrivial=kind not in ("cubic", "orthorhombic", "tetragonal"))
        tag, r = judge(kind, prm, seed)
        if r:
            ctx.fail(f"C12:{tag}", r, {"kind": kind, "params": list(prm), "seed": seed})


def replay(ctx, obj):
    i = obj["input"]
    if i["kind"] == "integer-input":
        return judge_int(i["seed"])[1]
    return judge(i["kind"], tuple(i["params"]), i["seed"])[1]
