#!/bin/bash
# robustness of detection: for every stored seeded change of ONE property run the quick check at further VERIF_SEEDs (default 1 2)
# on the scratch worktree /tmp/mut/<ID> with a private copy of /verif; writes seeded/<ID>/<k>/multi.json {seed: exit code}
#   ls /verif/seeded | grep ^C | xargs -P 6 -I{} harness/seeded_multi.sh {}
id=$1; shift
seeds=${@:-1 2}
wt=/tmp/mut/$id; copy=/tmp/w/pv/${id}_multi
[ -d $wt ] || { echo "$id: no worktree"; exit 2; }
rsync -a --delete --exclude .git --exclude seeded /verif/ $copy/
git -C $wt checkout -q -- .
git -C $wt checkout -q --detach $(git -C /repo rev-parse HEAD)
for out in /verif/seeded/$id/*m[0-9]; do
  [ -f $out/patch.diff ] || continue
  [ -f $out/superseded ] && continue
  git -C $wt apply $out/patch.diff || { echo "$id $(basename $out) patch does not apply"; continue; }
  res="{"
  for s in $seeds; do
    (cd $copy && CHMPY_REPO=$wt VERIF_SEED=$s ./check $id > /tmp/w/multi_$id.out 2>&1); rc=$?
    res="$res\"$s\": $rc, "
  done
  git -C $wt checkout -q -- .
  echo "${res%, }}" > $out/multi.json
  echo "$id $(basename $out) $(cat $out/multi.json)"
done
