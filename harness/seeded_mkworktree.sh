#!/bin/bash
# usage: harness/seeded_mkworktree.sh <ID>  -> scratch worktree /tmp/mut/<ID> of /repo HEAD with the prebuilt extensions copied in (needed by
# seeded_par.sh, seeded_rerun_par.sh, seeded_multi.sh); remove with: git -C /repo worktree remove --force /tmp/mut/<ID>; git -C /repo worktree prune
set -e
id=$1
mkdir -p /tmp/mut
git -C /repo worktree add -f --detach /tmp/mut/$id HEAD >/dev/null 2>&1
cd /repo
for f in $(git status --short --ignored | grep '^!!' | awk '{print $2}' | grep -E '\.(so|c)$'); do cp /repo/$f /tmp/mut/$id/$f; done
echo /tmp/mut/$id
