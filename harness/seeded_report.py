"""collect /verif/seeded/<ID>/<k>/{agent.json, eval_first.json, eval.json} into meta.json and print the DESIGN.md table"""
import glob
import json
import os

ROOT = os.path.join(os.path.dirname(os.path.dirname(os.path.abspath(__file__))), "seeded")
NOTES = {
    ("C09", "m2"): ("written against /repo a5bb611 (first version of the stockholder guard); the refined guard 294a00e made this change harmless on its "
                    "trigger and the patch no longer applies; on the tree it was written for the strengthened check reports it (verified by hand)"),
}
rows = []
for d in sorted(glob.glob(os.path.join(ROOT, "C*", "*m[0-9]"))):
    pid, k = d.split(os.sep)[-2:]
    def load(n):
        p = os.path.join(d, n)
        return json.load(open(p)) if os.path.exists(p) else None
    agent, first, last = load("agent.json"), load("eval_first.json"), load("eval.json")
    if last is None:
        continue
    chk = last["checks"].get(pid, {})
    meta = {
        "property": pid, "mutation": k,
        "description": (agent or {}).get("description"), "files": (agent or {}).get("files"), "trigger": (agent or {}).get("what_input_triggers"),
        "confirmed": {"existing_tests_still_pass": last["baseline_ok"], "demonstration_holds_without_patch": last["demo_clean"][0] == 0,
                      "demonstration_fails_with_patch": last["demo_patched"][0] == 1, "demonstration_output": last["demo_patched"][1]},
        "check_when_first_run": {"exit": (first or last)["checks"].get(pid, {}).get("exit"), "summary": (first or last)["checks"].get(pid, {}).get("summary")},
        "check_now": {"exit": chk.get("exit"), "violations": chk.get("violations"), "summary": chk.get("summary")},
        "caught_first": (first or last).get("caught"), "caught_now": last.get("caught"),
        # exit codes of the quick check at further VERIF_SEEDs (harness/seeded_multi.sh): 1 = violation reported
        "check_at_other_seeds": load("multi.json"),
        "note": NOTES.get((pid, k)),
    }
    json.dump(meta, open(os.path.join(d, "meta.json"), "w"), indent=1)
    how = ""
    if chk.get("exit") == 1:
        s = chk.get("summary", "")
        nf = "no-failing-input-found" in " ".join(chk.get("violations") or [])
        how = ("proof/tie broken" if "broken=0" not in s else "") + (" + " if "broken=0" not in s and "failures=0" not in s else "") + ("failing input" if "failures=0" not in s else "")
        if "disagreements=0" not in s:
            how += " + model≠impl"
        if nf:
            how += " (no failing input found)"
    rows.append((pid, k, (meta["description"] or "")[:110].replace("|", "/").replace("\n", " "), "yes" if meta["caught_first"] else "NO", "yes" if meta["caught_now"] else "NO", how.strip(" +")))
print("| Property | change | what it does | caught at first | caught now | by |")
print("|---|---|---|---|---|---|")
for r in rows:
    print("| " + " | ".join(r) + " |")
print(f"\n{len(rows)} confirmed seeded changes; caught at first run: {sum(r[3] == 'yes' for r in rows)}; caught now: {sum(r[4] == 'yes' for r in rows)}")
