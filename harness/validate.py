import glob, json, sys
import jsonschema
jsonschema.validate(json.load(open('MANIFEST.json')), json.load(open('/root/.vp/MANIFEST.schema.json')))
for f in glob.glob('evidence/C*.json'):
    jsonschema.validate(json.load(open(f)), json.load(open('/root/.vp/EVIDENCE.schema.json')))
print('manifest + evidence valid')
