"""translator: AST scan of crystal/crystal.py -> Gen/CrystalCaches.lean

memo slots   = attributes `_x` used as `if hasattr(self,"_x"): return getattr(self,"_x")` ... `setattr(self,"_x",…)`, and any other private
               attribute a method other than __init__ stores a non-constant value in
fills        = for every method of Crystal, the memo slots it fills (transitively through `self.m()` / `self.m`)
mutators     = methods other than __init__ that assign `self.unit_cell`, `self.space_group`,
               `self.asymmetric_unit` or `self.asymmetric_unit.positions`, with the slots each of them deletes
"""
import ast

from harness.common.core import LEAN, SRC, TieBroken, write_if_changed
from harness.gen.leanfmt import codes

BASE_ATTRS = ("unit_cell", "space_group", "asymmetric_unit")


def _is_self_attr(node, names=None):
    return isinstance(node, ast.Attribute) and isinstance(node.value, ast.Name) and node.value.id == "self" and (names is None or node.attr in names)


def scan():
    tree = ast.parse((SRC / "crystal" / "crystal.py").read_text())
    cls = next((n for n in tree.body if isinstance(n, ast.ClassDef) and n.name == "Crystal"), None)
    if cls is None:
        raise TieBroken("class Crystal not found")
    methods = {n.name: n for n in cls.body if isinstance(n, ast.FunctionDef)}
    slots, slot_method = [], {}
    for name, fn in methods.items():
        has, sets, rets = set(), set(), set()
        for n in ast.walk(fn):
            if isinstance(n, ast.Call) and isinstance(n.func, ast.Name) and n.args and isinstance(n.args[0], ast.Name) and n.args[0].id == "self" \
                    and len(n.args) >= 2 and isinstance(n.args[1], ast.Constant) and isinstance(n.args[1].value, str):
                if n.func.id == "hasattr":
                    has.add(n.args[1].value)
                elif n.func.id == "setattr":
                    sets.add(n.args[1].value)
            if isinstance(n, ast.Return) and isinstance(n.value, ast.Call) and isinstance(n.value.func, ast.Name) and n.value.func.id == "getattr" \
                    and len(n.value.args) >= 2 and isinstance(n.value.args[1], ast.Constant):
                rets.add(n.value.args[1].value)
            # self._x = ... style memo
            if isinstance(n, ast.Assign):
                for t in n.targets:
                    if _is_self_attr(t) and t.attr.startswith("_") and t.attr in has:
                        sets.add(t.attr)
        for a in sorted(has & sets & rets):
            if a not in slot_method:
                slot_method[a] = name
                slots.append(a)
    # any other private attribute that a method (not __init__) stores a computed value in is derived state as well, however it is read
    # back later (`getattr(self, "_x", None)`, `self._x`, a tuple keyed on arguments, ...): constants (warn-once flags) excepted
    for name, fn in methods.items():
        if name == "__init__":
            continue
        for n in ast.walk(fn):
            cands = []
            if isinstance(n, ast.Assign):
                cands = [(t.attr, n.value) for t in n.targets if _is_self_attr(t) and t.attr.startswith("_")]
            elif isinstance(n, ast.Call) and isinstance(n.func, ast.Name) and n.func.id == "setattr" and len(n.args) == 3 and isinstance(n.args[0], ast.Name) \
                    and n.args[0].id == "self" and isinstance(n.args[1], ast.Constant) and isinstance(n.args[1].value, str) and n.args[1].value.startswith("_"):
                cands = [(n.args[1].value, n.args[2])]
            for a, val in cands:
                if a not in slot_method and not isinstance(val, ast.Constant):
                    slot_method[a] = name
                    slots.append(a)
    if not slots:
        raise TieBroken("no memoised attributes found in Crystal (pattern changed)")
    # direct references between methods
    direct = {}
    for name, fn in methods.items():
        refs = set()
        for n in ast.walk(fn):
            if _is_self_attr(n) and n.attr in methods and n.attr != name:
                refs.add(n.attr)
        direct[name] = refs
    # helpers in other chmpy modules that are handed the crystal itself (`from chmpy.ext.vasp import poscar_string; poscar_string(self, ...)`):
    # the methods such a helper calls on its first parameter count as called by the Crystal method
    for name, fn in methods.items():
        imported = {}
        for n in ast.walk(fn):
            if isinstance(n, ast.ImportFrom) and n.module and n.module.startswith("chmpy."):
                for a in n.names:
                    imported[a.asname or a.name] = (n.module, a.name)
        for n in ast.walk(fn):
            if isinstance(n, ast.Call) and isinstance(n.func, ast.Name) and n.func.id in imported and n.args \
                    and isinstance(n.args[0], ast.Name) and n.args[0].id == "self":
                mod, fname = imported[n.func.id]
                path = SRC.joinpath(*mod.split(".")[1:]).with_suffix(".py")
                if not path.exists():
                    path = SRC.joinpath(*mod.split(".")[1:], "__init__.py")
                try:
                    ht = ast.parse(path.read_text())
                except OSError:
                    raise TieBroken(f"Crystal.{name} hands the crystal to {mod}.{fname}, whose source was not found")
                hf = next((h for h in ast.walk(ht) if isinstance(h, ast.FunctionDef) and h.name == fname), None)
                if hf is None or not hf.args.args:
                    raise TieBroken(f"Crystal.{name} hands the crystal to {mod}.{fname}, which was not found in {path.name}")
                par = hf.args.args[0].arg
                for h in ast.walk(hf):
                    if isinstance(h, ast.Attribute) and isinstance(h.value, ast.Name) and h.value.id == par and h.attr in methods:
                        direct[name].add(h.attr)
    fills = {}
    for name in methods:
        seen, todo = set(), [name]
        while todo:
            m = todo.pop()
            if m in seen:
                continue
            seen.add(m)
            todo.extend(direct.get(m, ()))
        fills[name] = sorted(slots.index(a) for a, m in slot_method.items() if m in seen)
    # mutators
    muts = []
    for name, fn in methods.items():
        if name == "__init__":
            continue
        assigns = False
        for n in ast.walk(fn):
            targets = []
            if isinstance(n, ast.Assign):
                targets = n.targets
            elif isinstance(n, ast.AugAssign):
                targets = [n.target]
            for t in targets:
                if _is_self_attr(t, BASE_ATTRS):
                    assigns = True
                if isinstance(t, ast.Attribute) and _is_self_attr(t.value, BASE_ATTRS):
                    assigns = True
                if isinstance(t, ast.Subscript) and isinstance(t.value, ast.Attribute) and _is_self_attr(t.value.value, BASE_ATTRS):
                    assigns = True
        if not assigns:
            continue
        cleared = set()
        for n in ast.walk(fn):
            if isinstance(n, ast.Call) and isinstance(n.func, ast.Name) and n.func.id == "delattr" and n.args and isinstance(n.args[0], ast.Name) and n.args[0].id == "self":
                a1 = n.args[1]
                if isinstance(a1, ast.Constant):
                    cleared.add(a1.value)
            if isinstance(n, ast.For) and isinstance(n.target, ast.Name) and isinstance(n.iter, (ast.Tuple, ast.List)):
                consts = [e.value for e in n.iter.elts if isinstance(e, ast.Constant) and isinstance(e.value, str)]
                uses = any(isinstance(m, ast.Call) and isinstance(m.func, ast.Name) and m.func.id == "delattr" and len(m.args) == 2
                           and isinstance(m.args[1], ast.Name) and m.args[1].id == n.target.id for m in ast.walk(n))
                if uses:
                    cleared.update(consts)
            if isinstance(n, ast.Delete):
                for t in n.targets:
                    if _is_self_attr(t):
                        cleared.add(t.attr)
        muts.append((name, sorted(slots.index(a) for a in cleared if a in slots)))
    return {"slots": slots, "slot_method": slot_method, "fills": fills, "mutators": muts}


def generate():
    s = scan()
    L = ["/- GENERATED by harness/gen/crystalcaches.py from chmpy/crystal/crystal.py — do not edit -/",
         "import ChmpyVerif.Model.CrystalState", "namespace ChmpyVerif.Gen", "open ChmpyVerif.CState", ""]
    L.append("/-- memoised attributes of `Crystal`: " + ", ".join(f"{i}={a} ({s['slot_method'][a]})" for i, a in enumerate(s["slots"])) + " -/")
    L.append(f"def nSlots : Nat := {len(s['slots'])}")
    L.append("/-- for every method: (name as code points, memo slots it fills, directly or through the methods it calls) -/")
    L.append("def methodFills : List (List Nat × List Nat) := [")
    L.append(",\n".join(f"  ({codes(m)}, {f})  /- {m} -/" for m, f in sorted(s["fills"].items()) if not m.startswith("__")) + "]")
    L.append("/-- methods that assign the cell, the space group or the asymmetric unit, with the memo slots each DELETES -/")
    L.append("def mutatorClears : List (List Nat × List Nat) := [" + ", ".join(f"({codes(m)}, {c}) /- {m} -/" for m, c in s["mutators"]) + "]")
    L.append("")
    L.append("def tables : Tables := ⟨nSlots, mutatorClears.map (·.2)⟩")
    L += ["", "end ChmpyVerif.Gen", ""]
    write_if_changed(LEAN / "ChmpyVerif" / "Gen" / "CrystalCaches.lean", "\n".join(L))
    return s
