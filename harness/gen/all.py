"""run every translator (used by setup.sh); a translator failure is reported but does not
stop the others — the property's own check will report it as a broken tie"""
import glob
import importlib
import os
import sys
import traceback

from harness.common import core


def main():
    sys.path.insert(0, str(core.REPO / "src"))
    here = os.path.dirname(os.path.dirname(__file__))
    bad = 0
    for f in sorted(glob.glob(os.path.join(here, "props", "c[0-9]*.py"))):
        name = os.path.basename(f)[:-3]
        mod = importlib.import_module(f"harness.props.{name}")
        try:
            with core.LeanLock():
                mod.gen(None)
            print(f"gen {name}: ok")
        except Exception:
            bad += 1
            print(f"gen {name}: FAILED\n{traceback.format_exc()[-1500:]}")
    return 0


if __name__ == "__main__":
    sys.exit(main())
