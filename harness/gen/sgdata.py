"""translator: crystal/sgdata.json + the maps in space_group.py / symmetry_operation.py
-> lean/ChmpyVerif/Gen/SG*.lean (table, closure certificates, per-chunk kernel checks)."""
import ast
import json
from fractions import Fraction

from harness.common.core import LEAN, SRC, TieBroken, write_if_changed
from harness.gen.leanfmt import codes

NCHUNK = 40
GEN = LEAN / "ChmpyVerif" / "Gen"


# ---- reading the source -------------------------------------------------------
def _module_assign(tree, name):
    for n in ast.walk(tree):
        if isinstance(n, ast.Assign) and any(isinstance(t, ast.Name) and t.id == name for t in n.targets):
            return n.value
    raise TieBroken(f"{name} not found")


def _frac(node):
    if isinstance(node, ast.Constant) and isinstance(node.value, (int, float)):
        return Fraction(node.value).limit_denominator(1000)
    if isinstance(node, ast.BinOp) and isinstance(node.op, ast.Div):
        return _frac(node.left) / _frac(node.right)
    if isinstance(node, ast.UnaryOp) and isinstance(node.op, ast.USub):
        return -_frac(node.operand)
    raise TieBroken("unsupported number in LATTICE_TYPE_TRANSLATIONS: " + ast.dump(node)[:80])


def read_source():
    sg_tree = ast.parse((SRC / "crystal" / "space_group.py").read_text())
    so_tree = ast.parse((SRC / "crystal" / "symmetry_operation.py").read_text())
    try:
        defaults = ast.literal_eval(_module_assign(sg_tree, "SG_DEFAULT_SETTING_CHOICE"))
        c2l = ast.literal_eval(_module_assign(sg_tree, "centering_to_latt"))
    except TieBroken:
        raise
    except Exception as e:
        raise TieBroken(f"maps in space_group.py are no longer literals: {e}")
    ltt = _module_assign(so_tree, "LATTICE_TYPE_TRANSLATIONS")
    if not isinstance(ltt, ast.Dict):
        raise TieBroken("LATTICE_TYPE_TRANSLATIONS is not a dict literal")
    latt = {}
    for k, v in zip(ltt.keys, ltt.values):
        key = ast.literal_eval(k)
        vecs = []
        if not isinstance(v, ast.Tuple):
            raise TieBroken("LATTICE_TYPE_TRANSLATIONS value is not a tuple")
        for vec in v.elts:
            comps = [_frac(c) * 12 for c in vec.elts]
            if any(c.denominator != 1 for c in comps) or len(comps) != 3:
                raise TieBroken(f"lattice translation {comps} is not in twelfths")
            vecs.append([int(c) for c in comps])
        latt[int(key)] = vecs
    data = json.loads((SRC / "crystal" / "sgdata.json").read_text())
    entries = []
    for k, v in data.items():
        for e in v:
            if len(e) != 10:
                raise TieBroken(f"sgdata.json entry with {len(e)} fields")
            number, short, schoen, full, intl, pg, choice, centering, symops, centro = e
            if str(number) != k:
                raise TieBroken(f"sgdata.json: entry {number} filed under key {k}")
            if centering not in c2l:
                raise TieBroken(f"centering {centering!r} not in centering_to_latt")
            if not all(isinstance(s, int) and s >= 0 for s in symops):
                raise TieBroken("non-integer symop code")
            entries.append({"number": int(number), "choice": str(choice), "centering": int(c2l[centering]),
                            "centro": bool(centro), "symops": list(symops), "short": short})
    return entries, {int(k): str(v) for k, v in defaults.items()}, latt


# ---- group arithmetic on twelfths (untrusted: only produces certificates) -----------
def dec(code):
    r, t = code % 19683, code // 19683
    R = tuple((r // 3 ** (8 - k)) % 3 - 1 for k in range(9))
    T = tuple((t // 12 ** (2 - k)) % 12 for k in range(3))
    return R, T


def comp(a, b):
    (A, s), (B, u) = a, b
    R = tuple(sum(A[3 * i + k] * B[3 * k + j] for k in range(3)) for i in range(3) for j in range(3))
    T = tuple((sum(A[3 * i + k] * u[k] for k in range(3)) + s[i]) % 12 for i in range(3))
    return R, T


IDENT = dec(16484)


def certificate(symops):
    ops = [dec(c) for c in symops]
    index = {o: i for i, o in enumerate(ops)}
    n = len(ops)
    if IDENT not in index:
        return None
    # greedy generators
    gens, reached = [], {IDENT}
    for g in ops:
        if g in reached:
            continue
        gens.append(g)
        frontier = list(reached)
        while frontier:
            nxt = []
            for h in frontier:
                for s in gens:
                    p = comp(h, s)
                    if p not in reached:
                        if len(reached) > 4 * n + 8:
                            return None
                        reached.add(p)
                        nxt.append(p)
            frontier = nxt
        if len(reached) >= n:
            break
    # BFS spanning tree from the identity under right multiplication
    order, pos = [(index[IDENT], 0, 0)], {IDENT: 0}
    queue = [IDENT]
    while queue:
        h = queue.pop(0)
        for j, s in enumerate(gens):
            p = comp(h, s)
            if p in index and p not in pos:
                pos[p] = len(order)
                order.append((index[p], pos[h], j))
                queue.append(p)
    inv = []
    for g in ops:
        j = next((i for i, h in enumerate(ops) if comp(g, h) == IDENT), 0)
        inv.append(j)
    enc = lambda o: sum((o[0][k] + 1) * 3 ** (8 - k) for k in range(9)) + 19683 * sum(o[1][k] * 12 ** (2 - k) for k in range(3))
    return {"gens": [enc(g) for g in gens], "order": order, "inv": inv}


# ---- emitting Lean ----------------------------------------------------------------
def nat_list(l):
    return "[" + ", ".join(str(x) for x in l) + "]"


def generate():
    entries, defaults, latt = read_source()
    common = ["/- GENERATED by harness/gen/sgdata.py from space_group.py / symmetry_operation.py — do not edit -/",
              "import ChmpyVerif.Model.SGroup", "namespace ChmpyVerif.Gen", "open ChmpyVerif.SG", "",
              "/-- `LATTICE_TYPE_TRANSLATIONS` in twelfths -/",
              "def lattTable : LattTable := [" + ", ".join(
                  f"({k}, [" + ", ".join("[" + ", ".join(str(c) for c in v) + "]" for v in vs) + "])" for k, vs in sorted(latt.items())) + "]",
              "", "/-- `SG_DEFAULT_SETTING_CHOICE` (choice strings as code points) -/",
              "def defaultChoices : List (Nat × List Nat) := [" + ", ".join(f"({k}, {codes(v)})" for k, v in sorted(defaults.items())) + "]",
              "", "end ChmpyVerif.Gen", ""]
    write_if_changed(GEN / "SGCommon.lean", "\n".join(common))
    # chunks balanced by n^2, the table order is kept by recording (chunk, slot) per entry
    weights = [len(e["symops"]) ** 2 + 50 for e in entries]
    bins = [[] for _ in range(NCHUNK)]
    load = [0] * NCHUNK
    for i in sorted(range(len(entries)), key=lambda i: -weights[i]):
        b = load.index(min(load))
        bins[b].append(i)
        load[b] += weights[i]
    where = {}
    for b, idxs in enumerate(bins):
        idxs.sort()
        L = ["/- GENERATED by harness/gen/sgdata.py from crystal/sgdata.json — do not edit -/",
             "import ChmpyVerif.Gen.SGCommon", "namespace ChmpyVerif.Gen", "open ChmpyVerif.SG", ""]
        names = []
        for slot, i in enumerate(idxs):
            e = entries[i]
            where[i] = (b, slot)
            cert = certificate(e["symops"]) or {"gens": [], "order": [], "inv": []}
            nm = f"sg{i}"
            L.append(f"/-- #{i}: space group {e['number']} {e['short']} choice '{e['choice']}' ({len(e['symops'])} operations) -/")
            L.append(f"def {nm} : Entry := ⟨{e['number']}, {codes(e['choice'])}, {e['centering']}, {'true' if e['centro'] else 'false'}, {nat_list(e['symops'])}⟩")
            L.append(f"def {nm}cert : Cert := ⟨{nat_list(cert['gens'])}, [" + ", ".join(f"({a}, {p}, {g})" for a, p, g in cert["order"]) + f"], {nat_list(cert['inv'])}⟩")
            names.append(nm)
        L.append("")
        L.append(f"def chunk{b} : List (Entry × Cert) := [" + ", ".join(f"({n}, {n}cert)" for n in names) + "]")
        L.append(f"theorem chunk{b}_ok : (chunk{b}.all fun p => entryOk lattTable p.1 p.2) = true := by decide +kernel")
        L += ["", "end ChmpyVerif.Gen", ""]
        write_if_changed(GEN / f"SGChunk{b}.lean", "\n".join(L))
    top = ["/- GENERATED by harness/gen/sgdata.py — do not edit -/"] + [f"import ChmpyVerif.Gen.SGChunk{b}" for b in range(NCHUNK)]
    top += ["namespace ChmpyVerif.Gen", "open ChmpyVerif.SG", "",
            "/-- the 530 settings in the order of sgdata.json (the order `SG_FROM_NUMBER`/`SG_FROM_SYMOPS` are built in) -/",
            "def sgTable : List Entry := [" + ", ".join(f"sg{i}" for i in range(len(entries))) + "]", "",
            "/-- all chunks, with their certificates -/",
            "def sgChunks : List (List (Entry × Cert)) := [" + ", ".join(f"chunk{b}" for b in range(NCHUNK)) + "]", "",
            "theorem sgChunks_ok : ∀ ch ∈ sgChunks, (ch.all fun p => entryOk lattTable p.1 p.2) = true := by",
            "  intro ch h", "  simp only [sgChunks, List.mem_cons, List.mem_nil_iff, or_false] at h",
            "  rcases h with " + " | ".join("rfl" for _ in range(NCHUNK)),
            ] + [f"  · exact chunk{b}_ok" for b in range(NCHUNK)] + ["",
            "/-- every table entry sits in some chunk (kernel-checked bookkeeping of the translator) -/",
            "theorem sgTable_covered : sgTable.all (fun e => sgChunks.any fun ch => ch.any fun p => p.1 == e) = true := by decide +kernel", "",
            "end ChmpyVerif.Gen", ""]
    write_if_changed(GEN / "SGData.lean", "\n".join(top))
    return entries, defaults, latt
