"""A small symbolic interpreter for the closed-form numpy code in chmpy (unit_cell.py).

It executes a method body over symbolic scalars and produces expression trees, which
are then printed as Lean definitions twice by ONE printer: over `Float` (executed by
the driver against the real class) and over `ℝ` (what the theorems are about).

Accepted Python subset (anything else raises TieBroken, i.e. the tie is reported broken):
  assignments to names / tuples of names / `self.attr`; `return`; docstrings;
  + - * / unary -, ** with a small integer; numeric literals; tuples / lists of
  expressions; subscripts with constant index; `np.cos/np.sin/np.sqrt/np.arccos/
  np.radians/np.degrees/np.array`; `np.pi`; reads of `self.lengths`, `self.angles`,
  of properties of the class (evaluated recursively) and calls `self.method()` of
  parameterless methods (kept as calls to the generated definition of that method).
"""
from __future__ import annotations

import ast
from fractions import Fraction

from harness.common.core import TieBroken


# ---- IR ---------------------------------------------------------------------
class E:
    """scalar expression node"""
    __slots__ = ("op", "args")

    def __init__(self, op, *args):
        self.op = op
        self.args = args

    def __repr__(self):
        return f"E({self.op!r}, {', '.join(map(repr, self.args))})"


def num(x):
    return E("num", Fraction(x).limit_denominator(10**12) if isinstance(x, float) and float(Fraction(x).limit_denominator(10**12)) == x else Fraction(x))


class Tup(list):
    pass


ANGLES = ("alpha", "beta", "gamma")
LENGTHS = ("a", "b", "c")


class Interp:
    def __init__(self, cls_node: ast.ClassDef):
        self.cls = cls_node
        self.methods = {n.name: n for n in cls_node.body if isinstance(n, ast.FunctionDef)}
        self.called = set()   # methods referenced through self.m()

    def is_property(self, name):
        f = self.methods.get(name)
        return f is not None and any(isinstance(d, ast.Name) and d.id == "property" for d in f.decorator_list)

    # -- evaluate the body of a method; returns (return value, self attribute writes)
    def run(self, name, env=None, self_attrs=None):
        f = self.methods.get(name)
        if f is None:
            raise TieBroken(f"method {name} not found in UnitCell")
        env = dict(env or {})
        attrs = dict(self_attrs) if self_attrs is not None else {
            "lengths": Tup(E("var", x) for x in LENGTHS),
            "angles": Tup(E("angle", x) for x in ANGLES)}
        ret = None
        for st in f.body:
            if isinstance(st, ast.Expr) and isinstance(st.value, ast.Constant):
                continue  # docstring
            if isinstance(st, ast.Expr) and isinstance(st.value, ast.Call) and isinstance(st.value.func, ast.Attribute) \
                    and isinstance(st.value.func.value, ast.Name) and st.value.func.value.id == "self" \
                    and st.value.func.attr == "_set_cell_type":
                continue  # classification only, no effect on geometry
            if isinstance(st, ast.Assign) and len(st.targets) == 1:
                val = self.ev(st.value, env, attrs)
                self.bind(st.targets[0], val, env, attrs)
                continue
            if isinstance(st, ast.Return):
                ret = self.ev(st.value, env, attrs)
                break
            raise TieBroken(f"{name}: unsupported statement {ast.dump(st)[:120]}")
        return ret, attrs

    def bind(self, tgt, val, env, attrs):
        if isinstance(tgt, ast.Name):
            env[tgt.id] = val
        elif isinstance(tgt, ast.Tuple):
            if not isinstance(val, Tup) or len(val) != len(tgt.elts):
                raise TieBroken("tuple unpacking of a non-tuple")
            for t, v in zip(tgt.elts, val):
                self.bind(t, v, env, attrs)
        elif isinstance(tgt, ast.Attribute) and isinstance(tgt.value, ast.Name) and tgt.value.id == "self":
            attrs[tgt.attr] = val
        else:
            raise TieBroken(f"unsupported assignment target {ast.dump(tgt)[:80]}")

    def ev(self, n, env, attrs):
        if isinstance(n, ast.Constant) and isinstance(n.value, (int, float)) and not isinstance(n.value, bool):
            return num(n.value)
        if isinstance(n, ast.Name):
            if n.id in env:
                return env[n.id]
            raise TieBroken(f"unknown name {n.id}")
        if isinstance(n, (ast.Tuple, ast.List)):
            return Tup(self.ev(e, env, attrs) for e in n.elts)
        if isinstance(n, ast.UnaryOp) and isinstance(n.op, ast.USub):
            return E("neg", self.scalar(self.ev(n.operand, env, attrs)))
        if isinstance(n, ast.BinOp):
            l, r = self.ev(n.left, env, attrs), self.ev(n.right, env, attrs)
            if isinstance(n.op, ast.Pow):
                r = self.scalar(r)
                if r.op == "num" and r.args[0].denominator == 1 and 0 <= r.args[0] <= 4:
                    return E("pow", self.scalar(l), int(r.args[0]))
                raise TieBroken("** with a non-small-integer exponent")
            op = {ast.Add: "add", ast.Sub: "sub", ast.Mult: "mul", ast.Div: "div"}.get(type(n.op))
            if op is None:
                raise TieBroken(f"operator {type(n.op).__name__}")
            return E(op, self.scalar(l), self.scalar(r))
        if isinstance(n, ast.Subscript):
            v = self.ev(n.value, env, attrs)
            idx = n.slice
            if isinstance(v, Tup) and isinstance(idx, ast.Constant) and isinstance(idx.value, int):
                return v[idx.value]
            raise TieBroken("subscript that is not tuple[const]")
        if isinstance(n, ast.Attribute):
            if isinstance(n.value, ast.Name) and n.value.id == "self":
                if n.attr in attrs:
                    return attrs[n.attr]
                if self.is_property(n.attr):
                    ret, _ = self.run(n.attr, {}, attrs)
                    return ret
                raise TieBroken(f"self.{n.attr} is neither state nor a property")
            if isinstance(n.value, ast.Name) and n.value.id == "np" and n.attr == "pi":
                return E("pi")
            raise TieBroken(f"attribute {ast.dump(n)[:80]}")
        if isinstance(n, ast.Call):
            fn = n.func
            if isinstance(fn, ast.Attribute) and isinstance(fn.value, ast.Name) and fn.value.id == "np" and not n.keywords:
                args = [self.ev(a, env, attrs) for a in n.args]
                if fn.attr == "array" and len(args) == 1:
                    return args[0]
                if fn.attr in ("cos", "sin", "sqrt", "arccos", "radians", "degrees") and len(args) == 1:
                    return self.map1(fn.attr, args[0])
                raise TieBroken(f"np.{fn.attr} is outside the accepted subset")
            if isinstance(fn, ast.Attribute) and isinstance(fn.value, ast.Name) and fn.value.id == "self" and not n.args and not n.keywords:
                if fn.attr in self.methods and not self.is_property(fn.attr):
                    self.called.add(fn.attr)
                    return E("call", fn.attr)
            raise TieBroken(f"call {ast.dump(n)[:100]}")
        raise TieBroken(f"expression {ast.dump(n)[:100]}")

    def scalar(self, v):
        if isinstance(v, E):
            return v
        raise TieBroken("tuple used where a scalar is needed")

    def map1(self, f, v):
        if isinstance(v, Tup):
            return Tup(self.map1(f, x) for x in v)
        if f in ("cos", "sin"):
            if v.op == "angle":
                return E(f, v.args[0])
            raise TieBroken(f"np.{f} of something that is not a cell angle")
        return E(f, v)


# ---- printing -----------------------------------------------------------------
TRIG = {("cos", "alpha"): "ca", ("cos", "beta"): "cb", ("cos", "gamma"): "cg",
        ("sin", "alpha"): "sa", ("sin", "beta"): "sb", ("sin", "gamma"): "sg"}
ALLVARS = ["a", "b", "c", "ca", "cb", "cg", "sa", "sb", "sg"]


def lean(e: E, ty: str, calls=None) -> str:
    """ty = 'ℝ' or 'Float'.  calls: name -> Lean call text"""
    o = e.op
    if o == "num":
        fr = e.args[0]
        if fr.denominator == 1:
            return f"({fr.numerator} : {ty})" if fr >= 0 else f"(-{-fr.numerator} : {ty})"
        return f"(({fr.numerator} : {ty}) / {fr.denominator})"
    if o == "var":
        return e.args[0]
    if o in ("cos", "sin"):
        return TRIG[(o, e.args[0])]
    if o == "angle":
        raise TieBroken("a bare angle (not under cos/sin) reached the printer")
    if o == "neg":
        return f"(-{lean(e.args[0], ty, calls)})"
    if o in ("add", "sub", "mul", "div"):
        s = {"add": "+", "sub": "-", "mul": "*", "div": "/"}[o]
        return f"({lean(e.args[0], ty, calls)} {s} {lean(e.args[1], ty, calls)})"
    if o == "pow":
        return f"({lean(e.args[0], ty, calls)} ^ {e.args[1]})"
    if o == "sqrt":
        return f"({'Real.sqrt' if ty == 'ℝ' else 'Float.sqrt'} {lean(e.args[0], ty, calls)})"
    if o == "call":
        return calls[e.args[0]]
    if o == "pi":
        return "Real.pi" if ty == "ℝ" else "(3.141592653589793 : Float)"
    raise TieBroken(f"printer: {o}")


def evalf(e: E, vals: dict, calls=None) -> float:
    import math
    o = e.op
    if o == "num":
        return float(e.args[0])
    if o == "var":
        return vals[e.args[0]]
    if o in ("cos", "sin"):
        return vals[TRIG[(o, e.args[0])]]
    if o == "neg":
        return -evalf(e.args[0], vals, calls)
    if o == "add":
        return evalf(e.args[0], vals, calls) + evalf(e.args[1], vals, calls)
    if o == "sub":
        return evalf(e.args[0], vals, calls) - evalf(e.args[1], vals, calls)
    if o == "mul":
        return evalf(e.args[0], vals, calls) * evalf(e.args[1], vals, calls)
    if o == "div":
        return evalf(e.args[0], vals, calls) / evalf(e.args[1], vals, calls)
    if o == "pow":
        return evalf(e.args[0], vals, calls) ** e.args[1]
    if o == "sqrt":
        return math.sqrt(evalf(e.args[0], vals, calls))
    if o == "call":
        return calls[e.args[0]](vals)
    if o == "pi":
        return math.pi
    raise TieBroken(o)


def find_class(path, name) -> ast.ClassDef:
    tree = ast.parse(open(path).read())
    for n in tree.body:
        if isinstance(n, ast.ClassDef) and n.name == name:
            return n
    raise TieBroken(f"class {name} not found in {path}")
