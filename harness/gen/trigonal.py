"""translator: the two basis-change matrices in Crystal.choose_trigonal_lattice (crystal.py) and the supercell cell
construction of as_P1_supercell / to_translational_symmetry -> Gen/Trigonal.lean"""
import ast
from fractions import Fraction

from harness.common.core import LEAN, SRC, TieBroken, write_if_changed


def frac(node):
    if isinstance(node, ast.Constant) and isinstance(node.value, (int, float)):
        return Fraction(node.value).limit_denominator(1000)
    if isinstance(node, ast.UnaryOp) and isinstance(node.op, ast.USub):
        return -frac(node.operand)
    if isinstance(node, ast.BinOp) and isinstance(node.op, ast.Div):
        return frac(node.left) / frac(node.right)
    raise TieBroken("unsupported literal in T matrix: " + ast.dump(node)[:80])


def matrix_of(node):
    """np.array(((..),(..),(..)))  or  k * np.array(...)"""
    if isinstance(node, ast.BinOp) and isinstance(node.op, ast.Mult):
        k = frac(node.left)
        return [[k * x for x in r] for r in matrix_of(node.right)]
    if isinstance(node, ast.Call) and isinstance(node.func, ast.Attribute) and node.func.attr == "array" and node.args:
        t = node.args[0]
        if isinstance(t, (ast.Tuple, ast.List)) and len(t.elts) == 3:
            return [[frac(x) for x in r.elts] for r in t.elts]
    raise TieBroken("T is not a literal 3x3 np.array: " + ast.dump(node)[:100])


def scan():
    tree = ast.parse((SRC / "crystal" / "crystal.py").read_text())
    cls = next(n for n in tree.body if isinstance(n, ast.ClassDef) and n.name == "Crystal")
    fn = next((n for n in cls.body if isinstance(n, ast.FunctionDef) and n.name == "choose_trigonal_lattice"), None)
    if fn is None:
        raise TieBroken("choose_trigonal_lattice not found")
    mats = {}
    for n in ast.walk(fn):
        if isinstance(n, ast.If) and isinstance(n.test, ast.Compare) and len(n.test.comparators) == 1 \
                and isinstance(n.test.comparators[0], ast.Constant) and n.test.comparators[0].value in ("R", "H"):
            def assign_T(body):
                for st in body:
                    if isinstance(st, ast.Assign) and any(isinstance(t, ast.Name) and t.id == "T" for t in st.targets):
                        return matrix_of(st.value)
                return None
            cur = n.test.comparators[0].value      # current choice tested
            a, b = assign_T(n.body), assign_T(n.orelse)
            if a is not None and b is not None:
                mats["from_" + cur] = a
                mats["from_" + ("H" if cur == "R" else "R")] = b
    if set(mats) != {"from_R", "from_H"}:
        raise TieBroken("could not find the two T matrices of choose_trigonal_lattice")
    # how the new cell is formed: UnitCell(np.dot(T, self.unit_cell.direct))
    src = ast.get_source_segment((SRC / "crystal" / "crystal.py").read_text(), fn) or ""
    if "np.dot(T, self.unit_cell.direct)" not in src.replace("\n", " "):
        raise TieBroken("choose_trigonal_lattice no longer forms the new cell as T · direct")
    # supercell construction
    sup = {}
    for name in ("as_P1_supercell", "to_translational_symmetry"):
        f2 = next((n for n in cls.body if isinstance(n, ast.FunctionDef) and n.name == name), None)
        seg = (ast.get_source_segment((SRC / "crystal" / "crystal.py").read_text(), f2) or "") if f2 else ""
        sup[name] = 1 if ("np.diag(" in seg and "self.unit_cell.direct" in seg and "from_lengths_and_angles" not in seg) else 0
    return mats, sup


def loop_shape(f2):
    """1 iff the function walks `product(arange(n1), arange(n2), arange(n3))` (the three sizes in the order they are unpacked) and, for every
    offset, every unit-cell molecule, translated by `[q, r, s] @ self.unit_cell.lattice` — the loop modelled by `C13.scLoop`"""
    if f2 is None:
        return 0
    sizes, ar = None, {}
    for st in ast.walk(f2):
        if isinstance(st, ast.Assign) and len(st.targets) == 1:
            t, v = st.targets[0], st.value
            if isinstance(t, ast.Tuple) and len(t.elts) == 3 and all(isinstance(e, ast.Name) for e in t.elts) and isinstance(v, ast.Name) \
                    and v.id in [a.arg for a in f2.args.args]:
                sizes = [e.id for e in t.elts]
            if isinstance(t, ast.Name) and isinstance(v, ast.Call) and isinstance(v.func, ast.Attribute) and v.func.attr == "arange" \
                    and len(v.args) == 1 and not v.keywords and isinstance(v.args[0], ast.Name):
                ar[t.id] = v.args[0].id
    if sizes is None:
        return 0
    for st in ast.walk(f2):
        if not (isinstance(st, ast.For) and isinstance(st.target, ast.Tuple) and len(st.target.elts) == 3 and isinstance(st.iter, ast.Call)):
            continue
        fn = st.iter.func
        if (fn.attr if isinstance(fn, ast.Attribute) else getattr(fn, "id", "")) != "product" or st.iter.keywords:
            continue
        if [ar.get(getattr(a, "id", None)) for a in st.iter.args] != sizes:
            continue
        idx = [e.id for e in st.target.elts if isinstance(e, ast.Name)]
        inner = [n for n in st.body if isinstance(n, ast.For)]
        if len(idx) != 3 or len(st.body) != 1 or len(inner) != 1 or st.orelse or inner[0].orelse:
            continue
        seg = ast.unparse(inner[0])
        if ast.unparse(inner[0].iter) == "self.unit_cell_molecules()" and isinstance(inner[0].target, ast.Name) \
                and f"{inner[0].target.id}.translated(np.asarray([{idx[0]}, {idx[1]}, {idx[2]}]) @ self.unit_cell.lattice)" in seg \
                and len(inner[0].body) == 1 and not any(isinstance(n, (ast.If, ast.Continue, ast.Break)) for n in ast.walk(st)):
            return 1
    return 0


def scan_loops():
    tree = ast.parse((SRC / "crystal" / "crystal.py").read_text())
    cls = next(n for n in tree.body if isinstance(n, ast.ClassDef) and n.name == "Crystal")
    out = []
    for name in ("as_P1_supercell", "to_translational_symmetry"):
        out.append(loop_shape(next((n for n in cls.body if isinstance(n, ast.FunctionDef) and n.name == name), None)))
    return out


def scan_as_p1():
    """1 iff `as_P1` is (docstring aside) the single statement `return self.as_P1_supercell((1, 1, 1))`"""
    tree = ast.parse((SRC / "crystal" / "crystal.py").read_text())
    cls = next(n for n in tree.body if isinstance(n, ast.ClassDef) and n.name == "Crystal")
    f = next((n for n in cls.body if isinstance(n, ast.FunctionDef) and n.name == "as_P1"), None)
    if f is None:
        return 0
    body = [st for st in f.body if not (isinstance(st, ast.Expr) and isinstance(st.value, ast.Constant) and isinstance(st.value.value, str))]
    return 1 if len(body) == 1 and isinstance(body[0], ast.Return) and body[0].value is not None \
        and ast.unparse(body[0].value) == "self.as_P1_supercell((1, 1, 1))" else 0


def lean_mat(m):
    return "[" + ", ".join("[" + ", ".join(f"({x.numerator} : Rat) / {x.denominator}" for x in r) + "]" for r in m) + "]"


def generate():
    mats, sup = scan()
    loops = scan_loops()
    L = ["/- GENERATED by harness/gen/trigonal.py from chmpy/crystal/crystal.py — do not edit -/",
         "namespace ChmpyVerif.Gen", "",
         "/-- `T` used by `choose_trigonal_lattice` when the crystal is currently in the R setting (R → H) -/",
         f"def tFromR : List (List Rat) := {lean_mat(mats['from_R'])}",
         "/-- `T` used when the crystal is currently in the H setting (H → R) -/",
         f"def tFromH : List (List Rat) := {lean_mat(mats['from_H'])}",
         "/-- 1 iff the supercell constructors form the new cell as `diag(n) · direct` (scaled lattice vectors) -/",
         f"def supercellFromVectors : List Nat := [{sup['as_P1_supercell']}, {sup['to_translational_symmetry']}]",
         "/-- 1 iff the supercell constructors walk `product(arange n₁, arange n₂, arange n₃)` × unit-cell molecules, each translated by `[q,r,s] · lattice` -/",
         f"def supercellLoopShape : List Nat := [{loops[0]}, {loops[1]}]",
         "/-- 1 iff `as_P1` is `as_P1_supercell((1, 1, 1))` -/",
         f"def asP1IsUnitSupercell : Nat := {scan_as_p1()}",
         "", "end ChmpyVerif.Gen", ""]
    write_if_changed(LEAN / "ChmpyVerif" / "Gen" / "Trigonal.lean", "\n".join(L))
    return mats, sup
