"""helpers for emitting Lean literals"""
from decimal import Decimal


def codes(s: str) -> str:
    """list of code points (models use Nat code points so that case maps are arithmetic)"""
    return "[" + ", ".join(str(ord(c)) for c in s) + "]"


def chars(s: str) -> str:
    """explicit char list (kernel-friendly: no String.toList on a literal)"""
    def one(c):
        if c == "'":
            return "'\\''"
        if c == "\\":
            return "'\\\\'"
        if 32 <= ord(c) < 127:
            return f"'{c}'"
        return f"(Char.ofNat {ord(c)})"
    return "[" + ", ".join(one(c) for c in s) + "]"


def dec_of_float(v):
    """(mantissa, exponent) with v == mantissa * 10**-exponent, from the shortest repr"""
    d = Decimal(repr(float(v)))
    sign, digits, exp = d.as_tuple()
    m = int("".join(map(str, digits)))
    if sign:
        m = -m
    if exp > 0:
        m *= 10 ** exp
        exp = 0
    return m, -exp


def lean_int(i: int) -> str:
    return str(i) if i >= 0 else f"({i})"


def lean_rat(fr) -> str:
    from fractions import Fraction
    fr = Fraction(fr)
    if fr.denominator == 1:
        return f"({fr.numerator} : Rat)"
    return f"(({fr.numerator} : Rat) / {fr.denominator})"
