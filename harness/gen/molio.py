"""translator: fixed-column tables and f-string format specs of chmpy/fmt/sdf.py, the coordinate->column map of
Molecule.to_sdf_string and the XYZ line format of Molecule.to_xyz_string -> Gen/MolIO.lean"""
import ast
import re

from harness.common.core import LEAN, SRC, TieBroken, write_if_changed
from harness.gen.leanfmt import codes


def fstring_items(node):
    """JoinedStr (possibly several concatenated) -> [('lit', text) | ('field', name, spec)]"""
    items = []
    parts = []

    def collect(n):
        if isinstance(n, ast.JoinedStr):
            parts.extend(n.values)
        elif isinstance(n, ast.Constant) and isinstance(n.value, str):
            parts.append(n)
        elif isinstance(n, ast.BinOp) and isinstance(n.op, ast.Add):
            collect(n.left)
            collect(n.right)
        else:
            raise TieBroken("format expression is not an f-string: " + ast.dump(n)[:80])
    collect(node)
    for v in parts:
        if isinstance(v, ast.Constant):
            items.append(("lit", v.value))
        elif isinstance(v, ast.FormattedValue):
            if not isinstance(v.value, ast.Name):
                raise TieBroken("formatted value is not a plain name")
            spec = ""
            if v.format_spec is not None:
                if not (isinstance(v.format_spec, ast.JoinedStr) and all(isinstance(x, ast.Constant) for x in v.format_spec.values)):
                    raise TieBroken("dynamic format spec")
                spec = "".join(x.value for x in v.format_spec.values)
            items.append(("field", v.value.id, spec))
        else:
            raise TieBroken("unexpected f-string part")
    return items


SPEC = re.compile(r"^(?P<flag>[ +-]?)(?P<width>\d*)(?:\.(?P<prec>\d+))?(?P<ty>[dfs]?)$")


def spec_parts(spec):
    m = SPEC.match(spec)
    if not m:
        raise TieBroken(f"format spec {spec!r} outside the accepted subset")
    return (1 if m.group("flag") == " " else 0, int(m.group("width") or 0), int(m.group("prec") or 0), m.group("ty") or "s")


def fields_table(tree, name):
    for n in tree.body:
        if isinstance(n, ast.Assign) and any(isinstance(t, ast.Name) and t.id == name for t in n.targets):
            rows = []
            if not isinstance(n.value, ast.Tuple):
                raise TieBroken(f"{name} is not a tuple literal")
            for e in n.value.elts:
                if not (isinstance(e, ast.Tuple) and len(e.elts) == 3 and isinstance(e.elts[0], ast.Constant)):
                    raise TieBroken(f"{name}: unexpected row")
                nm = e.elts[0].value
                parsed = not (isinstance(e.elts[1], ast.Constant) and e.elts[1].value is None)
                w = e.elts[2].value if isinstance(e.elts[2], ast.Constant) else None
                rows.append((nm, parsed, w))
            return rows
    raise TieBroken(f"{name} not found")


def writer_items(tree, fname):
    for n in tree.body:
        if isinstance(n, ast.FunctionDef) and n.name == fname:
            for st in n.body:
                if isinstance(st, ast.Return):
                    return fstring_items(st.value)
    raise TieBroken(f"{fname} not found")


def scan():
    sdf = ast.parse((SRC / "fmt" / "sdf.py").read_text())
    out = {"readers": {}, "writers": {}}
    for tbl, fn, key in (("_COUNTS_FIELDS", "to_counts_line", "counts"), ("_ATOM_FIELDS", "to_atom_line", "atom"), ("_BOND_FIELDS", "to_bond_line", "bond")):
        out["readers"][key] = fields_table(sdf, tbl)
        out["writers"][key] = writer_items(sdf, fn)
    mol = ast.parse((SRC / "core" / "molecule.py").read_text())
    cls = next(n for n in mol.body if isinstance(n, ast.ClassDef) and n.name == "Molecule")
    # coordinate -> column map in to_sdf_string
    fn = next(n for n in cls.body if isinstance(n, ast.FunctionDef) and n.name == "to_sdf_string")
    cmap = {}
    for n in ast.walk(fn):
        if isinstance(n, ast.Dict):
            for k, v in zip(n.keys, n.values):
                if isinstance(k, ast.Constant) and k.value in ("x", "y", "z") and isinstance(v, ast.Subscript):
                    sl = v.slice
                    if isinstance(sl, ast.Tuple) and len(sl.elts) == 2 and isinstance(sl.elts[1], ast.Constant) \
                            and isinstance(v.value, ast.Attribute) and v.value.attr == "positions":
                        cmap[k.value] = sl.elts[1].value
    if set(cmap) != {"x", "y", "z"}:
        raise TieBroken("to_sdf_string: could not find the positions[:, k] sources of x, y, z")
    out["coord_map"] = cmap
    # xyz line
    fn = next(n for n in cls.body if isinstance(n, ast.FunctionDef) and n.name == "to_xyz_string")
    xyz = None
    for n in ast.walk(fn):
        if isinstance(n, ast.Call) and isinstance(n.func, ast.Attribute) and n.func.attr == "append" and n.args and isinstance(n.args[0], ast.JoinedStr):
            items = fstring_items(n.args[0])
            if any(i[0] == "field" and i[1] in ("x", "y", "z") for i in items):
                xyz = items
    if xyz is None:
        raise TieBroken("to_xyz_string: atom line f-string not found")
    out["xyz"] = xyz
    return out


def lean_items(items):
    res = []
    for it in items:
        if it[0] == "lit":
            res.append(f".lit {codes(it[1])}")
        else:
            flag, w, p, ty = spec_parts(it[2])
            res.append(f".field {codes(it[1])} {flag} {w} {p} {codes(ty)}")
    return "[" + ", ".join(res) + "]"


def generate():
    s = scan()
    L = ["/- GENERATED by harness/gen/molio.py from chmpy/fmt/sdf.py and chmpy/core/molecule.py — do not edit -/",
         "import ChmpyVerif.Model.MolIO", "namespace ChmpyVerif.Gen", "open ChmpyVerif.MolIO", ""]
    for key in ("counts", "atom", "bond"):
        rows = s["readers"][key]
        L.append(f"/-- `_{key.upper()}_FIELDS`: (name, parsed?, width; 0 = rest of line) -/")
        L.append(f"def {key}Reader : List RField := [" + ", ".join(
            f"⟨{codes(nm)}, {'true' if parsed else 'false'}, {w if w is not None else 0}⟩" for nm, parsed, w in rows) + "]")
        L.append(f"/-- f-string of `to_{key}_line` -/")
        L.append(f"def {key}Writer : List WItem := {lean_items(s['writers'][key])}")
    L.append("/-- `Molecule.to_sdf_string`: which column of `positions` feeds x, y, z -/")
    L.append("def coordMap : List (List Nat × Nat) := [" + ", ".join(f"({codes(k)}, {v})" for k, v in sorted(s["coord_map"].items())) + "]")
    L.append("/-- atom line of `Molecule.to_xyz_string` -/")
    L.append(f"def xyzWriter : List WItem := {lean_items(s['xyz'])}")
    L += ["", "end ChmpyVerif.Gen", ""]
    write_if_changed(LEAN / "ChmpyVerif" / "Gen" / "MolIO.lean", "\n".join(L))
    return s
