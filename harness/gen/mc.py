"""translator: marching-cubes lookup tables (mc/lookup_tables.py, base64), the edge geometry tables (mc/_mc.py) and the decision
logic of `the_big_switch` / the reference-edge selection of `test_internal` (mc/_mc_lewiner.pyx, parsed with `ast` after removing the
two Cython declarations) -> Gen/MCTables.lean.  The switch is executed symbolically for each of the 256 corner-sign configurations:
every `test_face` / `test_internal` call forks, giving the complete list of leaves (configuration, recorded test outcomes, tiling)."""
import ast
import base64
import importlib.util

from harness.common.core import LEAN, SRC, TieBroken, write_if_changed


def load_luts():
    spec = importlib.util.spec_from_file_location("_lt_verif", SRC / "mc" / "lookup_tables.py")
    lt = importlib.util.module_from_spec(spec)
    spec.loader.exec_module(lt)
    out = {}
    for name in dir(lt):
        v = getattr(lt, name)
        if name.isupper() and isinstance(v, tuple) and len(v) == 2 and isinstance(v[1], str):
            shape, text = v
            flat = [b - 256 if b > 127 else b for b in base64.decodebytes(text.encode("utf-8"))]
            n = 1
            for s in shape:
                n *= s
            if n != len(flat):
                raise TieBroken(f"lookup table {name}: {len(flat)} entries for shape {shape}")
            out[name] = (tuple(shape), flat)
    return out


def lut_get(luts, name, idx):
    shape, flat = luts[name]
    if len(idx) != len(shape):
        raise TieBroken(f"{name} indexed with {len(idx)} indices, shape {shape}")
    off = 0
    for i, s in zip(idx, shape):
        if not (0 <= i < s):
            raise TieBroken(f"{name}{list(idx)} out of range {shape}")
        off = off * s + i
    return flat[off]


def lut_row(luts, name, idx):
    shape, flat = luts[name]
    off = 0
    for i, s in zip(idx, shape):
        off = off * s + i
    w = 1
    for s in shape[len(idx):]:
        w *= s
    return flat[off * w:(off + 1) * w]


def edge_tables():
    tree = ast.parse((SRC / "mc" / "_mc.py").read_text())
    out = {}
    for n in tree.body:
        if isinstance(n, ast.Assign) and isinstance(n.targets[0], ast.Name) and n.targets[0].id.startswith("EDGETORELATIVEPOS"):
            lst = n.value.args[0]
            out[n.targets[0].id[-1]] = [[e.value for e in row.elts] for row in lst.elts]
    if set(out) != {"X", "Y", "Z"} or any(len(v) != 12 for v in out.values()):
        raise TieBroken("EDGETORELATIVEPOS tables not found in _mc.py")
    return out


def pyx_function(text, header, newheader, upto):
    i = text.find(header)
    j = text.find(upto, i + 1) if upto else len(text)
    if i < 0 or j < 0:
        raise TieBroken(f"{header!r} not found in _mc_lewiner.pyx")
    body = text[i:j].replace(header, newheader)
    lines = []
    for ln in body.split("\n"):
        s = ln.strip()
        if s.startswith("cdef "):
            # `cdef int x = 0` -> `x = 0`; pure declarations disappear
            decl = s[5:]
            if "=" in decl:
                parts = decl.split("=", 1)
                names = parts[0].split()[1:] if not "," in parts[0] else None
                if names:
                    lines.append(ln[:len(ln) - len(ln.lstrip())] + names[-1] + " =" + parts[1])
                    continue
                # `cdef double A = 0, B = 0, ...`
                rest = decl.split(None, 1)[1]
                lines.append(ln[:len(ln) - len(ln.lstrip())] + "; ".join(p.strip() for p in rest.split(",")))
                continue
            continue
        lines.append(ln)
    try:
        return ast.parse("\n".join(lines)).body[0]
    except SyntaxError as ex:
        raise TieBroken(f"cannot parse {newheader}: {ex}")


class Sym:
    def __init__(self, luts):
        self.luts = luts

    def ev(self, n, env):
        if isinstance(n, ast.Constant):
            return n.value
        if isinstance(n, ast.Name):
            if n.id not in env:
                raise TieBroken(f"switch reads unknown variable {n.id}")
            return env[n.id]
        if isinstance(n, ast.UnaryOp) and isinstance(n.op, ast.USub):
            return -self.ev(n.operand, env)
        if isinstance(n, ast.Call) and isinstance(n.func, ast.Attribute) and n.func.attr in ("get1", "get2", "get3"):
            name = n.func.value.attr
            return lut_get(self.luts, name, [self.ev(a, env) for a in n.args])
        raise TieBroken("unsupported expression in the_big_switch: " + ast.dump(n)[:120])

    def leaves(self, fn, case, config):
        out = []

        def run(stmts, env, trace, k):
            if not stmts:
                if k:
                    return run(k[0], env, trace, k[1:])
                out.append((trace, env.get("_tri"), env.get("subconfig", 0)))
                return
            s, rest = stmts[0], stmts[1:]
            if isinstance(s, ast.Expr) and isinstance(s.value, ast.Constant):
                return run(rest, env, trace, k)
            if isinstance(s, ast.Assign) and isinstance(s.targets[0], ast.Name):
                env = dict(env)
                env[s.targets[0].id] = self.ev(s.value, env)
                return run(rest, env, trace, k)
            if isinstance(s, ast.AugAssign) and isinstance(s.op, ast.Add):
                env = dict(env)
                env[s.target.id] = env[s.target.id] + self.ev(s.value, env)
                return run(rest, env, trace, k)
            if isinstance(s, ast.Expr) and isinstance(s.value, ast.Call):
                c = s.value
                if isinstance(c.func, ast.Name) and c.func.id == "print":
                    env = dict(env)
                    env["_tri"] = "IMPOSSIBLE"
                    return run(rest, env, trace, k)
                if isinstance(c.func, ast.Attribute) and c.func.attr in ("add_triangles", "add_triangles2"):
                    name = c.args[0].attr
                    idx = [self.ev(a, env) for a in c.args[1:-1]]
                    nt = self.ev(c.args[-1], env)
                    row = lut_row(self.luts, name, idx)
                    if 3 * nt > len(row):
                        raise TieBroken(f"{name}{idx}: {nt} triangles requested from a row of {len(row)}")
                    env = dict(env)
                    env["_tri"] = (name, row[:3 * nt])
                    return run(rest, env, trace, k)
            if isinstance(s, ast.If):
                t = s.test
                if isinstance(t, ast.Compare) and len(t.ops) == 1 and isinstance(t.ops[0], ast.Eq):
                    val = self.ev(t.left, env) == self.ev(t.comparators[0], env)
                    return run(s.body if val else s.orelse, env, trace, [rest] + k)
                if isinstance(t, ast.Call) and isinstance(t.func, ast.Name) and t.func.id in ("test_face", "test_internal"):
                    arg = self.ev(t.args[-1], env)
                    kind = t.func.id == "test_face"
                    sub = env.get("subconfig", 0)
                    for outcome in (True, False):
                        run(s.body if outcome else s.orelse, env, trace + [(kind, arg, outcome, sub)], [rest] + k)
                    return
            raise TieBroken("unsupported statement in the_big_switch: " + ast.dump(s)[:160])

        run(fn.body, {"case": case, "config": config}, [], [])
        return out

    def ref_edge(self, fn, case, config, subconfig):
        """the `edge = luts....` chain of test_internal"""
        for n in ast.walk(fn):
            if isinstance(n, ast.If) and isinstance(n.test, ast.Compare) and isinstance(n.test.left, ast.Name) and n.test.left.id == "case" \
                    and len(n.body) == 1 and isinstance(n.body[0], ast.Assign) and n.body[0].targets[0].id == "edge":
                cur = n
                while True:
                    if self.ev(cur.test.comparators[0], {}) == case:
                        return self.ev(cur.body[0].value, {"config": config, "subconfig": subconfig})
                    if len(cur.orelse) == 1 and isinstance(cur.orelse[0], ast.If):
                        cur = cur.orelse[0]
                    else:
                        return -1
        raise TieBroken("reference-edge selection of test_internal not found")


def scan():
    luts = load_luts()
    edges = edge_tables()
    text = (SRC / "mc" / "_mc_lewiner.pyx").read_text()
    sw = pyx_function(text, "cdef void the_big_switch(LutProvider luts, Cell cell, int case, int config):",
                      "def the_big_switch(luts, cell, case, config):", "cdef int test_face")
    ti = pyx_function(text, "cdef int test_internal(Cell cell, LutProvider luts, int case, int config, int subconfig, int s):",
                      "def test_internal(cell, luts, case, config, subconfig, s):", None)
    sym = Sym(luts)
    leaves = []
    for cfg in range(256):
        case, config = lut_get(luts, "CASES", [cfg, 0]), lut_get(luts, "CASES", [cfg, 1])
        if case <= 0:
            leaves.append(dict(cfg=cfg, case=0, tests=[], lut="NONE", tris=[], impossible=False, edge=-1))
            continue
        for trace, tri, _ in sym.leaves(sw, case, config):
            edge = -1
            for kind, arg, outcome, sub in trace:
                if not kind:
                    edge = sym.ref_edge(ti, case, config, sub) if case in (6, 7, 12, 13) else -1
            if tri == "IMPOSSIBLE" or tri is None:
                leaves.append(dict(cfg=cfg, case=case, tests=trace, lut="IMPOSSIBLE", tris=[], impossible=True, edge=edge))
            else:
                leaves.append(dict(cfg=cfg, case=case, tests=trace, lut=tri[0], tris=list(tri[1]), impossible=False, edge=edge))
    classic = [[x for x in lut_row(luts, "CASESCLASSIC", [cfg])] for cfg in range(256)]
    return dict(luts=luts, edges=edges, leaves=leaves, classic=classic)


def lean_int(i):
    return str(i) if i >= 0 else f"({i})"


CORNER = {(0, 0, 0): 0, (1, 0, 0): 1, (1, 1, 0): 2, (0, 1, 0): 3, (0, 0, 1): 4, (1, 0, 1): 5, (1, 1, 1): 6, (0, 1, 1): 7}
FACES = {1: (0, 4, 5, 1), 2: (1, 5, 6, 2), 3: (2, 6, 7, 3), 4: (3, 7, 4, 0), 5: (0, 3, 2, 1), 6: (4, 7, 6, 5)}


def expected_table(m):
    """(key code, segment code) table computed here the way Model/MC.lean defines keyCode / segsCode; Lean re-checks every
    leaf against it, so a mistake here makes a proof fail, never pass"""
    e = m["edges"]
    ends = {i: (CORNER[(e["X"][i][0], e["Y"][i][0], e["Z"][i][0])], CORNER[(e["X"][i][1], e["Y"][i][1], e["Z"][i][1])]) for i in range(12)}
    on = {f: [i for i in range(12) if ends[i][0] in cs and ends[i][1] in cs] for f, cs in FACES.items()}
    table = {}
    for lf in m["leaves"]:
        if lf["impossible"]:
            continue
        t = lf["tris"]
        d = []
        for a in range(0, len(t) - 2, 3):
            x, y, z = t[a:a + 3]
            d += [(x, y), (y, z), (z, x)]
        bnd = [x for x in d if (x[1], x[0]) not in d]
        for f, cs in FACES.items():
            signs = [(lf["cfg"] >> c) & 1 for c in cs]
            b = 0
            for sg in signs:
                b = 2 * b + sg
            q = 0
            if signs in ([1, 0, 1, 0], [0, 1, 0, 1]):
                q = 3
                for kind, arg, outcome, _ in lf["tests"]:
                    if kind and abs(arg) == f:
                        q = 1 if (outcome if arg > 0 else not outcome) else 2
            key = (f * 16 + b) * 4 + q
            segs = sorted(u * 16 + v for (u, v) in bnd if u < 12 and v < 12 and u in on[f] and v in on[f])
            table.setdefault(key, segs)
    return sorted(table.items())


def generate():
    m = scan()
    e = m["edges"]
    L = ["/- GENERATED by harness/gen/mc.py from mc/lookup_tables.py, mc/_mc.py and mc/_mc_lewiner.pyx — do not edit -/",
         "namespace ChmpyVerif.Gen.MC", "",
         "structure Leaf where",
         "  cfg : Nat",
         "  case : Nat",
         "  tests : List (Bool × Int × Bool)   -- (true = test_face / false = test_internal, argument, outcome)",
         "  refEdge : Int                      -- reference edge of test_internal (cases 6, 7, 12, 13), else -1",
         "  tris : List Int                    -- 3·nt edge indices as read from the tiling table",
         "  impossible : Bool                  -- the `Impossible case 13?` branch",
         "deriving Repr, DecidableEq", "",
         "/-- edge index -> the two corner offsets (dx, dy, dz) -/",
         "def edgeRel : List ((Nat × Nat × Nat) × (Nat × Nat × Nat)) := ["
         + ", ".join(f"(({e['X'][i][0]}, {e['Y'][i][0]}, {e['Z'][i][0]}), ({e['X'][i][1]}, {e['Y'][i][1]}, {e['Z'][i][1]}))" for i in range(12)) + "]", ""]
    chunks = []
    per = 32
    for c in range(0, 256, per):
        name = f"leaves{c // per}"
        chunks.append(name)
        L.append(f"def {name} : List Leaf := [")
        rows = []
        for lf in m["leaves"]:
            if c <= lf["cfg"] < c + per:
                tests = "[" + ", ".join(f"({'true' if k else 'false'}, {lean_int(a)}, {'true' if o else 'false'})" for k, a, o, _ in lf["tests"]) + "]"
                rows.append(f"  ⟨{lf['cfg']}, {lf['case']}, {tests}, {lean_int(lf['edge'])}, [" + ", ".join(lean_int(x) for x in lf["tris"]) + f"], {'true' if lf['impossible'] else 'false'}⟩")
        L.append(",\n".join(rows) + "]")
        L.append("")
    L.append("def leafChunks : List (List Leaf) := [" + ", ".join(chunks) + "]")
    L.append("def leaves : List Leaf := leafChunks.flatten")
    L.append("")
    L.append("/-- CASESCLASSIC rows, cut at the terminator the code looks for (`get2(index, 3*nt) == -1`); a negative entry before it is kept as 255 -/")
    cl = []
    for row in m["classic"]:
        nt = 0
        while 3 * nt < len(row) and row[3 * nt] != -1:
            nt += 1
        cl.append([x if x >= 0 else 255 for x in row[:3 * nt]])
    for c in range(0, 256, 64):
        L.append(f"def classic{c // 64} : List (List Nat) := [")
        L.append(",\n".join("  [" + ", ".join(str(x) for x in row) + "]" for row in cl[c:c + 64]) + "]")
    L.append("def classic : List (List Nat) := classic0 ++ classic1 ++ classic2 ++ classic3")
    L.append("")
    L.append("/-- boundary segments per face-local datum (computed by the translator, CHECKED against every leaf in Props/C06K*) -/")
    L.append("def expectedLit : List (Nat × List Nat) := [" + ", ".join(f"({k}, [" + ", ".join(map(str, v)) + "])" for k, v in expected_table(m)) + "]")
    L.append("")
    L.append("end ChmpyVerif.Gen.MC")
    write_if_changed(LEAN / "ChmpyVerif" / "Gen" / "MCTables.lean", "\n".join(L) + "\n")
    return m


if __name__ == "__main__":
    m = generate()
    print(len(m["leaves"]), "leaves")
