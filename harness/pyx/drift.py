"""Drift guard for the compiled Cython kernels (DESIGN.md 4.3).

This sandbox has no Cython: an edited .pyx cannot be turned into running code.  Cython embeds, in the
generated .c, a comment block for every translated statement showing the source lines around it.  The
guard rebuilds from those blocks the lines of the .pyx the binary was built from and compares them with
the working-tree .pyx.  Equal  => the binary IS the current source and behavioural checks against it are
valid.  Different => the binary is stale: reported as a broken tie for the properties anchored there.
"""
import re

from harness.common.core import SRC

BLOCK = re.compile(r'/\* "(?P<file>[^"]+\.pyx)":(?P<line>\d+)\n(?P<body>(?: \*.*\n)+?)\s*\*/')


def embedded_lines(c_path, pyx_rel):
    text = open(c_path, errors="replace").read()
    lines = {}
    for m in BLOCK.finditer(text):
        if not m.group("file").endswith(pyx_rel):
            continue
        n = int(m.group("line"))
        body = [l[3:] if l.startswith(" * ") else l[2:] for l in m.group("body").splitlines()]
        k = next((i for i, l in enumerate(body) if "# <<<<<<<<<<<<<<" in l), None)
        if k is None:
            continue
        for i, l in enumerate(body):
            l = l.replace("# <<<<<<<<<<<<<<", "").rstrip()
            lines.setdefault(n + i - k, l)
    return lines


def normalise(l):
    l = l.split("#", 1)[0] if not ("'" in l or '"' in l) else l
    return re.sub(r"\s+", " ", l.strip())


def check(module_rel):
    """module_rel like 'sampling/_sobol'.  Returns (n_compared, mismatches[(lineno, built_from, current)])"""
    pyx = SRC / (module_rel + ".pyx")
    c = SRC / (module_rel + ".c")
    if not c.exists():
        return 0, [(0, "<no generated .c next to the binary>", "")]
    cur = pyx.read_text().splitlines()
    emb = embedded_lines(str(c), module_rel.split("/")[-1] + ".pyx")
    bad = []
    for n, txt in sorted(emb.items()):
        now = cur[n - 1] if 1 <= n <= len(cur) else "<past end of file>"
        # Cython writes '* /' for '*/' inside comments; ignore that and whitespace/comment-only differences
        if normalise(txt.replace("* /", "*/")) != normalise(now):
            bad.append((n, txt, now))
    # lines added beyond what was compiled
    return len(emb), bad


def report(ctx, modules):
    res = {}
    for mrel in modules:
        n, bad = check(mrel)
        res[mrel] = {"lines_compared": n, "mismatches": len(bad)}
        if bad:
            ctx.tie_broken(f"compiled kernel {mrel}.pyx",
                           "the prebuilt extension was NOT compiled from the current .pyx (no Cython here to rebuild); first differing lines: "
                           + "; ".join(f"L{n}: built from {a!r} now {b!r}" for n, a, b in bad[:4]))
    ctx.note("pyx_drift_guard", res)
    return res
