#!/bin/bash
# run the repository's pinned baseline (guard OFF) and compare with BASELINE.json stable_pass
# optional argument: the tree to test (default /repo; a scratch worktree when seeded changes are evaluated in parallel)
R=${1:-/repo}
export J=/tmp/chmpy_baseline.$(echo $R | tr / _).junit.xml
cd $R && PYTHONPATH=$R/src /venv/bin/python -m pytest -ra -q -p no:cacheprovider --timeout=900 --continue-on-collection-errors --junitxml=$J > ${J%.junit.xml}.log 2>&1
/venv/bin/python - <<'PY'
import os
import json, xml.etree.ElementTree as ET
b = json.load(open('/root/.vp/BASELINE.json'))
t = ET.parse(os.environ['J'])
res = {}
for tc in t.iter('testcase'):
    name = tc.get('classname') + '::' + tc.get('name')
    bad = any(ch.tag in ('failure', 'error', 'skipped') for ch in tc)
    res[name] = not bad
missing = [n for n in b['stable_pass'] if not res.get(n)]
print('passed', sum(res.values()), 'of', len(res), '; baseline stable', len(b['stable_pass']), '; baseline tests not passing:', missing)
raise SystemExit(1 if missing else 0)
PY
