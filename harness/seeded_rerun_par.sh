#!/bin/bash
# re-evaluate the stored seeded changes of ONE property against the current checks, on a scratch worktree (/tmp/mut/<ID>, which must
# be a worktree of /repo at its HEAD) with a private copy of /verif; several IDs can run side by side:
#   ls /verif/seeded | xargs -P 5 -I{} harness/seeded_rerun_par.sh {}
id=$1
wt=/tmp/mut/$id
copy=/tmp/w/pv/$id
[ -d $wt ] || { echo "$id: no worktree $wt"; exit 2; }
mkdir -p /tmp/w/pv
rsync -a --delete --exclude .git --exclude seeded /verif/ $copy/
git -C $wt checkout -q -- .
git -C $wt checkout -q --detach $(git -C /repo rev-parse HEAD)
for out in /verif/seeded/$id/*m[0-9]; do
  [ -f $out/patch.diff ] || continue
  [ -f $out/superseded ] && continue
  (cd $copy && CHMPY_REPO=$wt PYTHONPATH=$copy /venv/bin/python -m harness.seeded $id $out/patch.diff $out/demonstration.py $out > $out/eval.log 2>&1)
  /venv/bin/python - <<PY
import json
try:
    r=json.load(open("$out/eval.json"))
    print("$id $(basename $out) valid_seed=%s caught=%s | %s" % (r["valid_seed"], r["caught"], r["checks"]["$id"]["summary"][:120]))
except Exception as ex:
    print("$id $(basename $out) eval failed:", ex, open("$out/eval.log").read()[-200:])
PY
done
git -C $wt status --short --untracked-files=no | head -3
