#!/bin/bash
# re-evaluate the seeded changes already stored under /verif/seeded (all, or the IDs given) against the current checks
ids=${@:-$(ls /verif/seeded)}
for id in $ids; do
  for out in /verif/seeded/$id/*m[0-9]; do
    [ -f $out/patch.diff ] || continue
    [ -f $out/superseded ] && continue
    PYTHONPATH=/verif /venv/bin/python -m harness.seeded $id $out/patch.diff $out/demonstration.py $out > $out/eval.log 2>&1
    /venv/bin/python - <<PY
import json
try:
    r=json.load(open("$out/eval.json"))
    print("$id $(basename $out) valid_seed=%s caught=%s | %s" % (r["valid_seed"], r["caught"], r["checks"]["$id"]["summary"][:120]))
except Exception as ex:
    print("$id $(basename $out) eval failed:", ex, open("$out/eval.log").read()[-200:])
PY
  done
done
git -C /repo status --short | head -3
