import ChmpyVerif.Model.Proto
import ChmpyVerif.Gen.Sobol
open ChmpyVerif ChmpyVerif.Sobol ChmpyVerif.Gen

def nats (l : List Nat) : String := " ".intercalate (l.map toString)

def step (line : String) : String :=
  match (Proto.fields line) with
  | ["sobol", n, d] => match n.toNat?, d.toNat? with
    | some n, some d => nats (sobol sobolTable n d)
    | _, _ => "bad-op"
  | ["batch", a, b, d] => match a.toNat?, b.toNat?, d.toNat? with
    | some a, some b, some d => " | ".intercalate ((sobolBatch sobolTable a b d).map nats)
    | _, _, _ => "bad-op"
  | ["coord", n, j] => match n.toNat?, j.toNat? with
    | some n, some j => toString (coord sobolTable (ceilLog2 n) n j)
    | _, _ => "bad-op"
  | ["front", d1, d2, seed] => match d1.toNat?, d2.toInt?, seed.toNat? with
    | some d1, some d2, some seed =>
      (match frontEnd d1 (if d2 < 0 then none else some d2.toNat) seed with
       | .single s d => s!"single {s} {d}"
       | .batch a b d => s!"batch {a} {b} {d}")
    | _, _, _ => "bad-op"
  | _ => "bad-op"

def main : IO Unit := Proto.run step
