import ChmpyVerif.Model.Proto
import ChmpyVerif.Model.Density
open ChmpyVerif ChmpyVerif.Density

def parseRow (l : String) : Array Rat := ((Proto.fields l).filterMap Proto.parseRat).toArray

def loadTable (path : String) : IO Table := do
  let txt ← IO.FS.readFile path
  let lines := (txt.splitOn "\n").filter (· ≠ "")
  match lines with
  | dom :: rest =>
    let rows := rest.filterMap fun l =>
      match Proto.fields l with
      | z :: vals => (z.toNat?).map fun z => (z, (vals.filterMap Proto.parseRat).toArray)
      | [] => none
    return ⟨parseRow dom, rows⟩
  | [] => return ⟨#[], []⟩

def triples : List Rat → List (List Rat)
  | a :: b :: c :: rest => [a, b, c] :: triples rest
  | _ => []

/-- atoms: n then (Z x y z)* -/
def readAtoms : Nat → List String → Option (List (Nat × List Rat) × List String)
  | 0, rest => some ([], rest)
  | n + 1, z :: x :: y :: w :: rest => do
    let z ← z.toNat?
    let x ← Proto.parseRat x; let y ← Proto.parseRat y; let w ← Proto.parseRat w
    let (as, r) ← readAtoms n rest
    some ((z, [x, y, w]) :: as, r)
  | _, _ => none

def step (T : Table) (line : String) : String :=
  match Proto.fields line with
  | "rho" :: path :: n :: rest =>
    match n.toNat? with
    | some n =>
      match readAtoms n rest with
      | some (atoms, pts) =>
        let p := if path = "single" then Path.single else Path.batch
        " ".intercalate ((triples (pts.filterMap Proto.parseRat)).map fun q => Proto.showRat (rho p T atoms q))
      | none => "bad-op"
    | none => "bad-op"
  | "weight" :: bg :: na :: rest =>
    match na.toNat?, Proto.parseRat bg with
    | some na, some bg =>
      match readAtoms na rest with
      | some (a, nb :: rest2) =>
        match nb.toNat? with
        | some nb =>
          match readAtoms nb rest2 with
          | some (b, pts) =>
            " ".intercalate ((triples (pts.filterMap Proto.parseRat)).map fun q => Proto.showRat (weight .batch T a b bg q))
          | none => "bad-op"
        | none => "bad-op"
      | _ => "bad-op"
    | _, _ => "bad-op"
  | "valid" :: zs => match zs.mapM (·.toInt?) with
    | some zs => if validElements zs then "ok" else "err ValueError"
    | none => "bad-op"
  | _ => "bad-op"

partial def loop (h : IO.FS.Stream) (T : Table) : IO Unit := do
  let line ← h.getLine
  if line.isEmpty then return ()
  match Proto.fields line with
  | ["table", path] =>
    let T' ← loadTable path
    IO.println s!"loaded {T'.domain.size} {T'.rows.length}"
    loop h T'
  | _ =>
    IO.println (step T line)
    loop h T

def main : IO Unit := do loop (← IO.getStdin) ⟨#[], []⟩
