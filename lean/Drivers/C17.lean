import ChmpyVerif.Model.Proto
import ChmpyVerif.Gen.Elements
open ChmpyVerif ChmpyVerif.Element

def cs (l : List Nat) : String := String.ofList (l.map Char.ofNat)
def showDec (d : Dec) : String := s!"{d.mant}e{d.exp}"
def showErr : Err → String
  | .valueError => "err ValueError"
  | .indexError => "err IndexError"
def showElem : Except Err Elem → String
  | .ok e => s!"ok {e.z} {cs e.row.symbol} {cs e.row.name} {showDec e.row.cov} {showDec e.row.vdw} {showDec e.row.mass}"
  | .error e => showErr e
def showList {α} (f : α → String) : Except Err (List α) → String
  | .ok l => "ok " ++ " ".intercalate (l.map f)
  | .error e => showErr e


def decodeArg (s : String) : List Nat := if s = "%" then [] else (Proto.pctDecode s.toList).map Char.toNat

def step (line : String) : String :=
  let tbl := Gen.elementTable
  match Proto.fields line with
  | ["fromString", s] => showElem (fromString tbl (decodeArg s))
  | ["fromLabel", s] => showElem (fromLabel tbl (decodeArg s))
  | ["fromNumber", n] => match n.toInt? with
      | some n => showElem (fromAtomicNumber tbl n)
      | none => "bad-op"
  | op :: args =>
    match args.mapM (·.toInt?) with
    | none => "bad-op"
    | some zs =>
      if op = "covRadii" then showList showDec (covRadii tbl zs)
      else if op = "vdwRadii" then showList showDec (vdwRadii tbl zs)
      else if op = "symbols" then showList cs (elementSymbols tbl zs)
      else if op = "names" then showList cs (elementNames tbl zs)
      else if op = "lt" then match zs with
        | [a, b] => if elLt a b then "ok 1" else "ok 0"
        | _ => "bad-op"
      else if op = "le" then match zs with
        | [a, b] => if elLeT a b then "ok 1" else "ok 0"
        | _ => "bad-op"
      else if op = "gt" then match zs with
        | [a, b] => if elGtT a b then "ok 1" else "ok 0"
        | _ => "bad-op"
      else if op = "ge" then match zs with
        | [a, b] => if elGeT a b then "ok 1" else "ok 0"
        | _ => "bad-op"
      else if op = "formula" then
        ("ok " ++ " ".intercalate ((formula zs).map fun p => s!"{p.1}:{p.2}")).trimAsciiEnd.toString
      else "bad-op"
  | _ => "bad-op"

def main : IO Unit := Proto.run step
