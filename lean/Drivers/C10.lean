import ChmpyVerif.Model.Proto
import ChmpyVerif.Gen.CrystalIO
open ChmpyVerif ChmpyVerif.MolIO ChmpyVerif.PyStr ChmpyVerif.Gen

def nm (s : String) : List Nat := s.toList.map Char.toNat
def decodeArg (s : String) : List Nat := if s = "%" then [] else (Proto.pctDecode s.toList).map Char.toNat
def enc (l : List Nat) : String := Proto.pctEncode (l.map Char.ofNat)

def step (line : String) : String :=
  match Proto.fields line with
  | ["shelxatom", label, sfac, x, y, z] =>
    match Proto.parseRat x, Proto.parseRat y, Proto.parseRat z with
    | some x, some y, some z =>
      let env (n : List Nat) : Val :=
        if n = nm "arg0" then .str (decodeArg label) else if n = nm "arg1" then .str (decodeArg sfac)
        else if n = nm "arg2" then .num x else if n = nm "arg3" then .num y else .num z
      enc (renderLine shelxAtomWriter env)
    | _, _, _ => "bad-op"
  | ["poscarrow", x, y, z] =>
    match Proto.parseRat x, Proto.parseRat y, Proto.parseRat z with
    | some x, some y, some z =>
      let env (n : List Nat) : Val := if n = [120] then .num x else if n = [121] then .num y else .num z
      enc (renderLine poscarRowWriter env)
    | _, _, _ => "bad-op"
  | ["key", l] =>
    let line := strip (decodeArg l)
    let k := (line.take 4).map toUpperA
    if k = nm "END" then "END" else if shelxKeys.contains k then "KEY " ++ enc k else "ATOM"
  | _ => "bad-op"

def main : IO Unit := Proto.run step
