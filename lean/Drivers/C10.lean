import ChmpyVerif.Model.Proto
import ChmpyVerif.Gen.CrystalIO
import ChmpyVerif.Props.C10Sfac
open ChmpyVerif ChmpyVerif.MolIO ChmpyVerif.PyStr ChmpyVerif.Gen

def nm (s : String) : List Nat := s.toList.map Char.toNat
def decodeArg (s : String) : List Nat := if s = "%" then [] else (Proto.pctDecode s.toList).map Char.toNat
def enc (l : List Nat) : String := Proto.pctEncode (l.map Char.ofNat)

def step (line : String) : String :=
  match Proto.fields line with
  | ["shelxatom", label, sfac, x, y, z] =>
    match Proto.parseRat x, Proto.parseRat y, Proto.parseRat z with
    | some x, some y, some z =>
      let env (n : List Nat) : Val :=
        if n = nm "arg0" then .str (decodeArg label) else if n = nm "arg1" then .str (decodeArg sfac)
        else if n = nm "arg2" then .num x else if n = nm "arg3" then .num y else .num z
      enc (renderLine shelxAtomWriter env)
    | _, _, _ => "bad-op"
  | ["poscarrow", x, y, z] =>
    match Proto.parseRat x, Proto.parseRat y, Proto.parseRat z with
    | some x, some y, some z =>
      let env (n : List Nat) : Val := if n = [120] then .num x else if n = [121] then .num y else .num z
      enc (renderLine poscarRowWriter env)
    | _, _, _ => "bad-op"
  | ["key", l] =>
    let line := strip (decodeArg l)
    let k := (line.take 4).map toUpperA
    if k = nm "END" then "END" else if shelxKeys.contains k then "KEY " ++ enc k else "ATOM"
  | "sfac" :: zs =>
    -- element bookkeeping of a .res file: SFAC list, per-atom index, element read back from the index
    match zs.mapM String.toNat? with
    | some zs =>
      if zs.all (· < 119) then
        let sf := Props.C10.sfacOf 119 zs
        let idx := Props.C10.atomSfac sf zs
        let back := idx.map fun i => (Props.C10.readElement sf i).getD 0
        let shw (l : List Nat) : String := ",".intercalate (l.map toString)
        shw sf ++ "|" ++ shw idx ++ "|" ++ shw back
      else "bad-op"
    | none => "bad-op"
  | _ => "bad-op"

def main : IO Unit := Proto.run step
