import ChmpyVerif.Model.Proto
import ChmpyVerif.Model.SymOp
open ChmpyVerif ChmpyVerif.SymOp ChmpyVerif.PyStr

def showErr : Err → String
  | .valueError => "err ValueError"
  | .indexError => "err IndexError"
  | .zeroDivision => "err ZeroDivisionError"

/-- translation printed as its duodecimal digit and as round(t·10⁹) -/
def showT (t : Rat) : String := s!"{digit t}:{roundHalfEven (t * 1000000000)}"

def showRT (r : List Int) (t : List Rat) : String :=
  " ".intercalate (r.map toString) ++ " | " ++ " ".intercalate (t.map showT)

def decodeArg (s : String) : List Nat := if s = "%" then [] else (Proto.pctDecode s.toList).map Char.toNat

def step (line : String) : String :=
  match Proto.fields line with
  | ["int", c] =>
    match c.toInt? with
    | none => "bad-op"
    | some code =>
      let o := Obj.fromInt code
      let s := o.str
      let back := match Obj.fromStr s with
        | .ok o2 => toString o2.code
        | .error e => showErr e
      s!"{showRT o.op.rot o.op.tr} | {o.code} | {encodeInt o.op.rot o.op.tr} | {PyStr.render s} | {back}"
  | ["str", s] =>
    match decodeStr (decodeArg s) with
    | .error e => showErr e
    | .ok (r, t) =>
      let o := mkOp r t
      -- the printed form is compared only inside the model's domain (translations on twelfths ± 1e-6)
      let onGrid := o.tr.all fun q => let d := 12 * q - (roundHalfEven (12 * q) : Rat); -(1 : Rat) / 1000000 < d && d < (1 : Rat) / 1000000
      let st := if onGrid then PyStr.render (encodeStr o.rot o.tr) else "~"
      s!"{showRT r t} | {encodeInt o.rot o.tr} | {st}"
  | "mk" :: args =>
    match args.mapM Proto.parseRat with
    | some l =>
      if l.length = 12 then
        let rot := (l.take 9).map (·.floor)
        let o := Obj.new rot (l.drop 9)
        s!"{o.code} | {PyStr.render o.str}"
      else "bad-op"
    | none => "bad-op"
  | "apply" :: args =>
    match args.mapM Proto.parseRat with
    | some l =>
      if l.length = 15 ∨ l.length = 16 then
        let rot := (l.take 9).map (·.floor)
        let o := mkOp rot ((l.drop 9).take 3)
        let x := (l.drop 12).take 3
        let w := (l.drop 15).headD 1          -- optional 16th number: the homogeneous coordinate (default 1)
        let r3 := apply3 o x
        let r4 := apply4 o (x ++ [w])
        let sh (v : List Rat) := " ".intercalate (v.map fun q => toString (roundHalfEven (q * 1000000000)))
        s!"{sh r3} | {sh r4}"
      else "bad-op"
    | none => "bad-op"
  | _ => "bad-op"

def main : IO Unit := Proto.run step
