import ChmpyVerif.Model.Proto
import ChmpyVerif.Model.Molecules
open ChmpyVerif ChmpyVerif.Mol

def showCell (c : Cell) : String := s!"{c.1},{c.2.1},{c.2.2}"

def readEdges : List Int → List Edge
  | i :: j :: a :: b :: c :: rest => ⟨i.toNat, j.toNat, (a, b, c)⟩ :: readEdges rest
  | _ => []

/-- lists separated by the token ";" -/
def splitLists (fs : List String) : List (List Nat) :=
  (fs.foldl (fun (acc : List (List Nat)) f =>
    if f = ";" then [] :: acc
    else match acc, f.toNat? with
      | l :: ls, some n => (l ++ [n]) :: ls
      | [], some n => [[n]]
      | a, none => a) [[]]).reverse

def step (line : String) : String :=
  match Proto.fields line with
  | "mols" :: nmol :: labels =>
    match nmol.toNat?, labels.mapM (·.toNat?) with
    | some k, some ls => " | ".intercalate ((molecules ls k).map fun m => " ".intercalate (m.map toString))
    | _, _ => "bad-op"
  | "shifts" :: n :: root :: rest =>
    match n.toNat?, root.toNat?, rest.mapM (·.toInt?) with
    | some n, some root, some nums =>
      let edges := readEdges nums
      let sh := bfsShifts n edges root
      (if shiftConsistent edges sh then "consistent " else "inconsistent ") ++
        " ".intercalate (sh.map fun p => s!"{p.1}:{showCell p.2}")
    | _, _, _ => "bad-op"
  | "greedy" :: nasym :: rest =>
    match nasym.toNat? with
    | some na => " ".intercalate ((greedy na ((splitLists rest).map uniq)).map toString)
    | none => "bad-op"
  | "order" :: rest =>
    match rest.mapM Proto.parseRat with
    | some ks => " ".intercalate ((sortDesc (ks.zipIdx)).map fun p => toString p.2)
    | none => "bad-op"
  | _ => "bad-op"

def main : IO Unit := Proto.run step
