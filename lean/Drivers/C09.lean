import ChmpyVerif.Model.Proto
import ChmpyVerif.Model.Density
import ChmpyVerif.Model.Brent
open ChmpyVerif ChmpyVerif.Density ChmpyVerif.Brent

def bits (x : Float) : String := toString x.toBits.toNat

/-- exact value of a finite double -/
def floatToRat (x : Float) : Rat :=
  if x == 0 || x.isNaN || x.isInf then 0 else
  let (m, e) := x.frExp
  let mi : Int := (m.scaleB 53).toInt64.toInt
  let k := e - 53
  if k ≥ 0 then (mi * (2 : Int) ^ k.toNat : Int) else mkRat mi (2 ^ (-k).toNat)

def loadTable (path : String) : IO Table := do
  let txt ← IO.FS.readFile path
  let lines := (txt.splitOn "\n").filter (· ≠ "")
  match lines with
  | dom :: rest =>
    let rows := rest.filterMap fun l =>
      match Proto.fields l with
      | z :: vals => (z.toNat?).map fun z => (z, (vals.filterMap Proto.parseRat).toArray)
      | [] => none
    return ⟨((Proto.fields dom).filterMap Proto.parseRat).toArray, rows⟩
  | [] => return ⟨#[], []⟩

def atomsOf : List String → List (Nat × List Rat)
  | z :: x :: y :: w :: rest =>
    match z.toNat?, Proto.parseRat x, Proto.parseRat y, Proto.parseRat w with
    | some z, some x, some y, some w => (z, [x, y, w]) :: atomsOf rest
    | _, _, _, _ => []
  | _ => []

def triples : List Rat → List (List Rat)
  | a :: b :: c :: rest => [a, b, c] :: triples rest
  | _ => []

def sections (line : String) : List (List String) := (line.splitOn "|").map Proto.fields

def statusStr : Status → String
  | .noBracket => "nobracket" | .converged => "converged" | .exhausted => "exhausted"

/-- `radii kind iso l u tol maxiter bg | interior atoms | exterior atoms | origin | directions` -/
def step (T : Table) (line : String) : String :=
  match sections line with
  | [["radii", kind, iso, l, u, tol, mi, bg], a, b, o, ds] =>
    match Proto.parseRat iso, Proto.parseRat l, Proto.parseRat u, Proto.parseRat tol, mi.toNat?, Proto.parseRat bg, o.mapM Proto.parseRat, ds.mapM Proto.parseRat with
    | some iso, some l, some u, some tol, some mi, some bg, some o, some ds =>
      let A := atomsOf a
      let B := atomsOf b
      let isoF := Proto.ratToFloat iso
      let outs := (triples ds).map fun d =>
        let f : Float → Float := fun t =>
          let tq := floatToRat t
          let p := o.zipWith (fun x y => x + tq * y) d
          let v : Rat := if kind = "pro" then rho .single T A p else weight .single T A B bg p
          Proto.ratToFloatBig v - isoF
        let r := brent f (Proto.ratToFloat l) (Proto.ratToFloat u) (1e-5 : Float) (Proto.ratToFloat tol) mi (-1.0 : Float)
        s!"{bits r.x} {statusStr r.status}"
      " ".intercalate outs
    | _, _, _, _, _, _, _, _ => "bad-op"
  | _ => "bad-op"

partial def loop (h : IO.FS.Stream) (T : Table) : IO Unit := do
  let line ← h.getLine
  if line.isEmpty then return ()
  match Proto.fields line with
  | ["table", path] =>
    let T' ← loadTable path
    IO.println s!"loaded {T'.domain.size} {T'.rows.length}"
    loop h T'
  | _ =>
    IO.println (step T line)
    loop h T

def main : IO Unit := do loop (← IO.getStdin) ⟨#[], []⟩
