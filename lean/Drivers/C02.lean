import ChmpyVerif.Model.Proto
import ChmpyVerif.Gen.SGData
open ChmpyVerif ChmpyVerif.SG ChmpyVerif.Gen

def cs (l : List Nat) : String := String.ofList (l.map Char.ofNat)
def decodeArg (s : String) : List Nat := if s = "%" then [] else (Proto.pctDecode s.toList).map Char.toNat
def showEntry : Option Entry → String
  | some e => s!"ok {e.number} '{cs e.choice}' {e.centering} {if e.centro then 1 else 0} {e.symops.length} {e.latt}"
  | none => "err ValueError"
def nats (l : List Nat) : String := " ".intercalate (l.map toString)

def tableArr : Array Entry := sgTable.toArray

def step (line : String) : String :=
  match Proto.fields line with
  | ["construct", n, ch] =>
    match n.toInt? with
    | some n => showEntry (construct sgTable defaultChoices n (decodeArg ch))
    | none => "bad-op"
  | ["entry", i] =>
    match i.toNat? with
    | some i => showEntry tableArr[i]?
    | none => "bad-op"
  | ["reduced", i] =>
    match i.toNat? >>= (tableArr[·]?) with
    | some e => nats (reducedList lattTable e.symops e.latt)
    | none => "bad-op"
  | ["lookupfull", i] =>
    match i.toNat? >>= (tableArr[·]?) with
    | some e => showEntry (fromSymops lattTable sgTable e.symops none)
    | none => "bad-op"
  | ["lookupreduced", i] =>
    match i.toNat? >>= (tableArr[·]?) with
    | some e => showEntry (fromSymops lattTable sgTable (reducedList lattTable e.symops e.latt) (some e.latt))
    | none => "bad-op"
  | "expand" :: l :: codes =>
    match l.toInt?, codes.mapM (·.toNat?) with
    | some l, some cs => nats (expandedList lattTable cs l)
    | _, _ => "bad-op"
  | "lookup" :: l :: codes =>
    match l.toInt?, codes.mapM (·.toNat?) with
    | some l, some cs => showEntry (fromSymops lattTable sgTable cs (if l = 0 then none else some l))
    | _, _ => "bad-op"
  | ["compose", a, b] =>
    match a.toNat?, b.toNat? with
    | some a, some b => toString (encodeOp (compose (decodeOp a) (decodeOp b)))
    | _, _ => "bad-op"
  | _ => "bad-op"

def main : IO Unit := Proto.run step
