import ChmpyVerif.Model.Proto
import ChmpyVerif.Model.SHT
open ChmpyVerif ChmpyVerif.SHT

def bits (x : Float) : String := toString x.toBits.toNat
def showC (a : Array C) : String := " ".intercalate (a.toList.map fun c => s!"{bits c.re} {bits c.im}")
def showF (l : List Float) : String := " ".intercalate (l.map bits)

def sections (fs : List String) : List (List String) :=
  (fs.foldl (fun (acc : List (List String)) f => if f = "|" then [] :: acc else match acc with
    | l :: ls => (l ++ [f]) :: ls
    | [] => [[f]]) [[]]).reverse

def floats (l : List String) : Array Float := ((l.filterMap Proto.parseRat).map Proto.ratToFloat).toArray
def cplx (l : List String) : Array C :=
  let f := (l.filterMap Proto.parseRat).map Proto.ratToFloat
  let rec go : List Float → List C
    | a :: b :: r => ⟨a, b⟩ :: go r
    | _ => []
  (go f).toArray

def step (line : String) : String :=
  match sections (Proto.fields line) with
  | [["sizes", l]] => match l.toNat? with
    | some L => s!"{nphiOf L} {nthetaOf L} {nlm L} {nplm L}"
    | none => "bad-op"
  | [["anr", l, w], plm, fft] => match l.toNat?, Proto.parseRat w with
    | some L, some w => showC (analysisReal L (cplx fft) (floats plm) (Proto.ratToFloat w))
    | _, _ => "bad-op"
  | [["anc", l, n, w], plm, fft] => match l.toNat?, n.toNat?, Proto.parseRat w with
    | some L, some n, some w => showC (analysisCplx L n (cplx fft) (floats plm) (Proto.ratToFloat w))
    | _, _, _ => "bad-op"
  | [["syr", l, n], plm, cs] => match l.toNat?, n.toNat? with
    | some L, some n => showC (synthesisReal L n (cplx cs) (floats plm))
    | _, _ => "bad-op"
  | [["syc", l, n], plm, cs] => match l.toNat?, n.toNat? with
    | some L, some n => showC (synthesisCplx L n (cplx cs) (floats plm))
    | _, _ => "bad-op"
  | [["exp", l], cs] => match l.toNat? with
    | some L => showC (expandCoeffs L (cplx cs))
    | none => "bad-op"
  | [["evr", l, phi], plm, cs] => match l.toNat?, Proto.parseRat phi with
    | some L, some phi => bits (evalReal L (cplx cs) (floats plm) (Proto.ratToFloat phi))
    | _, _ => "bad-op"
  | [["evc", l, phi], plm, cs] => match l.toNat?, Proto.parseRat phi with
    | some L, some phi => let v := evalCplx L (cplx cs) (floats plm) (Proto.ratToFloat phi); s!"{bits v.re} {bits v.im}"
    | _, _ => "bad-op"
  | [["pwr", l], cs] => match l.toNat? with
    | some L => showF (powerReal L (cplx cs))
    | none => "bad-op"
  | [["pwc", l], cs] => match l.toNat? with
    | some L => showF (powerCplx L (cplx cs))
    | none => "bad-op"
  | [["ninv", n], cs] => match n.toNat? with
    | some n => showF (nInvariants n (cplx cs))
    | none => "bad-op"
  | [["pinv", l], cs] => match l.toNat? with
    | some L => showF (pInvariants L (cplx cs))
    | none => "bad-op"
  | [["ptriples", l]] => match l.toNat? with
    | some L => let t := pTriples L; s!"{t.length} {(t.filter (·.2.2.2)).length}"
    | none => "bad-op"
  | [["cg", a, b, c, d, e, f]] => match [a, b, c, d, e, f].mapM (·.toInt?) with
    | some [l1, m1, l2, m2, l, m] => bits (clebsch (2 * l1) (2 * m1) (2 * l2) (2 * m2) (2 * l) (2 * m))
    | _ => "bad-op"
  | _ => "bad-op"

def main : IO Unit := Proto.run step
