import ChmpyVerif.Model.Proto
import ChmpyVerif.Model.Cif
open ChmpyVerif ChmpyVerif.Cif ChmpyVerif.PyStr

def decodeArg (s : String) : List Nat := if s = "%" then [] else (Proto.pctDecode s.toList).map Char.toNat
def enc (l : List Nat) : String := if l.isEmpty then "%" else Proto.pctEncode (l.map Char.ofNat)

def showVal : Val → String
  | .int i => s!"I:{i}"
  | .float q => s!"F:{Proto.showRat q}"
  | .str s => s!"S:{enc s}"
  | .inf neg => if neg then "F:-inf" else "F:inf"

def showErr : Err → String
  | .valueError => "err ValueError"
  | .indexError => "err IndexError"
  | .typeError => "err TypeError"
  | .unmodelled => "unmodelled"

def showData (d : List (List Nat × List (List Nat × (Val ⊕ List Val)))) : String :=
  " ".intercalate (d.map fun b =>
    s!"B {enc b.1}" ++ String.join (b.2.map fun it =>
      match it.2 with
      | .inl v => s!" K {enc it.1} {showVal v}"
      | .inr vs => s!" L {enc it.1} {vs.length}" ++ String.join (vs.map fun v => " " ++ showVal v)))

/-- fields of a `print` line → document -/
partial def readVals : Nat → List String → Option (List WVal × List String)
  | 0, rest => some ([], rest)
  | n + 1, "I" :: i :: rest => do
    let i ← i.toInt?
    let (vs, r) ← readVals n rest
    some (WVal.int i :: vs, r)
  | n + 1, "F" :: q :: rp :: rest => do
    let q ← Proto.parseRat q
    let (vs, r) ← readVals n rest
    some (WVal.float q (decodeArg rp) :: vs, r)
  | n + 1, "T" :: s :: rest => do
    let (vs, r) ← readVals n rest
    some (WVal.str (decodeArg s) :: vs, r)
  | _, _ => none

partial def readDoc (fs : List String) (cur : Option (List Nat × List Item)) (acc : List (List Nat × List Item)) :
    Option (List (List Nat × List Item)) :=
  let flush := match cur with | some b => acc ++ [b] | none => acc
  match fs with
  | [] => some flush
  | "B" :: name :: rest => readDoc rest (some (decodeArg name, [])) flush
  | "S" :: name :: rest =>
    match cur, readVals 1 rest with
    | some (bn, items), some ([v], r) => readDoc r (some (bn, items ++ [Item.scalar (decodeArg name) v])) acc
    | _, _ => none
  | "C" :: name :: n :: rest =>
    match cur, n.toNat? with
    | some (bn, items), some n =>
      match readVals n rest with
      | some (vs, r) => readDoc r (some (bn, items ++ [Item.column (decodeArg name) vs])) acc
      | none => none
    | _, _ => none
  | _ => none

def step (line : String) : String :=
  match Proto.fields line with
  | ["parse", t] =>
    match parseDoc (splitOn 10 (decodeArg t)) with
    | .ok d => "ok " ++ showData d
    | .error e => showErr e
  | ["value", t] =>
    match parseValue (decodeArg t) with
    | .ok v => showVal v
    | .error e => showErr e
  | ["tokens", t] => " ".intercalate ((tokens (strip (decodeArg t))).map enc)
  | "print" :: fs =>
    match readDoc fs none [] with
    | some d => enc (joinWith 10 (printDoc d))
    | none => "bad-op"
  | _ => "bad-op"

def main : IO Unit := Proto.run step
