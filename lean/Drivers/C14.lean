import ChmpyVerif.Model.Proto
import ChmpyVerif.Gen.CrystalCaches
open ChmpyVerif ChmpyVerif.CState ChmpyVerif.Gen

def nm (s : String) : List Nat := s.toList.map Char.toNat

def fillsOf (m : String) : Option (List Nat) := (methodFills.find? (·.1 == nm m)).map (·.2)
def mutIdx (m : String) : Option Nat := mutatorClears.findIdx? (·.1 == nm m)

def occ (cr : Crystal) : String := String.ofList (cr.cache.map fun o => if o.isSome then '1' else '0')
def occOf (w : World) (c : Nat) : String := match w[c]? with | some cr => occ cr | none => "?"

def stepLine (w : World) (line : String) : World × String :=
  match Proto.fields line with
  | ["init", n] => match n.toNat? with
    | some n => ((List.range n).map fun i => fresh tables (1000 * i), "ok")
    | none => (w, "bad-op")
  | ["query", c, m] => match c.toNat?, fillsOf m with
    | some c, some f =>
      let (w', a) := step tables w (.query c f)
      (w', match a with
        | some (v, b) => s!"{if v == b then "fresh" else "stale"} {occOf w' c}"
        | none => "bad-op")
    | _, _ => (w, "bad-op")
  | ["mutate", c, m, nb] => match c.toNat?, mutIdx m, fillsOf m, nb.toNat? with
    | some c, some mi, some f, some nb =>
      let (w', _) := step tables w (.mutate c mi f nb)
      (w', occOf w' c)
    | _, _, _, _ => (w, "bad-op")
  | ["noop", c] => match c.toNat? with
    | some c => (w, occOf w c)      -- a mutator that returns early (same trigonal choice requested)
    | none => (w, "bad-op")
  | ["copy", c] => match c.toNat? with
    | some c => let (w', _) := step tables w (.copy c); (w', s!"{w'.length - 1} {occOf w' (w'.length - 1)}")
    | none => (w, "bad-op")
  | _ => (w, "bad-op")

def main : IO Unit := do
  Proto.loopState (← IO.getStdin) stepLine []
