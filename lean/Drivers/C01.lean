import ChmpyVerif.Model.Proto
import ChmpyVerif.Model.UnitCellAtoms
import ChmpyVerif.Gen.SGData
open ChmpyVerif ChmpyVerif.SG ChmpyVerif.UCA ChmpyVerif.Gen

def tableArr : Array Entry := sgTable.toArray

def parseSites : List Rat → Nat → Option (List Site)
  | [], _ => some []
  | e :: o :: x :: y :: z :: rest, i => (parseSites rest (i + 1)).map (⟨e.floor.toNat, i, o, [x, y, z]⟩ :: ·)
  | _, _ => none

def showAtom (u : UAtom) : String :=
  s!"{u.asym}:{u.elem}:{u.label}:{u.symop}:{Proto.showRat u.occ}:" ++ ",".intercalate (u.frac.map Proto.showRat)

def step (line : String) : String :=
  match Proto.fields line with
  | "uca" :: idx :: rest =>
    match idx.toNat? >>= (tableArr[·]?), rest.mapM Proto.parseRat with
    | some e, some nums =>
      match parseSites nums 0 with
      | some sites => " ".intercalate ((unitCellAtoms e.symops sites).map showAtom)
      | none => "bad-op"
    | _, _ => "bad-op"
  | _ => "bad-op"

def main : IO Unit := Proto.run step
