import ChmpyVerif.Model.Proto
import ChmpyVerif.Gen.MolIO
open ChmpyVerif ChmpyVerif.MolIO ChmpyVerif.PyStr ChmpyVerif.Gen

def nm (s : String) : List Nat := s.toList.map Char.toNat
def decodeArg (s : String) : List Nat := if s = "%" then [] else (Proto.pctDecode s.toList).map Char.toNat
def enc (l : List Nat) : String := Proto.pctEncode (l.map Char.ofNat)
def showOR : Option Rat → String
  | some q => Proto.showRat q
  | none => "err"

def step (line : String) : String :=
  match Proto.fields line with
  | ["atomline", x, y, z, sym] =>
    match Proto.parseRat x, Proto.parseRat y, Proto.parseRat z with
    | some x, some y, some z =>
      let env (n : List Nat) : Val :=
        if n = nm "x" then .num x else if n = nm "y" then .num y else if n = nm "z" then .num z
        else if n = nm "symbol" then .str (decodeArg sym) else .int 0
      let l := renderLine atomWriter env
      let sl := sliceFields atomReader l
      s!"{enc l} | {showOR (parseFloat (lookup sl (nm "x")))} {showOR (parseFloat (lookup sl (nm "y")))} {showOR (parseFloat (lookup sl (nm "z")))} {enc (strip (lookup sl (nm "symbol")))}"
    | _, _, _ => "bad-op"
  | ["counts", a, b] =>
    match a.toInt?, b.toInt? with
    | some a, some b =>
      let env (n : List Nat) : Val :=
        if n = nm "atoms" then .int a else if n = nm "bonds" then .int b else if n = nm "version" then .str (nm "V2000") else .int 0
      let l := renderLine countsWriter env
      let sl := sliceFields countsReader l
      let sh (o : Option Int) := match o with | some i => toString i | none => "err"
      s!"{enc l} | {sh (parseInt (lookup sl (nm "atoms")))} {sh (parseInt (lookup sl (nm "bonds")))} {enc (strip (lookup sl (nm "version")))}"
    | _, _ => "bad-op"
  | ["bondline", a, b] =>
    match a.toInt?, b.toInt? with
    | some a, some b =>
      let env (n : List Nat) : Val := if n = nm "left" then .int a else if n = nm "right" then .int b else .int 0
      let l := renderLine bondWriter env
      let sl := sliceFields bondReader l
      let sh (o : Option Int) := match o with | some i => toString i | none => "err"
      s!"{enc l} | {sh (parseInt (lookup sl (nm "left")))} {sh (parseInt (lookup sl (nm "right")))}"
    | _, _ => "bad-op"
  | ["xyzline", sym, x, y, z] =>
    match Proto.parseRat x, Proto.parseRat y, Proto.parseRat z with
    | some x, some y, some z =>
      let env (n : List Nat) : Val :=
        if n = nm "x" then .num x else if n = nm "y" then .num y else if n = nm "z" then .num z else .str (decodeArg sym)
      let l := renderLine xyzWriter env
      match splitWs (strip l) with
      | s :: a :: b :: c :: _ => s!"{enc l} | {enc s} {showOR (parseFloat a)} {showOR (parseFloat b)} {showOR (parseFloat c)}"
      | _ => s!"{enc l} | err"
    | _, _, _ => "bad-op"
  | ["parsexyz", l] =>
    match splitWs (strip (decodeArg l)) with
    | s :: a :: b :: c :: _ => s!"{enc s} {showOR (parseFloat a)} {showOR (parseFloat b)} {showOR (parseFloat c)}"
    | _ => "err"
  | _ => "bad-op"

def main : IO Unit := Proto.run step
