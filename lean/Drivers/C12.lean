import ChmpyVerif.Model.Proto
import ChmpyVerif.Gen.UnitCellF
open ChmpyVerif ChmpyVerif.Gen.UnitCellF

/-- floats are printed as their IEEE-754 bit pattern so that nothing is lost in transit -/
def bits (x : Float) : String := toString x.toBits.toNat

def showAll (p : P) : String :=
  let m := (direct p).flatten ++ (inverse p).flatten
  " ".intercalate (([volume p, aStar p, bStar p, cStar p, cosAlphaStar p, cosBetaStar p, cosGammaStar p] ++ m).map bits)

def step (line : String) : String :=
  match Proto.fields line with
  | "cell" :: args =>
    match args.mapM Proto.parseRat with
    | some [a, b, c, al, be, ga] =>
      let f := Proto.ratToFloat
      let p : P := ⟨f a, f b, f c, Float.cos (f al), Float.cos (f be), Float.cos (f ga),
                    Float.sin (f al), Float.sin (f be), Float.sin (f ga)⟩
      showAll p
    | _ => "bad-op"
  | _ => "bad-op"

def main : IO Unit := Proto.run step
