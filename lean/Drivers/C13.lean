import ChmpyVerif.Model.Proto
import ChmpyVerif.Gen.Trigonal
import ChmpyVerif.Model.Reexpress
open ChmpyVerif ChmpyVerif.Reexpress ChmpyVerif.Gen

def rows3 : List Rat → Mat
  | [a, b, c, d, e, f, g, h, i] => [[a, b, c], [d, e, f], [g, h, i]]
  | _ => []

def showMat (m : Mat) : String := " ".intercalate ((m.flatten).map Proto.showRat)

def step (line : String) : String :=
  match Proto.fields line with
  | "trig" :: cur :: args =>
    -- new cell = T · direct, T chosen by the CURRENT setting
    match args.mapM Proto.parseRat with
    | some l => showMat (matMul (if cur = "R" then tFromR else tFromH) (rows3 l))
    | none => "bad-op"
  | "super" :: a :: b :: c :: args =>
    match a.toNat?, b.toNat?, c.toNat?, args.mapM Proto.parseRat with
    | some a, some b, some c, some l =>
      showMat (matMul [[(a : Rat), 0, 0], [0, (b : Rat), 0], [0, 0, (c : Rat)]] (rows3 l))
    | _, _, _, _ => "bad-op"
  | _ => "bad-op"

def main : IO Unit := Proto.run step
