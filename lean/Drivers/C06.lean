import ChmpyVerif.Model.Proto
import ChmpyVerif.Model.MC
open ChmpyVerif ChmpyVerif.MC ChmpyVerif.Gen.MC

def bitsF (x : Float) : String := toString x.toBits.toNat

/-- FLT_EPSILON of the module: `np.spacing(1.0)` -/
def eps : Float := 2.220446049250313e-16

/-- `cell iso v0 … v7` → `cfg case impossible | tris | vertex parameters of the cube edges used`;
`classic iso v0 … v7` → the CASESCLASSIC row -/
def step (line : String) : String :=
  match Proto.fields line with
  | "cell" :: iso :: vs =>
    match Proto.parseRat iso, vs.mapM Proto.parseRat with
    | some iso, some vs =>
      if vs.length ≠ 8 then "bad-op" else
      let v : List Float := vs.map fun x => Proto.ratToFloat x - Proto.ratToFloat iso
      match selectLeaf eps v with
      | some lf =>
        let ts := toNats lf.tris
        let ps := (ts.eraseDups.filter (· < 12)).map fun e =>
          let (a, b) := edgeEnds e
          s!"{e}:{bitsF (vertexParam eps (v.getD a 0) (v.getD b 0))}"
        s!"{lf.cfg} {lf.case} {lf.impossible} | {" ".intercalate (ts.map toString)} | {" ".intercalate ps}"
      | none => s!"{cellIndex v} none"
    | _, _ => "bad-op"
  | "classic" :: iso :: vs =>
    match Proto.parseRat iso, vs.mapM Proto.parseRat with
    | some iso, some vs =>
      let v : List Float := vs.map fun x => Proto.ratToFloat x - Proto.ratToFloat iso
      " ".intercalate ((classic.getD (cellIndex v) []).map toString)
    | _, _ => "bad-op"
  | _ => "bad-op"

def main : IO Unit := Proto.run step
