import ChmpyVerif.Model.Proto
open ChmpyVerif

/-- Float mirror of `Props.C18.kabsch`: `R = U · diag(1,1,d) · Vt`, `d = -1` iff `det U · det Vt < 0` -/
def det3 (m : List Float) : Float :=
  match m with
  | [a, b, c, d, e, f, g, h, i] => a * (e * i - f * h) - b * (d * i - f * g) + c * (d * h - e * g)
  | _ => 0

def mul3 (a b : List Float) : List Float :=
  (List.range 9).map fun k =>
    let i := k / 3; let j := k % 3
    (List.range 3).foldl (fun acc t => acc + a.getD (3 * i + t) 0 * b.getD (3 * t + j) 0) 0

def kabschF (u vt : List Float) : List Float :=
  let d : Float := if det3 u * det3 vt < 0 then -1 else 1
  let ud := (List.range 9).map fun k => if k % 3 == 2 then u.getD k 0 * d else u.getD k 0
  mul3 ud vt

def bits (x : Float) : String := toString x.toBits.toNat

def step (line : String) : String :=
  match Proto.fields line with
  | "kabsch" :: args =>
    match args.mapM Proto.parseRat with
    | some l => if l.length = 18 then
        let f := l.map Proto.ratToFloat
        " ".intercalate ((kabschF (f.take 9) (f.drop 9)).map bits)
      else "bad-op"
    | none => "bad-op"
  | _ => "bad-op"

def main : IO Unit := Proto.run step
