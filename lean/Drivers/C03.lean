import ChmpyVerif.Model.Proto
import ChmpyVerif.Model.Slab
open ChmpyVerif ChmpyVerif.Slab

def f3 (l : List Float) : Option (Float × Float × Float) :=
  match l with | [a, b, c] => some (a, b, c) | _ => none

def triples : List Float → List (Float × Float × Float)
  | a :: b :: c :: rest => (a, b, c) :: triples rest
  | _ => []

def showCell (c : Int × Int × Int) : String := s!"{c.1},{c.2.1},{c.2.2}"

def step (line : String) : String :=
  match Proto.fields line with
  | "cells" :: args =>
    match args.mapM (·.toInt?) with
    | some [a, b, c, d, e, f] => " ".intercalate ((cells (a, b, c) (d, e, f)).map showCell)
    | _ => "bad-op"
  | "bounds" :: args =>
    match args.mapM Proto.parseRat with
    | some l =>
      let fl := l.map Proto.ratToFloat
      match f3 (fl.take 3) with
      | some fr =>
        let b := hklBounds fr (triples (fl.drop 3))
        s!"{showCell b.1} {showCell b.2}"
      | none => "bad-op"
    | none => "bad-op"
  | "air" :: args =>
    -- r ox oy oz  fo(3)  fr(3)  d(9)  frac positions of the unit-cell atoms
    match args.mapM Proto.parseRat with
    | some l =>
      let fl := l.map Proto.ratToFloat
      match fl with
      | r :: ox :: oy :: oz :: fox :: foy :: foz :: f1 :: f2 :: f3' :: rest =>
        let d := [(rest.take 3), ((rest.drop 3).take 3), ((rest.drop 6).take 3)]
        let uc := triples (rest.drop 9)
        let b := hklBounds (f1, f2, f3') [(fox, foy, foz)]
        let rows := inRadius d uc b.1 b.2 (ox, oy, oz) r
        s!"{showCell b.1} {showCell b.2} | " ++ " ".intercalate (rows.map fun (a, c) => s!"{a}:{showCell c}")
      | _ => "bad-op"
    | none => "bad-op"
  | _ => "bad-op"

def main : IO Unit := Proto.run step
