import ChmpyVerif.Model.Proto
import ChmpyVerif.Model.Wulff
open ChmpyVerif ChmpyVerif.Wulff

def bits (x : Float) : String := toString x.toBits.toNat

def toV3s : List Rat → List V3
  | a :: b :: c :: rest => (a, b, c) :: toV3s rest
  | _ => []

def toTri : List Nat → List (Nat × Nat × Nat)
  | a :: b :: c :: rest => (a, b, c) :: toTri rest
  | _ => []

def sections (line : String) : List (List String) :=
  (line.splitOn "|").map Proto.fields

/-- `wulff thr2 | normals... | energies... | simplices...` →
`vertices | facets (separated by ;) | triangles | triangle facet indices` -/
def step (line : String) : String :=
  match sections line with
  | [["wulff", t], ns, es, ss] =>
    match Proto.parseRat t, ns.mapM Proto.parseRat, es.mapM Proto.parseRat, ss.mapM (·.toNat?) with
    | some thr2, some ns, some es, some ss =>
      let out := construct { normals := (toV3s ns).toArray, energies := es.toArray, simplices := toTri ss } thr2
      let v := " ".intercalate (out.vertices.map fun p => s!"{bits (Proto.ratToFloatBig p.1)} {bits (Proto.ratToFloatBig p.2.1)} {bits (Proto.ratToFloatBig p.2.2)}")
      let f := " ; ".intercalate (out.facets.map fun f => " ".intercalate (f.map toString))
      let t := " ".intercalate (out.triangles.map fun t => s!"{t.1} {t.2.1} {t.2.2}")
      let ti := " ".intercalate (out.triFacet.map toString)
      s!"{v} | {f} | {t} | {ti}"
    | _, _, _, _ => "bad-op"
  | _ => "bad-op"

def main : IO Unit := Proto.run step
