/-
C05, later additions — the stockholder weight as a share, beyond the two-set statements of `Props/C05.lean`:
the Hirshfeld level ½ is exactly where the two promolecule densities are equal; the weight is monotone in both
densities; a background only lowers it; the shares of any number of disjoint atom groups add up to one; and the
weight of a set against the rest of the same atoms does not depend on how the atoms are listed.
-/
import ChmpyVerif.Props.C05

namespace ChmpyVerif.Props.C05
open ChmpyVerif.Density

/-- the isovalue ½ of a Hirshfeld surface (no background) is exactly the locus `ρ_A = ρ_B` -/
theorem weight_half_iff (ra rb : ℚ) (hpos : 0 < ra + rb) : ra / (ra + rb + 0) = 1 / 2 ↔ ra = rb := by
  rw [add_zero, div_eq_div_iff hpos.ne' (by norm_num : (2 : ℚ) ≠ 0)]
  constructor <;> intro h <;> linarith

/-- inside the surface (`w > ½`) is exactly where the set's own density dominates -/
theorem weight_gt_half_iff (ra rb : ℚ) (hpos : 0 < ra + rb) : 1 / 2 < ra / (ra + rb + 0) ↔ rb < ra := by
  rw [add_zero, div_lt_div_iff₀ (by norm_num : (0 : ℚ) < 2) hpos]
  constructor <;> intro h <;> linarith

/-- the weight grows with the set's own density … -/
theorem weight_mono_own (ra ra' rb bg : ℚ) (hb : 0 ≤ rb) (hg : 0 ≤ bg) (hpos : 0 < ra + rb + bg)
    (h : ra ≤ ra') : ra / (ra + rb + bg) ≤ ra' / (ra' + rb + bg) := by
  have hpos' : 0 < ra' + rb + bg := by linarith
  rw [div_le_div_iff₀ hpos hpos']
  nlinarith [mul_nonneg (sub_nonneg.2 h) (add_nonneg hb hg)]

/-- … and falls when the other atoms' density (or the background) grows -/
theorem weight_anti_other (ra rb rb' bg : ℚ) (ha : 0 ≤ ra) (hpos : 0 < ra + rb + bg) (h : rb ≤ rb') :
    ra / (ra + rb' + bg) ≤ ra / (ra + rb + bg) := by
  have hpos' : 0 < ra + rb' + bg := by linarith
  rw [div_le_div_iff₀ hpos' hpos]
  nlinarith [mul_nonneg ha (sub_nonneg.2 h)]

/-- shares of any number of groups: with total density `s = Σ ρᵢ > 0` (no background) the weights add up to one -/
theorem shares_sum_one (rs : List ℚ) (hpos : 0 < rs.sum) : (rs.map fun r => r / rs.sum).sum = 1 := by
  have h : ∀ (l : List ℚ) (s : ℚ), (l.map fun r => r / s).sum = l.sum / s := by
    intro l s
    induction l with
    | nil => simp
    | cons a t ih => simp only [List.map_cons, List.sum_cons, ih, add_div]
  rw [h, div_self hpos.ne']

/-- the model's weight sees the two atom sets only through their densities, hence not through their listing order -/
theorem weight_perm (path : Path) (T : Table) {a a' b b' : List (Nat × List ℚ)} (ha : a.Perm a') (hb : b.Perm b') (bg : ℚ)
    (p : List ℚ) : weight path T a b bg p = weight path T a' b' bg p := by
  unfold weight
  rw [rho_perm path T ha p, rho_perm path T hb p]

/-- moving an atom group from "outside" to "inside" is additive in the numerator and leaves the total alone:
`w(A ∪ C | B) = w(A | C ∪ B) + w(C | A ∪ B)` -/
theorem weight_union (path : Path) (T : Table) (a c b : List (Nat × List ℚ)) (p : List ℚ) :
    weight path T (a ++ c) b 0 p = weight path T a (c ++ b) 0 p + weight path T c (a ++ b) 0 p := by
  unfold weight
  simp only [rho_append, add_zero]
  generalize rho path T a p = x
  generalize rho path T c p = y
  generalize rho path T b p = z
  rw [show x + (y + z) = x + y + z by ring, show y + (x + z) = x + y + z by ring, add_div]

example : (1 : ℚ) / (1 + 1 + 0) = 1 / 2 := (weight_half_iff 1 1 (by norm_num)).2 rfl
example : ([1, 2, 3].map fun r : ℚ => r / ([1, 2, 3] : List ℚ).sum).sum = 1 := shares_sum_one _ (by norm_num)

end ChmpyVerif.Props.C05
