import ChmpyVerif.Model.MC
namespace ChmpyVerif.Props.C06
open ChmpyVerif.MC ChmpyVerif.Gen.MC
theorem leaves_ok3 : leaves3.all leafOk = true := by decide +kernel
theorem faces_match3 : leaves3.all leafFacesMatch = true := by decide +kernel
theorem trees3 : ((List.range 32).map (· + 96)).all (fun cfg => isTree 16 ((leaves3.filter (·.cfg == cfg)).map (·.tests))) = true := by decide +kernel
end ChmpyVerif.Props.C06
