import ChmpyVerif.Model.MC
namespace ChmpyVerif.Props.C06
open ChmpyVerif.MC ChmpyVerif.Gen.MC
theorem leaves_ok4 : leaves4.all leafOk = true := by decide +kernel
theorem faces_match4 : leaves4.all leafFacesMatch = true := by decide +kernel
theorem trees4 : ((List.range 32).map (· + 128)).all (fun cfg => isTree 16 ((leaves4.filter (·.cfg == cfg)).map (·.tests))) = true := by decide +kernel
end ChmpyVerif.Props.C06
