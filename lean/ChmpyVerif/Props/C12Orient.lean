/-
C12, the lattice-vector route in ANY orientation: a cell given by lattice vectors `D` that is then turned by an orthogonal matrix `Q`
(rows `D i ᵥ* Q`, i.e. `D * Q`) has the same metric tensor, hence the same lengths and angles; its inverse is `Qᵀ * D⁻¹`, the
reciprocal metric is unchanged, the round trip fractional -> Cartesian -> fractional is the identity for whatever two-sided inverse
the code computed, and the volume changes at most by the sign of `det Q`. General over any commutative ring (ℝ for the statement,
ℚ for executable instances); no assumption on the orientation (triangular, sign of the diagonal, …).
-/
import Mathlib.LinearAlgebra.Matrix.Determinant.Basic
import Mathlib.Tactic.Ring

namespace ChmpyVerif.Props.C12
open Matrix

variable {K : Type} [CommRing K] {n : ℕ}

/-- the metric tensor (Gram matrix of the lattice vectors = rows of `D`) -/
def metric (D : Matrix (Fin n) (Fin n) K) : Matrix (Fin n) (Fin n) K := D * Dᵀ

/-- entry (i,j) of the metric tensor is the dot product of lattice vectors i and j: lengths² on the diagonal, |a||b|cos γ off it -/
theorem metric_apply (D : Matrix (Fin n) (Fin n) K) (i j : Fin n) : metric D i j = D i ⬝ᵥ D j := by
  simp [metric, Matrix.mul_apply, dotProduct, Matrix.transpose_apply]

/-- **re-orienting the lattice leaves the metric tensor — all lengths and angles — unchanged** -/
theorem metric_orientation_invariant (D Q : Matrix (Fin n) (Fin n) K) (hQ : Q * Qᵀ = 1) : metric (D * Q) = metric D := by
  unfold metric
  rw [Matrix.transpose_mul, Matrix.mul_assoc, ← Matrix.mul_assoc Q, hQ, Matrix.one_mul]

/-- the inverse of the turned lattice is `Qᵀ * D⁻¹` (both sides) -/
theorem inverse_of_reoriented (D I Q : Matrix (Fin n) (Fin n) K) (hDI : D * I = 1) (hID : I * D = 1) (hQ : Q * Qᵀ = 1) (hQ' : Qᵀ * Q = 1) :
    (D * Q) * (Qᵀ * I) = 1 ∧ (Qᵀ * I) * (D * Q) = 1 := by
  constructor
  · rw [Matrix.mul_assoc, ← Matrix.mul_assoc Q, hQ, Matrix.one_mul, hDI]
  · rw [Matrix.mul_assoc, ← Matrix.mul_assoc I, hID, Matrix.one_mul, hQ']

/-- the reciprocal metric (columns of the inverse) is unchanged as well: reciprocal lengths and angles do not depend on orientation -/
theorem reciprocal_metric_orientation_invariant (I Q : Matrix (Fin n) (Fin n) K) (hQ : Q * Qᵀ = 1) :
    (Qᵀ * I)ᵀ * (Qᵀ * I) = Iᵀ * I := by
  rw [Matrix.transpose_mul, Matrix.transpose_transpose, Matrix.mul_assoc, ← Matrix.mul_assoc Q, hQ, Matrix.one_mul]

/-- fractional -> Cartesian -> fractional is the identity for ANY lattice with a right inverse (whatever formula produced it) -/
theorem roundtrip_any (D I : Matrix (Fin n) (Fin n) K) (hDI : D * I = 1) (x : Fin n → K) : (x ᵥ* D) ᵥ* I = x := by
  rw [Matrix.vecMul_vecMul, hDI, Matrix.vecMul_one]

/-- the volume (determinant) of the turned lattice is `det D * det Q`; `det Q` is a square root of one -/
theorem det_of_reoriented (D Q : Matrix (Fin n) (Fin n) K) (hQ : Q * Qᵀ = 1) :
    (D * Q).det = D.det * Q.det ∧ Q.det * Q.det = 1 := by
  refine ⟨Matrix.det_mul D Q, ?_⟩
  have := congrArg Matrix.det hQ
  rwa [Matrix.det_mul, Matrix.det_transpose, Matrix.det_one] at this

/-- a proper re-orientation (det Q = 1) keeps the signed volume, an improper one flips its sign: its square is always kept -/
theorem det_sq_orientation_invariant (D Q : Matrix (Fin n) (Fin n) K) (hQ : Q * Qᵀ = 1) : (D * Q).det ^ 2 = D.det ^ 2 := by
  obtain ⟨h1, h2⟩ := det_of_reoriented D Q hQ
  rw [h1]
  calc (D.det * Q.det) ^ 2 = D.det ^ 2 * (Q.det * Q.det) := by ring
    _ = D.det ^ 2 := by rw [h2, mul_one]

/-- instance: the half turn about x used by the correspondence oracle (`diag(1,-1,-1)`) is such a Q -/
example : (Matrix.diagonal ![(1 : ℚ), -1, -1]) * (Matrix.diagonal ![(1 : ℚ), -1, -1])ᵀ = 1 := by
  rw [Matrix.diagonal_transpose, Matrix.diagonal_mul_diagonal]
  ext i j
  fin_cases i <;> fin_cases j <;> simp [Matrix.diagonal]

end ChmpyVerif.Props.C12
