/-
C02, the reduced description as SHELX files carry it: the SYMM cards never list the identity. The expansion supplies it, so leaving
it out changes nothing — the expanded operation SET is the same with and without the identity card, for every lattice type, whatever
else the list holds.
-/
import ChmpyVerif.Props.C02

namespace ChmpyVerif.Props.C02
open ChmpyVerif.SG

/-- the list the expansion actually works on (identity appended when missing) has the same members with and without the identity card -/
theorem implicit_identity_members (reduced : List Nat) (c : Nat) :
    c ∈ (if (reduced.erase idCode).contains idCode then reduced.erase idCode else reduced.erase idCode ++ [idCode]) ↔
    c ∈ (if reduced.contains idCode then reduced else reduced ++ [idCode]) := by
  by_cases hc : c = idCode
  · subst hc
    constructor
    · intro _; split
      · rename_i h; simpa using h
      · simp
    · intro _; split
      · rename_i h; simpa using h
      · simp
  · have hmem : c ∈ reduced.erase idCode ↔ c ∈ reduced := List.mem_erase_of_ne hc
    constructor
    · intro h
      have h' : c ∈ reduced := by
        split at h
        · exact hmem.mp h
        · rcases List.mem_append.mp h with h1 | h1
          · exact hmem.mp h1
          · simp at h1; exact absurd h1 hc
      split
      · exact h'
      · exact List.mem_append_left _ h'
    · intro h
      have h' : c ∈ reduced := by
        split at h
        · exact h
        · rcases List.mem_append.mp h with h1 | h1
          · exact h1
          · simp at h1; exact absurd h1 hc
      split
      · exact hmem.mpr h'
      · exact List.mem_append_left _ (hmem.mpr h')

/-- **the identity card is implicit**: the expanded operation set does not depend on whether the reduced list names the identity -/
theorem expanded_without_identity (lt : LattTable) (reduced : List Nat) (latt : Int) (c : Nat) :
    c ∈ expandedList lt (reduced.erase idCode) latt ↔ c ∈ expandedList lt reduced latt := by
  unfold expandedList
  simp only
  have key : ∀ (x : Nat),
      x ∈ ((if (reduced.erase idCode).contains idCode then reduced.erase idCode else reduced.erase idCode ++ [idCode]).flatMap
            fun c => c :: (translationsOf lt latt).map (addT c)) ↔
      x ∈ ((if reduced.contains idCode then reduced else reduced ++ [idCode]).flatMap
            fun c => c :: (translationsOf lt latt).map (addT c)) := by
    intro x
    simp only [List.mem_flatMap]
    constructor
    · rintro ⟨a, ha, hx⟩; exact ⟨a, (implicit_identity_members reduced a).mp ha, hx⟩
    · rintro ⟨a, ha, hx⟩; exact ⟨a, (implicit_identity_members reduced a).mpr ha, hx⟩
  split
  · simp only [List.mem_append, List.mem_map]
    constructor
    · rintro (h | ⟨a, ha, rfl⟩)
      · exact Or.inl ((key c).mp h)
      · exact Or.inr ⟨a, (key a).mp ha, rfl⟩
    · rintro (h | ⟨a, ha, rfl⟩)
      · exact Or.inl ((key c).mpr h)
      · exact Or.inr ⟨a, (key a).mpr ha, rfl⟩
  · exact key c

end ChmpyVerif.Props.C02
