/-
C15 / C10, loop rows holding fixed-point numbers (the `_atom_site_*` loop of a written crystal: label, symbol, x, y, z, occupancy,
and the symmetry-operation loop of quoted strings): a number written `20.12f` is a `FieldOk` field — right-aligned blanks followed by
one word made of an optional minus, digits, a point and twelve digits — so by `row_tokens` the row tokenizer cuts such a row into
exactly its fields, and by `parseFloat_fmtFixed` each numeric token reads back as the value rounded to 12 decimals, within 5e-13.
-/
import ChmpyVerif.Props.C15Row
import ChmpyVerif.Props.C16

namespace ChmpyVerif.Props.C15
open ChmpyVerif.Cif ChmpyVerif.PyStr ChmpyVerif.MolIO
open ChmpyVerif.SymOp (roundHalfEven)

theorem zeroPad_all_digits (p : Nat) (s : List Ch) (h : s.all isDigitA = true) : (zeroPad p s).all isDigitA = true := by
  unfold zeroPad
  rw [List.all_append, h, Bool.and_true, List.all_replicate]
  have : isDigitA 48 = true := by decide
  simp [this]

/-- no character of the unpadded fixed-point text is a blank -/
theorem fixedCore_no_space (p : Nat) (x : Rat) : (fixedCore p x).all (fun c => !pyIsSpace c) = true := by
  have dns : ∀ (l : List Ch), l.all isDigitA = true → l.all (fun c => !pyIsSpace c) = true := by
    intro l hl
    rw [List.all_eq_true] at hl ⊢
    intro c hc
    simp [ChmpyVerif.Element.digit_not_space c (hl c hc)]
  unfold fixedCore
  rw [List.all_append, List.all_append, List.all_cons]
  have h1 := dns _ (natStr_digits (fixedParts p x).2.1)
  have h2 := dns _ (zeroPad_all_digits p _ (natStr_digits (fixedParts p x).2.2))
  rw [h1, h2]
  have h46 : pyIsSpace 46 = false := by decide
  split
  · have h45 : pyIsSpace 45 = false := by decide
    simp [h45, h46]
  · simp [h46]

/-- its first character is a minus sign or a digit: never a quote character or `;` -/
theorem fixedCore_head (p : Nat) (x : Rat) : (fixedCore p x).head?.all (fun c => c != 39 && c != 34 && c != 59) = true := by
  unfold fixedCore
  split
  · simp
  · have hne : natStr (fixedParts p x).2.1 ≠ [] := List.ne_nil_of_length_pos (natStr_length_pos _)
    obtain ⟨c, r, hcr⟩ := List.exists_cons_of_ne_nil hne
    have hd := natStr_digits (fixedParts p x).2.1
    rw [hcr] at hd ⊢
    have hcd : isDigitA c = true := by simp only [List.all_cons, Bool.and_eq_true] at hd; exact hd.1
    have : c ≠ 39 ∧ c ≠ 34 ∧ c ≠ 59 := by unfold isDigitA at hcd; refine ⟨?_, ?_, ?_⟩ <;> (intro e; subst e; simp at hcd)
    simp [this.1, this.2.1, this.2.2]

theorem fixedCore_ne_nil (p : Nat) (x : Rat) : fixedCore p x ≠ [] := by
  unfold fixedCore
  have hne : natStr (fixedParts p x).2.1 ≠ [] := List.ne_nil_of_length_pos (natStr_length_pos _)
  split <;> simp [hne]

/-- **a loop number as the writer formats it is a well-formed field** -/
theorem fmtFixed_field (x : Rat) : FieldOk (fmtFixed 0 20 12 x) (fixedCore 12 x) := by
  rw [fmtFixed_eq 20 12 x (by decide)]
  unfold padLeft
  exact FieldOk.word _ _ (by simp [pyIsSpace]) ⟨fixedCore_ne_nil 12 x, fixedCore_no_space 12 x, fixedCore_head 12 x⟩

/-- the token read back is the number rounded to twelve decimals … -/
theorem fixedCore_reads_back (x : Rat) :
    parseFloat (fixedCore 12 x) = some (((roundHalfEven (x * (10 : Rat) ^ 12) : Int) : Rat) / (10 : Rat) ^ 12) := by
  have h := ChmpyVerif.Props.C16.parseFloat_fmtFixed (fixedCore 12 x).length 12 x (by decide)
  rw [fmtFixed_eq _ 12 x (by decide)] at h
  have : padLeft (fixedCore 12 x).length (fixedCore 12 x) = fixedCore 12 x := by simp [padLeft]
  rwa [this] at h

/-- … which differs from the written value by at most 5e-13 -/
theorem fixedCore_error (x : Rat) :
    |((roundHalfEven (x * (10 : Rat) ^ 12) : Int) : Rat) / (10 : Rat) ^ 12 - x| ≤ 1 / (2 * (10 : Rat) ^ 12) :=
  ChmpyVerif.Props.C16.fmtFixed_error 12 x

/-- **an atom-site row** — a label that is a plain word, then any number of fixed-point columns — is cut into exactly its fields -/
theorem atom_site_row_tokens (label : List Ch) (hl : IsWord label) (xs : List Rat) :
    tokens (joinWith 32 (label :: xs.map (fmtFixed 0 20 12))) = label :: xs.map (fixedCore 12) := by
  have h := row_tokens ((label, label) :: xs.map (fun x => (fmtFixed 0 20 12 x, fixedCore 12 x))) (by
    intro p hp
    rcases List.mem_cons.mp hp with rfl | hp
    · have := FieldOk.word [] label (by simp) hl
      simpa using this
    · obtain ⟨x, _, rfl⟩ := List.mem_map.mp hp
      exact fmtFixed_field x)
  simpa [List.map_map, Function.comp_def] using h

/-- labels as crystals carry them — letters and digits only, e.g. `C12`, `Cl1A` — are plain words -/
theorem alnum_isWord (l : List Ch) (hne : l ≠ []) (h : l.all (fun c => isLetterA c || isDigitA c) = true) : IsWord l := by
  have hc : ∀ c ∈ l, pyIsSpace c = false ∧ c ≠ 39 ∧ c ≠ 34 ∧ c ≠ 59 := by
    intro c hc
    have := (List.all_eq_true.mp h) c hc
    rcases Bool.or_eq_true_iff.mp this with hl | hd
    · unfold isLetterA isUpperA isLowerA at hl
      refine ⟨by unfold pyIsSpace; grind, ?_, ?_, ?_⟩ <;> (intro e; subst e; simp at hl)
    · refine ⟨ChmpyVerif.Element.digit_not_space c hd, ?_, ?_, ?_⟩ <;> (unfold isDigitA at hd; intro e; subst e; simp at hd)
  refine ⟨hne, ?_, ?_⟩
  · rw [List.all_eq_true]; intro c hcm; simp [(hc c hcm).1]
  · obtain ⟨c, r, rfl⟩ := List.exists_cons_of_ne_nil hne
    have := hc c (by simp)
    simp [this.2.1, this.2.2.1, this.2.2.2]

/-- **the atom-site row of any alphanumeric label** -/
theorem atom_site_row_tokens_alnum (label : List Ch) (hne : label ≠ []) (h : label.all (fun c => isLetterA c || isDigitA c) = true) (xs : List Rat) :
    tokens (joinWith 32 (label :: xs.map (fmtFixed 0 20 12))) = label :: xs.map (fixedCore 12) :=
  atom_site_row_tokens label (alnum_isWord label hne h) xs

/-- the hypotheses are met by a real row: label `C12`, coordinates 1/3, −5/4, 0 -/
example : tokens (joinWith 32 ([67, 49, 50] :: [(1 : Rat) / 3, -5 / 4, 0].map (fmtFixed 0 20 12)))
    = [[67, 49, 50], fixedCore 12 (1 / 3), fixedCore 12 (-5 / 4), fixedCore 12 0] :=
  atom_site_row_tokens [67, 49, 50] ⟨by simp, by decide, by decide⟩ _

end ChmpyVerif.Props.C15
