import ChmpyVerif.Props.C11Spell
namespace ChmpyVerif.Props.C11
/-- every spelling of every row with translation digit 0 is read back as that row -/
theorem spell_k0 : ∀ r ∈ rows27, ∀ s ∈ spellings r 0, rowOk s r 0 = true := by
  decide +kernel
end ChmpyVerif.Props.C11
