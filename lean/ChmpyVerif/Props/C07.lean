/-
C07 — the spherical harmonic transform is exact and invertible on band-limited functions.
Integer facts about the model's own grid-size and index functions (`Model/SHT.lean`), and the
algebraic core of exactness over an arbitrary commutative ring, with the quadrature property of the
Gauss–Legendre nodes as the named hypothesis `hG` (validated numerically on every run).
-/
import ChmpyVerif.Model.SHT
import Mathlib.Algebra.BigOperators.Ring.Finset
import Mathlib.Algebra.BigOperators.Group.Finset.Basic
import Mathlib.Algebra.BigOperators.Group.Finset.Sigma
import Mathlib.Tactic.Linarith
import Mathlib.Tactic.Ring

namespace ChmpyVerif.Props.C07
open ChmpyVerif.SHT

/-! ### grid sizes: aliasing and quadrature-degree preconditions -/

def isPow2 (n : Nat) : Bool := nextPow2 n == n

/-- for EVERY maximum degree 0..64 (the property's whole range) the number of azimuthal points exceeds `2L`
(no aliasing of the 2L+1 Fourier modes) and is 7-smooth or a power of two (what the FFT size rule promises) -/
theorem nphi_table :
    (List.range 65).all (fun L => decide (2 * L + 1 ≤ nphiOf L) && (smoothPart 7 (nphiOf L) == nphiOf L || isPow2 (nphiOf L))) = true := by
  decide +kernel

/-- for EVERY L (no bound): at least L+1 Gauss–Legendre nodes (exact for polynomial degree ≤ 2L+1 ≥ 2L), a multiple of 8 -/
theorem ntheta_ge (L : Nat) : L + 1 ≤ nthetaOf L ∧ 8 ∣ nthetaOf L := by
  unfold nthetaOf
  simp only
  constructor
  · omega
  · exact Nat.dvd_mul_left 8 _

/-! ### index maps -/

/-- the m-major enumeration of the kernels visits positions 0, 1, 2, … in order and has `nplm` entries (L ≤ 64) -/
theorem plm_enumeration :
    (List.range 65).all (fun L => (mlPairs L).length == nplm L &&
      (mlPairs L).zipIdx.all fun p => plmIdx L p.1.2 p.1.1 == p.2) = true := by
  decide +kernel

/-- the complex layout puts degree `l` in the block `[l², (l+1)²)`: blocks of different degrees never overlap -/
theorem idxC_block (l : Nat) (m : Int) (h1 : -(l : Int) ≤ m) (h2 : m ≤ l) :
    (l : Int) * l ≤ idxC l m ∧ idxC l m < ((l : Int) + 1) * (l + 1) := by
  unfold idxC
  constructor <;> nlinarith

theorem idxC_injective (l l' : Nat) (m m' : Int) (h1 : -(l : Int) ≤ m) (h2 : m ≤ l) (h1' : -(l' : Int) ≤ m') (h2' : m' ≤ l')
    (h : idxC l m = idxC l' m') : l = l' ∧ m = m' := by
  obtain ⟨a, b⟩ := idxC_block l m h1 h2
  obtain ⟨a', b'⟩ := idxC_block l' m' h1' h2'
  have hl : l = l' := by
    by_contra hne
    rcases Nat.lt_or_gt_of_ne hne with hlt | hlt
    · have : (l : Int) + 1 ≤ l' := by exact_mod_cast hlt
      nlinarith
    · have : (l' : Int) + 1 ≤ l := by exact_mod_cast hlt
      nlinarith
  subst hl
  refine ⟨rfl, ?_⟩
  unfold idxC at h
  linarith

/-- `coefficient_c(l, m) = (l+1)² - l + m - 1` of `_invariants.pyx` is the same index -/
theorem coefficient_index_eq (l : Nat) (m : Int) : ((l : Int) + 1) * (l + 1) - l + m - 1 = idxC l m := by
  unfold idxC; ring

/-! ### exactness, one azimuthal order m at a time (the kernels never mix different m) -/

open Finset in
/-- **analysis ∘ synthesis = identity** for the coefficients of one order `m`: with nodes `j`, weights `w`, normalised
Legendre values `P l j` (l ranging over the degrees ≥ m) and the discrete orthonormality `hG` of the quadrature,
the value reconstructed at the nodes, `Σ_l c_l P_l(j)`, analyses back to `c` — for ANY coefficient vector -/
theorem analysis_synthesis_fixed_m {R ι κ : Type} [CommRing R] [Fintype ι] [Fintype κ] [DecidableEq κ]
    (P : κ → ι → R) (w : ι → R) (c : κ → R)
    (hG : ∀ l l', ∑ j, w j * P l j * P l' j = if l = l' then 1 else 0) (l' : κ) :
    ∑ j, w j * (∑ l, c l * P l j) * P l' j = c l' := by
  have : ∀ j, w j * (∑ l, c l * P l j) * P l' j = ∑ l, c l * (w j * P l j * P l' j) := by
    intro j; rw [Finset.mul_sum, Finset.sum_mul]; apply Finset.sum_congr rfl; intro l _; ring
  simp_rw [this]
  rw [Finset.sum_comm]
  simp_rw [← Finset.mul_sum, hG]
  simp

open Finset in
/-- the kernels carry a phase `s = (-1)^m` on both the synthesis and the analysis side; `s² = 1` cancels it -/
theorem analysis_synthesis_signed {R ι κ : Type} [CommRing R] [Fintype ι] [Fintype κ] [DecidableEq κ]
    (P : κ → ι → R) (w : ι → R) (c : κ → R) (s : R) (hs : s * s = 1)
    (hG : ∀ l l', ∑ j, w j * P l j * P l' j = if l = l' then 1 else 0) (l' : κ) :
    ∑ j, s * (∑ l, s * c l * P l j) * (P l' j * w j) = c l' := by
  have key := analysis_synthesis_fixed_m P w c hG l'
  rw [← key]
  apply Finset.sum_congr rfl
  intro j _
  have : (∑ l, s * c l * P l j) = s * ∑ l, c l * P l j := by
    rw [Finset.mul_sum]; apply Finset.sum_congr rfl; intro l _; ring
  rw [this]
  calc s * (s * ∑ l, c l * P l j) * (P l' j * w j) = (s * s) * (w j * (∑ l, c l * P l j) * P l' j) := by ring
    _ = w j * (∑ l, c l * P l j) * P l' j := by rw [hs, one_mul]

open Finset in
/-- **linearity** of the analysis in the sampled values -/
theorem analysis_linear {R ι : Type} [CommRing R] [Fintype ι] (w p : ι → R) (f g : ι → R) (a b : R) :
    ∑ j, w j * (a * f j + b * g j) * p j = a * ∑ j, w j * f j * p j + b * ∑ j, w j * g j * p j := by
  rw [Finset.mul_sum, Finset.mul_sum, ← Finset.sum_add_distrib]
  apply Finset.sum_congr rfl; intro j _; ring

open Finset in
/-- **Parseval** for one order: the quadrature of a product of two band-limited functions is the dot product of their
coefficients -/
theorem parseval_fixed_m {R ι κ : Type} [CommRing R] [Fintype ι] [Fintype κ] [DecidableEq κ]
    (P : κ → ι → R) (w : ι → R) (c d : κ → R)
    (hG : ∀ l l', ∑ j, w j * P l j * P l' j = if l = l' then 1 else 0) :
    ∑ j, w j * (∑ l, c l * P l j) * (∑ l, d l * P l j) = ∑ l, c l * d l := by
  have : ∀ j, w j * (∑ l, c l * P l j) * (∑ l', d l' * P l' j) = ∑ l', d l' * (w j * (∑ l, c l * P l j) * P l' j) := by
    intro j; rw [Finset.mul_sum]; apply Finset.sum_congr rfl; intro l' _; ring
  simp_rw [this]
  rw [Finset.sum_comm]
  simp_rw [← Finset.mul_sum, analysis_synthesis_fixed_m P w c hG]
  apply Finset.sum_congr rfl; intro l _; ring

/-! non-vacuity: L = 4 uses a 10 × 8 grid -/
example : nphiOf 4 = 10 ∧ nthetaOf 4 = 8 ∧ nplm 4 = 15 ∧ nlm 4 = 25 := by decide +kernel

end ChmpyVerif.Props.C07
