/-
C15, line level: a scalar item written by the serializer (`_name value` on one line) is read back by `parse_data_name` as that
name with that value — for every name without blanks and every value text the value-level theorems cover (integers, quoted
strings with any embedded blanks, plain words); the parser state moves to the next line and nothing else changes.
-/
import ChmpyVerif.Props.C15

namespace ChmpyVerif.Props.C15
open ChmpyVerif.Cif ChmpyVerif.PyStr ChmpyVerif.MolIO

theorem go_acc (s cur : List Ch) (acc : List (List Ch)) : splitWs.go s cur acc = acc ++ splitWs.go s cur [] := by
  induction s generalizing cur acc with
  | nil => simp only [splitWs.go]; split <;> simp
  | cons c cs ih =>
    simp only [splitWs.go]
    split
    · rw [ih [] (if cur.isEmpty then acc else acc ++ [cur]), ih [] (if cur.isEmpty then [] else [] ++ [cur])]
      split <;> simp
    · exact ih _ _

theorem go_word (k rest cur : List Ch) (acc : List (List Ch)) (hk : k.all (fun c => !pyIsSpace c) = true) :
    splitWs.go (k ++ rest) cur acc = splitWs.go rest (cur ++ k) acc := by
  induction k generalizing cur with
  | nil => simp
  | cons c cs ih =>
    simp only [List.all_cons, Bool.and_eq_true, Bool.not_eq_true'] at hk
    simp only [List.cons_append, splitWs.go, hk.1, Bool.false_eq_true, if_false]
    rw [ih (cur ++ [c]) (by simpa using hk.2)]
    simp

/-- the first whitespace token of `name␣rest` is `name` -/
theorem splitWs_head (k rest : List Ch) (hne : k ≠ []) (hk : k.all (fun c => !pyIsSpace c) = true) :
    ∃ more, splitWs (k ++ 32 :: rest) = k :: more := by
  unfold splitWs
  rw [go_word k (32 :: rest) [] [] hk]
  simp only [List.nil_append, splitWs.go]
  have h32 : pyIsSpace 32 = true := by decide
  simp only [h32, if_true]
  have hke : k.isEmpty = false := by cases k <;> simp_all
  simp only [hke, Bool.false_eq_true, if_false, List.nil_append]
  rw [go_acc]
  exact ⟨_, rfl⟩

/-- **a printed scalar line parses back**: name `n` (non-empty, no blanks), value text `sv` (non-empty, no leading or trailing blank)
whose value-level parse is `pv` -/
theorem scalar_line (st : PState) (n sv : List Ch) (pv : Cif.Val)
    (hline : st.lines[st.idx]? = some (95 :: n ++ 32 :: sv))
    (hn : n ≠ []) (hns : n.all (fun c => !pyIsSpace c) = true)
    (hsv : sv ≠ []) (hsh : sv.head?.all (fun c => !pyIsSpace c) = true) (hst : sv.getLast?.all (fun c => !pyIsSpace c) = true)
    (hpv : parseValue sv = .ok pv) :
    parseDataName st = .ok { st with idx := st.idx + 1, data := setItem st.data st.block n (.inl pv) } := by
  unfold parseDataName lineAt
  rw [hline]
  simp only [bind, Except.bind]
  -- the line has no outer blanks
  have hlast : (95 :: n ++ 32 :: sv).getLast? = sv.getLast? := by
    rw [show (95 :: n ++ 32 :: sv) = (95 :: n ++ [32]) ++ sv by simp]
    rw [List.getLast?_append_of_ne_nil _ hsv]
  have hstrip : strip (95 :: n ++ 32 :: sv) = 95 :: n ++ 32 :: sv := by
    have := ChmpyVerif.Element.strip_pad (95 :: n ++ 32 :: sv) [] [] rfl rfl (by simp) (by simp [pyIsSpace]) (by rw [hlast]; exact hst)
    simpa using this
  rw [hstrip]
  simp only [List.cons_append, List.drop_succ_cons, List.drop_zero]
  obtain ⟨more, hsplit⟩ := splitWs_head n sv hn hns
  rw [hsplit]
  -- the value is what follows the name
  have hdrop : (n ++ 32 :: sv).drop n.length = 32 :: sv := by simp
  have hv : strip (32 :: sv) = sv := by
    have := ChmpyVerif.Element.strip_pad sv [32] [] (by decide) rfl hsv hsh hst
    simpa using this
  cases more with
  | nil =>
    -- impossible: the value contributes at least one token
    exfalso
    have : (splitWs (n ++ 32 :: sv)).length = 1 := by rw [hsplit]; rfl
    unfold splitWs at this
    rw [go_word n (32 :: sv) [] [] hns] at this
    simp only [List.nil_append, splitWs.go] at this
    have h32 : pyIsSpace 32 = true := by decide
    have hke : n.isEmpty = false := by cases n <;> simp_all
    simp only [h32, if_true, hke, Bool.false_eq_true, if_false, List.nil_append] at this
    rw [go_acc] at this
    simp only [List.length_append, List.length_cons, List.length_nil] at this
    -- the first character of sv is not a blank, so a token is produced
    obtain ⟨c, r, rfl⟩ := List.exists_cons_of_ne_nil hsv
    have hc : pyIsSpace c = false := by simpa using hsh
    have hpos : 0 < (splitWs.go (c :: r) [] []).length := by
      simp only [splitWs.go, hc, Bool.false_eq_true, if_false, List.nil_append]
      have : ∀ (s cur : List Ch), cur ≠ [] → 0 < (splitWs.go s cur []).length := by
        intro s
        induction s with
        | nil => intro cur hcur; simp only [splitWs.go]; cases cur <;> simp_all
        | cons d ds ih =>
          intro cur hcur
          simp only [splitWs.go]
          split
          · rw [go_acc]; cases cur <;> simp_all
          · exact ih _ (by simp)
      exact this r [c] (by simp)
    omega
  | cons t ts =>
    simp only [hdrop, hv, hpv]

/-- … for an integer value -/
theorem scalar_line_int (st : PState) (n : List Ch) (i : Int)
    (hline : st.lines[st.idx]? = some (95 :: n ++ 32 :: scalarText (.int i)))
    (hn : n ≠ []) (hns : n.all (fun c => !pyIsSpace c) = true) :
    parseDataName st = .ok { st with idx := st.idx + 1, data := setItem st.data st.block n (.inl (.int i)) } := by
  have hd := natStr_digits i.natAbs
  have hne : natStr i.natAbs ≠ [] := List.ne_nil_of_length_pos (natStr_length_pos _)
  have hdig_ns : ∀ c, isDigitA c = true → pyIsSpace c = false := fun c h => ChmpyVerif.Element.digit_not_space c h
  apply scalar_line st n (intText i) (.int i) hline hn hns
  · unfold intText; split <;> simp [hne]
  · unfold intText
    split
    · simp [pyIsSpace]
    · obtain ⟨c, r, hcr⟩ := List.exists_cons_of_ne_nil hne
      rw [hcr]; simp only [List.nil_append, List.head?_cons, Option.all_some]
      have : isDigitA c = true := by rw [hcr] at hd; simp only [List.all_cons, Bool.and_eq_true] at hd; exact hd.1
      simp [hdig_ns c this]
  · unfold intText
    have hl : ((if i < 0 then [45] else []) ++ natStr i.natAbs).getLast? = (natStr i.natAbs).getLast? :=
      List.getLast?_append_of_ne_nil _ hne
    rw [hl]
    cases hq : (natStr i.natAbs).getLast? with
    | none => simp
    | some l =>
      have := (List.all_eq_true.mp hd) l (List.mem_of_getLast? hq)
      simp [hdig_ns l this]
  · exact parse_value_int i

/-- … for a string that needs quotes (contains a blank, no quote characters, no leading blank): the quotes written by the
serializer are removed again and the embedded blanks survive -/
theorem scalar_line_quoted (st : PState) (n s : List Ch)
    (hline : st.lines[st.idx]? = some (95 :: n ++ 32 :: (39 :: s ++ [39])))
    (hn : n ≠ []) (hns : n.all (fun c => !pyIsSpace c) = true)
    (hq : (39 : Ch) ∉ s) (hlead : s.head?.all (fun c => !pyIsSpace c) = true) :
    parseDataName st = .ok { st with idx := st.idx + 1, data := setItem st.data st.block n (.inl (.str s)) } := by
  apply scalar_line st n (39 :: s ++ [39]) (.str s) hline hn hns
  · simp
  · simp [pyIsSpace]
  · rw [show (39 :: s ++ [39]) = (39 :: s) ++ [39] from rfl, List.getLast?_concat]; simp [pyIsSpace]
  · exact parse_value_quoted s hq hlead

end ChmpyVerif.Props.C15
