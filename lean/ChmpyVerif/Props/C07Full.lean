/-
C07, composite statement: the full complex transform (all orders m, all degrees l) is exactly inverted, over any field that
contains a primitive n-th root of unity (ℂ with ζ = e^{2πi/n}), from TWO facts only:
 * `hG` — discrete orthonormality of the normalised Legendre values at the quadrature nodes (the named hypothesis H_gl), and
 * `2L < n` — more azimuthal points than Fourier modes (kernel-checked for the real grid rule in `nphi_table`).
The decoupling of the orders by the discrete Fourier transform is PROVED here (`dft_orthogonality`).
-/
import Mathlib.RingTheory.RootsOfUnity.PrimitiveRoots
import Mathlib.Algebra.Field.GeomSum
import Mathlib.Algebra.BigOperators.Intervals
import Mathlib.Data.Int.Interval
import Mathlib.Tactic.Ring
import Mathlib.Tactic.Linarith
import Mathlib.Tactic.FieldSimp

namespace ChmpyVerif.Props.C07
open Finset

variable {K : Type} [Field K]

/-- **the DFT decouples the azimuthal orders**: for a primitive n-th root of unity and |d| < n,
`Σ_{k<n} ζ^(d·k)` is `n` when `d = 0` and `0` otherwise -/
theorem dft_orthogonality (ζ : K) (n : ℕ) (hζ : IsPrimitiveRoot ζ n) (d : ℤ) (hd : |d| < n) :
    ∑ k ∈ range n, ζ ^ (d * (k : ℤ)) = if d = 0 then (n : K) else 0 := by
  by_cases h0 : d = 0
  · simp [h0]
  · simp only [h0, if_false]
    have hx1 : ζ ^ d ≠ 1 := by
      intro h
      have := (hζ.zpow_eq_one_iff_dvd d).mp h
      exact h0 (Int.eq_zero_of_abs_lt_dvd this hd)
    have hxn : (ζ ^ d) ^ n = 1 := by
      rw [← zpow_natCast, ← zpow_mul, mul_comm, zpow_mul, zpow_natCast, hζ.pow_eq_one, one_zpow]
    have hsum : ∑ k ∈ range n, ζ ^ (d * (k : ℤ)) = ∑ k ∈ range n, (ζ ^ d) ^ k := by
      apply sum_congr rfl; intro k _; rw [zpow_mul, zpow_natCast]
    rw [hsum]
    have := geom_sum_mul (ζ ^ d) n
    rw [hxn, sub_self] at this
    rcases mul_eq_zero.mp this with h | h
    · exact h
    · exact absurd (sub_eq_zero.mp h) hx1

/-- **analysis ∘ synthesis = identity for the whole complex transform**: sample `f(j,k) = Σ_m Σ_l c(l,m) P_{l|m|}(j) s(m) ζ^{mk}` on the
grid (nodes j, azimuths k < n), Fourier-analyse in k, weight by the quadrature and the same phase `s(m') = ±1`: the result is `c(l',m')`,
for ANY coefficient vector (supported on |m| ≤ l ≤ L) -/
theorem sht_roundtrip {ι : Type} [Fintype ι] (L n : ℕ) (ζ : K) (hζ : IsPrimitiveRoot ζ n) (hn : 2 * L < n) (hnK : (n : K) ≠ 0)
    (P : ℕ → ℕ → ι → K) (w : ι → K) (s : ℤ → K) (hs : ∀ m, s m * s m = 1)
    (hG : ∀ a l l', a ≤ l → l ≤ L → a ≤ l' → l' ≤ L → ∑ j, w j * P l a j * P l' a j = if l = l' then 1 else 0)
    (c : ℕ → ℤ → K) (hc : ∀ (l : ℕ) (m : ℤ), (l : ℤ) < |m| → c l m = 0)
    (l' : ℕ) (m' : ℤ) (hl' : l' ≤ L) (hm' : |m'| ≤ l') :
    ∑ j, w j * P l' m'.natAbs j * s m' *
        ((n : K)⁻¹ * ∑ k ∈ range n,
          (∑ m ∈ Icc (-(L : ℤ)) L, ∑ l ∈ range (L + 1), c l m * P l m.natAbs j * s m * ζ ^ (m * (k : ℤ))) * ζ ^ (-(m' * (k : ℤ))))
      = c l' m' := by
  have hζ0 : ζ ≠ 0 := by
    intro h
    have hn0 : n ≠ 0 := by omega
    have := hζ.pow_eq_one
    rw [h, zero_pow hn0] at this
    exact zero_ne_one this
  have hm'L : m' ∈ Icc (-(L : ℤ)) L := by
    rw [mem_Icc]; have := abs_le.mp (le_trans hm' (by exact_mod_cast hl' : (l' : ℤ) ≤ L)); exact this
  -- the Fourier analysis in k picks out the order m'
  have fourier : ∀ j, (n : K)⁻¹ * ∑ k ∈ range n,
        (∑ m ∈ Icc (-(L : ℤ)) L, ∑ l ∈ range (L + 1), c l m * P l m.natAbs j * s m * ζ ^ (m * (k : ℤ))) * ζ ^ (-(m' * (k : ℤ)))
      = ∑ l ∈ range (L + 1), c l m' * P l m'.natAbs j * s m' := by
    intro j
    have e1 : ∀ k ∈ range n, (∑ m ∈ Icc (-(L : ℤ)) L, ∑ l ∈ range (L + 1), c l m * P l m.natAbs j * s m * ζ ^ (m * (k : ℤ))) * ζ ^ (-(m' * (k : ℤ)))
        = ∑ m ∈ Icc (-(L : ℤ)) L, (∑ l ∈ range (L + 1), c l m * P l m.natAbs j * s m) * ζ ^ ((m - m') * (k : ℤ)) := by
      intro k _
      rw [sum_mul]
      apply sum_congr rfl; intro m _
      rw [sum_mul, sum_mul]
      apply sum_congr rfl; intro l _
      have : ζ ^ ((m - m') * (k : ℤ)) = ζ ^ (m * (k : ℤ)) * ζ ^ (-(m' * (k : ℤ))) := by
        rw [← zpow_add₀ hζ0]; congr 1; ring
      rw [this]; ring
    rw [sum_congr rfl e1, sum_comm]
    have e2 : ∀ m ∈ Icc (-(L : ℤ)) L, ∑ k ∈ range n, (∑ l ∈ range (L + 1), c l m * P l m.natAbs j * s m) * ζ ^ ((m - m') * (k : ℤ))
        = (∑ l ∈ range (L + 1), c l m * P l m.natAbs j * s m) * (if m = m' then (n : K) else 0) := by
      intro m hm
      rw [← mul_sum]
      congr 1
      have hd : |m - m'| < (n : ℤ) := by
        rw [mem_Icc] at hm hm'L
        rw [abs_lt]; constructor <;> omega
      rw [dft_orthogonality ζ n hζ (m - m') hd]
      simp only [sub_eq_zero]
    rw [sum_congr rfl e2]
    rw [sum_eq_single m']
    · simp only [if_true]
      field_simp
      apply sum_congr rfl; intro l _; ring
    · intro m _ hne; simp [hne]
    · intro h; exact absurd hm'L h
  simp_rw [fourier]
  -- the quadrature in j picks out the degree l'
  have e3 : ∀ j, w j * P l' m'.natAbs j * s m' * ∑ l ∈ range (L + 1), c l m' * P l m'.natAbs j * s m'
      = ∑ l ∈ range (L + 1), c l m' * (w j * P l m'.natAbs j * P l' m'.natAbs j) := by
    intro j
    rw [mul_sum]
    apply sum_congr rfl; intro l _
    calc w j * P l' m'.natAbs j * s m' * (c l m' * P l m'.natAbs j * s m')
        = (s m' * s m') * (c l m' * (w j * P l m'.natAbs j * P l' m'.natAbs j)) := by ring
      _ = c l m' * (w j * P l m'.natAbs j * P l' m'.natAbs j) := by rw [hs, one_mul]
  simp_rw [e3]
  rw [sum_comm]
  simp_rw [← mul_sum]
  have hnat : (m'.natAbs : ℤ) = |m'| := Int.natCast_natAbs m'
  have ha' : m'.natAbs ≤ l' := by
    have : (m'.natAbs : ℤ) ≤ l' := by rw [hnat]; exact hm'
    exact_mod_cast this
  rw [sum_eq_single l']
  · rw [hG m'.natAbs l' l' ha' hl' ha' hl']; simp
  · intro l hl hne
    rw [mem_range] at hl
    by_cases hlt : l < m'.natAbs
    · rw [hc l m' (by rw [← hnat]; exact_mod_cast hlt)]; simp
    · rw [hG m'.natAbs l l' (by omega) (by omega) ha' hl']; simp [hne]
  · intro h; exact absurd (mem_range.mpr (by omega)) h

end ChmpyVerif.Props.C07
