import ChmpyVerif.Props.C11Spell
namespace ChmpyVerif.Props.C11
/-- every spelling of every row with translation digit 4 is read back as that row -/
theorem spell_k4 : ∀ r ∈ rows27, ∀ s ∈ spellings r 4, rowOk s r 4 = true := by
  decide +kernel
end ChmpyVerif.Props.C11
