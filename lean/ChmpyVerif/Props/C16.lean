/-
C16 — saving a molecule to XYZ or SDF and loading it back reproduces it.
`atomReader/atomWriter/…/coordMap/xyzWriter` are GENERATED from chmpy/fmt/sdf.py and
chmpy/core/molecule.py on every run.
-/
import ChmpyVerif.Gen.MolIO
import ChmpyVerif.Lemmas.MolIO

namespace ChmpyVerif.Props.C16
open ChmpyVerif.MolIO ChmpyVerif.PyStr ChmpyVerif.SymOp ChmpyVerif.Gen

/-- ASCII code points of a short literal (specification side) -/
def nm (s : String) : List Nat := s.toList.map Char.toNat

/-! ### writer and reader agree on every column (kernel-checked on the regenerated tables) -/

theorem atom_layout_agrees : layoutsAgree atomReader atomWriter = true := by decide +kernel
theorem counts_layout_agrees : layoutsAgree countsReader countsWriter = true := by decide +kernel
theorem bond_layout_agrees : layoutsAgree bondReader bondWriter = true := by decide +kernel

/-- the MDL V2000 layout (independent statement of the standard): x, y, z in columns 0-9, 10-19, 20-29,
the symbol in 31-33; atom and bond counts in 0-2 and 3-5; the version tag starts at column 34;
bond partners in 0-2 and 3-5 -/
theorem v2000_columns :
    (writerLayout atomWriter 0).contains ([120], 0, 10) = true ∧
    (writerLayout atomWriter 0).contains ([121], 10, 10) = true ∧
    (writerLayout atomWriter 0).contains ([122], 20, 10) = true ∧
    (writerLayout atomWriter 0).contains ([115, 121, 109, 98, 111, 108], 31, 3) = true ∧
    (writerLayout countsWriter 0).contains ([97, 116, 111, 109, 115], 0, 3) = true ∧
    (writerLayout countsWriter 0).contains ([98, 111, 110, 100, 115], 3, 3) = true ∧
    writerStart countsWriter [118, 101, 114, 115, 105, 111, 110] = some 34 ∧
    (writerLayout bondWriter 0).contains ([108, 101, 102, 116], 0, 3) = true ∧
    (writerLayout bondWriter 0).contains ([114, 105, 103, 104, 116], 3, 3) = true := by
  decide +kernel

/-- x, y and z are taken from columns 0, 1 and 2 of the position array -/
theorem coord_map_correct : coordMap = [([120], 0), ([121], 1), ([122], 2)] := by decide +kernel

def fieldSpec (items : List WItem) (name : List Nat) : Option (Nat × Nat × List Nat) :=
  items.findSome? fun
    | .field n flag w _ ty => if n == name then some (flag, w, ty) else none
    | .lit _ => none

/-- the count fields that reach 3 digits (up to 200 atoms, their bond partners) are plain `3d` fields with no
sign slot, so values of 100 and more stay on their columns -/
theorem count_fields_no_space_flag :
    fieldSpec countsWriter [97, 116, 111, 109, 115] = some (0, 3, [100]) ∧
    fieldSpec countsWriter [98, 111, 110, 100, 115] = some (0, 3, [100]) ∧
    fieldSpec bondWriter [108, 101, 102, 116] = some (0, 3, [100]) ∧
    fieldSpec bondWriter [114, 105, 103, 104, 116] = some (0, 3, [100]) := by
  decide +kernel

/-! ### general theorems about the fixed-column and number layers -/

/-- slicing a line that was written as a concatenation of pieces of the fields' widths returns the pieces -/
theorem slice_render_fixed (fs : List RField) (ps : List (List Ch)) (tail : List Ch)
    (hl : fs.length = ps.length) (hw : ∀ f ∈ fs, 0 < f.width) (hp : ∀ fp ∈ fs.zip ps, fp.2.length = fp.1.width) :
    sliceFields fs (ps.flatten ++ tail) = ((fs.zip ps).filter (·.1.parsed)).map fun fp => (fp.1.name, fp.2) :=
  sliceFields_pieces fs ps tail hl hw hp

/-- `format(n, "wd")` has exactly `w` characters for every `0 ≤ n < 10^w` (so 3-digit counts fit `3d`) -/
theorem fmtInt_width (w : Nat) (n : Int) (hw : 0 < w) (h0 : 0 ≤ n) (h : n.natAbs < 10 ^ w) :
    (fmtInt 0 w n).length = w := fmtInt_width' w n hw h0 h

/-- … and `int()` reads it back -/
theorem parseInt_fmtInt (w : Nat) (n : Int) (h0 : 0 ≤ n) : parseInt (fmtInt 0 w n) = some n :=
  parseInt_fmtInt' w n h0

/-- `format(x, "w.pf")` has exactly `w` characters when the integer part has at most `d` digits and
`d + p + 2 ≤ w`; for `10.4f` that is |x| < 10⁴ -/
theorem fmtFixed_width (w p d : Nat) (x : Rat) (hp : 0 < p) (hd : 0 < d)
    (hfit : (fixedParts p x).2.1 < 10 ^ d) (hw : d + p + 2 ≤ w) : (fmtFixed 0 w p x).length = w :=
  fmtFixed_width' w p d x hp hd hfit hw

/-- reading a written coordinate returns the correctly rounded decimal -/
theorem parseFloat_fmtFixed (w p : Nat) (x : Rat) (hp : 0 < p) :
    parseFloat (fmtFixed 0 w p x) = some (((roundHalfEven (x * (10 : Rat) ^ p) : Int) : Rat) / (10 : Rat) ^ p) :=
  parseFloat_fmtFixed' w p x hp

/-- … which is within half a unit of the last written decimal of `x` ("to the precision of the format") -/
theorem fmtFixed_error (p : Nat) (x : Rat) :
    |((roundHalfEven (x * (10 : Rat) ^ p) : Int) : Rat) / (10 : Rat) ^ p - x| ≤ 1 / (2 * (10 : Rat) ^ p) := by
  have hpos : (0 : Rat) < (10 : Rat) ^ p := by positivity
  have h := roundHalfEven_error (x * (10 : Rat) ^ p)
  have e : ((roundHalfEven (x * (10 : Rat) ^ p) : Int) : Rat) / (10 : Rat) ^ p - x
      = (((roundHalfEven (x * (10 : Rat) ^ p) : Int) : Rat) - x * (10 : Rat) ^ p) / (10 : Rat) ^ p := by
    field_simp
  rw [e, abs_div, abs_of_pos hpos, div_le_div_iff₀ hpos (by positivity)]
  calc |((roundHalfEven (x * (10 : Rat) ^ p) : Int) : Rat) - x * (10 : Rat) ^ p| * (2 * (10 : Rat) ^ p)
      ≤ 1 / 2 * (2 * (10 : Rat) ^ p) := by apply mul_le_mul_of_nonneg_right h; positivity
    _ = 1 * (10 : Rat) ^ p := by ring

/-- the XYZ atom line separates its four fields by a blank -/
theorem xyz_fields_separated :
    xyzWriter.map (fun | .lit s => s | .field n _ _ _ _ => n) = [[101, 108], [32], [120], [32], [121], [32], [122]] ∧
    (xyzWriter.all fun | .lit _ => true | .field n _ w p _ => n == [101, 108] || (w == 20 && p == 12)) = true := by
  decide +kernel

/-- tokenising is insensitive to the amount of blank space: any run of blanks separates, leading and
trailing blanks are ignored -/
theorem splitWs_blank_insensitive :
    splitWs [32, 72, 9, 32, 49, 46, 53, 32, 32, 45, 50, 32] = [[72], [49, 46, 53], [45, 50]] ∧
    ∀ (s : List Ch) (pre : List Ch), pre.all pyIsSpace = true → splitWs (pre ++ s) = splitWs s := by
  refine ⟨by decide +kernel, ?_⟩
  intro s pre hpre
  unfold splitWs
  induction pre with
  | nil => rfl
  | cons c cs ih =>
    simp only [List.all_cons, Bool.and_eq_true] at hpre
    simp only [List.cons_append, splitWs.go, hpre.1, if_true, List.isEmpty_nil]
    exact ih hpre.2

/-! non-vacuity: a typical coordinate fits the SDF field -/
example : (fixedParts 4 (-757 / 1000)).2.1 < 10 ^ 4 ∧ 4 + 4 + 2 ≤ 10 := by decide +kernel

end ChmpyVerif.Props.C16
