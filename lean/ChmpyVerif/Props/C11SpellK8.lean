import ChmpyVerif.Props.C11Spell
namespace ChmpyVerif.Props.C11
/-- every spelling of every row with translation digit 8 is read back as that row -/
theorem spell_k8 : ∀ r ∈ rows27, ∀ s ∈ spellings r 8, rowOk s r 8 = true := by
  decide +kernel
end ChmpyVerif.Props.C11
