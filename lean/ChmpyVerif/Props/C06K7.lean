import ChmpyVerif.Model.MC
namespace ChmpyVerif.Props.C06
open ChmpyVerif.MC ChmpyVerif.Gen.MC
theorem leaves_ok7 : leaves7.all leafOk = true := by decide +kernel
theorem faces_match7 : leaves7.all leafFacesMatch = true := by decide +kernel
theorem trees7 : ((List.range 32).map (· + 224)).all (fun cfg => isTree 16 ((leaves7.filter (·.cfg == cfg)).map (·.tests))) = true := by decide +kernel
end ChmpyVerif.Props.C06
