import ChmpyVerif.Props.C11Spell
namespace ChmpyVerif.Props.C11
/-- every spelling of every row with translation digit 2 is read back as that row -/
theorem spell_k2 : ∀ r ∈ rows27, ∀ s ∈ spellings r 2, rowOk s r 2 = true := by
  decide +kernel
end ChmpyVerif.Props.C11
