/-
C20, stratification: if the direction numbers are "triangular" (V[i] has its lowest set bit exactly at position 32 - i, which the
kernel checks for every tabulated row from the Joe–Kuo premise), then for every k ≤ M the first 2^k points of the sequence fall
into pairwise different sub-intervals of width 2^-k — hence (they are 2^k points below 2^k boxes) exactly one per sub-interval.
Proved from the sequential definition `X[n+1] = X[n] xor V[C[n]]` by the ruler structure of the index sequence `C`.
-/
import ChmpyVerif.Props.C20
import Mathlib.Data.Fintype.Card
import Mathlib.Data.Fintype.Fin

namespace ChmpyVerif.Props.C20
open ChmpyVerif.Sobol

/-! ### the ruler structure of `C[n] = 1 + (number of trailing ones of n)` -/

theorem trailingOnes_add_pow (fuel k r : Nat) (h : r + 1 < 2 ^ k) :
    trailingOnes fuel (2 ^ k + r) = trailingOnes fuel r := by
  induction fuel generalizing k r with
  | zero => rfl
  | succ f ih =>
    cases k with
    | zero => simp at h
    | succ k =>
      simp only [trailingOnes]
      have hmod : (2 ^ (k + 1) + r) % 2 = r % 2 := by rw [Nat.pow_succ]; omega
      have hdiv : (2 ^ (k + 1) + r) / 2 = 2 ^ k + r / 2 := by rw [Nat.pow_succ]; omega
      rw [hmod, hdiv]
      split
      · rename_i hodd
        rw [ih k (r / 2) (by rw [Nat.pow_succ] at h; omega)]
      · rfl

theorem trailingOnes_pow_sub_one (fuel k : Nat) (h : k ≤ fuel) : trailingOnes fuel (2 ^ k - 1) = k := by
  induction k generalizing fuel with
  | zero => cases fuel <;> simp [trailingOnes]
  | succ k ih =>
    cases fuel with
    | zero => omega
    | succ f =>
      simp only [trailingOnes]
      have hpos : 0 < 2 ^ k := Nat.pos_of_ne_zero (by positivity)
      have hmod : (2 ^ (k + 1) - 1) % 2 = 1 := by rw [Nat.pow_succ]; omega
      have hdiv : (2 ^ (k + 1) - 1) / 2 = 2 ^ k - 1 := by rw [Nat.pow_succ]; omega
      rw [hmod, hdiv]
      simp only [if_true]
      rw [ih f (by omega)]; omega

theorem cIdx_add_pow (k r : Nat) (h : r + 1 < 2 ^ k) : cIdx (2 ^ k + r) = cIdx r := by
  unfold cIdx; rw [trailingOnes_add_pow 64 k r h]

theorem cIdx_pow_sub_one (k : Nat) (h : k ≤ 64) : cIdx (2 ^ k - 1) = k + 1 := by
  unfold cIdx; rw [trailingOnes_pow_sub_one 64 k h]; omega

theorem cIdx_pos (n : Nat) : 1 ≤ cIdx n := by unfold cIdx; omega

theorem cIdx_le_of_lt (n k : Nat) (h : n + 1 < 2 ^ k) : cIdx n ≤ k := by
  unfold cIdx
  have h1 := trailingOnes_pow 64 n
  have : 2 ^ trailingOnes 64 n < 2 ^ k := by omega
  have := (Nat.pow_lt_pow_iff_right (by decide : 1 < 2)).mp this
  omega

theorem xor_eq (a b : Nat) : Nat.xor a b = a ^^^ b := rfl

/-- the second half of a block of 2^(k+1) points is the first half, translated (xor) by the point 2^k -/
theorem xSeq_second_half (V : List Nat) (k r : Nat) (h : r < 2 ^ k) :
    xSeq V (2 ^ k + r) = xSeq V (2 ^ k) ^^^ xSeq V r := by
  induction r with
  | zero => simp [xSeq]
  | succ r ih =>
    have hr : r + 1 < 2 ^ k := h
    rw [← Nat.add_assoc]
    simp only [xSeq, xor_eq]
    rw [ih (by omega), cIdx_add_pow k r hr, Nat.xor_assoc]

/-! ### triangular direction numbers -/

/-- only the top `k` of the 32 bits may be set -/
def Low (k x : Nat) : Prop := x % 2 ^ (32 - k) = 0

def Triangular (V : List Nat) (M : Nat) : Prop := ∀ i, 1 ≤ i → i ≤ M → lowbitOk V i = true

theorem low_mono (x i k : Nat) (hik : i ≤ k) (h : Low i x) : Low k x := by
  unfold Low at *
  have hd : 2 ^ (32 - k) ∣ 2 ^ (32 - i) := Nat.pow_dvd_pow 2 (by omega)
  exact Nat.mod_eq_zero_of_dvd (Nat.dvd_trans hd (Nat.dvd_of_mod_eq_zero h))

theorem low_xor (k x y : Nat) (hx : Low k x) (hy : Low k y) : Low k (x ^^^ y) := by
  unfold Low at *
  rw [Nat.xor_mod_two_pow, hx, hy]; rfl

theorem tri_low (V : List Nat) (M i : Nat) (hT : Triangular V M) (h1 : 1 ≤ i) (h2 : i ≤ M) : Low i (V.getD i 0) := by
  have := hT i h1 h2
  unfold lowbitOk at this
  simp only [Bool.and_eq_true, beq_iff_eq] at this
  exact this.1

theorem tri_bit (V : List Nat) (M i : Nat) (hT : Triangular V M) (h1 : 1 ≤ i) (h2 : i ≤ M) :
    (V.getD i 0 / 2 ^ (32 - i)) % 2 = 1 := by
  have := hT i h1 h2
  unfold lowbitOk at this
  simp only [Bool.and_eq_true, beq_iff_eq] at this
  exact this.2

/-- the first 2^k points only use the top k bits -/
theorem xSeq_low (V : List Nat) (M k : Nat) (hT : Triangular V M) (hk : k ≤ M) (n : Nat) (hn : n < 2 ^ k) :
    Low k (xSeq V n) := by
  induction n with
  | zero => simp [xSeq, Low]
  | succ n ih =>
    simp only [xSeq, xor_eq]
    apply low_xor
    · exact ih (by omega)
    · have hc := cIdx_le_of_lt n k hn
      exact low_mono _ _ _ hc (tri_low V M _ hT (cIdx_pos n) (by omega))

/-- top `k` bits: the index of the sub-interval of width 2^-k that contains X / 2^32 -/
def box (k x : Nat) : Nat := x / 2 ^ (32 - k)

theorem box_xor (k x y : Nat) : box k (x ^^^ y) = box k x ^^^ box k y := by
  unfold box; exact Nat.xor_div_two_pow

theorem box_succ_even (k x : Nat) (hk : k + 1 ≤ 32) (h : Low k x) : box (k + 1) x % 2 = 0 ∧ box (k + 1) x / 2 = box k x := by
  unfold Low at h
  unfold box
  have e : 2 ^ (32 - k) = 2 ^ (32 - (k + 1)) * 2 := by rw [← Nat.pow_succ]; congr 1; omega
  obtain ⟨q, hq⟩ := Nat.dvd_of_mod_eq_zero h
  have hpos : 0 < 2 ^ (32 - (k + 1)) := by positivity
  have hx : x / 2 ^ (32 - (k + 1)) = 2 * q := by
    rw [hq, e, Nat.mul_assoc, Nat.mul_div_cancel_left _ hpos]
  have hb : x / 2 ^ (32 - k) = q := by
    rw [hq]; exact Nat.mul_div_cancel_left q (by positivity)
  rw [hx, hb]
  exact ⟨by omega, by omega⟩

theorem xor_cancel_left (a b c : Nat) (h : a ^^^ b = a ^^^ c) : b = c := by
  have : a ^^^ (a ^^^ b) = a ^^^ (a ^^^ c) := by rw [h]
  rwa [← Nat.xor_assoc, ← Nat.xor_assoc, Nat.xor_self, Nat.zero_xor, Nat.zero_xor] at this

/-- **one-dimensional stratification** (injectivity form): among the first 2^k points no two share a sub-interval of width 2^-k -/
theorem stratified_of_triangular (V : List Nat) (M : Nat) (hM : M ≤ 32) (hT : Triangular V M) (k : Nat) (hk : k ≤ M) :
    ∀ a b, a < 2 ^ k → b < 2 ^ k → box k (xSeq V a) = box k (xSeq V b) → a = b := by
  induction k with
  | zero =>
    intro a b ha hb _
    simp at ha hb; omega
  | succ k ih =>
    have ihk := ih (by omega)
    have h32 : k + 1 ≤ 32 := by omega
    -- parity of the box index tells the half
    have first : ∀ a, a < 2 ^ k → box (k + 1) (xSeq V a) % 2 = 0 ∧ box (k + 1) (xSeq V a) / 2 = box k (xSeq V a) :=
      fun a ha => box_succ_even k _ h32 (xSeq_low V M k hT (by omega) a ha)
    have hpos : 0 < 2 ^ k := by positivity
    have pivot : box (k + 1) (xSeq V (2 ^ k)) % 2 = 1 := by
      have e : xSeq V (2 ^ k) = xSeq V (2 ^ k - 1) ^^^ V.getD (k + 1) 0 := by
        have : 2 ^ k = (2 ^ k - 1) + 1 := by omega
        conv_lhs => rw [this]
        simp only [xSeq, xor_eq]
        rw [cIdx_pow_sub_one k (by omega)]
      rw [e, box_xor]
      have h1 := (first (2 ^ k - 1) (by omega)).1
      have h2 : box (k + 1) (V.getD (k + 1) 0) % 2 = 1 := tri_bit V M (k + 1) hT (by omega) hk
      rw [Nat.xor_mod_two_eq_one]
      omega
    have second : ∀ r, r < 2 ^ k → box (k + 1) (xSeq V (2 ^ k + r)) % 2 = 1 := by
      intro r hr
      rw [xSeq_second_half V k r hr, box_xor, Nat.xor_mod_two_eq_one]
      have := (first r hr).1
      omega
    intro a b ha hb hab
    rw [Nat.pow_succ] at ha hb
    by_cases ha1 : a < 2 ^ k <;> by_cases hb1 : b < 2 ^ k
    · apply ihk a b ha1 hb1
      rw [← (first a ha1).2, ← (first b hb1).2, hab]
    · exfalso
      obtain ⟨r, rfl⟩ : ∃ r, b = 2 ^ k + r := ⟨b - 2 ^ k, by omega⟩
      have := second r (by omega)
      have := (first a ha1).1
      omega
    · exfalso
      obtain ⟨r, rfl⟩ : ∃ r, a = 2 ^ k + r := ⟨a - 2 ^ k, by omega⟩
      have := second r (by omega)
      have := (first b hb1).1
      omega
    · obtain ⟨r, rfl⟩ : ∃ r, a = 2 ^ k + r := ⟨a - 2 ^ k, by omega⟩
      obtain ⟨r', rfl⟩ : ∃ r', b = 2 ^ k + r' := ⟨b - 2 ^ k, by omega⟩
      have hr : r < 2 ^ k := by omega
      have hr' : r' < 2 ^ k := by omega
      rw [xSeq_second_half V k r hr, xSeq_second_half V k r' hr', box_xor, box_xor] at hab
      have hbox := xor_cancel_left _ _ _ hab
      have : r = r' := by
        apply ihk r r' hr hr'
        rw [← (first r hr).2, ← (first r' hr').2, hbox]
      omega

/-- the box index of a point is below 2^k -/
theorem box_lt (V : List Nat) (hV : ∀ x ∈ V, x < W) (k : Nat) (hk : k ≤ 32) (n : Nat) : box k (xSeq V n) < 2 ^ k := by
  unfold box
  have h := xSeq_lt V hV n
  have hW : W = 2 ^ (32 - k) * 2 ^ k := by
    rw [← Nat.pow_add]; have : 32 - k + k = 32 := by omega
    rw [this]; decide
  rw [hW] at h
  exact Nat.div_lt_of_lt_mul h

/-- **… exactly once**: the first 2^k points hit EVERY sub-interval of width 2^-k (bijection) -/
theorem stratified_onto (V : List Nat) (hV : ∀ x ∈ V, x < W) (M : Nat) (hM : M ≤ 32) (hT : Triangular V M) (k : Nat) (hk : k ≤ M)
    (c : Nat) (hc : c < 2 ^ k) : ∃ n, n < 2 ^ k ∧ box k (xSeq V n) = c := by
  let f : Fin (2 ^ k) → Fin (2 ^ k) := fun n => ⟨box k (xSeq V n.1), box_lt V hV k (by omega) n.1⟩
  have inj : Function.Injective f := by
    intro a b h
    have := stratified_of_triangular V M hM hT k hk a.1 b.1 a.2 b.2 (by simpa [f] using congrArg Fin.val h)
    exact Fin.ext this
  obtain ⟨n, hn⟩ := (Finite.injective_iff_surjective.mp inj) ⟨c, hc⟩
  exact ⟨n.1, n.2, by simpa [f] using congrArg Fin.val hn⟩

/-! ### instantiation on the real (regenerated) table -/

theorem triangular_of_row (m : List Nat) (hm : m ∈ Gen.sobolTable) (hd : degree m ≠ 0) : Triangular (buildV m 12) 12 := by
  have := dirnum_lowbit m hm
  unfold rowTriangular at this
  simp only [Bool.or_eq_true, beq_iff_eq, hd, false_or, List.all_eq_true, List.mem_range] at this
  intro i h1 h2
  have := this (i - 1) (by omega)
  rwa [Nat.sub_add_cancel h1] at this

/-- for every tabulated coordinate (row with direction numbers) and every k ≤ 12: the first 2^k Sobol points, computed with
direction numbers built to any length L between k and 12, occupy 2^k different sub-intervals of width 2^-k -/
theorem sobol_coordinate_stratified (m : List Nat) (hm : m ∈ Gen.sobolTable) (hd : degree m ≠ 0) (k : Nat) (hk : k ≤ 12) :
    ∀ a b, a < 2 ^ k → b < 2 ^ k → box k (xSeq (buildV m 12) a) = box k (xSeq (buildV m 12) b) → a = b :=
  stratified_of_triangular _ 12 (by decide) (triangular_of_row m hm hd) k hk

end ChmpyVerif.Props.C20
