/-
C06, assembly: the combinatorial argument that turns the per-cell and per-shared-face facts into a closed, consistently
oriented mesh.  Cells, faces and the identification of vertices are abstract here; the hypotheses are
  (L1) no directed edge twice inside a cell;                                   [every_leaf_ok]
  (L2) a directed edge has its reverse in the same cell, or lies in a face;    [every_leaf_ok]
  (G)  a face edge has its reverse in the neighbouring cell across that face;  [two_cells_glue + a consistent field]
  (S)  two different cells that both contain a directed edge share the face it lies in, and are each other's neighbour across
       it (two distinct grid edges common to two cells span a common face: grid geometry, not formalised).
Conclusion: every directed edge of the assembled mesh occurs exactly once, and so does its reverse.
-/
import Mathlib.Data.List.Count
import Mathlib.Algebra.BigOperators.Group.Finset.Basic
import Mathlib.Algebra.BigOperators.Ring.Finset
import Mathlib.Tactic.Linarith

namespace ChmpyVerif.Props.C06
open Finset

variable {Cell V Face : Type} [Fintype Cell] [DecidableEq Cell] [DecidableEq V]

/-- number of occurrences of a directed edge in the assembled mesh -/
def meshCount (E : Cell → List (V × V)) (e : V × V) : Nat := ∑ c, (E c).count e

theorem count_eq_one_of (E : Cell → List (V × V)) (e : V × V) (c : Cell)
    (hnd : ∀ c, (E c).Nodup) (hin : e ∈ E c) (honly : ∀ c', e ∈ E c' → c' = c) : meshCount E e = 1 := by
  unfold meshCount
  rw [Finset.sum_eq_single c]
  · exact List.count_eq_one_of_mem (hnd c) hin
  · intro c' _ hne
    exact List.count_eq_zero_of_not_mem (fun h => hne (honly c' h))
  · intro h; exact absurd (Finset.mem_univ c) h

/-- **assembly**: from the local facts and the gluing across faces, the mesh is closed and consistently oriented -/
theorem mesh_closed (E : Cell → List (V × V)) (face : Cell → V × V → Option Face) (nb : Cell → Face → Cell)
    (L1 : ∀ c, (E c).Nodup)
    (L2 : ∀ c e, e ∈ E c → (e.2, e.1) ∈ E c ∨ (∃ f, face c e = some f))
    (Lx : ∀ c e f, e ∈ E c → face c e = some f → (e.2, e.1) ∉ E c)          -- a face edge is a boundary edge of its cell
    (G : ∀ c e f, e ∈ E c → face c e = some f → nb c f ≠ c ∧ (e.2, e.1) ∈ E (nb c f) ∧ ∃ g, face (nb c f) (e.2, e.1) = some g ∧ nb (nb c f) g = c)
    (S : ∀ c c' e, c ≠ c' → e ∈ E c → e ∈ E c' → ∃ f, face c e = some f ∧ nb c f = c')
    (c : Cell) (e : V × V) (he : e ∈ E c) :
    meshCount E e = 1 ∧ meshCount E (e.2, e.1) = 1 := by
  -- a directed edge lives in one cell only
  have unique : ∀ c₁ c₂ e', e' ∈ E c₁ → e' ∈ E c₂ → c₁ = c₂ := by
    intro c₁ c₂ e' h1 h2
    by_contra hne
    obtain ⟨f, hf, hnb⟩ := S c₁ c₂ e' hne h1 h2
    obtain ⟨_, hrev, _⟩ := G c₁ e' f h1 hf
    rw [hnb] at hrev
    -- then c₂ holds e' and its reverse, so e' is interior to c₂ — but seen from c₂ it is a face edge too
    obtain ⟨f', hf', _⟩ := S c₂ c₁ e' (Ne.symm hne) h2 h1
    exact Lx c₂ e' f' h2 hf' hrev
  refine ⟨count_eq_one_of E e c L1 he (fun c' h => unique c' c e h he), ?_⟩
  rcases L2 c e he with hint | ⟨f, hf⟩
  · exact count_eq_one_of E (e.2, e.1) c L1 hint (fun c' h => unique c' c _ h hint)
  · obtain ⟨_, hrev, _⟩ := G c e f he hf
    exact count_eq_one_of E (e.2, e.1) (nb c f) L1 hrev (fun c' h => unique c' (nb c f) _ h hrev)

end ChmpyVerif.Props.C06
