/-
C17 — element lookup is total, exact and consistent across all spellings.
Property theorems only (helper lemmas are in Lemmas/Element.lean).
`T` is the table GENERATED from /repo/src/chmpy/core/element.py on every run.
-/
import ChmpyVerif.Gen.Elements
import ChmpyVerif.Lemmas.Element
import ChmpyVerif.Props.C17Ref

namespace ChmpyVerif.Props.C17
open ChmpyVerif.Element ChmpyVerif.Gen

abbrev T := elementTable

/-- the generated table lists exactly the reference symbols and names, in order -/
theorem table_matches_reference : T.map (fun r => (r.symbol, r.name)) = refTable := by
  decide +kernel

theorem table_length : T.length = 103 := by decide +kernel

/-- every atomic number 1..103 returns the element of that number with its tabulated row -/
theorem lookup_number (n : Int) (h1 : 1 ≤ n) (h2 : n ≤ 103) :
    ∃ r, T[(n - 1).toNat]? = some r ∧ fromAtomicNumber T n = .ok ⟨n, r⟩ :=
  fromAtomicNumber_ok T n h1 (by rw [table_length]; exact h2)

/-- EVERY integer outside 1..103 is rejected (not only -200..300) -/
theorem out_of_range_rejected (n : Int) (h : n < 1 ∨ 103 < n) :
    fromAtomicNumber T n = .error .valueError :=
  fromAtomicNumber_err T n (by rw [table_length]; exact h)

/-- all letter-case variants of a string -/
def caseVariants : List Ch → List (List Ch)
  | [] => [[]]
  | c :: cs => (caseVariants cs).flatMap fun v => [toLowerA c :: v, toUpperA c :: v]

/-- symbol in ANY letter case → that element (finite: ≤ 4 variants × 103) -/
theorem lookup_symbol_any_case :
    ∀ e ∈ enumerate T, ∀ v ∈ caseVariants e.row.symbol, fromString T v = .ok e := by
  decide +kernel

/-- English name in lower, UPPER and Capitalised case → that element -/
theorem lookup_name_any_case :
    ∀ e ∈ enumerate T, ∀ v ∈ [e.row.name, e.row.name.map toUpperA, capitalize e.row.name],
      fromString T v = .ok e := by
  decide +kernel

/-- decimal digits of a natural number -/
def natDigits (n : Nat) : List Ch := (Nat.toDigits 10 n).map Char.toNat

/-- the number string of Z → that element -/
theorem lookup_number_string :
    ∀ e ∈ enumerate T, fromString T (natDigits e.z.toNat) = .ok e := by
  decide +kernel

/-- blank padding on either side of a symbol, name or number string changes nothing:
`fromString` sees its argument only through `strip` unless it falls through to the
label rule (general in the padding; lemma `fromString_pad`). -/
theorem lookup_padded (s l r : List Ch) (e : Elem)
    (hl : l.all pyIsSpace) (hr : r.all pyIsSpace)
    (hs : s ≠ [] ∧ s.head?.all (!pyIsSpace ·) ∧ s.getLast?.all (!pyIsSpace ·))
    (hdirect : fromStringDirect T s = some e) :
    fromString T (l ++ s ++ r) = .ok e :=
  fromString_pad T s l r e hl hr hs hdirect

/-- a label = symbol (any letter case) + a digit + an ARBITRARY suffix → that element -/
theorem lookup_label :
    ∀ e ∈ enumerate T, ∀ v ∈ caseVariants e.row.symbol, ∀ (d : Ch) (rest : List Ch),
      isDigitA d = true → fromString T (v ++ d :: rest) = .ok e := by
  intro e he v hv d rest hd
  exact fromString_label T (by decide +kernel) (by decide +kernel) e v d rest hd
    ((by decide +kernel : ∀ e ∈ enumerate T, ∀ v ∈ caseVariants e.row.symbol,
        v ≠ [] ∧ v.all isLetterA = true ∧ findSym T (capitalize v) = some e) e he v hv)

/-- … also behind any run of leading blanks (the label route strips like every other route) -/
theorem lookup_label_padded :
    ∀ e ∈ enumerate T, ∀ v ∈ caseVariants e.row.symbol, ∀ (l : List Ch) (d : Ch) (rest : List Ch),
      l.all pyIsSpace = true → isDigitA d = true → fromString T (l ++ (v ++ d :: rest)) = .ok e := by
  intro e he v hv l d rest hl hd
  rw [fromString_left_pad T l _ hl]
  exact lookup_label e he v hv d rest hd

/-- whatever string is looked up, a successful answer is a genuine table entry:
nothing is ever "mapped to some element" outside the table -/
theorem lookup_sound (s : List Ch) (e : Elem) (h : fromString T s = .ok e) :
    e ∈ enumerate T ∧ 1 ≤ e.z ∧ e.z ≤ 103 := by
  have := fromString_sound T s e h
  exact ⟨this, by have := enumerate_z_range T e this; rw [table_length] at this; omega⟩

/-- the vectorised helpers reject a list containing any out-of-range number -/
theorem vector_helpers_reject (zs : List Int) (z : Int) (hz : z ∈ zs) (hbad : z < 1 ∨ 103 < z) :
    covRadii T zs = .error .valueError ∧ vdwRadii T zs = .error .valueError ∧
    elementSymbols T zs = .error .valueError ∧ elementNames T zs = .error .valueError :=
  vector_reject T zs z hz hbad

/-- … and answer, one value per input, when every number is in range -/
theorem vector_helpers_total (zs : List Int) (h : ∀ z ∈ zs, 1 ≤ z ∧ z ≤ 103) :
    ∃ l, covRadii T zs = .ok l ∧ l.length = zs.length :=
  vector_total T zs (by rw [table_length]) h

/-! ### ordering: carbon first, then atomic number — a strict total order -/
theorem order_irrefl (a : Int) : elLt a a = false := by simp [elLt]
theorem order_trans (a b c : Int) (h1 : elLt a b = true) (h2 : elLt b c = true) : elLt a c = true := by
  unfold elLt at *; grind
theorem order_total (a b : Int) : a = b ∨ elLt a b = true ∨ elLt b a = true := by
  unfold elLt; grind
theorem order_carbon_first (a : Int) (h : a ≠ 6) : elLt 6 a = true := by
  unfold elLt; grind
theorem order_by_number (a b : Int) (ha : a ≠ 6) (hb : b ≠ 6) : elLt a b = true ↔ a < b := by
  unfold elLt; grind

/-- the derived comparison operators agree with the same order: `<=` is "not after", `>` is the converse of `<`, `>=` is "not before" -/
theorem order_le_iff (a b : Int) : elLeT a b = true ↔ elLt b a = false := by
  unfold elLeT elLt; grind
theorem order_gt_iff (a b : Int) : elGtT a b = true ↔ elLt b a = true := by
  unfold elGtT elLt; grind
theorem order_ge_iff (a b : Int) : elGeT a b = true ↔ elLt a b = false := by
  unfold elGeT; cases elLt a b <;> simp
/-- exactly one of before / same / after -/
theorem order_trichotomy (a b : Int) :
    (elLt a b = true ∧ a ≠ b ∧ elGtT a b = false) ∨ (elLt a b = false ∧ a = b ∧ elGtT a b = false) ∨ (elLt a b = false ∧ a ≠ b ∧ elGtT a b = true) := by
  unfold elGtT elLt; grind
example : elGeT 6 6 = true ∧ elGeT 6 1 = false ∧ elGeT 1 6 = true ∧ elLeT 6 1 = true ∧ elGtT 8 7 = true := by decide

/-! ### formulas, for EVERY list of atomic numbers -/
/-- blocks come out strictly ordered (hence each distinct element exactly once, carbon first) -/
theorem formula_sorted_distinct (zs : List Int) :
    ((formula zs).map Prod.fst).Pairwise (fun a b => elLt a b = true) :=
  formula_pairwise zs

/-- each block carries the multiplicity of its element, and every element of the input has a block -/
theorem formula_counts (zs : List Int) :
    (∀ p ∈ formula zs, p.1 ∈ zs ∧ p.2 = zs.count p.1) ∧ (∀ z ∈ zs, (z, zs.count z) ∈ formula zs) :=
  formula_counts' zs

/-- every atom is counted exactly once: the counts add up to the number of atoms -/
theorem formula_total (zs : List Int) : ((formula zs).map Prod.snd).sum = zs.length :=
  formula_sum zs

/-! non-vacuity -/
example : fromString T [99, 65, 50, 95, 70, 50] = .ok ⟨20, elRow20⟩ := by decide +kernel  -- "cA2_F2"
example : fromAtomicNumber T 0 = .error .valueError ∧ fromAtomicNumber T (-1) = .error .valueError := by
  decide +kernel

end ChmpyVerif.Props.C17
