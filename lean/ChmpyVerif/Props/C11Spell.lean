/-
C11, spelling family of a row: definitions (specification side) shared by the per-digit
kernel checks `C11SpellK*.lean` (split so that lake checks them in parallel).
-/
import ChmpyVerif.Model.SymOp

namespace ChmpyVerif.Props.C11
open ChmpyVerif.SymOp ChmpyVerif.PyStr

/-- the 27 rows of a rotation matrix with entries in {-1,0,1} -/
def rows27 : List (List Int) :=
  [-1, 0, 1].flatMap fun a => [-1, 0, 1].flatMap fun b => [-1, 0, 1].map fun c => [a, b, c]

/-! ### equivalent spellings of a row (finite family, kernel-checked) -/

def insertEverywhere {α} (x : α) : List α → List (List α)
  | [] => [[x]]
  | y :: ys => (x :: y :: ys) :: (insertEverywhere x ys).map (y :: ·)

def perms {α} : List α → List (List α)
  | [] => [[]]
  | x :: xs => (perms xs).flatMap (insertEverywhere x)

/-- decimal spellings of k/12 met in CIF / SHELX files -/
def decimals : Nat → List (List Ch)
  | 1 => [[48, 46, 48, 56, 51, 51], [48, 46, 48, 56, 51, 51, 51, 51, 51, 51]]  -- 0.0833 0.08333333
  | 2 => [[48, 46, 49, 54, 54, 55], [48, 46, 49, 54, 54, 54, 54, 54, 54, 55]]  -- 0.1667 0.16666667
  | 3 => [[48, 46, 50, 53], [46, 50, 53]]  -- 0.25 .25
  | 4 => [[48, 46, 51, 51, 51, 51], [48, 46, 51, 51, 51, 51, 51, 51, 51, 51]]  -- 0.3333 0.33333333
  | 5 => [[48, 46, 52, 49, 54, 55], [48, 46, 52, 49, 54, 54, 54, 54, 54, 55]]  -- 0.4167 0.41666667
  | 6 => [[48, 46, 53], [46, 53], [48, 46, 53, 48]]  -- 0.5 .5 0.50
  | 7 => [[48, 46, 53, 56, 51, 51], [48, 46, 53, 56, 51, 51, 51, 51, 51, 51]]  -- 0.5833 0.58333333
  | 8 => [[48, 46, 54, 54, 54, 55], [48, 46, 54, 54, 54, 54, 54, 54, 54, 55]]  -- 0.6667 0.66666667
  | 9 => [[48, 46, 55, 53], [46, 55, 53]]  -- 0.75 .75
  | 10 => [[48, 46, 56, 51, 51, 51], [48, 46, 56, 51, 51, 51, 51, 51, 51, 51]]  -- 0.8333 0.83333333
  | 11 => [[48, 46, 57, 49, 54, 55], [48, 46, 57, 49, 54, 54, 54, 54, 54, 55]]  -- 0.9167 0.91666667
  | _ => []

/-- a term: (is negative, body) -/
abbrev Term := Bool × List Ch

def varTerms (r : List Int) : List Term :=
  (r.zip [cX, cY, cZ]).filterMap fun (c, s) => if c = 0 then none else some (decide (c < 0), [s])

/-- translation term of digit k: the fraction, the negative complementary fraction (x-1/4 ≡ x+3/4), decimals -/
def transTerms (k : Nat) : List (List Term) :=
  if k = 0 then [[]]
  else [[(false, fracStr k)], [(true, fracStr (12 - k))]] ++ (decimals k).map fun d => [(false, d)]

/-- terms in the given order; the first term may drop its `+` -/
def render (lead : Bool) : List Term → List Ch
  | [] => []
  | (neg, body) :: rest =>
    (if neg then [cMinus] else if lead then [cPlus] else []) ++ body ++
      rest.flatMap fun t => (if t.1 then cMinus else cPlus) :: t.2

/-- every term order × optional leading `+` × fraction / negative fraction / decimal translation -/
def spellings (r : List Int) (k : Nat) : List (List Ch) :=
  (transTerms k).flatMap fun tt => (perms (tt ++ varTerms r)).flatMap fun p => [render true p, render false p]

def rowOk (s : List Ch) (r : List Int) (k : Nat) : Bool :=
  match decodeRow s with
  | .ok st => st.r == r && digit (frac st.t) == (k : Int)
  | .error _ => false


end ChmpyVerif.Props.C11
