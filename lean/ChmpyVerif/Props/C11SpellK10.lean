import ChmpyVerif.Props.C11Spell
namespace ChmpyVerif.Props.C11
/-- every spelling of every row with translation digit 10 is read back as that row -/
theorem spell_k10 : ∀ r ∈ rows27, ∀ s ∈ spellings r 10, rowOk s r 10 = true := by
  decide +kernel
end ChmpyVerif.Props.C11
