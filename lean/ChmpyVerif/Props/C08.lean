/-
C08 — shape invariants computed from harmonic coefficients are rotation invariant.
Algebra over ℂ-like rings (a commutative ring with a star operation); the action of a rotation on the
coefficients is the named hypothesis (block-diagonal, unitary on each degree; a rotation about z multiplies
c_lm by a unit phase z(m) with z(a+b) = z(a) z(b)).
-/
import ChmpyVerif.Model.SHT
import Mathlib.Algebra.Star.Basic
import Mathlib.Algebra.BigOperators.Ring.Finset
import Mathlib.Algebra.BigOperators.Group.Finset.Sigma
import Mathlib.Tactic.Ring
import Mathlib.Tactic.Linarith
import Mathlib.Algebra.Star.BigOperators
import Mathlib.Data.Int.Interval

namespace ChmpyVerif.Props.C08
open ChmpyVerif.SHT Finset

variable {R : Type} [CommRing R] [StarRing R]

/-- squared N invariant of degree `l`: `Σ_{k < 2l+1} c(l²+k) · conj c(l²+k)` (the repaired slice `[l², (l+1)²)`) -/
def nSq (c : ℕ → R) (l : ℕ) : R := ∑ k ∈ Finset.range (2 * l + 1), c (l * l + k) * star (c (l * l + k))

/-- **locality**: the N invariant of degree l depends ONLY on the coefficients of that degree -/
theorem N_block_local (c c' : ℕ → R) (l : ℕ) (h : ∀ i, l * l ≤ i → i < (l + 1) * (l + 1) → c i = c' i) :
    nSq c l = nSq c' l := by
  unfold nSq
  apply Finset.sum_congr rfl
  intro k hk
  have hk' : k < 2 * l + 1 := Finset.mem_range.mp hk
  have : c (l * l + k) = c' (l * l + k) := h _ (by omega) (by nlinarith)
  rw [this]

/-- a unitary transformation of one degree's `2l+1` coefficients (what a rotation does to that degree) leaves
`Σ |c|²` unchanged: hence N and the power spectrum are rotation invariant -/
theorem N_unitary_invariant {n : ℕ} (U : Fin n → Fin n → R) (c : Fin n → R)
    (hU : ∀ a b, ∑ i, star (U i a) * U i b = if a = b then 1 else 0) :
    ∑ i, (∑ a, U i a * c a) * star (∑ b, U i b * c b) = ∑ a, c a * star (c a) := by
  have e : ∀ i, (∑ a, U i a * c a) * star (∑ b, U i b * c b)
      = ∑ a, ∑ b, (c a * star (c b)) * (star (U i b) * U i a) := by
    intro i
    rw [star_sum, Finset.sum_mul_sum]
    apply Finset.sum_congr rfl; intro a _
    apply Finset.sum_congr rfl; intro b _
    rw [star_mul']; ring
  simp_rw [e]
  rw [Finset.sum_comm]
  apply Finset.sum_congr rfl; intro a _
  rw [Finset.sum_comm]
  simp_rw [← Finset.mul_sum, hU]
  simp

/-- the power spectrum is the same sum divided by `2l+1`: invariant for the same reason (statement on the sums) -/
theorem power_unitary_invariant {n : ℕ} (U : Fin n → Fin n → R) (c : Fin n → R)
    (hU : ∀ a b, ∑ i, star (U i a) * U i b = if a = b then 1 else 0) :
    ∑ i, (∑ a, U i a * c a) * star (∑ b, U i b * c b) = ∑ a, c a * star (c a) :=
  N_unitary_invariant U c hU

/-- bispectrum term of `invariant_P_c` for fixed degrees: `Σ_m (Σ_{m1} cg(m1,m) · c1(m1) · c2(m - m1)) · conj c(m)`;
the Clebsch–Gordan factor `cg m1 m` already encodes `m2 = m - m1` -/
def pTerm (cg : ℤ → ℤ → R) (c1 c2 c : ℤ → R) (l l1 : ℕ) : R :=
  ∑ m ∈ Finset.Icc (-(l : ℤ)) l, (∑ m1 ∈ Finset.Icc (-(l1 : ℤ)) l1, cg m1 m * c1 m1 * c2 (m - m1)) * star (c m)

/-- **rotation about z**: multiplying every `c_lm` by a unit phase `z(m)` (with `z(a+b) = z(a)z(b)`, `z·conj z = 1`)
leaves every P invariant unchanged — the phases cancel term by term because CG couples `m1 + m2 = m` -/
theorem P_zrot_invariant (cg : ℤ → ℤ → R) (c1 c2 c : ℤ → R) (l l1 : ℕ) (z : ℤ → R)
    (hadd : ∀ a b, z (a + b) = z a * z b) (hunit : ∀ a, z a * star (z a) = 1) :
    pTerm cg (fun m => z m * c1 m) (fun m => z m * c2 m) (fun m => z m * c m) l l1 = pTerm cg c1 c2 c l l1 := by
  unfold pTerm
  apply Finset.sum_congr rfl; intro m _
  rw [Finset.sum_mul, Finset.sum_mul]
  apply Finset.sum_congr rfl; intro m1 _
  have hz : z m1 * z (m - m1) = z m := by rw [← hadd]; congr 1; ring
  rw [star_mul']
  calc cg m1 m * (z m1 * c1 m1) * (z (m - m1) * c2 (m - m1)) * (star (z m) * star (c m))
      = cg m1 m * c1 m1 * c2 (m - m1) * star (c m) * ((z m1 * z (m - m1)) * star (z m)) := by ring
    _ = cg m1 m * c1 m1 * c2 (m - m1) * star (c m) := by rw [hz, hunit, mul_one]

/-- the number and order of the P invariants are a function of the maximum degree only (kernel-evaluated for the
property's whole range L ≤ 12): total count and count of even-parity (real-part) invariants -/
theorem invariant_count :
    (List.range 13).map (fun L => ((pTriples L).length, ((pTriples L).filter (·.2.2.2)).length)) =
      [(0, 0), (0, 0), (2, 2), (4, 4), (10, 9), (16, 14), (28, 23), (40, 32), (60, 46), (80, 60), (110, 80), (140, 100), (182, 127)] := by
  decide +kernel

/-! non-vacuity -/
example : pTriples 2 = [(1, 1, 2, true), (2, 2, 2, true)] := by decide +kernel

end ChmpyVerif.Props.C08
