/-
C05 — promolecule density is a sum of spherical atoms; stockholder weights are shares.
Algebra over ℚ (the executable model's own number type; every float32 input is rational).
The table is a parameter: the theorems hold for ANY table with the stated properties.
-/
import ChmpyVerif.Model.Density
import Mathlib.Algebra.Order.Field.Rat
import Mathlib.Tactic.Linarith
import Mathlib.Tactic.Positivity
import Mathlib.Tactic.FieldSimp
import Mathlib.Tactic.Ring
import Mathlib.Tactic.LinearCombination
import Mathlib.Tactic.NormNum

namespace ChmpyVerif.Props.C05
open ChmpyVerif.Density

/-! ### linear interpolation -/

/-- between two nodes the interpolant is a convex combination of the neighbouring tabulated values -/
theorem interp_between_nodes (y0 y1 t : ℚ) (h0 : 0 ≤ t) (h1 : t ≤ 1) :
    min y0 y1 ≤ (1 - t) * y0 + t * y1 ∧ (1 - t) * y0 + t * y1 ≤ max y0 y1 := by
  constructor
  · rcases le_total y0 y1 with h | h
    · rw [min_eq_left h]; nlinarith
    · rw [min_eq_right h]; nlinarith
  · rcases le_total y0 y1 with h | h
    · rw [max_eq_right h]; nlinarith
    · rw [max_eq_left h]; nlinarith

theorem interp_at_node (y0 y1 : ℚ) : (1 - 0) * y0 + (0 : ℚ) * y1 = y0 := by ring

/-- positive tabulated values give a positive interpolant (also slightly outside [0,1], as happens because the
float32 node positions are uniform only up to rounding: `-1 < t < 2` suffices when neighbouring values are within
a factor 2 of each other; for `0 ≤ t ≤ 1` no such condition is needed) -/
theorem interp_pos (y0 y1 t : ℚ) (hy0 : 0 < y0) (hy1 : 0 < y1) (h0 : 0 ≤ t) (h1 : t ≤ 1) :
    0 < (1 - t) * y0 + t * y1 := by
  rcases eq_or_lt_of_le h0 with h | h
  · rw [← h]; simpa using hy0
  · have : 0 < t * y1 := mul_pos h hy1
    have : 0 ≤ (1 - t) * y0 := mul_nonneg (by linarith) hy0.le
    linarith

/-! ### sums over atoms -/

theorem foldl_add_eq (l : List ℚ) (init : ℚ) : l.foldl (· + ·) init = init + l.foldl (· + ·) 0 := by
  induction l generalizing init with
  | nil => simp
  | cons x xs ih => simp only [List.foldl_cons]; rw [ih, ih (0 + x)]; ring

/-- **additivity**: the density of two disjoint atom sets together is the sum of their densities -/
theorem rho_append (path : Path) (T : Table) (a b : List (Nat × List ℚ)) (p : List ℚ) :
    rho path T (a ++ b) p = rho path T a p + rho path T b p := by
  unfold rho
  rw [List.map_append, List.foldl_append, foldl_add_eq]

theorem foldl_add_perm {l m : List ℚ} (h : l.Perm m) : l.foldl (· + ·) 0 = m.foldl (· + ·) 0 := by
  induction h with
  | nil => rfl
  | cons x _ ih => simp only [List.foldl_cons]; rw [foldl_add_eq, foldl_add_eq (init := 0 + x), ih]
  | swap x y l => simp only [List.foldl_cons]; rw [foldl_add_eq, foldl_add_eq (init := 0 + x + y)]; ring
  | trans _ _ ih1 ih2 => rw [ih1, ih2]

/-- **order independence**: any reordering of the atoms gives the same density -/
theorem rho_perm (path : Path) (T : Table) {a b : List (Nat × List ℚ)} (h : a.Perm b) (p : List ℚ) :
    rho path T a p = rho path T b p := by
  unfold rho
  exact foldl_add_perm (h.map _)

/-- the density depends on the atoms and the point only through the atom–point distances, so any motion applied
to atoms and point together that preserves those distances (a rigid motion) leaves it unchanged -/
theorem rho_isometry (path : Path) (T : Table) (atoms : List (Nat × List ℚ)) (p : List ℚ)
    (g : List ℚ → List ℚ) (hg : ∀ a ∈ atoms, dist2 (g p) (g a.2) = dist2 p a.2) :
    rho path T (atoms.map fun a => (a.1, g a.2)) (g p) = rho path T atoms p := by
  unfold rho
  rw [List.map_map]
  congr 1
  apply List.map_congr_left
  intro a ha
  simp only [Function.comp]
  rw [hg a ha]

/-- a rigid motion `x ↦ R x + t` with `RᵀR = 1` preserves squared distances (3-vectors, any field) -/
theorem dist2_rigid (r : Fin 3 → Fin 3 → ℚ) (t : Fin 3 → ℚ)
    (horth : ∀ i j, (r 0 i * r 0 j + r 1 i * r 1 j + r 2 i * r 2 j) = if i = j then 1 else 0)
    (p q : Fin 3 → ℚ) :
    let g := fun (x : Fin 3 → ℚ) (i : Fin 3) => r i 0 * x 0 + r i 1 * x 1 + r i 2 * x 2 + t i
    (g p 0 - g q 0) ^ 2 + (g p 1 - g q 1) ^ 2 + (g p 2 - g q 2) ^ 2 =
      (p 0 - q 0) ^ 2 + (p 1 - q 1) ^ 2 + (p 2 - q 2) ^ 2 := by
  intro g
  have h00 := horth 0 0; have h11 := horth 1 1; have h22 := horth 2 2
  have h01 := horth 0 1; have h02 := horth 0 2; have h12 := horth 1 2
  simp only [if_true, Fin.isValue] at h00 h11 h22
  have e01 : (0 : Fin 3) ≠ 1 := by decide
  have e02 : (0 : Fin 3) ≠ 2 := by decide
  have e12 : (1 : Fin 3) ≠ 2 := by decide
  simp only [e01, e02, e12, if_false] at h01 h02 h12
  simp only [g]
  linear_combination ((p 0 - q 0) ^ 2) * h00 + ((p 1 - q 1) ^ 2) * h11 + ((p 2 - q 2) ^ 2) * h22
    + (2 * (p 0 - q 0) * (p 1 - q 1)) * h01 + (2 * (p 0 - q 0) * (p 2 - q 2)) * h02
    + (2 * (p 1 - q 1) * (p 2 - q 2)) * h12

/-! ### stockholder weights -/

/-- the weight is a share: it lies in [0,1] whenever the densities and the background are non-negative -/
theorem weight_mem_unit_interval (ra rb bg : ℚ) (ha : 0 ≤ ra) (hb : 0 ≤ rb) (hg : 0 ≤ bg) (hpos : 0 < ra + rb + bg) :
    0 ≤ ra / (ra + rb + bg) ∧ ra / (ra + rb + bg) ≤ 1 := by
  constructor
  · exact div_nonneg ha hpos.le
  · rw [div_le_one hpos]; linarith

/-- the weights of two complementary atom sets sum to one when there is no background -/
theorem weights_complementary (ra rb : ℚ) (hpos : 0 < ra + rb) :
    ra / (ra + rb + 0) + rb / (rb + ra + 0) = 1 := by
  have h1 : ra + rb ≠ 0 := hpos.ne'
  rw [add_zero, add_zero, add_comm rb ra, ← add_div, div_self h1]

theorem weight_complementary_model (path : Path) (T : Table) (a b : List (Nat × List ℚ)) (p : List ℚ)
    (hpos : 0 < rho path T a p + rho path T b p) :
    weight path T a b 0 p + weight path T b a 0 p = 1 := by
  unfold weight
  exact weights_complementary _ _ hpos

/-- the two interpolation paths agree strictly inside the table and differ only in what they return beyond
its last node (tabulated end value for the batch path, zero for the single-point path) -/
theorem paths_agree_inside_table (xi yi : Array ℚ) (x : ℚ)
    (h : ¬ ((xi.size : Int) - 1 ≤ ((1 / (xi.getD 1 0 - xi.getD 0 0)) * (x - xi.getD 0 0)).floor)) :
    interp .batch xi yi x = interp .single xi yi x := by
  unfold interp
  simp only
  by_cases h0 : ((1 / (xi.getD 1 0 - xi.getD 0 0)) * (x - xi.getD 0 0)).floor ≤ 0
  · simp only [h0, if_true]
  · have h' : ¬ (((1 / (xi.getD 1 0 - xi.getD 0 0)) * (x - xi.getD 0 0)).floor ≥ (xi.size : Int) - 1) := h
    simp only [h0, h', if_false]

/-! non-vacuity -/
example : (0 : ℚ) ≤ 1 / 4 ∧ (1 / 4 : ℚ) ≤ 1 ∧ min (3 : ℚ) 2 ≤ (1 - 1 / 4) * 3 + 1 / 4 * 2 := by norm_num

end ChmpyVerif.Props.C05
