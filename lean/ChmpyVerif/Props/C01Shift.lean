/-
C01 for space groups given in a NON-tabulated setting (operations declared explicitly, as a CIF does): moving the origin by `s`
(in twelfths) turns every operation `x ↦ R x + t` into `x ↦ R x + (t + s − R s)`, and the image of a shifted site under the shifted
operation is the shifted image — so the unit-cell contents in the new setting are the old ones moved by `s` (then wrapped).
Stated on the executable model `applyOp` used by all C01 theorems; wrapping commutes with whole-cell shifts.
-/
import ChmpyVerif.Props.C01
import Mathlib.Tactic.Ring
import Mathlib.Tactic.Linarith
import Mathlib.Algebra.Order.Floor.Ring

namespace ChmpyVerif.Props.C01
open ChmpyVerif.UCA ChmpyVerif.SG

/-- the operation `(R, t)` after the origin has been moved by `s/12` -/
def shiftOp (r0 r1 r2 r3 r4 r5 r6 r7 r8 t0 t1 t2 s0 s1 s2 : Int) : AOp :=
  ⟨[r0, r1, r2, r3, r4, r5, r6, r7, r8],
   [t0 + s0 - (r0 * s0 + r1 * s1 + r2 * s2), t1 + s1 - (r3 * s0 + r4 * s1 + r5 * s2), t2 + s2 - (r6 * s0 + r7 * s1 + r8 * s2)]⟩

/-- **the shifted operation maps the shifted site to the shifted image** -/
theorem applyOp_shift (r0 r1 r2 r3 r4 r5 r6 r7 r8 t0 t1 t2 s0 s1 s2 : Int) (x0 x1 x2 : Rat) :
    applyOp (shiftOp r0 r1 r2 r3 r4 r5 r6 r7 r8 t0 t1 t2 s0 s1 s2) [x0 + (s0 : Rat) / 12, x1 + (s1 : Rat) / 12, x2 + (s2 : Rat) / 12]
      = (applyOp ⟨[r0, r1, r2, r3, r4, r5, r6, r7, r8], [t0, t1, t2]⟩ [x0, x1, x2]).zipWith (· + ·) [(s0 : Rat) / 12, (s1 : Rat) / 12, (s2 : Rat) / 12] := by
  simp only [applyOp, shiftOp, rows, dotR, List.zipWith_cons_cons, List.zipWith_nil_right, List.foldl_cons, List.foldl_nil, List.cons.injEq, and_true]
  refine ⟨?_, ?_, ?_⟩ <;> push_cast <;> ring

/-- wrapping into the cell ignores whole cells: `wrap (x + n) = wrap x` -/
theorem wrap_add_int (x : Rat) (n : Int) : wrap (x + n) = wrap x := by
  unfold wrap
  rw [Rat.floor_add_intCast]
  push_cast
  ring

/-- moving the origin by a whole lattice vector changes nothing at all: the operation is the same modulo the lattice and the
wrapped image of a site moved by whole cells is the wrapped image of the site -/
theorem wrap_image_lattice_shift (row : List Int) (x : List Rat) (t : Int) (n : Int) :
    wrap (dotR row x + (t : Rat) / 12 + n) = wrap (dotR row x + (t : Rat) / 12) := wrap_add_int _ n

/-- non-vacuity: 2₁ along b at the origin (−x, y+1/2, −z), origin moved by (1/4, 0, 1/3): a site and its image, both shifted -/
example :
    applyOp (shiftOp (-1) 0 0 0 1 0 0 0 (-1) 0 6 0 3 0 4) [1/10 + 3/12, 2/10 + 0/12, 3/10 + 4/12]
      = [(-1/10 : Rat) + 3/12, 2/10 + 1/2 + 0/12, -3/10 + 4/12] := by
  decide +kernel

end ChmpyVerif.Props.C01
