/-
C19, the scaling law at the level of the degenerate-vertex pruning: because the merge threshold is RELATIVE to the size of the
shape (fix 30cdb9b), multiplying every Wulff vertex by `s ≠ 0` — what scaling all energies by `s` does (`vertex_scaling`) — leaves
the set of kept vertices unchanged, for every list of points and every threshold. With an absolute threshold this is false
(an instance is kernel-checked below), which is exactly how the original code broke the scaling law.
-/
import ChmpyVerif.Props.C19
import Mathlib.Algebra.Order.Ring.Unbundled.Basic
import Mathlib.Tactic.Positivity

namespace ChmpyVerif.Props.C19
open ChmpyVerif.Wulff

theorem dot_smul_smul (s : Rat) (p q : V3) : dot (smul s p) (smul s q) = s * s * dot p q := by
  unfold dot smul; ring

theorem sub_smul_smul (s : Rat) (p q : V3) : sub (smul s p) (smul s q) = smul s (sub p q) := by
  unfold sub smul; ext <;> simp <;> ring

theorem smul_zero_v (s : Rat) : smul s ((0, 0, 0) : V3) = (0, 0, 0) := by
  unfold smul; simp

theorem foldl_scale (c : Rat) (hc : 0 ≤ c) (s : Rat) (hs : s * s = c) (pts : List V3) (init : Rat) :
    (pts.map (smul s)).foldl (fun m p => max m (dot p p)) (c * init) = c * pts.foldl (fun m p => max m (dot p p)) init := by
  induction pts generalizing init with
  | nil => rfl
  | cons p ps ih =>
    simp only [List.map_cons, List.foldl_cons]
    rw [dot_smul_smul, hs, ← mul_max_of_nonneg _ _ hc]
    exact ih _

/-- **pruning commutes with scaling**: the same positions are kept -/
theorem pruneIdx_scale (pts : List V3) (thr2 s : Rat) (hs : s ≠ 0) : pruneIdx (pts.map (smul s)) thr2 = pruneIdx pts thr2 := by
  have hc : 0 < s * s := mul_self_pos.mpr hs
  unfold pruneIdx
  simp only [List.length_map]
  have hscale := foldl_scale (s * s) hc.le s rfl pts 0
  rw [mul_zero] at hscale
  rw [hscale]
  apply List.filter_congr
  intro i _
  apply List.all_congr rfl
  intro j
  have hg : ∀ k, (pts.map (smul s)).getD k (0, 0, 0) = smul s (pts.getD k (0, 0, 0)) := by
    intro k
    simp only [List.getD_eq_getElem?_getD, List.getElem?_map]
    cases pts[k]? with
    | none => simp [smul_zero_v]
    | some v => simp
  rw [hg i, hg j, sub_smul_smul, dot_smul_smul]
  congr 2
  apply propext
  constructor
  · intro h
    have : s * s * (thr2 * pts.foldl (fun m p => max m (dot p p)) 0) ≤ s * s * dot (sub (pts.getD i (0, 0, 0)) (pts.getD j (0, 0, 0))) (sub (pts.getD i (0, 0, 0)) (pts.getD j (0, 0, 0))) := by
      calc _ = thr2 * (s * s * pts.foldl (fun m p => max m (dot p p)) 0) := by ring
        _ ≤ _ := h
    exact le_of_mul_le_mul_left this hc
  · intro h
    calc thr2 * (s * s * pts.foldl (fun m p => max m (dot p p)) 0) = s * s * (thr2 * pts.foldl (fun m p => max m (dot p p)) 0) := by ring
      _ ≤ _ := mul_le_mul_of_nonneg_left h hc.le

/-- the same statement with an ABSOLUTE threshold is false: two vertices 1e-4 apart are kept apart, their images under a scaling
by 1e-5 are merged (threshold 1e-5, squared 1e-10) -/
example :
    let keep (pts : List V3) := (List.range pts.length).filter fun i => (List.range pts.length).all fun j =>
      !(i < j) || decide ((1 : Rat) / 10 ^ 10 ≤ dot (sub (pts.getD i (0,0,0)) (pts.getD j (0,0,0))) (sub (pts.getD i (0,0,0)) (pts.getD j (0,0,0))))
    keep [(1, 0, 0), (1 + 1 / 10 ^ 4, 0, 0)] ≠ keep ([(1, 0, 0), (1 + 1 / 10 ^ 4, 0, 0)].map (smul (1 / 10 ^ 5))) := by
  decide +kernel

end ChmpyVerif.Props.C19
