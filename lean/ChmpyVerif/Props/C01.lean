/-
C01 — unit-cell contents are exactly the symmetry orbit of the asymmetric unit.
Theorems about the hand model `Model/UnitCellAtoms.lean` for EVERY operation list and site list,
then instantiated for the 530 regenerated settings (which are groups by C02).
-/
import ChmpyVerif.Lemmas.UnitCellAtoms
import ChmpyVerif.Props.C02

namespace ChmpyVerif.Props.C01
open ChmpyVerif.UCA ChmpyVerif.SG

/-- the image row of site `s` (index `i`) under the operation with packed code `c` -/
def imageRow (c : Nat) (i : Nat) (s : Site) : UAtom :=
  ⟨i, s.elem, s.label, c, s.occ, (applyOp (decodeOp c) s.pos).map wrap⟩

theorem orderedOps_eq (codes : List Nat) :
    orderedOps codes = if idCode ∈ codes then idCode :: codes.erase idCode else codes := by
  unfold orderedOps; simp

theorem mem_orderedOps (codes : List Nat) (c : Nat) : c ∈ orderedOps codes ↔ c ∈ codes := by
  rw [orderedOps_eq]
  by_cases hid : idCode ∈ codes
  · rw [if_pos hid, List.mem_cons]
    constructor
    · rintro (rfl | hc)
      · exact hid
      · exact List.mem_of_mem_erase hc
    · intro hc
      by_cases e : c = idCode
      · exact Or.inl e
      · exact Or.inr ((List.mem_erase_of_ne e).mpr hc)
  · rw [if_neg hid]

theorem orderedOps_length (codes : List Nat) : (orderedOps codes).length = codes.length := by
  rw [orderedOps_eq]
  by_cases hid : idCode ∈ codes
  · rw [if_pos hid, List.length_cons, List.length_erase_of_mem hid]
    have : 0 < codes.length := List.length_pos_of_mem hid
    omega
  · rw [if_neg hid]

theorem map_fst_zipIdx {α} : ∀ (l : List α) (k : Nat), (l.zipIdx k).map Prod.fst = l
  | [], _ => rfl
  | x :: xs, k => by simp [List.zipIdx_cons, map_fst_zipIdx xs (k + 1)]

theorem mem_images (codes : List Nat) (sites : List Site) (u : UAtom) :
    u ∈ images codes sites ↔ ∃ c ∈ codes, ∃ i s, sites[i]? = some s ∧ u = imageRow c i s := by
  unfold images
  simp only [List.mem_flatMap, List.mem_map, mem_orderedOps]
  constructor
  · rintro ⟨c, hc, ⟨s, i⟩, hsi, rfl⟩
    have := List.mem_zipIdx_iff_getElem?.mp hsi
    exact ⟨c, hc, i, s, by simpa using this, rfl⟩
  · rintro ⟨c, hc, i, s, hs, rfl⟩
    exact ⟨c, hc, (s, i), List.mem_zipIdx_iff_getElem?.mpr (by simpa using hs), rfl⟩

theorem images_length (codes : List Nat) (sites : List Site) :
    (images codes sites).length = codes.length * sites.length := by
  unfold images
  rw [← orderedOps_length codes]
  generalize orderedOps codes = ops
  induction ops with
  | nil => simp
  | cons c cs ih => simp [List.flatMap_cons, ih, Nat.succ_mul, Nat.add_comm]

/-- fractional coordinates lie in [0,1) -/
theorem uca_frac_in_unit_interval (codes : List Nat) (sites : List Site) :
    ∀ u ∈ unitCellAtoms codes sites, ∀ x ∈ u.frac, 0 ≤ x ∧ x < 1 := by
  intro u hu x hx
  obtain ⟨v, hv, hvf⟩ := mergeAux_frac_mem _ _ (Nat.le_refl _) u hu
  obtain ⟨c, _, i, s, _, rfl⟩ := (mem_images codes sites v).mp hv
  rw [← hvf] at hx
  simp only [imageRow, List.mem_map] at hx
  obtain ⟨y, _, rfl⟩ := hx
  exact wrap_range y

/-- EVERY image of EVERY site under EVERY operation occurs -/
theorem uca_complete (codes : List Nat) (sites : List Site) (c : Nat) (hc : c ∈ codes) (i : Nat) (s : Site)
    (hs : sites[i]? = some s) :
    ∃ u ∈ unitCellAtoms codes sites, u.frac = (applyOp (decodeOp c) s.pos).map wrap := by
  have hv : imageRow c i s ∈ images codes sites := (mem_images codes sites _).mpr ⟨c, hc, i, s, hs, rfl⟩
  obtain ⟨u, hu, huf⟩ := mergeAux_complete _ _ (Nat.le_refl _) _ hv
  exact ⟨u, hu, huf⟩

/-- … exactly once -/
theorem uca_nodup (codes : List Nat) (sites : List Site) : ((unitCellAtoms codes sites).map (·.frac)).Nodup :=
  mergeAux_nodup _ _ (Nat.le_refl _)

/-- each row is the FIRST image (operation-major, identity first) at its position; it keeps that image's
parent index, element, label and generating operation, and carries the total occupancy found there -/
theorem uca_first_image (codes : List Nat) (sites : List Site) :
    ∀ u ∈ unitCellAtoms codes sites, ∃ v,
      (images codes sites).find? (fun b => b.frac == u.frac) = some v ∧
      u = { v with occ := occAt (images codes sites) u.frac } :=
  mergeAux_first _ _ (Nat.le_refl _)

/-- element, label, parent-site index and generating operation of each row are correct -/
theorem uca_provenance (codes : List Nat) (sites : List Site) :
    ∀ u ∈ unitCellAtoms codes sites, ∃ c ∈ codes, ∃ s, sites[u.asym]? = some s ∧ u.elem = s.elem ∧
      u.label = s.label ∧ u.symop = c ∧ u.frac = (applyOp (decodeOp c) s.pos).map wrap := by
  intro u hu
  obtain ⟨v, hv, huv⟩ := uca_first_image codes sites u hu
  have hvm := List.mem_of_find?_eq_some hv
  obtain ⟨c, hc, i, s, hs, rfl⟩ := (mem_images codes sites v).mp hvm
  refine ⟨c, hc, s, ?_, ?_, ?_, ?_, ?_⟩ <;> rw [huv] <;> simp [imageRow, hs]

/-- coincident images are merged and their occupancies added -/
theorem uca_occupancy_merge (codes : List Nat) (sites : List Site) :
    ∀ u ∈ unitCellAtoms codes sites, u.occ = occAt (images codes sites) u.frac := by
  intro u hu
  obtain ⟨v, _, huv⟩ := uca_first_image codes sites u hu
  have : u.occ = ({ v with occ := occAt (images codes sites) u.frac } : UAtom).occ := by rw [← huv]
  simpa using this

theorem sumR_flatMap_const (ops : List Nat) (sites : List Site) :
    sumR ((ops.flatMap fun c => (sites.zipIdx).map fun (s, i) => imageRow c i s).map (·.occ))
      = (ops.length : Rat) * sumR (sites.map (·.occ)) := by
  induction ops with
  | nil => simp [sumR]
  | cons c cs ih =>
    simp only [List.flatMap_cons, List.map_append, sumR_append, ih, List.length_cons]
    have : ((sites.zipIdx).map fun (s, i) => imageRow c i s).map (·.occ) = sites.map (·.occ) := by
      rw [List.map_map]
      have : ((fun x : UAtom => x.occ) ∘ fun (p : Site × Nat) => imageRow c p.2 p.1) = (fun p : Site × Nat => p.1.occ) := by
        funext p; rfl
      rw [this]
      have h2 := map_fst_zipIdx sites 0
      conv_rhs => rw [← h2]
      rw [List.map_map]; rfl
    rw [this]
    push_cast; ring

/-- occupancy is conserved: the rows add up to |G| × (sum of the site occupancies) -/
theorem uca_total_occupancy (codes : List Nat) (sites : List Site) :
    sumR ((unitCellAtoms codes sites).map (·.occ)) = (codes.length : Rat) * sumR (sites.map (·.occ)) := by
  unfold unitCellAtoms merge
  rw [mergeAux_total _ _ (Nat.le_refl _)]
  have hl := orderedOps_length codes
  rw [← hl]
  exact sumR_flatMap_const (orderedOps codes) sites

/-- the identity is applied first, so a site that is not overlapped by an earlier site is recorded as
generated by the identity -/
theorem uca_identity_first (codes : List Nat) (h : idCode ∈ codes) : (orderedOps codes).head? = some idCode := by
  rw [orderedOps_eq, if_pos h]; rfl

/-- for each of the 530 regenerated settings the operation list is a group (C02) containing the identity,
so the rows above are exactly the orbit of the asymmetric unit under a genuine space group -/
theorem uca_all_settings (e : Entry) (he : e ∈ ChmpyVerif.Gen.sgTable) (sites : List Site) :
    (∀ a ∈ C02.opsOf e, ∀ b ∈ C02.opsOf e, compose a b ∈ C02.opsOf e) ∧
    (orderedOps e.symops).head? = some idCode ∧
    ((unitCellAtoms e.symops sites).map (·.frac)).Nodup ∧
    sumR ((unitCellAtoms e.symops sites).map (·.occ)) = (e.symops.length : Rat) * sumR (sites.map (·.occ)) :=
  ⟨C02.sg_closed e he, uca_identity_first _ (C02.sg_has_identity e he).1, uca_nodup _ _, uca_total_occupancy _ _⟩

/-! non-vacuity: P-1 with a general site and a site on the inversion centre -/
example : (unitCellAtoms [3198, 16484] [⟨6, 0, 1, [1/10, 1/5, 3/10]⟩, ⟨8, 1, 1/2, [0, 0, 0]⟩]).map (·.occ) = [1, 1, 1] := by
  decide +kernel

end ChmpyVerif.Props.C01
