import ChmpyVerif.Props.C11Spell
namespace ChmpyVerif.Props.C11
/-- every spelling of every row with translation digit 9 is read back as that row -/
theorem spell_k9 : ∀ r ∈ rows27, ∀ s ∈ spellings r 9, rowOk s r 9 = true := by
  decide +kernel
end ChmpyVerif.Props.C11
