/-
C12 — unit-cell geometry is self-consistent however the cell was specified.
The formulas (`volume`, `d00…d22`, `i00…i22`, `aStar…`, `cosAlphaStar…`) are GENERATED from
/repo/src/chmpy/crystal/unit_cell.py on every run; a changed sign, index or factor in the
source changes the definitions below and the proofs stop compiling.
-/
import ChmpyVerif.Gen.UnitCellR
import Mathlib.LinearAlgebra.Matrix.Determinant.Basic
import Mathlib.Tactic.FieldSimp
import Mathlib.Tactic.Ring
import Mathlib.Tactic.Linarith
import Mathlib.Tactic.LinearCombination
import Mathlib.Tactic.FinCases
import Mathlib.Tactic.NormNum
import Mathlib.Tactic.Positivity

namespace ChmpyVerif.Props.C12
open ChmpyVerif.Gen.UnitCellR Matrix

/-- Gram determinant of the unit vectors: positive iff the parallelepiped has positive volume -/
def gram (p : P) : ℝ := 1 - p.ca * p.ca - p.cb * p.cb - p.cg * p.cg + 2 * p.ca * p.cb * p.cg

/-- a non-degenerate cell: positive lengths, `(ca,sa)…` are cosine/sine of angles in (0,π),
positive volume -/
structure Valid (p : P) : Prop where
  ha : 0 < p.a
  hb : 0 < p.b
  hc : 0 < p.c
  hsa : 0 < p.sa
  hsb : 0 < p.sb
  hsg : 0 < p.sg
  ta : p.sa ^ 2 + p.ca ^ 2 = 1
  tb : p.sb ^ 2 + p.cb ^ 2 = 1
  tg : p.sg ^ 2 + p.cg ^ 2 = 1
  hgram : 0 < gram p

variable {p : P}

theorem volume_pos (h : Valid p) : 0 < volume p := by
  unfold volume
  have hg : 0 < 1 - p.ca * p.ca - p.cb * p.cb - p.cg * p.cg + 2 * p.ca * p.cb * p.cg := h.hgram
  have := Real.sqrt_pos.mpr hg
  have := h.ha; have := h.hb; have := h.hc
  positivity

theorem volume_sq (h : Valid p) : volume p ^ 2 = (p.a * p.b * p.c) ^ 2 * gram p := by
  unfold volume
  have hg : 0 ≤ 1 - p.ca * p.ca - p.cb * p.cb - p.cg * p.cg + 2 * p.ca * p.cb * p.cg := le_of_lt h.hgram
  rw [mul_pow, Real.sq_sqrt hg]; rfl

set_option hygiene false in
/-- unfold the generated entries, clear denominators, eliminate `sin²` and `volume²`, `ring` -/
macro "cell_algebra" : tactic => `(tactic| (
  have hv2 := volume_sq h
  have hv := (volume_pos h).ne'
  have ha := h.ha.ne'; have hb := h.hb.ne'; have hc := h.hc.ne'
  have hsa := h.hsa.ne'; have hsb := h.hsb.ne'; have hsg := h.hsg.ne'
  have e1 : p.sg ^ 2 = 1 - p.cg ^ 2 := by linarith [h.tg]
  have e2 : p.sa ^ 2 = 1 - p.ca ^ 2 := by linarith [h.ta]
  have e3 : p.sb ^ 2 = 1 - p.cb ^ 2 := by linarith [h.tb]
  simp only [d00, d01, d02, d10, d11, d12, d20, d21, d22, i00, i01, i02, i10, i11, i12, i20, i21, i22,
    aStar, bStar, cStar, cosAlphaStar, cosBetaStar, cosGammaStar, gram] at *
  generalize volume p = v at *
  field_simp
  ring_nf
  try (simp only [e1, e2, e3, hv2]; ring)))

/-! ### direct and inverse matrices are mutual inverses -/

theorem direct_mul_inverse (h : Valid p) : direct p * inverse p = 1 := by
  have e00 : d00 p * i00 p + d01 p * i10 p + d02 p * i20 p = 1 := by cell_algebra
  have e01 : d00 p * i01 p + d01 p * i11 p + d02 p * i21 p = 0 := by cell_algebra
  have e02 : d00 p * i02 p + d01 p * i12 p + d02 p * i22 p = 0 := by cell_algebra
  have e10 : d10 p * i00 p + d11 p * i10 p + d12 p * i20 p = 0 := by cell_algebra
  have e11 : d10 p * i01 p + d11 p * i11 p + d12 p * i21 p = 1 := by cell_algebra
  have e12 : d10 p * i02 p + d11 p * i12 p + d12 p * i22 p = 0 := by cell_algebra
  have e20 : d20 p * i00 p + d21 p * i10 p + d22 p * i20 p = 0 := by cell_algebra
  have e21 : d20 p * i01 p + d21 p * i11 p + d22 p * i21 p = 0 := by cell_algebra
  have e22 : d20 p * i02 p + d21 p * i12 p + d22 p * i22 p = 1 := by cell_algebra
  ext i j
  fin_cases i <;> fin_cases j <;>
    simp [direct, inverse, Matrix.mul_apply, Fin.sum_univ_three, *]

theorem inverse_mul_direct (h : Valid p) : inverse p * direct p = 1 := by
  have e00 : i00 p * d00 p + i01 p * d10 p + i02 p * d20 p = 1 := by cell_algebra
  have e01 : i00 p * d01 p + i01 p * d11 p + i02 p * d21 p = 0 := by cell_algebra
  have e02 : i00 p * d02 p + i01 p * d12 p + i02 p * d22 p = 0 := by cell_algebra
  have e10 : i10 p * d00 p + i11 p * d10 p + i12 p * d20 p = 0 := by cell_algebra
  have e11 : i10 p * d01 p + i11 p * d11 p + i12 p * d21 p = 1 := by cell_algebra
  have e12 : i10 p * d02 p + i11 p * d12 p + i12 p * d22 p = 0 := by cell_algebra
  have e20 : i20 p * d00 p + i21 p * d10 p + i22 p * d20 p = 0 := by cell_algebra
  have e21 : i20 p * d01 p + i21 p * d11 p + i22 p * d21 p = 0 := by cell_algebra
  have e22 : i20 p * d02 p + i21 p * d12 p + i22 p * d22 p = 1 := by cell_algebra
  ext i j
  fin_cases i <;> fin_cases j <;>
    simp [direct, inverse, Matrix.mul_apply, Fin.sum_univ_three, *]

/-- Cartesian → fractional → Cartesian and back are the identity, for every point
(`to_cartesian x = x ᵥ* direct`, `to_fractional x = x ᵥ* inverse`) -/
theorem frac_cart_roundtrip (h : Valid p) (x : Fin 3 → ℝ) :
    (x ᵥ* direct p) ᵥ* inverse p = x ∧ (x ᵥ* inverse p) ᵥ* direct p = x := by
  rw [Matrix.vecMul_vecMul, Matrix.vecMul_vecMul, direct_mul_inverse h, inverse_mul_direct h]
  simp

/-- … and for any number of points at once (rows of an `n × 3` array) -/
theorem frac_cart_roundtrip_batch (h : Valid p) {n : ℕ} (X : Matrix (Fin n) (Fin 3) ℝ) :
    (X * direct p) * inverse p = X ∧ (X * inverse p) * direct p = X := by
  rw [Matrix.mul_assoc, Matrix.mul_assoc, direct_mul_inverse h, inverse_mul_direct h]
  simp

/-! ### lattice-vector lengths and inter-vector angles equal the parameters -/

theorem row_norms (h : Valid p) :
    d00 p ^ 2 + d01 p ^ 2 + d02 p ^ 2 = p.a ^ 2 ∧
    d10 p ^ 2 + d11 p ^ 2 + d12 p ^ 2 = p.b ^ 2 ∧
    d20 p ^ 2 + d21 p ^ 2 + d22 p ^ 2 = p.c ^ 2 := by
  refine ⟨?_, ?_, ?_⟩ <;> cell_algebra

/-- `b·c = |b||c| cos α`, `a·c = |a||c| cos β`, `a·b = |a||b| cos γ` -/
theorem row_dots (h : Valid p) :
    d10 p * d20 p + d11 p * d21 p + d12 p * d22 p = p.b * p.c * p.ca ∧
    d00 p * d20 p + d01 p * d21 p + d02 p * d22 p = p.a * p.c * p.cb ∧
    d00 p * d10 p + d01 p * d11 p + d02 p * d12 p = p.a * p.b * p.cg := by
  refine ⟨?_, ?_, ?_⟩ <;> cell_algebra

/-! ### volume = determinant of the lattice -/

theorem volume_eq_det (h : Valid p) : (direct p).det = volume p := by
  have hd : (direct p).det = d00 p * d11 p * d22 p - d00 p * d12 p * d21 p - d01 p * d10 p * d22 p
      + d01 p * d12 p * d20 p + d02 p * d10 p * d21 p - d02 p * d11 p * d20 p := by
    rw [Matrix.det_fin_three]; simp [direct]
  rw [hd]; cell_algebra

/-! ### reciprocal lattice: columns of `inverse` are a*, b*, c* -/

/-- `a*ᵢ · aⱼ = δᵢⱼ` is `inverse_mul_direct`; the reported reciprocal LENGTHS are the column norms -/
theorem star_lengths (h : Valid p) :
    i00 p ^ 2 + i10 p ^ 2 + i20 p ^ 2 = aStar p ^ 2 ∧
    i01 p ^ 2 + i11 p ^ 2 + i21 p ^ 2 = bStar p ^ 2 ∧
    i02 p ^ 2 + i12 p ^ 2 + i22 p ^ 2 = cStar p ^ 2 := by
  refine ⟨?_, ?_, ?_⟩ <;> cell_algebra

theorem star_lengths_pos (h : Valid p) : 0 < aStar p ∧ 0 < bStar p ∧ 0 < cStar p := by
  have := volume_pos h
  have := h.ha; have := h.hb; have := h.hc; have := h.hsa; have := h.hsb; have := h.hsg
  refine ⟨?_, ?_, ?_⟩ <;> (simp only [aStar, bStar, cStar]; positivity)

/-- the reported reciprocal ANGLES: `b*·c* = |b*||c*| cos α*` etc., with `cos α*` the argument of the
`arccos` in the source -/
theorem star_angles (h : Valid p) :
    i01 p * i02 p + i11 p * i12 p + i21 p * i22 p = bStar p * cStar p * cosAlphaStar p ∧
    i00 p * i02 p + i10 p * i12 p + i20 p * i22 p = aStar p * cStar p * cosBetaStar p ∧
    i00 p * i01 p + i10 p * i11 p + i20 p * i21 p = aStar p * bStar p * cosGammaStar p := by
  refine ⟨?_, ?_, ?_⟩ <;> cell_algebra


/-- whatever `np.linalg.inv(direct)` returns in `set_vectors`, if it is a left inverse it IS the
closed-form `inverse` (so both construction routes give the same inverse matrix) -/
theorem inverse_unique (h : Valid p) (M : Matrix (Fin 3) (Fin 3) ℝ) (hM : M * direct p = 1) :
    M = inverse p := by
  calc M = M * (direct p * inverse p) := by rw [direct_mul_inverse h, Matrix.mul_one]
    _ = (M * direct p) * inverse p := (Matrix.mul_assoc _ _ _).symm
    _ = inverse p := by rw [hM, Matrix.one_mul]

/-! ### from actual angles -/

/-- the parameter record of a cell given by lengths and angles (radians) -/
noncomputable def ofAngles (a b c α β γ : ℝ) : P :=
  ⟨a, b, c, Real.cos α, Real.cos β, Real.cos γ, Real.sin α, Real.sin β, Real.sin γ⟩

theorem valid_ofAngles {a b c α β γ : ℝ} (ha : 0 < a) (hb : 0 < b) (hc : 0 < c)
    (hα : 0 < α ∧ α < Real.pi) (hβ : 0 < β ∧ β < Real.pi) (hγ : 0 < γ ∧ γ < Real.pi)
    (hg : 0 < gram (ofAngles a b c α β γ)) : Valid (ofAngles a b c α β γ) where
  ha := ha
  hb := hb
  hc := hc
  hsa := Real.sin_pos_of_pos_of_lt_pi hα.1 hα.2
  hsb := Real.sin_pos_of_pos_of_lt_pi hβ.1 hβ.2
  hsg := Real.sin_pos_of_pos_of_lt_pi hγ.1 hγ.2
  ta := Real.sin_sq_add_cos_sq α
  tb := Real.sin_sq_add_cos_sq β
  tg := Real.sin_sq_add_cos_sq γ
  hgram := hg

/-- `np.clip(x, -1, 1)` -/
noncomputable def clip (x : ℝ) : ℝ := max (-1) (min 1 x)

theorem clip_cos (x : ℝ) : clip (Real.cos x) = Real.cos x := by
  unfold clip
  rw [min_eq_right (Real.cos_le_one x), max_eq_right (Real.neg_one_le_cos x)]

/-- `set_vectors` applied to the lattice built from `(a,b,c,α,β,γ)` recovers exactly those
parameters: lengths are the row norms, angles the `arccos` of the clipped normalised dot products. -/
theorem params_of_vectors_of_params {a b c α β γ : ℝ} (ha : 0 < a) (hb : 0 < b) (hc : 0 < c)
    (hα : 0 < α ∧ α < Real.pi) (hβ : 0 < β ∧ β < Real.pi) (hγ : 0 < γ ∧ γ < Real.pi)
    (hg : 0 < gram (ofAngles a b c α β γ)) :
    let p := ofAngles a b c α β γ
    Real.sqrt (d00 p ^ 2 + d01 p ^ 2 + d02 p ^ 2) = a ∧
    Real.sqrt (d10 p ^ 2 + d11 p ^ 2 + d12 p ^ 2) = b ∧
    Real.sqrt (d20 p ^ 2 + d21 p ^ 2 + d22 p ^ 2) = c ∧
    Real.arccos (clip ((d10 p * d20 p + d11 p * d21 p + d12 p * d22 p) / (b * c))) = α ∧
    Real.arccos (clip ((d00 p * d20 p + d01 p * d21 p + d02 p * d22 p) / (a * c))) = β ∧
    Real.arccos (clip ((d00 p * d10 p + d01 p * d11 p + d02 p * d12 p) / (a * b))) = γ := by
  intro p
  have h : Valid p := valid_ofAngles ha hb hc hα hβ hγ hg
  obtain ⟨n1, n2, n3⟩ := row_norms h
  obtain ⟨q1, q2, q3⟩ := row_dots h
  have pa : p.a = a := rfl
  have pb : p.b = b := rfl
  have pc : p.c = c := rfl
  refine ⟨?_, ?_, ?_, ?_, ?_, ?_⟩
  · rw [n1, pa, Real.sqrt_sq ha.le]
  · rw [n2, pb, Real.sqrt_sq hb.le]
  · rw [n3, pc, Real.sqrt_sq hc.le]
  · rw [q1, pb, pc, show p.ca = Real.cos α from rfl, mul_div_cancel_left₀ _ (mul_pos hb hc).ne', clip_cos,
      Real.arccos_cos hα.1.le hα.2.le]
  · rw [q2, pa, pc, show p.cb = Real.cos β from rfl, mul_div_cancel_left₀ _ (mul_pos ha hc).ne', clip_cos,
      Real.arccos_cos hβ.1.le hβ.2.le]
  · rw [q3, pa, pb, show p.cg = Real.cos γ from rfl, mul_div_cancel_left₀ _ (mul_pos ha hb).ne', clip_cos,
      Real.arccos_cos hγ.1.le hγ.2.le]

/-- `np.degrees(np.radians x) = x` and back -/
theorem deg_rad_roundtrip (x : ℝ) :
    x * (Real.pi / 180) * (180 / Real.pi) = x ∧ x * (180 / Real.pi) * (Real.pi / 180) = x := by
  have := Real.pi_ne_zero
  constructor <;> field_simp

/-! ### the named constructors produce valid cells -/

/-- cubic / tetragonal / orthorhombic: all angles π/2 -/
theorem valid_orthogonal {a b c : ℝ} (ha : 0 < a) (hb : 0 < b) (hc : 0 < c) :
    Valid (ofAngles a b c (Real.pi / 2) (Real.pi / 2) (Real.pi / 2)) := by
  have hp := Real.pi_pos
  apply valid_ofAngles ha hb hc <;> first | (constructor <;> linarith) | skip
  simp [gram, ofAngles]

/-- monoclinic: α = γ = π/2, any β in (0,π) -/
theorem valid_monoclinic {a b c β : ℝ} (ha : 0 < a) (hb : 0 < b) (hc : 0 < c) (hβ : 0 < β ∧ β < Real.pi) :
    Valid (ofAngles a b c (Real.pi / 2) β (Real.pi / 2)) := by
  have hp := Real.pi_pos
  apply valid_ofAngles ha hb hc _ hβ <;> first | (constructor <;> linarith) | skip
  have hs := Real.sin_pos_of_pos_of_lt_pi hβ.1 hβ.2
  have := Real.sin_sq_add_cos_sq β
  simp only [gram, ofAngles, Real.cos_pi_div_two]
  nlinarith [sq_nonneg (Real.sin β), mul_pos hs hs]

/-- hexagonal: α = β = π/2, γ = 2π/3 -/
theorem valid_hexagonal {a c : ℝ} (ha : 0 < a) (hc : 0 < c) :
    Valid (ofAngles a a c (Real.pi / 2) (Real.pi / 2) (2 * Real.pi / 3)) := by
  have hp := Real.pi_pos
  apply valid_ofAngles ha ha hc <;> first | (constructor <;> linarith) | skip
  have hcos : Real.cos (2 * Real.pi / 3) = -(1 / 2) := by
    rw [show 2 * Real.pi / 3 = Real.pi - Real.pi / 3 by ring, Real.cos_pi_sub, Real.cos_pi_div_three]
  simp only [gram, ofAngles, Real.cos_pi_div_two, hcos]
  norm_num

/-- rhombohedral: the Gram determinant factors as `(1 - c)²(1 + 2c)`, positive exactly when
`-1/2 < cos α < 1`, i.e. `0 < α < 2π/3` -/
theorem gram_rhombohedral (a α : ℝ) :
    gram (ofAngles a a a α α α) = (1 - Real.cos α) ^ 2 * (1 + 2 * Real.cos α) := by
  simp only [gram, ofAngles]; ring

theorem valid_rhombohedral {a α : ℝ} (ha : 0 < a) (hα : 0 < α ∧ α < Real.pi) (hc : -(1 / 2) < Real.cos α) :
    Valid (ofAngles a a a α α α) := by
  apply valid_ofAngles ha ha ha hα hα hα
  rw [gram_rhombohedral]
  have h1 : Real.cos α < 1 := by
    have := Real.cos_lt_cos_of_nonneg_of_le_pi (le_refl 0) hα.2.le hα.1
    simpa using this
  have : 0 < (1 - Real.cos α) ^ 2 := by positivity
  have : 0 < 1 + 2 * Real.cos α := by linarith
  positivity

/-! non-vacuity: a concrete oblique cell (a,b,c = 5,7,11; β = 2 rad ≈ 114.6°) satisfies the hypotheses -/
example : Valid (ofAngles 5 7 11 (Real.pi / 2) 1.9 (Real.pi / 2)) :=
  valid_monoclinic (by norm_num) (by norm_num) (by norm_num) ⟨by norm_num, by linarith [Real.two_le_pi]⟩

end ChmpyVerif.Props.C12
