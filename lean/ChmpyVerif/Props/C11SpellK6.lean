import ChmpyVerif.Props.C11Spell
namespace ChmpyVerif.Props.C11
/-- every spelling of every row with translation digit 6 is read back as that row -/
theorem spell_k6 : ∀ r ∈ rows27, ∀ s ∈ spellings r 6, rowOk s r 6 = true := by
  decide +kernel
end ChmpyVerif.Props.C11
