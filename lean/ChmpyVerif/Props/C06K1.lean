import ChmpyVerif.Model.MC
namespace ChmpyVerif.Props.C06
open ChmpyVerif.MC ChmpyVerif.Gen.MC
theorem leaves_ok1 : leaves1.all leafOk = true := by decide +kernel
theorem faces_match1 : leaves1.all leafFacesMatch = true := by decide +kernel
theorem trees1 : ((List.range 32).map (· + 32)).all (fun cfg => isTree 16 ((leaves1.filter (·.cfg == cfg)).map (·.tests))) = true := by decide +kernel
end ChmpyVerif.Props.C06
