import ChmpyVerif.Props.C11Spell
namespace ChmpyVerif.Props.C11
/-- every spelling of every row with translation digit 1 is read back as that row -/
theorem spell_k1 : ∀ r ∈ rows27, ∀ s ∈ spellings r 1, rowOk s r 1 = true := by
  decide +kernel
end ChmpyVerif.Props.C11
