/-
C19 — the Wulff construction is the intersection of the facet half-spaces.
Theorems about the hand model `Model/Wulff.lean` (exact rationals).  The convex hull of the dual points is
scipy/Qhull's: its defining property (every dual point lies on the origin's side of every hull simplex) is the
hypothesis `hull` of `vertex_feasible`.
-/
import ChmpyVerif.Model.Wulff
import Mathlib.Algebra.Order.Field.Rat
import Mathlib.Tactic.FieldSimp
import Mathlib.Tactic.Ring
import Mathlib.Tactic.Linarith
import Mathlib.Tactic.LinearCombination
import Mathlib.Data.List.Perm.Basic

namespace ChmpyVerif.Props.C19
open ChmpyVerif.Wulff

/-- for a unit normal the dual point is `n / e` -/
theorem dual_unit (n : V3) (e : Rat) (hn : dot n n = 1) (he : e ≠ 0) : dual n e = smul (1 / e) n := by
  obtain ⟨x, y, z⟩ := n
  simp only [dot] at hn
  have h2 : e * x * (e * x) + e * y * (e * y) + e * z * (e * z) = e ^ 2 := by
    have : e * x * (e * x) + e * y * (e * y) + e * z * (e * z) = e ^ 2 * (x * x + y * y + z * z) := by ring
    rw [this, hn, mul_one]
  simp only [dual, smul, dot, h2]
  refine Prod.ext ?_ (Prod.ext ?_ ?_) <;> simp only <;> field_simp

/-- the simplex normal has the same inner product with all three corners -/
theorem normal_dot_eq (a b c : V3) :
    dot (simplexNormal a b c) b = dot (simplexNormal a b c) a ∧ dot (simplexNormal a b c) c = dot (simplexNormal a b c) a := by
  obtain ⟨a1, a2, a3⟩ := a; obtain ⟨b1, b2, b3⟩ := b; obtain ⟨c1, c2, c3⟩ := c
  simp only [simplexNormal, cross, sub, dot]
  constructor <;> ring

theorem dot_smul_right (s : Rat) (a b : V3) : dot a (smul s b) = s * dot a b := by
  obtain ⟨a1, a2, a3⟩ := a; obtain ⟨b1, b2, b3⟩ := b
  simp only [smul, dot]; ring

theorem dot_smul_left (s : Rat) (a b : V3) : dot (smul s a) b = s * dot a b := by
  obtain ⟨a1, a2, a3⟩ := a; obtain ⟨b1, b2, b3⟩ := b
  simp only [smul, dot]; ring

theorem dot_comm (a b : V3) : dot a b = dot b a := by
  obtain ⟨a1, a2, a3⟩ := a; obtain ⟨b1, b2, b3⟩ := b
  simp only [dot]; ring

/-- **every vertex lies on the three facets of its dual simplex**: `n_k · v = e_k` for the three unit normals -/
theorem vertex_on_facets (n0 n1 n2 : V3) (e0 e1 e2 : Rat)
    (h0 : dot n0 n0 = 1) (h1 : dot n1 n1 = 1) (h2 : dot n2 n2 = 1) (he0 : e0 ≠ 0) (he1 : e1 ≠ 0) (he2 : e2 ≠ 0)
    (hdet : dot (simplexNormal (dual n0 e0) (dual n1 e1) (dual n2 e2)) n0 ≠ 0) :
    let v := vertexOf n0 e0 (dual n0 e0) (dual n1 e1) (dual n2 e2)
    dot n0 v = e0 ∧ dot n1 v = e1 ∧ dot n2 v = e2 := by
  intro v
  obtain ⟨hb, hc⟩ := normal_dot_eq (dual n0 e0) (dual n1 e1) (dual n2 e2)
  rw [dual_unit n0 e0 h0 he0, dual_unit n1 e1 h1 he1, dual_unit n2 e2 h2 he2] at hb hc hdet
  simp only [v, vertexOf]
  rw [dual_unit n0 e0 h0 he0, dual_unit n1 e1 h1 he1, dual_unit n2 e2 h2 he2]
  generalize simplexNormal (smul (1 / e0) n0) (smul (1 / e1) n1) (smul (1 / e2) n2) = N at *
  rw [dot_smul_right, dot_smul_right] at hb hc
  rw [dot_smul_right, dot_smul_right, dot_smul_right, dot_comm n0 N, dot_comm n1 N, dot_comm n2 N]
  have k1 : dot N n1 = e1 * (dot N n0 / e0) := by field_simp; field_simp at hb; linarith
  have k2 : dot N n2 = e2 * (dot N n0 / e0) := by field_simp; field_simp at hc; linarith
  refine ⟨?_, ?_, ?_⟩
  · field_simp
  · rw [k1]; field_simp
  · rw [k2]; field_simp

/-- **every vertex satisfies every facet inequality**, given what a convex hull guarantees: the facet's dual point
lies on the origin's side of the (non-degenerate) simplex plane -/
theorem vertex_feasible (n0 n1 n2 n : V3) (e0 e1 e2 e : Rat)
    (h0 : dot n0 n0 = 1) (hn : dot n n = 1) (he0 : e0 ≠ 0) (he : 0 < e)
    (hdet : dot (simplexNormal (dual n0 e0) (dual n1 e1) (dual n2 e2)) (dual n0 e0) ≠ 0)
    (hull : (dot (simplexNormal (dual n0 e0) (dual n1 e1) (dual n2 e2)) (dual n e)
              - dot (simplexNormal (dual n0 e0) (dual n1 e1) (dual n2 e2)) (dual n0 e0))
            * dot (simplexNormal (dual n0 e0) (dual n1 e1) (dual n2 e2)) (dual n0 e0) ≤ 0) :
    dot n (vertexOf n0 e0 (dual n0 e0) (dual n1 e1) (dual n2 e2)) ≤ e := by
  simp only [vertexOf]
  generalize simplexNormal (dual n0 e0) (dual n1 e1) (dual n2 e2) = N at *
  rw [dual_unit n0 e0 h0 he0] at hdet hull
  rw [dual_unit n e hn (ne_of_gt he)] at hull
  rw [dot_smul_right] at hdet hull
  rw [dot_smul_right] at hull
  rw [dot_smul_right, dot_comm n N]
  set x := dot N n with hx
  set y := dot N n0 with hy
  have hy0 : y ≠ 0 := by
    intro h; apply hdet; rw [h]; simp
  have hy2 : 0 < y * y := mul_self_pos.mpr hy0
  -- x / e ≤ y / e0 in the sense (x/e - y/e0) * (y/e0) ≤ 0
  have key : e0 / y * x ≤ e := by
    have hh : (1 / e * x - 1 / e0 * y) * (1 / e0 * y) ≤ 0 := hull
    have he02 : 0 < e0 * e0 := mul_self_pos.mpr he0
    have : (e0 * x - e * y) * y ≤ 0 := by
      have e1 : (1 / e * x - 1 / e0 * y) * (1 / e0 * y) = ((e0 * x - e * y) * y) / (e * (e0 * e0)) := by
        field_simp
      rw [e1] at hh
      have hpos : 0 < e * (e0 * e0) := mul_pos he he02
      by_contra hcon
      rw [not_le] at hcon
      have := div_pos hcon hpos
      linarith
    have e2 : e0 / y * x = e + ((e0 * x - e * y) * y) / (y * y) := by field_simp; ring
    rw [e2]
    have : ((e0 * x - e * y) * y) / (y * y) ≤ 0 := div_nonpos_of_nonpos_of_nonneg this (le_of_lt hy2)
    linarith
  exact key

/-- **scaling all energies by `s` scales every vertex by `s`** -/
theorem vertex_scaling (n0 n1 n2 : V3) (e0 e1 e2 s : Rat) (hs : s ≠ 0)
    (h0 : dot n0 n0 = 1) (h1 : dot n1 n1 = 1) (h2 : dot n2 n2 = 1) (he0 : e0 ≠ 0) (he1 : e1 ≠ 0) (he2 : e2 ≠ 0) :
    vertexOf n0 (s * e0) (dual n0 (s * e0)) (dual n1 (s * e1)) (dual n2 (s * e2))
      = smul s (vertexOf n0 e0 (dual n0 e0) (dual n1 e1) (dual n2 e2)) := by
  have hd : ∀ (n : V3) (e : Rat), dot n n = 1 → e ≠ 0 → dual n (s * e) = smul (1 / s) (dual n e) := by
    intro n e hn he
    rw [dual_unit n _ hn (mul_ne_zero hs he), dual_unit n e hn he]
    obtain ⟨x, y, z⟩ := n
    simp only [smul]
    refine Prod.ext ?_ (Prod.ext ?_ ?_) <;> simp only <;> field_simp
  rw [hd n0 e0 h0 he0, hd n1 e1 h1 he1, hd n2 e2 h2 he2]
  generalize dual n0 e0 = a
  generalize dual n1 e1 = b
  generalize dual n2 e2 = c
  have hN : simplexNormal (smul (1 / s) a) (smul (1 / s) b) (smul (1 / s) c) = smul ((1 / s) ^ 2) (simplexNormal a b c) := by
    obtain ⟨a1, a2, a3⟩ := a; obtain ⟨b1, b2, b3⟩ := b; obtain ⟨c1, c2, c3⟩ := c
    simp only [simplexNormal, cross, sub, smul]
    refine Prod.ext ?_ (Prod.ext ?_ ?_) <;> simp only <;> ring
  simp only [vertexOf, hN]
  generalize simplexNormal a b c = N
  rw [dot_smul_left]
  obtain ⟨x, y, z⟩ := N
  by_cases hz : dot (x, y, z) n0 = 0
  · simp [hz, smul]
  · simp only [smul]
    refine Prod.ext ?_ (Prod.ext ?_ ?_) <;> simp only <;> field_simp

/-! ### combinatorics of the mesh -/

theorem fanGo_length (a : Nat) (l : List Nat) : (fanGo a l).length = l.length - 1 := by
  fun_induction fanGo a l with
  | case1 b c rest ih => simp [ih]
  | case2 l h =>
    match l, h with
    | [], _ => rfl
    | [_], _ => rfl
    | b :: c :: r, h => exact absurd rfl (h b c r)

theorem fan_length (f : List Nat) : (fan f).length = f.length - 2 := by
  cases f with
  | nil => rfl
  | cons a rest => simp [fan, fanGo_length]

theorem fanGo_mem (a : Nat) (l : List Nat) (t : Nat × Nat × Nat) (ht : t ∈ fanGo a l) : t.1 = a ∧ t.2.1 ∈ l ∧ t.2.2 ∈ l := by
  fun_induction fanGo a l with
  | case1 b c rest ih =>
    simp only [List.mem_cons] at ht
    rcases ht with rfl | ht
    · simp
    · have := ih ht
      simp only [List.mem_cons] at this ⊢
      tauto
  | case2 l h => simp at ht

/-- triangle indices are indices of the facet (hence valid vertex indices whenever the facet's are) -/
theorem fan_mem (f : List Nat) (t : Nat × Nat × Nat) (ht : t ∈ fan f) : t.1 ∈ f ∧ t.2.1 ∈ f ∧ t.2.2 ∈ f := by
  cases f with
  | nil => simp [fan] at ht
  | cons a rest =>
    have := fanGo_mem a rest t ht
    simp only [List.mem_cons]
    tauto

/-- sum of `w` over the consecutive pairs of a list -/
def pathSum (w : Nat → Nat → Int) : List Nat → Int
  | a :: b :: rest => w a b + pathSum w (b :: rest)
  | _ => 0

/-- sum of `w` over the directed edges of the closed polygon `f` -/
def cycleSum (w : Nat → Nat → Int) (f : List Nat) : Int :=
  match f with
  | [] => 0
  | a :: rest => pathSum w (a :: rest) + w ((a :: rest).getLast (by simp)) a

def triSum (w : Nat → Nat → Int) (ts : List (Nat × Nat × Nat)) : Int :=
  (ts.map fun t => w t.1 t.2.1 + w t.2.1 t.2.2 + w t.2.2 t.1).sum

theorem fanGo_sum (w : Nat → Nat → Int) (hw : ∀ a b, w a b = - w b a) (a b : Nat) (l : List Nat) :
    triSum w (fanGo a (b :: l)) = w a b + pathSum w (b :: l) + w ((b :: l).getLast (by simp)) a := by
  induction l generalizing b with
  | nil =>
    have := hw a b
    simp [fanGo, triSum, pathSum]; omega
  | cons c rest ih =>
    have h1 := ih c
    simp only [triSum] at h1
    simp only [fanGo, triSum, List.map_cons, List.sum_cons, pathSum, h1]
    have hl : (b :: c :: rest).getLast (by simp) = (c :: rest).getLast (by simp) := by simp [List.getLast_cons]
    rw [hl]
    have := hw a c
    omega

/-- **discrete Stokes for the fan**: for any antisymmetric edge weight, the directed edges of the fan triangles sum to
the directed boundary polygon — interior diagonals cancel in opposite pairs, boundary edges appear once, in order.
(So the mesh is closed in the chain sense exactly when the facet polygons' directed edges cancel.) -/
theorem fan_boundary (w : Nat → Nat → Int) (hw : ∀ a b, w a b = - w b a) (f : List Nat) :
    triSum w (fan f) = cycleSum w f := by
  match f with
  | [] => simp [fan, triSum, cycleSum]
  | [a] =>
    have := hw a a
    simp [fan, fanGo, triSum, cycleSum, pathSum]; omega
  | a :: b :: l =>
    simp only [fan, fanGo_sum w hw a b l, cycleSum, pathSum]
    have hl : (a :: b :: l).getLast (by simp) = (b :: l).getLast (by simp) := by simp [List.getLast_cons]
    rw [hl]

theorem insertBy_perm {α} (lt : α → α → Bool) (x : α) (l : List α) : (insertBy lt x l).Perm (x :: l) := by
  induction l with
  | nil => simp [insertBy]
  | cons y ys ih =>
    simp only [insertBy]
    split
    · exact List.Perm.refl _
    · exact (List.Perm.cons y ih).trans (List.Perm.swap x y ys)

theorem sortBy_perm {α} (lt : α → α → Bool) (l : List α) : (sortBy lt l).Perm l := by
  induction l with
  | nil => simp [sortBy]
  | cons x xs ih =>
    simp only [sortBy, List.foldr_cons] at ih ⊢
    exact (insertBy_perm _ x _).trans (List.Perm.cons x ih)

/-- the ordering step loses and duplicates no vertex: it is a permutation of the positions, position 0 first -/
theorem windingOrder_perm (pts2 : List (Rat × Rat)) (h : pts2 ≠ []) :
    (windingOrder pts2).Perm (List.range pts2.length) ∧ (windingOrder pts2).head? = some 0 := by
  constructor
  · simp only [windingOrder]
    have hl : 0 < pts2.length := List.length_pos_of_ne_nil h
    have : List.range pts2.length = 0 :: (List.range pts2.length).drop 1 := by
      obtain ⟨n, hn⟩ : ∃ n, pts2.length = n + 1 := ⟨pts2.length - 1, by omega⟩
      rw [hn, List.range_succ_eq_map]; simp
    conv_rhs => rw [this]
    exact List.Perm.cons 0 (sortBy_perm _ _)
  · simp [windingOrder]

/-- a facet's list contains exactly the vertices (simplices) whose dual simplex has that facet as a corner -/
theorem facetsOf_mem (nf : Nat) (simplices : List (Nat × Nat × Nat)) (f idx : Nat) (hf : f < nf) :
    idx ∈ (facetsOf nf simplices).getD f [] ↔
      ∃ s, simplices[idx]? = some s ∧ (s.1 = f ∨ s.2.1 = f ∨ s.2.2 = f) := by
  simp only [facetsOf]
  rw [List.getD_eq_getElem?_getD, List.getElem?_map, List.getElem?_range hf]
  simp only [Option.map_some, Option.getD_some, List.mem_flatMap]
  constructor
  · rintro ⟨⟨s, i⟩, hmem, hx⟩
    have hm := List.mem_zipIdx hmem
    simp only [Nat.zero_add, Nat.sub_zero] at hm
    have hidx : idx = i ∧ (s.1 = f ∨ s.2.1 = f ∨ s.2.2 = f) := by
      simp only [List.mem_append] at hx
      rcases hx with (hx | hx) | hx <;> (split at hx <;> simp at hx) <;> simp_all
    obtain ⟨rfl, hor⟩ := hidx
    exact ⟨s, by rw [List.getElem?_eq_getElem hm.2.1]; exact congrArg some hm.2.2.symm, hor⟩
  · rintro ⟨s, hs, hx⟩
    refine ⟨(s, idx), ?_, ?_⟩
    · rw [List.mem_zipIdx_iff_getElem?]; simpa using hs
    · simp only [List.mem_append]
      rcases hx with hx | hx | hx <;> simp [hx]

theorem getD_mem_or {α} (l : List α) (k : Nat) (d : α) : l.getD k d ∈ l ∨ l.getD k d = d := by
  rw [List.getD_eq_getElem?_getD]
  cases h : l[k]? with
  | none => right; rfl
  | some x => left; exact List.mem_of_getElem? h

/-- the ordering step only ever lists vertices of the facet it was given -/
theorem orderFacet_subset (verts : List V3) (facet : List Nat) (n : V3) (thr2 : Rat) :
    ∀ x ∈ orderFacet verts facet n thr2, x ∈ facet := by
  intro x hx
  unfold orderFacet at hx
  split at hx
  · simp at hx
  · rename_i hne
    simp only [List.mem_map] at hx
    obtain ⟨k, _, rfl⟩ := hx
    have hpos : 0 < facet.length := by
      cases facet with
      | nil => simp at hne
      | cons a r => simp
    have hlt : (pruneIdx (facet.map fun i => verts.getD i (0, 0, 0)) thr2).getD k 0 < facet.length := by
      rcases getD_mem_or (pruneIdx (facet.map fun i => verts.getD i (0, 0, 0)) thr2) k 0 with h | h
      · have h' : ∀ y ∈ pruneIdx (facet.map fun i => verts.getD i (0, 0, 0)) thr2, y < facet.length := by
          intro y hy
          simp only [pruneIdx, List.length_map, List.mem_filter, List.mem_range] at hy
          exact hy.1
        exact h' _ h
      · rw [h]; exact hpos
    rw [List.getD_eq_getElem?_getD, List.getElem?_eq_getElem hlt]
    simp

/-- well-formed input: unit normals, non-zero energies, every simplex in range and non-degenerate -/
structure WellFormed (inp : Input) : Prop where
  sizes : inp.energies.size = inp.normals.size
  unit : ∀ i, i < inp.normals.size → dot (inp.normals.getD i (0, 0, 0)) (inp.normals.getD i (0, 0, 0)) = 1
  energy : ∀ i, i < inp.normals.size → inp.energies.getD i 0 ≠ 0
  inRange : ∀ s ∈ inp.simplices, s.1 < inp.normals.size ∧ s.2.1 < inp.normals.size ∧ s.2.2 < inp.normals.size
  nondeg : ∀ s ∈ inp.simplices,
    dot (simplexNormal (inp.dualAt s.1) (inp.dualAt s.2.1) (inp.dualAt s.2.2)) (inp.normals.getD s.1 (0, 0, 0)) ≠ 0

/-- **the constructed facets**: every vertex that `construct` lists for facet `f` lies ON the plane of that facet,
`n_f · v = e_f` — so each vertex lies on (at least) the three facets of its dual simplex, and the polygon of a
facet is planar with the facet's own normal -/
theorem construct_vertex_on_facet (inp : Input) (thr2 : Rat) (hw : WellFormed inp) (f idx : Nat) (hf : f < inp.normals.size)
    (hidx : idx ∈ (construct inp thr2).facets.getD f []) :
    dot (inp.normals.getD f (0, 0, 0)) ((construct inp thr2).vertices.getD idx (0, 0, 0)) = inp.energies.getD f 0 := by
  simp only [construct] at hidx ⊢
  rw [List.getD_eq_getElem?_getD, List.getElem?_map] at hidx
  have hlen : f < (facetsOf inp.normals.size inp.simplices).length := by simp [facetsOf, hf]
  have hz : (facetsOf inp.normals.size inp.simplices).zipIdx[f]? = some ((facetsOf inp.normals.size inp.simplices)[f], f) := by
    rw [List.getElem?_zipIdx]; simp [hlen]
  rw [hz] at hidx
  simp only [Option.map_some, Option.getD_some] at hidx
  have hmem := orderFacet_subset _ _ _ _ idx hidx
  have hmem' : idx ∈ (facetsOf inp.normals.size inp.simplices).getD f [] := by
    rw [List.getD_eq_getElem?_getD, List.getElem?_eq_getElem hlen]; simpa using hmem
  obtain ⟨s, hs, hcorner⟩ := (facetsOf_mem _ _ f idx hf).mp hmem'
  have hsm : s ∈ inp.simplices := List.mem_of_getElem? hs
  have hv : (vertices inp).getD idx (0, 0, 0)
      = vertexOf (inp.normals.getD s.1 (0, 0, 0)) (inp.energies.getD s.1 0) (inp.dualAt s.1) (inp.dualAt s.2.1) (inp.dualAt s.2.2) := by
    rw [List.getD_eq_getElem?_getD, vertices, List.getElem?_map, hs]; rfl
  rw [hv]
  obtain ⟨r0, r1, r2⟩ := hw.inRange s hsm
  have := vertex_on_facets (inp.normals.getD s.1 (0, 0, 0)) (inp.normals.getD s.2.1 (0, 0, 0)) (inp.normals.getD s.2.2 (0, 0, 0))
    (inp.energies.getD s.1 0) (inp.energies.getD s.2.1 0) (inp.energies.getD s.2.2 0)
    (hw.unit _ r0) (hw.unit _ r1) (hw.unit _ r2) (hw.energy _ r0) (hw.energy _ r1) (hw.energy _ r2) (hw.nondeg s hsm)
  simp only [Input.dualAt] at this ⊢
  rcases hcorner with h | h | h <;> subst h
  · exact this.1
  · exact this.2.1
  · exact this.2.2

/-- what the convex hull of the dual points guarantees (Qhull, trusted; re-validated numerically by the oracle):
every dual point lies on the origin's side of the plane of every hull simplex -/
def HullProperty (inp : Input) : Prop :=
  ∀ s ∈ inp.simplices, ∀ i, i < inp.normals.size →
    (dot (simplexNormal (inp.dualAt s.1) (inp.dualAt s.2.1) (inp.dualAt s.2.2)) (inp.dualAt i)
      - dot (simplexNormal (inp.dualAt s.1) (inp.dualAt s.2.1) (inp.dualAt s.2.2)) (inp.dualAt s.1))
    * dot (simplexNormal (inp.dualAt s.1) (inp.dualAt s.2.1) (inp.dualAt s.2.2)) (inp.dualAt s.1) ≤ 0

/-- **the constructed shape lies inside every half-space**: all vertices satisfy all facet inequalities -/
theorem construct_feasible (inp : Input) (thr2 : Rat) (hw : WellFormed inp)
    (hpos : ∀ i, i < inp.normals.size → 0 < inp.energies.getD i 0) (hull : HullProperty inp) :
    ∀ v ∈ (construct inp thr2).vertices, ∀ i, i < inp.normals.size →
      dot (inp.normals.getD i (0, 0, 0)) v ≤ inp.energies.getD i 0 := by
  intro v hv i hi
  simp only [construct, vertices, List.mem_map] at hv
  obtain ⟨s, hs, rfl⟩ := hv
  obtain ⟨r0, _, _⟩ := hw.inRange s hs
  have hd := hw.nondeg s hs
  have hh := hull s hs i hi
  simp only [Input.dualAt] at hd hh ⊢
  apply vertex_feasible _ _ _ _ _ _ _ _ (hw.unit _ r0) (hw.unit _ hi) (hw.energy _ r0) (hpos i hi) _ hh
  rw [dual_unit _ _ (hw.unit _ r0) (hw.energy _ r0), dot_smul_right]
  exact mul_ne_zero (one_div_ne_zero (hw.energy _ r0)) (by
    rw [dual_unit _ _ (hw.unit _ r0) (hw.energy _ r0)] at hd; exact hd)

/-! non-vacuity: the unit cube (facets ±x, ±y, ±z with energy 1; the dual hull is the octahedron) -/
def cubeInput : Input where
  normals := #[(1,0,0), (-1,0,0), (0,1,0), (0,-1,0), (0,0,1), (0,0,-1)]
  energies := #[1, 1, 1, 1, 1, 1]
  simplices := [(0,2,4), (0,4,3), (0,3,5), (0,5,2), (1,4,2), (1,3,4), (1,5,3), (1,2,5)]

example : vertices cubeInput = [(1,1,1), (1,-1,1), (1,-1,-1), (1,1,-1), (-1,1,1), (-1,-1,1), (-1,-1,-1), (-1,1,-1)] := by
  decide +kernel


/-- the whole pipeline on the cube: facets ordered counter-clockwise seen from outside, 12 triangles -/
example : (construct cubeInput (1/10000000000)).facets = [[0, 1, 2, 3], [4, 7, 6, 5], [0, 3, 7, 4], [1, 5, 6, 2], [0, 4, 5, 1], [2, 6, 7, 3]]
    ∧ (construct cubeInput (1/10000000000)).triangles = [(0, 1, 2), (0, 2, 3), (4, 7, 6), (4, 6, 5), (0, 3, 7), (0, 7, 4), (1, 5, 6), (1, 6, 2),
        (0, 4, 5), (0, 5, 1), (2, 6, 7), (2, 7, 3)] := by
  decide +kernel

example : WellFormed cubeInput where
  sizes := rfl
  unit := by decide +kernel
  energy := by decide +kernel
  inRange := by decide +kernel
  nondeg := by decide +kernel

example : HullProperty cubeInput := by
  unfold HullProperty; decide +kernel

end ChmpyVerif.Props.C19
