import ChmpyVerif.Props.C11Spell
namespace ChmpyVerif.Props.C11
/-- every spelling of every row with translation digit 7 is read back as that row -/
theorem spell_k7 : ∀ r ∈ rows27, ∀ s ∈ spellings r 7, rowOk s r 7 = true := by
  decide +kernel
end ChmpyVerif.Props.C11
