/-
C14 / C13: WHICH space groups can be switched between hexagonal and rhombohedral axes is read off the regenerated table, not asked of
the code under test: exactly the seven R-lattice groups 146, 148, 155, 160, 161, 166, 167 have a setting with choice "R" and one with
choice "H" (kernel-checked over all 530 settings). The harness uses this list to decide whether a refused switch is a failure.
-/
import ChmpyVerif.Props.C02

namespace ChmpyVerif.Props.C14
open ChmpyVerif.SG ChmpyVerif.Gen

/-- numbers of the settings whose choice is the single letter with code point `ch` -/
def numbersWithChoice (ch : Nat) : List Nat := (sgTable.filter fun e => e.choice == [ch]).map (·.number)

/-- **the groups with a rhombohedral-axes setting are exactly the seven R-lattice groups, and each has a hexagonal-axes setting too** -/
theorem both_settings_groups :
    numbersWithChoice 82 = [146, 148, 155, 160, 161, 166, 167] ∧ numbersWithChoice 72 = [146, 148, 155, 160, 161, 166, 167] := by
  constructor <;> decide +kernel

end ChmpyVerif.Props.C14
