/-
C10 — saving a crystal and loading it back reproduces the same structure.
The dispatch maps, the SHELX keyword table and the format specs are GENERATED from crystal.py,
fmt/shelx.py and ext/vasp.py.  The symmetry part of the round trip rests on C11 (string ↔ operation)
and C02 (lookup from the full / reduced operation list), the CIF text layer on C15, numbers on C16.
-/
import ChmpyVerif.Gen.CrystalIO
import ChmpyVerif.Lemmas.MolIO

namespace ChmpyVerif.Props.C10
open ChmpyVerif.MolIO ChmpyVerif.PyStr ChmpyVerif.Gen
open ChmpyVerif.SymOp (roundHalfEven)

def nm (s : String) : List Nat := s.toList.map Char.toNat

/-- which writer and which reader a file name selects (independent statement of the intended pairing) -/
theorem save_load_dispatch :
    extSave = [(nm ".cif", nm "to_cif_file"), (nm ".res", nm "to_shelx_file")] ∧
    fnameSave = [(nm "POSCAR", nm "to_poscar_file"), (nm "CONTCAR", nm "to_poscar_file")] ∧
    (extLoad.lookup (nm ".cif") = some (nm "from_cif_file")) ∧ (extLoad.lookup (nm ".res") = some (nm "from_shelx_file")) ∧
    (fnameLoad.lookup (nm "POSCAR") = some (nm "from_vasp_file")) ∧ (fnameLoad.lookup (nm "CONTCAR") = some (nm "from_vasp_file")) ∧
    -- an unknown extension is in neither map (KeyError)
    (extSave.lookup (nm ".xyz") = none ∧ extLoad.lookup (nm ".xyz") = none) := by
  decide +kernel

/-- every SHELX keyword has letters at positions 1 and 2 (kernel-checked on the regenerated table) … -/
theorem shelx_keys_letters : shelxKeys.all (fun k => k.length == 4 && isLetterA (k.getD 1 0) && isLetterA (k.getD 2 0)) = true := by
  decide +kernel

/-- the 4-character dispatch key of a line, upper-cased (`line[:4].upper()`) -/
def lineKey (line : List Ch) : List Ch := (line.take 4).map toUpperA

/-- … so an atom label "element symbol + digits" (1–2 letters, then a digit) can never be mistaken for a keyword
or for `END`, whatever follows it on the line -/
theorem shelx_label_never_keyword (sym : List Ch) (d : Ch) (rest : List Ch)
    (hlen : sym.length = 1 ∨ sym.length = 2) (hd : isDigitA d = true) :
    lineKey (sym ++ d :: rest) ∉ shelxKeys ∧ lineKey (sym ++ d :: rest) ≠ nm "END" := by
  have hup : toUpperA d = d := by unfold isDigitA at hd; unfold toUpperA isLowerA; grind
  have hnl : isLetterA d = false := by unfold isDigitA at hd; unfold isLetterA isUpperA isLowerA; grind
  have hk := shelx_keys_letters
  rw [List.all_eq_true] at hk
  constructor
  · intro hmem
    have := hk _ hmem
    simp only [Bool.and_eq_true, beq_iff_eq] at this
    obtain ⟨⟨_, h1⟩, h2⟩ := this
    rcases hlen with h | h
    · obtain ⟨a, rfl⟩ : ∃ a, sym = [a] := by
        match sym, h with
        | [a], _ => exact ⟨a, rfl⟩
      simp [lineKey, hup, hnl] at h1
    · obtain ⟨a, b, rfl⟩ : ∃ a b, sym = [a, b] := by
        match sym, h with
        | [a, b], _ => exact ⟨a, b, rfl⟩
      simp [lineKey, hup, hnl] at h2
  · intro heq
    rcases hlen with h | h
    · obtain ⟨a, rfl⟩ : ∃ a, sym = [a] := by
        match sym, h with
        | [a], _ => exact ⟨a, rfl⟩
      have : (lineKey ([a] ++ d :: rest)).getD 1 0 = d := by simp [lineKey, hup]
      rw [heq] at this
      have : d = 78 := by simpa [nm] using this.symm
      subst this; simp [isDigitA] at hd
    · obtain ⟨a, b, rfl⟩ : ∃ a b, sym = [a, b] := by
        match sym, h with
        | [a, b], _ => exact ⟨a, b, rfl⟩
      have : (lineKey ([a, b] ++ d :: rest)).getD 2 0 = d := by simp [lineKey, hup]
      rw [heq] at this
      have : d = 68 := by simpa [nm] using this.symm
      subst this; simp [isDigitA] at hd

/-- the SHELX atom line: label and scattering-factor index in 3-wide fields, three ` 20.12f` coordinates (a blank
or a minus sign in front of each), single blanks between the fields — so `split()` recovers five tokens -/
theorem shelx_atom_format :
    shelxAtomWriter = [.field (nm "arg0") 0 3 0 (nm "s"), .lit [32], .field (nm "arg1") 0 3 0 (nm "s"), .lit [32],
      .field (nm "arg2") 1 20 12 (nm "f"), .lit [32], .field (nm "arg3") 1 20 12 (nm "f"), .lit [32],
      .field (nm "arg4") 1 20 12 (nm "f")] := by
  decide +kernel

/-- coordinates written to a .res file are read back as the value rounded to 12 decimals -/
theorem shelx_coord_roundtrip (x : Rat) :
    parseFloat (fmtFixed 1 20 12 x) = some (((roundHalfEven (x * (10 : Rat) ^ 12) : Int) : Rat) / (10 : Rat) ^ 12) :=
  parseFloat_fmtFixed_space 20 12 x (by decide)

/-- cell parameters are written with 6 decimals: read back within 5·10⁻⁷ -/
theorem shelx_cell_precision (x : Rat) :
    shelxCellDecimals = 6 ∧
    |((roundHalfEven (x * (10 : Rat) ^ 6) : Int) : Rat) / (10 : Rat) ^ 6 - x| ≤ 1 / (2 * (10 : Rat) ^ 6) := by
  refine ⟨by decide, ?_⟩
  have hpos : (0 : Rat) < (10 : Rat) ^ 6 := by positivity
  have h := roundHalfEven_error (x * (10 : Rat) ^ 6)
  have e : ((roundHalfEven (x * (10 : Rat) ^ 6) : Int) : Rat) / (10 : Rat) ^ 6 - x
      = (((roundHalfEven (x * (10 : Rat) ^ 6) : Int) : Rat) - x * (10 : Rat) ^ 6) / (10 : Rat) ^ 6 := by
    field_simp
  rw [e, abs_div, abs_of_pos hpos, div_le_div_iff₀ hpos (by positivity)]
  calc |((roundHalfEven (x * (10 : Rat) ^ 6) : Int) : Rat) - x * (10 : Rat) ^ 6| * (2 * (10 : Rat) ^ 6)
      ≤ 1 / 2 * (2 * (10 : Rat) ^ 6) := by apply mul_le_mul_of_nonneg_right h; positivity
    _ = 1 * (10 : Rat) ^ 6 := by ring

/-- POSCAR rows are three `12.8f` fields separated by a blank; each is read back as the value rounded to 8
decimals, and is exactly 12 wide whenever |value| < 100 (lattice vectors and fractional coordinates) -/
theorem poscar_row_format (x : Rat) :
    poscarRowWriter = [.field [120] 0 12 8 (nm "f"), .lit [32], .field [121] 0 12 8 (nm "f"), .lit [32], .field [122] 0 12 8 (nm "f")] ∧
    parseFloat (fmtFixed 0 12 8 x) = some (((roundHalfEven (x * (10 : Rat) ^ 8) : Int) : Rat) / (10 : Rat) ^ 8) ∧
    ((fixedParts 8 x).2.1 < 10 ^ 2 → (fmtFixed 0 12 8 x).length = 12) := by
  refine ⟨by decide +kernel, parseFloat_fmtFixed' 12 8 x (by decide), ?_⟩
  intro h
  exact fmtFixed_width' 12 8 2 x (by decide) (by decide) h (by decide)

/-! non-vacuity -/
example : lineKey (nm "C1    2  0.1") = nm "C1  " ∧ lineKey (nm "Mo12 1") = nm "MO12" := by decide +kernel

end ChmpyVerif.Props.C10
