/-
C13 — re-expressing a crystal (P1, supercell, trigonal axes) preserves the structure.
`tFromR`, `tFromH`, `supercellFromVectors` are GENERATED from crystal.py; the R-lattice settings come from
the regenerated space-group table.
-/
import ChmpyVerif.Gen.Trigonal
import ChmpyVerif.Gen.SGData
import ChmpyVerif.Model.Reexpress
import Mathlib.LinearAlgebra.Matrix.Determinant.Basic
import Mathlib.Data.Matrix.Mul
import Mathlib.Tactic.Linarith
import Mathlib.Tactic.FieldSimp
import Mathlib.Tactic.Ring

namespace ChmpyVerif.Props.C13
open ChmpyVerif.Reexpress ChmpyVerif.Gen ChmpyVerif.SG

/-- the two basis changes of `choose_trigonal_lattice` are mutually inverse -/
theorem trig_T_inverse : matMul tFromH tFromR = ident ∧ matMul tFromR tFromH = ident := by decide +kernel

def entryOf (n : Nat) (choice : List Nat) : List Nat :=
  ((sgTable.find? fun e => e.number == n && e.choice == choice).map (·.symops)).getD []

/-- for every one of the seven R-lattice groups, the tabulated hexagonal-axes operations re-expressed on
rhombohedral axes (cell `T_H→R · D`) are exactly the tabulated rhombohedral-axes operations, three H operations
per R operation — so both settings describe the same symmetry -/
theorem trigonal_ops_conjugate :
    ([146, 148, 155, 160, 161, 166, 167].all fun n =>
      trigonalConsistent tFromH tFromR (entryOf n [72]) (entryOf n [82]) && !(entryOf n [82]).isEmpty) = true := by
  decide +kernel

/-- the supercell constructors scale the lattice VECTORS (`diag(n)·direct`), the hypothesis of `supercell_same_crystal` -/
theorem supercell_uses_vectors : supercellFromVectors = [1, 1] := by decide

/-! ### general algebra (any commutative ring / field of coordinates) -/
open Matrix

/-- switching to the other trigonal setting and back restores the cell exactly -/
theorem trigonal_roundtrip {K : Type} [CommRing K] (T1 T2 D : Matrix (Fin 3) (Fin 3) K) (h : T2 * T1 = 1) :
    T2 * (T1 * D) = D := by
  rw [← Matrix.mul_assoc, h, Matrix.one_mul]

/-- … and the fractional coordinates: positions are carried through Cartesian space, `f' = (f·D)·(T·D)⁻¹` -/
theorem trigonal_coords_roundtrip {K : Type} [CommRing K] (T1 T2 D Dinv : Matrix (Fin 3) (Fin 3) K) (f : Fin 3 → K)
    (hT : T1 * T2 = 1) (hD : D * Dinv = 1) :
    -- inverse of the new cell `T1·D` is `Dinv·T2`; going there and back with `T2·(T1·D) = D`
    ((f ᵥ* D) ᵥ* (Dinv * T2)) ᵥ* (T1 * D) = f ᵥ* D ∧ (((f ᵥ* D) ᵥ* (Dinv * T2)) ᵥ* (T1 * D)) ᵥ* Dinv = f := by
  have h1 : ((f ᵥ* D) ᵥ* (Dinv * T2)) ᵥ* (T1 * D) = f ᵥ* D := by
    rw [Matrix.vecMul_vecMul, Matrix.vecMul_vecMul]
    have : D * (Dinv * T2) * (T1 * D) = D := by
      calc D * (Dinv * T2) * (T1 * D) = (D * Dinv) * (T2 * T1) * D := by simp only [Matrix.mul_assoc]
        _ = D := by
          rw [hD, Matrix.one_mul]
          have : T2 * T1 = 1 := mul_eq_one_comm.mp hT
          rw [this, Matrix.one_mul]
    simp only [Matrix.mul_assoc] at this ⊢
    rw [this]
  refine ⟨h1, ?_⟩
  rw [h1, Matrix.vecMul_vecMul, hD, Matrix.vecMul_one]

/-- every lattice index splits uniquely into a supercell index and an offset inside the supercell -/
theorem supercell_index_unique (n : ℕ) (hn : 0 < n) (k : ℤ) :
    ∃! p : ℤ × ℤ, (0 ≤ p.2 ∧ p.2 < n) ∧ k = n * p.1 + p.2 := by
  have hn' : (0 : ℤ) < n := by exact_mod_cast hn
  refine ⟨(k / n, k % n), ⟨⟨Int.emod_nonneg _ hn'.ne', Int.emod_lt_of_pos _ hn'⟩, by have := Int.emod_add_mul_ediv k n; simp only; linarith⟩, ?_⟩
  rintro ⟨m, q⟩ ⟨⟨h0, h1⟩, hk⟩
  simp only at h0 h1 hk
  have hq : k % n = q := by
    rw [hk, Int.mul_add_emod_self_left]; exact Int.emod_eq_of_lt h0 h1
  have hm : k / n = m := by
    rw [hk, Int.mul_add_ediv_left _ _ hn'.ne', Int.ediv_eq_zero_of_lt h0 h1, add_zero]
  simp [hq, hm]

/-- **same infinite arrangement**: with the supercell built from the scaled lattice vectors `D' = diag(n)·D`,
the image `x + k·D` of an atom (any lattice vector `k`) is the supercell atom `x + q·D` displaced by the supercell
lattice vector `m·D'`, where `kᵢ = nᵢ·mᵢ + qᵢ` — hence (with `supercell_index_unique`) both descriptions
generate the same periodic set, each atom exactly once -/
theorem supercell_same_crystal {K : Type} [CommRing K] (D : Matrix (Fin 3) (Fin 3) K) (n m q k : Fin 3 → K) (x : Fin 3 → K)
    (hk : ∀ i, k i = n i * m i + q i) :
    x + k ᵥ* D = (x + q ᵥ* D) + m ᵥ* (Matrix.diagonal n * D) := by
  have hd : m ᵥ* Matrix.diagonal n = fun i => m i * n i := by
    funext i; exact Matrix.vecMul_diagonal m n i
  rw [← Matrix.vecMul_vecMul, hd, add_assoc, ← Matrix.add_vecMul]
  congr 2
  funext i
  simp only [Pi.add_apply, hk i]
  ring

/-- the supercell volume is `n₁n₂n₃` times the cell volume … -/
theorem supercell_volume {K : Type} [CommRing K] (D : Matrix (Fin 3) (Fin 3) K) (n : Fin 3 → K) :
    (Matrix.diagonal n * D).det = n 0 * n 1 * n 2 * D.det := by
  rw [Matrix.det_mul, Matrix.det_diagonal, Fin.prod_univ_three]

/-- … so with `n₁n₂n₃` times the atoms the density is unchanged -/
theorem density_invariant (mass vol : ℚ) (N : ℚ) (hN : N ≠ 0) (hv : vol ≠ 0) :
    (N * mass) / (N * vol) = mass / vol := by
  field_simp

/-! non-vacuity: R-3 (148) has 18 operations on hexagonal axes and 6 on rhombohedral axes -/
example : (entryOf 148 [72]).length = 18 ∧ (entryOf 148 [82]).length = 6 := by decide +kernel

end ChmpyVerif.Props.C13
