import ChmpyVerif.Props.C11Spell
namespace ChmpyVerif.Props.C11
/-- every spelling of every row with translation digit 5 is read back as that row -/
theorem spell_k5 : ∀ r ∈ rows27, ∀ s ∈ spellings r 5, rowOk s r 5 = true := by
  decide +kernel
end ChmpyVerif.Props.C11
