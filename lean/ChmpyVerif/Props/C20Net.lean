/-
C20, the (0,m,2)-net property of the first two Sobol coordinates, for every m ≤ 12 (the property's whole stated range):
for every split a + b = m, each of the 2^m elementary boxes of size 2^-a × 2^-b contains exactly one of the first 2^m points.
The kernel evaluates, for the direction numbers built from the regenerated table, a bit mask of the boxes hit — by a
divide-and-conquer recursion of depth m that rests on the proved block structure `X[2^k + r] = X[2^k] xor X[r]` — and a
bit-mask lemma turns "all 2^m boxes hit by 2^m points" into "exactly one each".
-/
import ChmpyVerif.Props.C20Strat
import Mathlib.Data.List.Perm.Subperm
import Mathlib.Data.List.Range

namespace ChmpyVerif.Props.C20
open ChmpyVerif.Sobol

/-- `X[2^k - 1]` and `X[2^k]`, by doubling -/
def lastPt (V : List Nat) : Nat → Nat
  | 0 => 0
  | k + 1 => (lastPt V k ^^^ V.getD (k + 1) 0) ^^^ lastPt V k

def pivotPt (V : List Nat) (k : Nat) : Nat := lastPt V k ^^^ V.getD (k + 1) 0

theorem pivot_last_spec (V : List Nat) (k : Nat) (hk : k ≤ 64) :
    lastPt V k = xSeq V (2 ^ k - 1) ∧ pivotPt V k = xSeq V (2 ^ k) := by
  induction k with
  | zero => simp [lastPt, pivotPt, xSeq, cIdx, trailingOnes, xor_eq]
  | succ k ih =>
    obtain ⟨hl, hp⟩ := ih (by omega)
    have hpos : 0 < 2 ^ k := by positivity
    have hlast : lastPt V (k + 1) = xSeq V (2 ^ (k + 1) - 1) := by
      have e : 2 ^ (k + 1) - 1 = 2 ^ k + (2 ^ k - 1) := by rw [Nat.pow_succ]; omega
      rw [e, xSeq_second_half V k (2 ^ k - 1) (by omega), ← hp, ← hl]
      rfl
    refine ⟨hlast, ?_⟩
    unfold pivotPt
    rw [hlast]
    have hpos1 : 0 < 2 ^ (k + 1) := by positivity
    have e2 : 2 ^ (k + 1) = (2 ^ (k + 1) - 1) + 1 := by omega
    have step : xSeq V ((2 ^ (k + 1) - 1) + 1) = xSeq V (2 ^ (k + 1) - 1) ^^^ V.getD (cIdx (2 ^ (k + 1) - 1)) 0 := rfl
    rw [cIdx_pow_sub_one (k + 1) hk] at step
    rw [← step, ← e2]

/-- index of the elementary box (2^-a × 2^-b) of the point with coordinates x/2^32, y/2^32 -/
def boxCode (a b x y : Nat) : Nat := (x >>> (32 - a)) * 2 ^ b + (y >>> (32 - b))

/-- mask of the boxes hit by the block of 2^k points translated (xor) by (c0, c1) -/
def maskBlock (A B : List Nat) (a b : Nat) : Nat → Nat → Nat → Nat
  | 0, c0, c1 => 2 ^ boxCode a b c0 c1
  | k + 1, c0, c1 => maskBlock A B a b k c0 c1 ||| maskBlock A B a b k (c0 ^^^ pivotPt A k) (c1 ^^^ pivotPt B k)

/-- bitwise or of `f 0 … f (n-1)` -/
def orUpTo (f : Nat → Nat) : Nat → Nat
  | 0 => 0
  | n + 1 => orUpTo f n ||| f n

theorem orUpTo_add (f : Nat → Nat) (n m : Nat) : orUpTo f (n + m) = orUpTo f n ||| orUpTo (fun r => f (n + r)) m := by
  induction m with
  | zero => simp [orUpTo]
  | succ m ih => rw [← Nat.add_assoc]; simp only [orUpTo]; rw [ih, Nat.or_assoc]

theorem orUpTo_congr (f g : Nat → Nat) (n : Nat) (h : ∀ r, r < n → f r = g r) : orUpTo f n = orUpTo g n := by
  induction n with
  | zero => rfl
  | succ n ih => simp only [orUpTo]; rw [ih (fun r hr => h r (by omega)), h n (by omega)]

theorem maskBlock_spec (A B : List Nat) (a b k : Nat) (hk : k ≤ 64) (c0 c1 : Nat) :
    maskBlock A B a b k c0 c1 = orUpTo (fun r => 2 ^ boxCode a b (c0 ^^^ xSeq A r) (c1 ^^^ xSeq B r)) (2 ^ k) := by
  induction k generalizing c0 c1 with
  | zero => simp [maskBlock, orUpTo, xSeq]
  | succ k ih =>
    simp only [maskBlock]
    rw [ih (by omega), ih (by omega), Nat.pow_succ, Nat.mul_two, orUpTo_add]
    congr 1
    apply orUpTo_congr
    intro r hr
    rw [xSeq_second_half A k r hr, xSeq_second_half B k r hr, (pivot_last_spec A k (by omega)).2, (pivot_last_spec B k (by omega)).2,
      Nat.xor_assoc, Nat.xor_assoc]

theorem testBit_orUpTo (g : Nat → Nat) (n i : Nat) : (orUpTo (fun r => 2 ^ g r) n).testBit i = decide (∃ r, r < n ∧ g r = i) := by
  induction n with
  | zero => simp [orUpTo]
  | succ n ih =>
    simp only [orUpTo, Nat.testBit_or, ih, Nat.testBit_two_pow]
    by_cases h1 : ∃ r, r < n ∧ g r = i
    · obtain ⟨r, hr, hg⟩ := h1
      have : ∃ r, r < n + 1 ∧ g r = i := ⟨r, by omega, hg⟩
      simp [show (∃ r, r < n ∧ g r = i) from ⟨r, hr, hg⟩, this]
    · by_cases h2 : g n = i
      · have : ∃ r, r < n + 1 ∧ g r = i := ⟨n, by omega, h2⟩
        simp [h1, h2, this]
      · have : ¬ ∃ r, r < n + 1 ∧ g r = i := by
          rintro ⟨r, hr, hg⟩
          rcases Nat.lt_succ_iff_lt_or_eq.mp hr with hlt | rfl
          · exact h1 ⟨r, hlt, hg⟩
          · exact h2 hg
        simp [h1, h2, this]

/-- `N` values that cover `0 … N-1` are a permutation of `0 … N-1`: each exactly once -/
theorem perm_of_cover (g : Nat → Nat) (N : Nat) (h : ∀ i, i < N → ∃ r, r < N ∧ g r = i) :
    ((List.range N).map g).Perm (List.range N) := by
  have hsub : List.range N ⊆ (List.range N).map g := by
    intro i hi
    obtain ⟨r, hr, hg⟩ := h i (List.mem_range.mp hi)
    exact List.mem_map.mpr ⟨r, List.mem_range.mpr hr, hg⟩
  have hsp : (List.range N).Subperm ((List.range N).map g) := List.subperm_of_subset (List.nodup_range) hsub
  exact (hsp.perm_of_length_le (by simp)).symm

/-- direction numbers of the first two coordinates, as the model builds them from the regenerated table -/
def V0 : List Nat := buildV0 12
def V1 : List Nat := buildV (Gen.sobolTable.getD 2 []) 12

def netOk (m a : Nat) : Bool := maskBlock V0 V1 a (m - a) m 0 0 == 2 ^ (2 ^ m) - 1

theorem net_check_lo : (List.range 9).all (fun m => (List.range (m + 1)).all (fun a => netOk m a)) = true := by decide +kernel
theorem net_check_9 : (List.range 10).all (fun a => netOk 9 a) = true := by decide +kernel
theorem net_check_10 : (List.range 11).all (fun a => netOk 10 a) = true := by decide +kernel
theorem net_check_11 : (List.range 12).all (fun a => netOk 11 a) = true := by decide +kernel
theorem net_check_12 : (List.range 13).all (fun a => netOk 12 a) = true := by decide +kernel

theorem net_check (m a : Nat) (hm : m ≤ 12) (ha : a ≤ m) : netOk m a = true := by
  rcases Nat.lt_or_ge m 9 with hlt | hge
  · have := net_check_lo
    rw [List.all_eq_true] at this
    have h1 := this m (List.mem_range.mpr hlt)
    rw [List.all_eq_true] at h1
    exact h1 a (List.mem_range.mpr (by omega))
  · have h9 := net_check_9; have h10 := net_check_10; have h11 := net_check_11; have h12 := net_check_12
    rw [List.all_eq_true] at h9 h10 h11 h12
    have hcases : m = 9 ∨ m = 10 ∨ m = 11 ∨ m = 12 := by omega
    rcases hcases with rfl | rfl | rfl | rfl
    · exact h9 a (List.mem_range.mpr (by omega))
    · exact h10 a (List.mem_range.mpr (by omega))
    · exact h11 a (List.mem_range.mpr (by omega))
    · exact h12 a (List.mem_range.mpr (by omega))

/-- **(0,m,2)-net**: for every m ≤ 12 and every split a + (m - a) = m, the elementary-box indices of the first 2^m points
(coordinates 0 and 1 of the model's Sobol sequence) are a permutation of 0 … 2^m - 1: each box holds exactly one point -/
theorem sobol_net (m a : Nat) (hm : m ≤ 12) (ha : a ≤ m) :
    ((List.range (2 ^ m)).map fun n => boxCode a (m - a) (xSeq V0 n) (xSeq V1 n)).Perm (List.range (2 ^ m)) := by
  have h := net_check m a hm ha
  unfold netOk at h
  have hmask : maskBlock V0 V1 a (m - a) m 0 0 = 2 ^ (2 ^ m) - 1 := by simpa using h
  rw [maskBlock_spec V0 V1 a (m - a) m (by omega) 0 0] at hmask
  simp only [Nat.zero_xor] at hmask
  apply perm_of_cover
  intro i hi
  have := testBit_orUpTo (fun r => boxCode a (m - a) (xSeq V0 r) (xSeq V1 r)) (2 ^ m) i
  rw [hmask, Nat.testBit_two_pow_sub_one] at this
  simpa [hi] using this.symm

end ChmpyVerif.Props.C20
