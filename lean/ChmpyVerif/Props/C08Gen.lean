/-
C08, general rotations: the bispectrum (P) term is invariant under ANY transformation of the coefficients that
 (H_rot) acts on the three degrees by matrices U, U1, U2 with U unitary, and
 (H_cg)  is intertwined by the coupling tensor G (the Clebsch–Gordan coefficients):
         Σ_{a',b'} G m a' b' · U1 a' a · U2 b' b = Σ_{m'} U m m' · G m' a b.
Both are facts of the representation theory of SO(3) about Wigner matrices; they are hypotheses here (named, not proved).
What IS proved is that nothing else is needed: the algebra of `invariant_P_c` does the rest.
-/
import Mathlib.Algebra.Star.Basic
import Mathlib.Algebra.Star.BigOperators
import Mathlib.Algebra.BigOperators.Ring.Finset
import Mathlib.Algebra.BigOperators.Group.Finset.Sigma
import Mathlib.Tactic.Ring

namespace ChmpyVerif.Props.C08
open Finset
set_option linter.unusedSectionVars false

variable {R : Type} [CommRing R] [StarRing R]
variable {ι ι1 ι2 : Type} [Fintype ι] [Fintype ι1] [Fintype ι2] [DecidableEq ι]

/-- `invariant_P_c` for one triple of degrees: `Σ_m conj(c m) · Σ_{a,b} G m a b · c1 a · c2 b` -/
def pGen (G : ι → ι1 → ι2 → R) (c : ι → R) (c1 : ι1 → R) (c2 : ι2 → R) : R :=
  ∑ m, star (c m) * ∑ a, ∑ b, G m a b * c1 a * c2 b

theorem sum4_reorder {α β : Type} [Fintype α] [Fintype β] (F : α → β → α → β → R) :
    ∑ a', ∑ b', ∑ a, ∑ b, F a' b' a b = ∑ a, ∑ b, ∑ a', ∑ b', F a' b' a b := by
  calc ∑ a', ∑ b', ∑ a, ∑ b, F a' b' a b
      = ∑ a', ∑ a, ∑ b', ∑ b, F a' b' a b := by
        apply sum_congr rfl; intro a' _; exact sum_comm
    _ = ∑ a, ∑ a', ∑ b', ∑ b, F a' b' a b := sum_comm
    _ = ∑ a, ∑ a', ∑ b, ∑ b', F a' b' a b := by
        apply sum_congr rfl; intro a _; apply sum_congr rfl; intro a' _; exact sum_comm
    _ = ∑ a, ∑ b, ∑ a', ∑ b', F a' b' a b := by
        apply sum_congr rfl; intro a _; exact sum_comm

theorem sum3_rotate {α β γ : Type} [Fintype α] [Fintype β] [Fintype γ] (F : α → β → γ → R) :
    ∑ a, ∑ b, ∑ m, F a b m = ∑ m, ∑ a, ∑ b, F a b m := by
  calc ∑ a, ∑ b, ∑ m, F a b m = ∑ a, ∑ m, ∑ b, F a b m := by
        apply sum_congr rfl; intro a _; exact sum_comm
    _ = ∑ m, ∑ a, ∑ b, F a b m := sum_comm

/-- **invariance of the bispectrum under a general rotation**, from unitarity (H_rot) and the intertwining property of the
coupling coefficients (H_cg) -/
theorem P_rotation_invariant (G : ι → ι1 → ι2 → R) (U : ι → ι → R) (U1 : ι1 → ι1 → R) (U2 : ι2 → ι2 → R)
    (hU : ∀ x y, ∑ m, star (U m x) * U m y = if x = y then 1 else 0)
    (hcg : ∀ m a b, ∑ a', ∑ b', G m a' b' * U1 a' a * U2 b' b = ∑ m', U m m' * G m' a b)
    (c : ι → R) (c1 : ι1 → R) (c2 : ι2 → R) :
    pGen G (fun m => ∑ x, U m x * c x) (fun a' => ∑ a, U1 a' a * c1 a) (fun b' => ∑ b, U2 b' b * c2 b) = pGen G c c1 c2 := by
  unfold pGen
  -- the coupled product of the unrotated vectors, per order
  set T : ι → R := fun m' => ∑ a, ∑ b, G m' a b * c1 a * c2 b with hT
  -- step 1+2: the coupled product of the rotated vectors is U applied to T
  have inner : ∀ m, ∑ a', ∑ b', G m a' b' * (∑ a, U1 a' a * c1 a) * (∑ b, U2 b' b * c2 b) = ∑ m', U m m' * T m' := by
    intro m
    have e1 : ∀ a' b', G m a' b' * (∑ a, U1 a' a * c1 a) * (∑ b, U2 b' b * c2 b)
        = ∑ a, ∑ b, c1 a * c2 b * (G m a' b' * U1 a' a * U2 b' b) := by
      intro a' b'
      rw [mul_assoc, Finset.sum_mul_sum, Finset.mul_sum]
      apply sum_congr rfl; intro a _
      rw [Finset.mul_sum]
      apply sum_congr rfl; intro b _
      ring
    calc ∑ a', ∑ b', G m a' b' * (∑ a, U1 a' a * c1 a) * (∑ b, U2 b' b * c2 b)
        = ∑ a', ∑ b', ∑ a, ∑ b, c1 a * c2 b * (G m a' b' * U1 a' a * U2 b' b) := by
          apply sum_congr rfl; intro a' _; apply sum_congr rfl; intro b' _; exact e1 a' b'
      _ = ∑ a, ∑ b, ∑ a', ∑ b', c1 a * c2 b * (G m a' b' * U1 a' a * U2 b' b) :=
          sum4_reorder (fun a' b' a b => c1 a * c2 b * (G m a' b' * U1 a' a * U2 b' b))
      _ = ∑ a, ∑ b, c1 a * c2 b * ∑ m', U m m' * G m' a b := by
          apply sum_congr rfl; intro a _; apply sum_congr rfl; intro b _
          rw [← hcg m a b, Finset.mul_sum]
          apply sum_congr rfl; intro a' _
          rw [Finset.mul_sum]
      _ = ∑ a, ∑ b, ∑ m', U m m' * (G m' a b * c1 a * c2 b) := by
          apply sum_congr rfl; intro a _; apply sum_congr rfl; intro b _
          rw [Finset.mul_sum]; apply sum_congr rfl; intro m' _; ring
      _ = ∑ m', ∑ a, ∑ b, U m m' * (G m' a b * c1 a * c2 b) := by
          exact sum3_rotate (fun a b m' => U m m' * (G m' a b * c1 a * c2 b))
      _ = ∑ m', U m m' * T m' := by
          apply sum_congr rfl; intro m' _
          rw [hT, Finset.mul_sum]; apply sum_congr rfl; intro a _; rw [Finset.mul_sum]
  -- step 3: unitarity of U removes the rotation from the outer contraction
  calc ∑ m, star (∑ x, U m x * c x) * ∑ a', ∑ b', G m a' b' * (∑ a, U1 a' a * c1 a) * (∑ b, U2 b' b * c2 b)
      = ∑ m, star (∑ x, U m x * c x) * ∑ m', U m m' * T m' := by
        apply sum_congr rfl; intro m _; rw [inner m]
    _ = ∑ m, ∑ x, ∑ m', (star (c x) * T m') * (star (U m x) * U m m') := by
        apply sum_congr rfl; intro m _
        rw [star_sum, Finset.sum_mul_sum]
        apply sum_congr rfl; intro x _
        apply sum_congr rfl; intro m' _
        rw [star_mul']; ring
    _ = ∑ x, ∑ m', ∑ m, (star (c x) * T m') * (star (U m x) * U m m') := by
        rw [sum_comm]; apply sum_congr rfl; intro x _; exact sum_comm
    _ = ∑ x, ∑ m', (star (c x) * T m') * (if x = m' then 1 else 0) := by
        apply sum_congr rfl; intro x _; apply sum_congr rfl; intro m' _
        rw [← Finset.mul_sum, hU x m']
    _ = ∑ x, star (c x) * T x := by
        apply sum_congr rfl; intro x _
        simp

end ChmpyVerif.Props.C08
