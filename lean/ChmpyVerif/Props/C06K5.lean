import ChmpyVerif.Model.MC
namespace ChmpyVerif.Props.C06
open ChmpyVerif.MC ChmpyVerif.Gen.MC
theorem leaves_ok5 : leaves5.all leafOk = true := by decide +kernel
theorem faces_match5 : leaves5.all leafFacesMatch = true := by decide +kernel
theorem trees5 : ((List.range 32).map (· + 160)).all (fun cfg => isTree 16 ((leaves5.filter (·.cfg == cfg)).map (·.tests))) = true := by decide +kernel
end ChmpyVerif.Props.C06
