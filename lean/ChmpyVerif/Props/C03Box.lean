/-
C03, queries about SEVERAL centres (molecule environments, atom groups, per-site surroundings): the code accumulates one block of
cells over the centre atoms, `lo = min_k ⌊f_k − ρ⌋`, `hi = max_k ⌈f_k + ρ⌉` per axis (ρ = r·|a*|). Sufficient: every periodic
image within the radius of SOME centre lies in a cell of that block. Necessary: no block that omits the layer `⌊f_k − ρ⌋` or
`⌊f_k + ρ⌋` of some centre can be right for all crystals, because a point of the closed ball lies in that layer — this is the
criterion the correspondence check applies to the bounds the real code hands to `slab()`.
-/
import ChmpyVerif.Props.C03

namespace ChmpyVerif.Props.C03

/-- **sufficient**: bounds that dominate the per-centre bounds contain the cell of every image within ρ (per axis) of some centre -/
theorem union_box_sufficient (fs : List ℝ) (ρ u : ℝ) (n lo hi : ℤ)
    (hlo : ∀ f ∈ fs, lo ≤ ⌊f - ρ⌋) (hhi : ∀ f ∈ fs, ⌈f + ρ⌉ ≤ hi)
    (hu0 : 0 ≤ u) (hu1 : u < 1) (k : ℝ) (hk : k ∈ fs) (h : |u + n - k| ≤ ρ) : lo ≤ n ∧ n ≤ hi := by
  obtain ⟨h1, h2⟩ := cell_index_bounds u k ρ n hu0 hu1 h
  exact ⟨le_trans (hlo k hk) h1, le_trans h2 (hhi k hk)⟩

/-- the accumulated minimum / maximum (`np.minimum`, `np.maximum` over the centre atoms) dominate every per-centre bound -/
theorem foldl_min_le (g : ℝ → ℤ) (fs : List ℝ) (init : ℤ) : ∀ f ∈ fs, fs.foldl (fun acc x => min acc (g x)) init ≤ g f := by
  induction fs generalizing init with
  | nil => intro f hf; simp at hf
  | cons a as ih =>
    intro f hf
    simp only [List.foldl_cons]
    rcases List.mem_cons.mp hf with rfl | hf'
    · have : ∀ (l : List ℝ) (i : ℤ), l.foldl (fun acc x => min acc (g x)) i ≤ i := by
        intro l
        induction l with
        | nil => intro i; simp
        | cons b bs ihb => intro i; simp only [List.foldl_cons]; exact le_trans (ihb _) (min_le_left _ _)
      exact le_trans (this as _) (min_le_right _ _)
    · exact ih _ f hf'

theorem le_foldl_max (g : ℝ → ℤ) (fs : List ℝ) (init : ℤ) : ∀ f ∈ fs, g f ≤ fs.foldl (fun acc x => max acc (g x)) init := by
  induction fs generalizing init with
  | nil => intro f hf; simp at hf
  | cons a as ih =>
    intro f hf
    simp only [List.foldl_cons]
    rcases List.mem_cons.mp hf with rfl | hf'
    · have : ∀ (l : List ℝ) (i : ℤ), i ≤ l.foldl (fun acc x => max acc (g x)) i := by
        intro l
        induction l with
        | nil => intro i; simp
        | cons b bs ihb => intro i; simp only [List.foldl_cons]; exact le_trans (le_max_left _ _) (ihb _)
      exact le_trans (le_max_right _ _) (this as _)
    · exact ih _ f hf'

/-- the block the code accumulates is sufficient, whatever the start values of the accumulation -/
theorem accumulated_box_sufficient (fs : List ℝ) (ρ u : ℝ) (n i0 i1 : ℤ) (hu0 : 0 ≤ u) (hu1 : u < 1) (k : ℝ) (hk : k ∈ fs)
    (h : |u + n - k| ≤ ρ) :
    fs.foldl (fun acc x => min acc ⌊x - ρ⌋) i0 ≤ n ∧ n ≤ fs.foldl (fun acc x => max acc ⌈x + ρ⌉) i1 :=
  union_box_sufficient fs ρ u n _ _ (foldl_min_le (fun x => ⌊x - ρ⌋) fs i0) (le_foldl_max (fun x => ⌈x + ρ⌉) fs i1) hu0 hu1 k hk h

/-- **necessary (lower side)**: the layer `⌊f − ρ⌋` holds a point of the closed ball (per-axis measure) about `f` -/
theorem box_necessary_lo (f ρ : ℝ) (hρ : 0 ≤ ρ) : ∃ (u : ℝ) (n : ℤ), 0 ≤ u ∧ u < 1 ∧ |u + n - f| ≤ ρ ∧ n = ⌊f - ρ⌋ := by
  refine ⟨Int.fract (f - ρ), ⌊f - ρ⌋, Int.fract_nonneg _, Int.fract_lt_one _, ?_, rfl⟩
  have : Int.fract (f - ρ) + (⌊f - ρ⌋ : ℝ) = f - ρ := Int.fract_add_floor _
  rw [this, abs_le]
  constructor <;> linarith

/-- **necessary (upper side)**: the layer `⌊f + ρ⌋` holds a point of the closed ball about `f` -/
theorem box_necessary_hi (f ρ : ℝ) (hρ : 0 ≤ ρ) : ∃ (u : ℝ) (n : ℤ), 0 ≤ u ∧ u < 1 ∧ |u + n - f| ≤ ρ ∧ n = ⌊f + ρ⌋ := by
  refine ⟨Int.fract (f + ρ), ⌊f + ρ⌋, Int.fract_nonneg _, Int.fract_lt_one _, ?_, rfl⟩
  have : Int.fract (f + ρ) + (⌊f + ρ⌋ : ℝ) = f + ρ := Int.fract_add_floor _
  rw [this, abs_le]
  constructor <;> linarith

/-- the hypotheses are satisfiable: two centres at 0.3 and 2.6, ρ = 0.5, the image at 0.9 + 2 -/
example : ∃ (lo hi : ℤ), lo ≤ 2 ∧ (2 : ℤ) ≤ hi ∧ (∀ f ∈ [(0.3 : ℝ), 2.6], lo ≤ ⌊f - 0.5⌋) := by
  refine ⟨-1, 4, by norm_num, by norm_num, ?_⟩
  intro f hf
  simp only [List.mem_cons, List.mem_nil_iff, or_false] at hf
  rcases hf with rfl | rfl
  · rw [Int.le_floor]; norm_num
  · rw [Int.le_floor]; norm_num

end ChmpyVerif.Props.C03
