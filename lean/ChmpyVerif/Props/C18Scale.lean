/-
C18 is scale free: expressing both point sets in another unit (multiplying all coordinates by `t`) multiplies the covariance matrix
by `t²`, which has the SAME singular vectors, so the rotation the routine returns is the same matrix and is optimal for the rescaled
sets as well; the summed squared deviation scales by `t²` (the RMSD by `|t|`). No absolute threshold on the size of the data enters.
-/
import ChmpyVerif.Props.C18

namespace ChmpyVerif.Props.C18
open Matrix

/-- the factors of `M` are factors of `c • M` for `c ≥ 0`, with singular values `c • s` -/
theorem svdSpec_scale {M U Vt : M3} {s : Fin 3 → ℝ} (h : SvdSpec M U Vt s) (c : ℝ) (hc : 0 ≤ c) :
    SvdSpec (c • M) U Vt (c • s) := by
  refine ⟨h.hU, h.hV, ?_, ?_, ?_, ?_⟩
  · simpa using mul_le_mul_of_nonneg_left h.h01 hc
  · simpa using mul_le_mul_of_nonneg_left h.h12 hc
  · simpa using mul_nonneg hc h.h2
  · rw [h.hM]
    have : Matrix.diagonal (c • s) = c • Matrix.diagonal s := by
      ext i j
      by_cases hij : i = j
      · subst hij; simp
      · simp [Matrix.diagonal_apply_ne _ hij]
    rw [this, Matrix.mul_smul, Matrix.smul_mul]

variable {n : ℕ}

/-- the covariance of the rescaled sets is `t²` times the covariance -/
theorem covariance_scale (A B : Matrix (Fin n) (Fin 3) ℝ) (t : ℝ) : (t • A)ᵀ * (t • B) = (t * t) • (Aᵀ * B) := by
  rw [Matrix.transpose_smul, Matrix.smul_mul, Matrix.mul_smul, smul_smul]

/-- the summed squared deviation of the rescaled sets is `t²` times that of the original sets, for every candidate rotation -/
theorem residual_scale (A B : Matrix (Fin n) (Fin 3) ℝ) (Q : M3) (t : ℝ) : residual (t • A) (t • B) Q = (t * t) * residual A B Q := by
  unfold residual
  have : (t • A) * Q - t • B = t • (A * Q - B) := by rw [Matrix.smul_mul, smul_sub]
  rw [this, Matrix.transpose_smul, Matrix.smul_mul, Matrix.mul_smul, smul_smul, Matrix.trace_smul, smul_eq_mul]

/-- **the rotation computed from the original sets is optimal for the rescaled sets too** (any `t`, however small or large) -/
theorem kabsch_optimal_any_unit (A B : Matrix (Fin n) (Fin 3) ℝ) (U Vt : M3) (s : Fin 3 → ℝ) (h : SvdSpec (Aᵀ * B) U Vt s)
    (t : ℝ) (Q : M3) (hQ : IsO Q) (hQd : Q.det = 1) :
    residual (t • A) (t • B) (kabsch U Vt) ≤ residual (t • A) (t • B) Q := by
  rw [residual_scale, residual_scale]
  exact mul_le_mul_of_nonneg_left (kabsch_optimal A B U Vt s h Q hQ hQd) (mul_self_nonneg t)

/-- and the factors of the original covariance are a valid SVD of the rescaled covariance: the routine may return the same matrix -/
theorem svdSpec_any_unit (A B : Matrix (Fin n) (Fin 3) ℝ) (U Vt : M3) (s : Fin 3 → ℝ) (h : SvdSpec (Aᵀ * B) U Vt s) (t : ℝ) :
    SvdSpec ((t • A)ᵀ * (t • B)) U Vt ((t * t) • s) := by
  rw [covariance_scale]
  exact svdSpec_scale h (t * t) (mul_self_nonneg t)

end ChmpyVerif.Props.C18
