/-
C09, the analytic step: over ℝ, for a CONTINUOUS scalar function along the ray, a converged result of the root finder
(the same generic definition `Model/Brent.lean`, now instantiated at ℝ) lies within the tolerance of a true root.
-/
import ChmpyVerif.Props.C09
import Mathlib.Topology.Order.IntermediateValue
import Mathlib.Topology.Instances.Real.Lemmas
import Mathlib.Algebra.Order.Group.Pointwise.Interval

namespace ChmpyVerif.Props.C09
open ChmpyVerif.Brent Set

/-- **the radius solves the isovalue equation**: if `f` is continuous and the search reports convergence at `x`, there is a
point `t` with `f t = 0` and `|t - x| < xtol + tol·|x|` -/
theorem brent_converged_root (f : ℝ → ℝ) (hf : Continuous f) (lower upper xtol tol : ℝ) (n : ℕ)
    (hc : (brent f lower upper xtol tol n (-1)).status = .converged) (hpos : 0 < xtol + tol * |(brent f lower upper xtol tol n (-1)).x|) :
    ∃ t, f t = 0 ∧ |t - (brent f lower upper xtol tol n (-1)).x| < xtol + tol * |(brent f lower upper xtol tol n (-1)).x| := by
  rcases brent_converged f lower upper xtol tol n hc with h0 | ⟨hsign, hwidth⟩
  · exact ⟨_, h0, by simpa using hpos⟩
  · set x := (brent f lower upper xtol tol n (-1)).x
    set y := (brent f lower upper xtol tol n (-1)).partner
    have hmem : (0 : ℝ) ∈ Set.uIcc (f x) (f y) := by
      rcases mul_neg_iff.mp hsign with ⟨hx, hy⟩ | ⟨hx, hy⟩
      · rw [mem_uIcc]; right; exact ⟨le_of_lt hy, le_of_lt hx⟩
      · rw [mem_uIcc]; left; exact ⟨le_of_lt hx, le_of_lt hy⟩
    obtain ⟨t, ht, hft⟩ := intermediate_value_uIcc (hf.continuousOn) hmem
    exact ⟨t, hft, lt_of_le_of_lt (abs_sub_left_of_mem_uIcc ht) hwidth⟩

end ChmpyVerif.Props.C09
