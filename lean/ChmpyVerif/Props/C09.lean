/-
C09 — shape descriptors of a molecule do not depend on its pose or atom ordering.
The radial surface function is found by the Brent iteration `Model/Brent.lean`; here, with exact rationals:
the bracketing invariant (what the iteration returns is a sign change of width below the tolerance, or an exact
zero, or the "not found" sentinel exactly when there is no sign change between the bounds), and pose/order
independence of the radial function of the density model of C05.  Rotation invariance of the invariants computed
from the coefficients is C08; exactness of the transform is C07.
-/
import ChmpyVerif.Model.Brent
import ChmpyVerif.Props.C05
import Mathlib.Algebra.Order.Field.Rat
import Mathlib.Algebra.Order.AbsoluteValue.Basic
import Mathlib.Tactic.Linarith
import Mathlib.Tactic.Ring

namespace ChmpyVerif.Props.C09
open ChmpyVerif.Brent ChmpyVerif.Density
set_option linter.unusedSectionVars false

section generic
variable {K : Type} [Field K] [LinearOrder K] [IsStrictOrderedRing K]

theorem absK_eq (x : K) : absK x = |x| := by
  unfold absK
  split
  · rw [abs_of_neg (by assumption)]
  · rw [abs_of_nonneg (by linarith)]

/-- invariant at the head of the loop -/
def Inv (f : K → K) (s : St K) : Prop :=
  s.fcur = f s.xcur ∧ s.fpre = f s.xpre ∧
    (s.fpre * s.fcur < 0 ∨ (s.fblk = f s.xblk ∧ s.fblk * s.fcur < 0) ∨ s.fcur = 0)

/-- invariant after re-bracketing -/
def Mid (f : K → K) (s : St K) : Prop :=
  s.fcur = f s.xcur ∧ s.fpre = f s.xpre ∧ ((s.fblk = f s.xblk ∧ s.fblk * s.fcur < 0) ∨ s.fcur = 0)

theorem rebracket_mid (f : K → K) (s : St K) (h : Inv f s) : Mid f (rebracket s) := by
  obtain ⟨h1, h2, h3⟩ := h
  unfold rebracket
  split
  · rename_i hlt
    exact ⟨h1, h2, Or.inl ⟨h2, hlt⟩⟩
  · rename_i hn
    refine ⟨h1, h2, ?_⟩
    rcases h3 with h | h | h
    · exact absurd h hn
    · exact Or.inl h
    · exact Or.inr h

theorem swapBest_mid (f : K → K) (s : St K) (h : Mid f s) : Mid f (swapBest s) := by
  obtain ⟨h1, h2, h3⟩ := h
  unfold swapBest
  split
  · rename_i hlt
    rw [absK_eq, absK_eq] at hlt
    rcases h3 with ⟨hb, hs⟩ | h0
    · refine ⟨hb, h1, Or.inl ⟨h1, ?_⟩⟩
      simp only
      linarith [mul_comm s.fblk s.fcur]
    · rw [h0, abs_zero] at hlt
      exact absurd hlt (not_lt.mpr (abs_nonneg _))
  · exact ⟨h1, h2, h3⟩

theorem sign_transfer (a b c : K) (hab : a * b < 0) (hbc : ¬ b * c < 0) (hc : c ≠ 0) : a * c < 0 := by
  rcases mul_neg_iff.mp hab with ⟨ha, hb⟩ | ⟨ha, hb⟩
  · have : c < 0 := by
      by_contra hcon
      have hc' : 0 < c := lt_of_le_of_ne (not_lt.mp hcon) (Ne.symm hc)
      exact hbc (mul_neg_of_neg_of_pos hb hc')
    exact mul_neg_of_pos_of_neg ha this
  · have : 0 < c := by
      by_contra hcon
      have hc' : c < 0 := lt_of_le_of_ne (not_lt.mp hcon) hc
      exact hbc (mul_neg_of_pos_of_neg hb hc')
    exact mul_neg_of_neg_of_pos ha this

/-- the loop body returns only brackets below the tolerance (or exact zeros), and otherwise re-establishes `Inv` -/
theorem body_spec (f : K → K) (xtol tol : K) (s : St K) (h : Inv f s) :
    match body f xtol tol s with
    | .inl o => o.status = .converged ∧
        (f o.x = 0 ∨ (f o.x * f o.partner < 0 ∧ |o.partner - o.x| < xtol + tol * |o.x|))
    | .inr s' => Inv f s' := by
  have hm := swapBest_mid f _ (rebracket_mid f s h)
  unfold body
  generalize swapBest (rebracket s) = m at hm
  obtain ⟨m1, m2, m3⟩ := hm
  simp only
  by_cases hret : (m.fcur == 0) = true ∨ absK ((m.xblk - m.xcur) / 2) < (xtol + tol * absK m.xcur) / 2
  · rw [if_pos hret]
    refine ⟨by first | rfl | trivial, ?_⟩
    show f m.xcur = 0 ∨ (f m.xcur * f m.xblk < 0 ∧ |m.xblk - m.xcur| < xtol + tol * |m.xcur|)
    rcases hret with h0 | hs
    · left; rw [← m1]; simpa using h0
    · rcases m3 with ⟨hb, hsgn⟩ | h0
      · right
        refine ⟨by rw [← m1, ← hb]; linarith [mul_comm m.fblk m.fcur], ?_⟩
        rw [absK_eq, absK_eq] at hs
        rw [abs_div, abs_of_pos (by norm_num : (0:K) < 2)] at hs
        exact (div_lt_div_iff_of_pos_right (by norm_num : (0:K) < 2)).mp hs
      · left; rw [← m1]; exact h0
  · rw [if_neg hret]
    have hne : m.fcur ≠ 0 := by
      intro h0; apply hret; left; simp [h0]
    have hbs : m.fblk = f m.xblk ∧ m.fblk * m.fcur < 0 := by
      rcases m3 with hh | h0
      · exact hh
      · exact absurd h0 hne
    show Inv f _
    simp only [Inv]
    refine ⟨trivial, m1, ?_⟩
    generalize f _ = fnew
    by_cases hz : fnew = 0
    · right; right; exact hz
    · by_cases hlt : m.fcur * fnew < 0
      · left; exact hlt
      · right; left
        exact ⟨hbs.1, sign_transfer m.fblk m.fcur fnew hbs.2 hlt hz⟩

theorem body_inl_status (f : K → K) (xtol tol : K) (s : St K) (o : Out K) (hb : body f xtol tol s = .inl o) :
    o.status = .converged := by
  unfold body at hb
  simp only at hb
  by_cases hret : ((swapBest (rebracket s)).fcur == 0) = true ∨
      absK (((swapBest (rebracket s)).xblk - (swapBest (rebracket s)).xcur) / 2) < (xtol + tol * absK (swapBest (rebracket s)).xcur) / 2
  · rw [if_pos hret] at hb
    cases hb; rfl
  · rw [if_neg hret] at hb
    cases hb

theorem iterate_spec (f : K → K) (xtol tol : K) (n : ℕ) (s : St K) (h : Inv f s) :
    (iterate f xtol tol n s).status = .converged →
      (f (iterate f xtol tol n s).x = 0 ∨
        (f (iterate f xtol tol n s).x * f (iterate f xtol tol n s).partner < 0 ∧
          |(iterate f xtol tol n s).partner - (iterate f xtol tol n s).x| < xtol + tol * |(iterate f xtol tol n s).x|)) := by
  induction n generalizing s with
  | zero => intro hc; simp [iterate] at hc
  | succ n ih =>
    have hb := body_spec f xtol tol s h
    simp only [iterate]
    split at hb
    · rename_i o ho
      rw [ho]
      intro _
      exact hb.2
    · rename_i s' hs'
      rw [hs']
      exact ih s' hb

/-- **"not found" is reported exactly when there is no sign change between the bounds** -/
theorem brent_noBracket_iff (f : K → K) (lower upper xtol tol : K) (n : ℕ) :
    (brent f lower upper xtol tol n (-1)).status = .noBracket ↔ 0 < f lower * f upper := by
  unfold brent
  simp only
  constructor
  · intro h
    by_contra hn
    simp only [hn, if_false] at h
    split at h
    · simp at h
    · split at h
      · simp at h
      · -- iterate never returns noBracket
        have : ∀ (k : ℕ) (s : St K), (iterate f xtol tol k s).status ≠ .noBracket := by
          intro k
          induction k with
          | zero => intro s; simp [iterate]
          | succ k ih =>
            intro s
            simp only [iterate]
            cases hb : body f xtol tol s with
            | inl o =>
              simp only
              rw [body_inl_status f xtol tol s o hb]
              simp
            | inr s' => exact ih s'
        exact this _ _ h
  · intro h; simp [h]

/-- … and then the returned radius is the negative sentinel `-1`, which the descriptor functions turn into `ValueError` -/
theorem brent_noBracket_value (f : K → K) (lower upper xtol tol : K) (n : ℕ) (h : 0 < f lower * f upper) :
    (brent f lower upper xtol tol n (-1)).x = -1 ∧ (brent f lower upper xtol tol n (-1)).x < 0 := by
  unfold brent; simp [h]

/-- **the returned radius solves the isovalue equation**: a converged result is an exact zero of `f`, or one end of a
sign change of `f` narrower than `xtol + tol·|x|` (for continuous `f`: a root within that distance) -/
theorem brent_converged (f : K → K) (lower upper xtol tol : K) (n : ℕ)
    (hc : (brent f lower upper xtol tol n (-1)).status = .converged) :
    f (brent f lower upper xtol tol n (-1)).x = 0 ∨
      (f (brent f lower upper xtol tol n (-1)).x * f (brent f lower upper xtol tol n (-1)).partner < 0 ∧
        |(brent f lower upper xtol tol n (-1)).partner - (brent f lower upper xtol tol n (-1)).x|
          < xtol + tol * |(brent f lower upper xtol tol n (-1)).x|) := by
  unfold brent at hc ⊢
  simp only at hc ⊢
  split
  · rename_i h; simp [h] at hc
  · rename_i hnp
    split
    · rename_i h0; left; simpa using h0
    · rename_i hn0
      split
      · rename_i h0; left; simpa using h0
      · rename_i hn1
        simp only [hnp, hn0, hn1, if_false] at hc
        apply iterate_spec f xtol tol n _ _ hc
        refine ⟨rfl, rfl, Or.inl ?_⟩
        simp only
        have h0 : f lower ≠ 0 := by simpa using hn0
        have h1 : f upper ≠ 0 := by simpa using hn1
        rcases lt_trichotomy (f lower * f upper) 0 with h | h | h
        · exact h
        · rcases mul_eq_zero.mp h with h | h
          · exact absurd h h0
          · exact absurd h h1
        · exact absurd h hnp

/-- the iteration sees the scalar field only through its restriction to the ray -/
theorem brent_congr (f g : K → K) (h : ∀ t, f t = g t) (lower upper xtol tol : K) (n : ℕ) :
    brent f lower upper xtol tol n (-1) = brent g lower upper xtol tol n (-1) := by
  have : f = g := funext h
  rw [this]

end generic

/-! ### pose and order independence of the radial function -/

/-- point at parameter `t` on the ray from `o` along `d` -/
def rayPoint (o d : List ℚ) (t : ℚ) : List ℚ := o.zipWith (fun a b => a + t * b) d

/-- `t ↦ ρ(o + t·d) - isovalue` for the density model of C05 -/
def radialF (path : Path) (T : Table) (atoms : List (Nat × List ℚ)) (o d : List ℚ) (iso : ℚ) (t : ℚ) : ℚ :=
  rho path T atoms (rayPoint o d t) - iso

/-- **atom order does not matter**: the radius found along any direction is the same for any reordering -/
theorem radius_perm (path : Path) (T : Table) {a b : List (Nat × List ℚ)} (hp : a.Perm b) (o d : List ℚ) (iso : ℚ)
    (lower upper xtol tol : ℚ) (n : ℕ) :
    brent (radialF path T a o d iso) lower upper xtol tol n (-1) = brent (radialF path T b o d iso) lower upper xtol tol n (-1) :=
  brent_congr _ _ (fun t => by unfold radialF; rw [ChmpyVerif.Props.C05.rho_perm path T hp]) _ _ _ _ _

/-- **pose does not matter**: if `g` is a rigid motion (it preserves the atom–point distances along the ray, the ray from
`g o` along `R d` being the image of the ray from `o` along `d`), the radius found along the moved direction from the
moved origin for the moved molecule equals the original one -/
theorem radius_rigid (path : Path) (T : Table) (atoms : List (Nat × List ℚ)) (o d o' d' : List ℚ) (g : List ℚ → List ℚ) (iso : ℚ)
    (hray : ∀ t, rayPoint o' d' t = g (rayPoint o d t))
    (hg : ∀ t, ∀ a ∈ atoms, dist2 (g (rayPoint o d t)) (g a.2) = dist2 (rayPoint o d t) a.2)
    (lower upper xtol tol : ℚ) (n : ℕ) :
    brent (radialF path T (atoms.map fun a => (a.1, g a.2)) o' d' iso) lower upper xtol tol n (-1)
      = brent (radialF path T atoms o d iso) lower upper xtol tol n (-1) :=
  brent_congr _ _ (fun t => by
    unfold radialF
    rw [hray t, ChmpyVerif.Props.C05.rho_isometry path T atoms (rayPoint o d t) g (hg t)]) _ _ _ _ _

/-! non-vacuity: `f(t) = t² - 2` on [0, 2]: converges to a bracket of √2 narrower than 2·10⁻⁵ -/
example : (brent (fun t : ℚ => t * t - 2) 0 2 (1/100000) (1/10000000) 30 (-1)).status = .converged := by decide +kernel
example : (brent (fun t : ℚ => t * t - 2) 2 3 (1/100000) (1/10000000) 30 (-1)).status = .noBracket := by decide +kernel

end ChmpyVerif.Props.C09
