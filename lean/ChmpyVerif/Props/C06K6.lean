import ChmpyVerif.Model.MC
namespace ChmpyVerif.Props.C06
open ChmpyVerif.MC ChmpyVerif.Gen.MC
theorem leaves_ok6 : leaves6.all leafOk = true := by decide +kernel
theorem faces_match6 : leaves6.all leafFacesMatch = true := by decide +kernel
theorem trees6 : ((List.range 32).map (· + 192)).all (fun cfg => isTree 16 ((leaves6.filter (·.cfg == cfg)).map (·.tests))) = true := by decide +kernel
end ChmpyVerif.Props.C06
