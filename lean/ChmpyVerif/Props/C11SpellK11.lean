import ChmpyVerif.Props.C11Spell
namespace ChmpyVerif.Props.C11
/-- every spelling of every row with translation digit 11 is read back as that row -/
theorem spell_k11 : ∀ r ∈ rows27, ∀ s ∈ spellings r 11, rowOk s r 11 = true := by
  decide +kernel
end ChmpyVerif.Props.C11
