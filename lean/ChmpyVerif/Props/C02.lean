/-
C02 — every tabulated space-group setting is a closed, consistently identified group.
`sgTable` (530 settings), `lattTable`, `defaultChoices` and the closure certificates are GENERATED from
/repo (crystal/sgdata.json, space_group.py, symmetry_operation.py) on every run; the kernel re-checks
`entryOk` for every setting (`Gen/SGChunk*.lean`) and the lemmas below lift that to the statements.
-/
import ChmpyVerif.Gen.SGData
import ChmpyVerif.Lemmas.SGroup

namespace ChmpyVerif.Props.C02
open ChmpyVerif.SG ChmpyVerif.Gen

/-- the operations of a setting, decoded from their packed codes -/
def opsOf (e : Entry) : List AOp := e.symops.map decodeOp

/-- every table entry passed the kernel check with some certificate -/
theorem entry_checked (e : Entry) (he : e ∈ sgTable) : ∃ c, entryOk lattTable e c = true := by
  have h := sgTable_covered
  rw [List.all_eq_true] at h
  have := h e he
  rw [List.any_eq_true] at this
  obtain ⟨ch, hch, hany⟩ := this
  rw [List.any_eq_true] at hany
  obtain ⟨p, hp, hpe⟩ := hany
  have hok := sgChunks_ok ch hch
  rw [List.all_eq_true] at hok
  have := hok p hp
  have hpe' : p.1 = e := by simpa using hpe
  exact ⟨p.2, hpe' ▸ this⟩

/-- unpack `entryOk` -/
theorem entryOk_parts (e : Entry) (c : Cert) (h : entryOk lattTable e c = true) :
    isSortedStrict e.symops = true ∧ e.symops.contains idCode = true ∧
    (∀ code ∈ e.symops, code < 34012224) ∧
    (∀ a ∈ opsOf e, packable a = true) ∧ (∀ s ∈ c.gens.map decodeOp, wf s = true) ∧
    treeOk (opsOf e) (c.gens.map decodeOp) c.order = true ∧ coversAll (opsOf e).length c.order = true ∧
    rightClosed e.symops (opsOf e) (c.gens.map decodeOp) = true ∧ inversesOk (opsOf e) c.inv = true ∧
    e.centro = hasMinusIdentity e.symops ∧
    sortCodes (expandedList lattTable (reducedList lattTable e.symops e.latt) e.latt) = e.symops ∧
    (1 ≤ e.centering ∧ e.centering ≤ 7) := by
  unfold entryOk at h
  simp only [Bool.and_eq_true, beq_iff_eq, List.all_eq_true, decide_eq_true_eq] at h
  obtain ⟨⟨⟨⟨⟨⟨⟨⟨⟨⟨⟨⟨h1, h2⟩, h3⟩, h4⟩, h5⟩, _⟩, h7⟩, h8⟩, h9⟩, h10⟩, h11⟩, h12⟩, h13⟩ := h
  exact ⟨h1, h2, h3, h4, h5, h7, h8, h9, h10, h11, h12, h13⟩

/-- the operation list has no duplicates -/
theorem sg_nodup (e : Entry) (he : e ∈ sgTable) : e.symops.Nodup := by
  obtain ⟨c, hc⟩ := entry_checked e he
  exact nodup_of_sortedStrict _ (entryOk_parts e c hc).1

/-- … is stored sorted (what makes the sorted-tuple lookup find it) -/
theorem sg_symops_sorted (e : Entry) (he : e ∈ sgTable) : e.symops.Pairwise (· < ·) := by
  obtain ⟨c, hc⟩ := entry_checked e he
  exact isSortedStrict_pairwise _ (entryOk_parts e c hc).1

/-- … contains the identity -/
theorem sg_has_identity (e : Entry) (he : e ∈ sgTable) : idCode ∈ e.symops ∧ idOp ∈ opsOf e := by
  obtain ⟨c, hc⟩ := entry_checked e he
  have h := (entryOk_parts e c hc).2.1
  have hm : idCode ∈ e.symops := by simpa using h
  exact ⟨hm, List.mem_map.mpr ⟨idCode, hm, by decide⟩⟩

/-- … is CLOSED under composition modulo lattice translations -/
theorem sg_closed (e : Entry) (he : e ∈ sgTable) :
    ∀ a ∈ opsOf e, ∀ b ∈ opsOf e, compose a b ∈ opsOf e := by
  obtain ⟨c, hc⟩ := entry_checked e he
  obtain ⟨_, _, _, hp, hg, ht, hcov, hr, _⟩ := entryOk_parts e c hc
  exact closed_of_cert e.symops (c.gens.map decodeOp) c.order
    (fun a ha => packable_wf a (hp a ha)) hg ht hcov hr

/-- … and under inversion -/
theorem sg_inverses (e : Entry) (he : e ∈ sgTable) :
    ∀ g ∈ opsOf e, ∃ k ∈ opsOf e, compose g k = idOp ∧ compose k g = idOp := by
  obtain ⟨c, hc⟩ := entry_checked e he
  obtain ⟨_, _, _, _, _, _, _, _, hi, _⟩ := entryOk_parts e c hc
  exact inverses_of_cert _ _ hi

/-- the packed codes are faithful: every operation has entries in {-1,0,1} and digits 0..11 -/
theorem sg_packable (e : Entry) (he : e ∈ sgTable) : ∀ a ∈ opsOf e, packable a = true := by
  obtain ⟨c, hc⟩ := entry_checked e he
  exact (entryOk_parts e c hc).2.2.2.1

/-- the centrosymmetric flag agrees with the operations: set iff some operation has rotation -I -/
theorem sg_centro_flag_iff (e : Entry) (he : e ∈ sgTable) :
    e.centro = true ↔ ∃ code ∈ e.symops, code % 19683 = invCode := by
  obtain ⟨c, hc⟩ := entry_checked e he
  obtain ⟨_, _, _, _, _, _, _, _, _, hf, _⟩ := entryOk_parts e c hc
  rw [hf, hasMinusIdentity, List.any_eq_true]
  simp

/-- settings with the same operation list carry the same International Tables number
(the three coinciding pairs of settings of group 68) — whole table, kernel-checked -/
theorem sg_dup_same_number :
    sgTable.all (fun e => sgTable.all fun e' => !(e.symops == e'.symops) || e.number == e'.number) = true := by
  decide +kernel

/-- looking a setting up from its FULL operation list returns the same number and operation set -/
theorem sg_lookup_full (e : Entry) (he : e ∈ sgTable) :
    ∃ e', fromSymops lattTable sgTable e.symops none = some e' ∧
      e'.number = e.number ∧ e'.symops = e.symops := by
  obtain ⟨c, hc⟩ := entry_checked e he
  have hs := (entryOk_parts e c hc).1
  obtain ⟨e', hl, hm, hsy⟩ := lookupSymops_of_mem sgTable e he
  refine ⟨e', ?_, ?_, hsy⟩
  · simp only [fromSymops, sortCodes_of_sorted _ hs, hl]
  · have h := sg_dup_same_number
    rw [List.all_eq_true] at h
    have := h e' hm
    rw [List.all_eq_true] at this
    have := this e he
    simpa [hsy] using this

/-- looking it up from its REDUCED (SHELX LATT + SYMM) description likewise -/
theorem sg_lookup_reduced (e : Entry) (he : e ∈ sgTable) :
    ∃ e', fromSymops lattTable sgTable (reducedList lattTable e.symops e.latt) (some e.latt) = some e' ∧
      e'.number = e.number ∧ e'.symops = e.symops := by
  obtain ⟨c, hc⟩ := entry_checked e he
  obtain ⟨_, _, _, _, _, _, _, _, _, _, hre, hcen⟩ := entryOk_parts e c hc
  obtain ⟨e', hl, hm, hsy⟩ := lookupSymops_of_mem sgTable e he
  have hrange : -8 < e.latt ∧ e.latt < 8 := by
    unfold Entry.latt; split <;> omega
  refine ⟨e', ?_, ?_, hsy⟩
  · simp only [fromSymops, hrange, and_self, if_true, hre, hl]
  · have h := sg_dup_same_number
    rw [List.all_eq_true] at h
    have := h e' hm
    rw [List.all_eq_true] at this
    have := this e he
    simpa [hsy] using this

/-- every setting can be constructed from its (number, choice); with no choice given the constructor
returns the default-choice entry or else the first entry of that number — whole table, kernel-checked -/
theorem sg_construct :
    sgTable.all (fun e => e.choice.isEmpty || construct sgTable defaultChoices e.number e.choice == some e) = true ∧
    (List.range 231).all (fun n => n == 0 ||
      match construct sgTable defaultChoices n [] with
      | some e => e.number == n &&
          (match defaultChoices.find? (fun p => p.1 == n) with
           | some p => e.choice == p.2
           | none => (sgTable.filter fun x => x.number == n).head? == some e)
      | none => false) = true := by
  constructor <;> decide +kernel

theorem table_size : sgTable.length = 530 := by decide +kernel

/-! non-vacuity: the table is inhabited and P2₁/c (14, b1) is in it with 4 operations -/
example : ∃ e ∈ sgTable, e.number = 14 ∧ e.symops.length = 4 := by decide +kernel

end ChmpyVerif.Props.C02
