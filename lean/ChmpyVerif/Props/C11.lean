/-
C11 — symmetry-operation forms are interchangeable; equality is modulo the lattice.
Property theorems about the hand model `Model/SymOp.lean` (tied to the code by the
correspondence run of harness/props/c11.py).
-/
import ChmpyVerif.Lemmas.SymOp
import Mathlib.Data.Matrix.Mul
import Mathlib.Tactic.FieldSimp
import Mathlib.Tactic.Positivity
import ChmpyVerif.Props.C11Spell
import ChmpyVerif.Props.C11SpellK0
import ChmpyVerif.Props.C11SpellK1
import ChmpyVerif.Props.C11SpellK2
import ChmpyVerif.Props.C11SpellK3
import ChmpyVerif.Props.C11SpellK4
import ChmpyVerif.Props.C11SpellK5
import ChmpyVerif.Props.C11SpellK6
import ChmpyVerif.Props.C11SpellK7
import ChmpyVerif.Props.C11SpellK8
import ChmpyVerif.Props.C11SpellK9
import ChmpyVerif.Props.C11SpellK10
import ChmpyVerif.Props.C11SpellK11

namespace ChmpyVerif.Props.C11
open ChmpyVerif.SymOp ChmpyVerif.PyStr

/-- a rotation entry the packed form can carry -/
def Trit (r : Int) : Prop := -1 ≤ r ∧ r ≤ 1
/-- a translation digit: twelfths 0..11 -/
def Dig (k : Int) : Prop := 0 ≤ k ∧ k < 12

def tw (k : Int) : Rat := (k : Rat) / 12

/-- decode ∘ encode = id on ALL 3⁹·12³ encodable operations (digit arithmetic, no enumeration) -/
theorem decodeInt_encodeInt (r0 r1 r2 r3 r4 r5 r6 r7 r8 k0 k1 k2 : Int)
    (h0 : Trit r0) (h1 : Trit r1) (h2 : Trit r2) (h3 : Trit r3) (h4 : Trit r4) (h5 : Trit r5)
    (h6 : Trit r6) (h7 : Trit r7) (h8 : Trit r8) (g0 : Dig k0) (g1 : Dig k1) (g2 : Dig k2) :
    decodeInt (encodeInt [r0, r1, r2, r3, r4, r5, r6, r7, r8] [tw k0, tw k1, tw k2])
      = ([r0, r1, r2, r3, r4, r5, r6, r7, r8], [tw k0, tw k1, tw k2]) := by
  unfold Trit Dig at *
  simp only [encodeInt, List.foldl, tw, digit_twelfth k0 g0.1 g0.2, digit_twelfth k1 g1.1 g1.2,
    digit_twelfth k2 g2.1 g2.2]
  unfold decodeInt
  simp only [Prod.mk.injEq, List.cons.injEq, and_true]
  refine ⟨⟨?_, ?_, ?_, ?_, ?_, ?_, ?_, ?_, ?_⟩, ?_, ?_, ?_⟩
  any_goals omega
  all_goals (congr 2; omega)

/-- the packed code of an encodable operation lies in `[0, 3⁹·12³)` -/
theorem encodeInt_range (r0 r1 r2 r3 r4 r5 r6 r7 r8 k0 k1 k2 : Int)
    (h0 : Trit r0) (h1 : Trit r1) (h2 : Trit r2) (h3 : Trit r3) (h4 : Trit r4) (h5 : Trit r5)
    (h6 : Trit r6) (h7 : Trit r7) (h8 : Trit r8) (g0 : Dig k0) (g1 : Dig k1) (g2 : Dig k2) :
    0 ≤ encodeInt [r0, r1, r2, r3, r4, r5, r6, r7, r8] [tw k0, tw k1, tw k2] ∧
    encodeInt [r0, r1, r2, r3, r4, r5, r6, r7, r8] [tw k0, tw k1, tw k2] < 34012224 := by
  unfold Trit Dig at *
  simp only [encodeInt, List.foldl, tw, digit_twelfth k0 g0.1 g0.2, digit_twelfth k1 g1.1 g1.2,
    digit_twelfth k2 g2.1 g2.2]
  omega

/-- encode ∘ decode = id on ALL codes below 3⁹·12³ = 34 012 224 -/
theorem encodeInt_decodeInt (code : Int) (h0 : 0 ≤ code) (h1 : code < 34012224) :
    encodeInt (decodeInt code).1 (decodeInt code).2 = code := by
  unfold decodeInt
  simp only [encodeInt, List.foldl]
  have d (s : Int) (hs : 0 < s) : digit ((((code / 19683 % (s * 12)) / s : Int) : Rat) / 12) = (code / 19683 % (s * 12)) / s := by
    apply digit_twelfth
    · apply Int.ediv_nonneg (Int.emod_nonneg _ (by omega)) (by omega)
    · apply Int.ediv_lt_of_lt_mul hs
      have := Int.emod_lt_of_pos (code / 19683) (show 0 < s * 12 by omega)
      omega
  rw [d 144 (by decide), d 12 (by decide), d 1 (by decide)]
  omega


/-! ### string form -/

/-- no comma, no blank, no upper-case letter: what `split(",")`, `replace(" ","")`, `lower()` leave alone -/
def rowClean (s : List Ch) : Bool := s.all fun c => c != 44 && c != 32 && !isUpperA c

/-- writer then reader, one row: all 27 × 12 rows (kernel-checked) -/
theorem decodeStr_encodeStr_row :
    ∀ r ∈ rows27, ∀ k ∈ List.range 12,
      decodeRow (encodeRow r (tw k)) = .ok ⟨r, tw k⟩ ∧ rowClean (encodeRow r (tw k)) = true ∧ r.length = 3 := by
  decide +kernel

theorem rowClean_facts (s : List Ch) (h : rowClean s = true) :
    (44 : Ch) ∉ s ∧ s.all (fun x => x != 32) = true ∧ s.all (fun c => !isUpperA c) = true := by
  unfold rowClean at h
  rw [List.all_eq_true] at h
  refine ⟨?_, ?_, ?_⟩
  · intro hm
    have := h 44 hm
    simp at this
  · rw [List.all_eq_true]; intro x hx
    have := h x hx
    simp only [Bool.and_eq_true] at this
    exact this.1.2
  · rw [List.all_eq_true]; intro x hx
    have := h x hx
    simp only [Bool.and_eq_true] at this
    exact this.2

/-- writer then reader on whole operations: EVERY rotation with entries in {-1,0,1} and EVERY translation in
twelfths comes back unchanged (lifted from the row table by the split/join lemmas) -/
theorem decodeStr_encodeStr (r0 r1 r2 : List Int) (k0 k1 k2 : Nat)
    (h0 : r0 ∈ rows27) (h1 : r1 ∈ rows27) (h2 : r2 ∈ rows27)
    (g0 : k0 ∈ List.range 12) (g1 : k1 ∈ List.range 12) (g2 : k2 ∈ List.range 12) :
    decodeStr (encodeStr (r0 ++ r1 ++ r2) [tw k0, tw k1, tw k2])
      = .ok (r0 ++ r1 ++ r2, [tw k0, tw k1, tw k2]) := by
  obtain ⟨d0, c0, l0⟩ := decodeStr_encodeStr_row r0 h0 k0 g0
  obtain ⟨d1, c1, l1⟩ := decodeStr_encodeStr_row r1 h1 k1 g1
  obtain ⟨d2, c2, l2⟩ := decodeStr_encodeStr_row r2 h2 k2 g2
  obtain ⟨a0, a1, a2, rfl⟩ : ∃ a b c, r0 = [a, b, c] := by
    match r0, l0 with
    | [a, b, c], _ => exact ⟨a, b, c, rfl⟩
  obtain ⟨b0, b1, b2, rfl⟩ : ∃ a b c, r1 = [a, b, c] := by
    match r1, l1 with
    | [a, b, c], _ => exact ⟨a, b, c, rfl⟩
  obtain ⟨e0, e1, e2, rfl⟩ : ∃ a b c, r2 = [a, b, c] := by
    match r2, l2 with
    | [a, b, c], _ => exact ⟨a, b, c, rfl⟩
  obtain ⟨n0, s0, u0⟩ := rowClean_facts _ c0
  obtain ⟨n1, s1, u1⟩ := rowClean_facts _ c1
  obtain ⟨n2, s2, u2⟩ := rowClean_facts _ c2
  -- the written string is  row0 , row1 , row2
  have henc : encodeStr ([a0, a1, a2] ++ [b0, b1, b2] ++ [e0, e1, e2]) [tw k0, tw k1, tw k2]
      = encodeRow [a0, a1, a2] (tw k0) ++ 44 :: (encodeRow [b0, b1, b2] (tw k1) ++ 44 :: encodeRow [e0, e1, e2] (tw k2)) := by
    simp [encodeStr, rows3, List.zipWith, joinWith, cComma]
  -- lower-casing and blank removal leave it alone
  have hall : ∀ (x y z : List Ch), x.all (fun c => !isUpperA c) = true → y.all (fun c => !isUpperA c) = true →
      z.all (fun c => !isUpperA c) = true → (x ++ 44 :: (y ++ 44 :: z)).all (fun c => !isUpperA c) = true := by
    intro x y z hx hy hz
    simp only [List.all_append, List.all_cons, hx, hy, hz, Bool.and_true, Bool.true_and]
    decide
  have hall2 : ∀ (x y z : List Ch), x.all (fun c => c != 32) = true → y.all (fun c => c != 32) = true →
      z.all (fun c => c != 32) = true → (x ++ 44 :: (y ++ 44 :: z)).all (fun c => c != 32) = true := by
    intro x y z hx hy hz
    simp only [List.all_append, List.all_cons, hx, hy, hz, Bool.and_true, Bool.true_and]
    decide
  unfold decodeStr
  rw [henc, lower_eq_self _ (hall _ _ _ u0 u1 u2), removeAll_eq_self _ _ (hall2 _ _ _ s0 s1 s2)]
  simp only [cComma]
  rw [splitOn_append 44 _ _ n0, splitOn_append 44 _ _ n1, splitOn_noSep 44 _ n2]
  simp only [List.take, List.drop, List.mapM_cons, List.mapM_nil, d0, d1, d2, bind, Except.bind, pure, Except.pure,
    List.flatMap_nil, List.head?_nil, List.length_cons, List.length_nil]
  have f0 := frac_twelfth k0 (by omega) (by have := List.mem_range.mp g0; omega)
  have f1 := frac_twelfth k1 (by omega) (by have := List.mem_range.mp g1; omega)
  have f2 := frac_twelfth k2 (by omega) (by have := List.mem_range.mp g2; omega)
  simp only [Int.cast_natCast] at f0 f1 f2
  simp [tw, List.replicate]
  exact ⟨f0, f1, f2⟩

/-- blanks anywhere in the string are ignored -/
theorem decode_ignores_spaces (s s' : List Ch) (h : s.filter (· != 32) = s'.filter (· != 32)) :
    decodeStr s = decodeStr s' := by
  have : removeAll 32 (lower s) = removeAll 32 (lower s') := by
    rw [removeAll_lower, removeAll_lower]; unfold removeAll; rw [h]
  unfold decodeStr
  rw [this]

/-- letter case is ignored -/
theorem decode_ignores_case (s s' : List Ch) (h : lower s = lower s') : decodeStr s = decodeStr s' := by
  unfold decodeStr
  rw [h]



/-! ### equivalent spellings (definitions in C11Spell.lean; one kernel check per digit) -/

/-- the reader maps EVERY spelling of a row — any term order, optional leading `+`, translation as
fraction, negative complementary fraction or decimal — to that row (27 rows × 12 digits, complete) -/
theorem decodeRow_spellings :
    ∀ r ∈ rows27, ∀ k ∈ List.range 12, ∀ s ∈ spellings r k, rowOk s r k = true := by
  intro r hr k hk s hs
  have hk' : k < 12 := List.mem_range.mp hk
  match k, hk' with
  | 0, _ => exact spell_k0 r hr s hs
  | 1, _ => exact spell_k1 r hr s hs
  | 2, _ => exact spell_k2 r hr s hs
  | 3, _ => exact spell_k3 r hr s hs
  | 4, _ => exact spell_k4 r hr s hs
  | 5, _ => exact spell_k5 r hr s hs
  | 6, _ => exact spell_k6 r hr s hs
  | 7, _ => exact spell_k7 r hr s hs
  | 8, _ => exact spell_k8 r hr s hs
  | 9, _ => exact spell_k9 r hr s hs
  | 10, _ => exact spell_k10 r hr s hs
  | 11, _ => exact spell_k11 r hr s hs

example : (spellings [-1, 1, 0] 4).length = 48 := by decide +kernel


/-! ### equality modulo the lattice -/

/-- why `Fraction(t).limit_denominator(12)` may be modelled by the nearest twelfth: any OTHER fraction with
denominator ≤ 12 is at least 1/144 away from k/12, so within 1/288 of k/12 the closest such fraction is k/12 -/
theorem closest_is_twelfth (p q k : Int) (hq : 0 < q) (hq12 : q ≤ 12) (hne : (p : ℚ) / q ≠ (k : ℚ) / 12) :
    (1 : ℚ) / 144 ≤ |(p : ℚ) / q - (k : ℚ) / 12| := by
  have hq' : (0 : ℚ) < q := by exact_mod_cast hq
  have hq12' : (q : ℚ) ≤ 12 := by exact_mod_cast hq12
  have hn : (12 * p - k * q : Int) ≠ 0 := by
    intro h
    apply hne
    have h' : (12 * (p : ℚ) - k * q) = 0 := by exact_mod_cast h
    field_simp
    linarith
  have h1 : (1 : ℚ) ≤ |((12 * p - k * q : Int) : ℚ)| := by
    rw [← Int.cast_abs]
    exact_mod_cast Int.one_le_abs hn
  have e : (p : ℚ) / q - k / 12 = ((12 * p - k * q : Int) : ℚ) / (12 * q) := by
    push_cast; field_simp
  rw [e, abs_div, abs_of_pos (by positivity : (0 : ℚ) < 12 * q), le_div_iff₀ (by positivity)]
  calc 1 / 144 * (12 * (q : ℚ)) ≤ 1 := by linarith
    _ ≤ _ := h1

/-- translation = k/12 + integer + noise (|noise| < 1/24): the constructor's `% 1` followed by the digit
extraction gives k — including the wrap-around case k = 0 with negative noise -/
theorem digit_mod_lattice (k n : Int) (d : ℚ) (hk : Dig k) (hd : |d| < 1 / 24) :
    digit (frac (tw k + (n : ℚ) + d)) = k := by
  have := abs_lt.mp hd
  exact digit_frac_near k n d hk.1 hk.2 (by linarith) (by linarith)

theorem encodeRow_congr (r : List Int) (t t' : ℚ) (h : digit t = digit t') : encodeRow r t = encodeRow r t' := by
  unfold encodeRow; rw [h]

/-- operations with the same rotation whose translations differ by an integer vector plus rounding noise
are equal, hash equally and print identically -/
theorem eq_mod_lattice (rot : List Int) (k0 k1 k2 n0 n1 n2 : Int) (d0 d1 d2 : ℚ)
    (g0 : Dig k0) (g1 : Dig k1) (g2 : Dig k2)
    (e0 : |d0| < 1 / 24) (e1 : |d1| < 1 / 24) (e2 : |d2| < 1 / 24) :
    let a := Obj.new rot [tw k0, tw k1, tw k2]
    let b := Obj.new rot [tw k0 + n0 + d0, tw k1 + n1 + d1, tw k2 + n2 + d2]
    a.eq b = true ∧ a.hash = b.hash ∧ a.str = b.str := by
  intro a b
  have z (k : Int) (g : Dig k) : digit (frac (tw k)) = k := by
    have := digit_mod_lattice k 0 0 g (by norm_num)
    simpa using this
  have ha0 := z k0 g0; have ha1 := z k1 g1; have ha2 := z k2 g2
  have hb0 := digit_mod_lattice k0 n0 d0 g0 e0
  have hb1 := digit_mod_lattice k1 n1 d1 g1 e1
  have hb2 := digit_mod_lattice k2 n2 d2 g2 e2
  have hcode : a.code = b.code := by
    simp only [a, b, Obj.new, Obj.code, mkOp, Option.getD, encodeInt, List.map, List.foldl, ha0, ha1, ha2, hb0, hb1, hb2]
  have hstr : a.str = b.str := by
    simp only [a, b, Obj.new, Obj.str, mkOp, Option.getD, encodeStr, List.map]
    rcases rows3 rot with _ | ⟨x, _ | ⟨y, _ | ⟨w, _⟩⟩⟩ <;>
      simp [List.zipWith, encodeRow_congr _ _ _ (ha0.trans hb0.symm), encodeRow_congr _ _ _ (ha1.trans hb1.symm),
        encodeRow_congr _ _ _ (ha2.trans hb2.symm)]
  exact ⟨by simp [Obj.eq, hcode], by simp [Obj.hash, hcode], hstr⟩

/-! ### applying an operation -/

/-- homogeneous 4-vectors give the same points as 3-vectors -/
theorem apply_seitz_eq_apply (r0 r1 r2 r3 r4 r5 r6 r7 r8 : Int) (t0 t1 t2 a b c : ℚ) :
    apply4 ⟨[r0, r1, r2, r3, r4, r5, r6, r7, r8], [t0, t1, t2]⟩ [a, b, c, 1]
      = apply3 ⟨[r0, r1, r2, r3, r4, r5, r6, r7, r8], [t0, t1, t2]⟩ [a, b, c] ++ [1] := by
  simp [apply4, apply3, rows3, List.zipWith]

/-- general homogeneous coordinates: a direction (w = 0) is only rotated, and for w ≠ 0 the vector `(w·a, w·b, w·c, w)` — another
name of the point `(a, b, c)` — is mapped to `w` times the image of that point, with the same `w` -/
theorem apply_seitz_direction (r0 r1 r2 r3 r4 r5 r6 r7 r8 : Int) (t0 t1 t2 a b c : ℚ) :
    apply4 ⟨[r0, r1, r2, r3, r4, r5, r6, r7, r8], [t0, t1, t2]⟩ [a, b, c, 0]
      = apply3 ⟨[r0, r1, r2, r3, r4, r5, r6, r7, r8], [0, 0, 0]⟩ [a, b, c] ++ [0] := by
  simp [apply4, apply3, rows3, List.zipWith]

theorem apply_seitz_homogeneous (r0 r1 r2 r3 r4 r5 r6 r7 r8 : Int) (t0 t1 t2 a b c w : ℚ) :
    apply4 ⟨[r0, r1, r2, r3, r4, r5, r6, r7, r8], [t0, t1, t2]⟩ [w * a, w * b, w * c, w]
      = (apply3 ⟨[r0, r1, r2, r3, r4, r5, r6, r7, r8], [t0, t1, t2]⟩ [a, b, c]).map (w * ·) ++ [w] := by
  simp only [apply4, apply3, rows3, List.zipWith, List.map, dot3, List.foldl, List.cons_append, List.nil_append, List.cons.injEq, and_true]
  refine ⟨?_, ?_, ?_⟩ <;> ring

open Matrix in
/-- the Cartesian form built by `Crystal.cartesian_symmetry_operations`, `(Dᵀ·(R·D⁻ᵀ))ᵀ` with translation
`t·D`, maps the Cartesian image of a fractional point to the Cartesian image of the transformed point —
for ANY lattice with `D·D⁻¹ = 1` (C12) and any commutative ring of coordinates -/
theorem cartesian_form_correct {K : Type} [CommRing K] (D I R : Matrix (Fin 3) (Fin 3) K) (t f : Fin 3 → K)
    (h : D * I = 1) :
    (f ᵥ* D) ᵥ* (Dᵀ * (R * Iᵀ))ᵀ + t ᵥ* D = (f ᵥ* Rᵀ + t) ᵥ* D := by
  rw [Matrix.transpose_mul, Matrix.transpose_mul, Matrix.transpose_transpose, Matrix.transpose_transpose,
    Matrix.vecMul_vecMul, ← Matrix.mul_assoc, ← Matrix.mul_assoc, h, Matrix.one_mul, Matrix.add_vecMul,
    Matrix.vecMul_vecMul]

/-! non-vacuity -/
example : Dig 0 ∧ |(-(1 : ℚ) / 10000000000000)| < 1 / 24 := by
  constructor
  · exact ⟨by decide, by decide⟩
  · norm_num [abs_lt]

end ChmpyVerif.Props.C11
