/-
C20, the shape of what the generators return: a window [start, stop] yields exactly stop + 1 − start points of exactly D coordinates
each (Sobol and Korobov), so "the batch returns exactly the points the single-point generators return for the same seeds" is a
statement about ALL rows: none missing at the end of the window, none extra. Together with `batch_eq_single` the whole batch is
determined: it is the list of single points.
-/
import ChmpyVerif.Props.C20

namespace ChmpyVerif.Props.C20
open ChmpyVerif.Sobol

theorem sobolBatch_length (table : List (List Nat)) (start stop D : Nat) : (sobolBatch table start stop D).length = stop + 1 - start := by
  simp [sobolBatch]

theorem sobolBatch_row_length (table : List (List Nat)) (start stop D : Nat) : ∀ row ∈ sobolBatch table start stop D, row.length = D := by
  intro row h
  simp only [sobolBatch, List.mem_map, List.mem_range] at h
  obtain ⟨k, _, rfl⟩ := h
  simp

theorem sobol_length (table : List (List Nat)) (N D : Nat) : (sobol table N D).length = D := by
  simp [sobol]

/-- **the batch IS the list of single points**, whatever the window (in particular across any "round" seed number) -/
theorem sobolBatch_eq_map_single (table : List (List Nat)) (start stop D : Nat) (hs : 1 ≤ start) :
    sobolBatch table start stop D = (List.range (stop + 1 - start)).map fun k => sobol table (start + k) D := by
  apply List.ext_getElem?
  intro k
  by_cases hk : k < stop + 1 - start
  · rw [batch_eq_single table start stop D k hs (by omega), List.getElem?_map, List.getElem?_range hk]
    rfl
  · have h1 : (sobolBatch table start stop D).length ≤ k := by rw [sobolBatch_length]; omega
    have h2 : ((List.range (stop + 1 - start)).map fun k => sobol table (start + k) D).length ≤ k := by simp; omega
    rw [List.getElem?_eq_none h1, List.getElem?_eq_none h2]

theorem kgfBatch_length (a : Nat → Rat) (lo hi D : Nat) : (kgfBatch a lo hi D).length = hi + 1 - lo := by
  simp [kgfBatch]

theorem kgf_length (a : Nat → Rat) (N D : Nat) : (kgf a N D).length = D := by
  simp [kgf]

theorem kgfBatch_eq_map_single (a : Nat → Rat) (lo hi D : Nat) :
    kgfBatch a lo hi D = (List.range (hi + 1 - lo)).map fun k => kgf a (lo + k) D := rfl

/-- a window straddling 50000 in three dimensions has 21 rows of 3 -/
example (table : List (List Nat)) : (sobolBatch table 49990 50010 3).length = 21 := by
  rw [sobolBatch_length]

end ChmpyVerif.Props.C20
