/-
C06, grid geometry: two DIFFERENT cells of the grid that have two different grid edges in common are neighbours across a face,
both edges lie in that face, and the neighbour knows them under the renamed cube-edge numbers.  (Cells that meet in an edge share
one grid edge, cells that meet in a corner none.)  A finite table check over all 13⁴ combinations of cube-edge numbers, lifted to
all cell coordinates by the normal form of `gridEdge`.
-/
import ChmpyVerif.Props.C06

namespace ChmpyVerif.Props.C06
open ChmpyVerif.MC ChmpyVerif.Gen.MC

def dzE (vi : Nat) : Nat := if upE vi then 1 else 0

/-- outward normal of a face (the neighbour across face f is the cell at c + normal) -/
def faceNormal : Nat → Int × Int × Int
  | 1 => (0, -1, 0) | 2 => (1, 0, 0) | 3 => (0, 1, 0) | 4 => (-1, 0, 0) | 5 => (0, 0, -1) | 6 => (0, 0, 1) | _ => (0, 0, 0)

/-- cube-edge numbers of the four edges of face f, as the neighbour across f numbers them -/
def renFace : Nat → List (Nat × Nat)
  | 3 => [(2, 0), (6, 4), (10, 9), (11, 8)] | 1 => [(0, 2), (4, 6), (9, 10), (8, 11)]
  | 2 => [(1, 3), (5, 7), (9, 8), (10, 11)] | 4 => [(3, 1), (7, 5), (8, 9), (11, 10)]
  | 6 => [(4, 0), (5, 1), (6, 2), (7, 3)] | 5 => [(0, 4), (1, 5), (2, 6), (3, 7)]
  | _ => []

def ren (f u : Nat) : Option Nat := ((renFace f).find? (·.1 == u)).map (·.2)

def offI (u : Nat) : Int × Int × Int := ((dxE u : Int), (dyE u : Int), (dzE u : Int))
def subI (a b : Int × Int × Int) : Int × Int × Int := (a.1 - b.1, a.2.1 - b.2.1, a.2.2 - b.2.2)

def sepOk : Bool :=
  (List.range 13).all fun u => (List.range 13).all fun v => (List.range 13).all fun u' => (List.range 13).all fun v' =>
    let du := subI (offI u) (offI u')
    let dv := subI (offI v) (offI v')
    !(u != v && axE u == axE u' && axE v == axE v' && du == dv && du != (0, 0, 0)) ||
      faces.any fun f => faceNormal f == du && edgeOnFace f u && edgeOnFace f v && ren f u == some u' && ren f v == some v'

theorem sepOk_true : sepOk = true := by decide +kernel

/-- the renaming is consistent with the geometry: the neighbour's edge `ren f u` IS the same grid edge -/
def renOk : Bool :=
  faces.all fun f => (renFace f).all fun p => edgeOnFace f p.1 && axE p.1 == axE p.2 &&
    subI (offI p.1) (offI p.2) == faceNormal f

theorem renOk_true : renOk = true := by decide +kernel

/-- **separation**: two different cells sharing two different grid edges are face neighbours, the edges lie in the shared face -/
theorem separation (x y z x' y' z' u v u' v' : Nat) (hu : u ≤ 12) (hv : v ≤ 12) (hu' : u' ≤ 12) (hv' : v' ≤ 12) (huv : u ≠ v)
    (hc : (x, y, z) ≠ (x', y', z'))
    (e1 : gridEdge x y z u = gridEdge x' y' z' u') (e2 : gridEdge x y z v = gridEdge x' y' z' v') :
    ∃ f, f ∈ faces ∧ ((x' : Int), (y' : Int), (z' : Int)) = ((x : Int) + (faceNormal f).1, (y : Int) + (faceNormal f).2.1, (z : Int) + (faceNormal f).2.2) ∧
      edgeOnFace f u = true ∧ edgeOnFace f v = true ∧ ren f u = some u' ∧ ren f v = some v' := by
  rw [gridEdge_nf x y z u hu, gridEdge_nf x' y' z' u' hu'] at e1
  rw [gridEdge_nf x y z v hv, gridEdge_nf x' y' z' v' hv'] at e2
  simp only [Prod.mk.injEq] at e1 e2
  obtain ⟨a1, a2, a3, a4⟩ := e1
  obtain ⟨b1, b2, b3, b4⟩ := e2
  have key := sepOk_true
  unfold sepOk at key
  rw [List.all_eq_true] at key
  have k1 := key u (List.mem_range.mpr (by omega))
  rw [List.all_eq_true] at k1
  have k2 := k1 v (List.mem_range.mpr (by omega))
  rw [List.all_eq_true] at k2
  have k3 := k2 u' (List.mem_range.mpr (by omega))
  rw [List.all_eq_true] at k3
  have k4 := k3 v' (List.mem_range.mpr (by omega))
  -- the offset differences equal c' - c
  have du : subI (offI u) (offI u') = ((x' : Int) - x, (y' : Int) - y, (z' : Int) - z) := by
    simp only [subI, offI, dzE, Prod.mk.injEq]
    refine ⟨by omega, by omega, by omega⟩
  have dv : subI (offI v) (offI v') = ((x' : Int) - x, (y' : Int) - y, (z' : Int) - z) := by
    simp only [subI, offI, dzE, Prod.mk.injEq]
    refine ⟨by omega, by omega, by omega⟩
  have hne : ((x' : Int) - x, (y' : Int) - y, (z' : Int) - z) ≠ (0, 0, 0) := by
    intro h
    simp only [Prod.mk.injEq] at h
    apply hc
    simp only [Prod.mk.injEq]
    omega
  simp only [du, dv, Bool.or_eq_true, Bool.not_eq_true', Bool.and_eq_false_iff, bne_eq_false_iff_eq, beq_eq_false_iff_ne, ne_eq,
    List.any_eq_true, Bool.and_eq_true, beq_iff_eq] at k4
  rcases k4 with h | ⟨f, hf, ⟨⟨⟨⟨hn, h1⟩, h2⟩, h3⟩, h4⟩⟩
  · exfalso
    rcases h with (((h | h) | h) | h) | h
    · exact huv h
    · exact h a4
    · exact h b4
    · exact h trivial
    · exact hne (by simpa using h)
  · refine ⟨f, hf, ?_, h1, h2, h3, h4⟩
    rw [hn]
    simp only [Prod.mk.injEq]
    omega

end ChmpyVerif.Props.C06
