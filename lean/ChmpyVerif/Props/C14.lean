/-
C14 — derived crystal data always reflect the crystal's current state.
The slot / mutator tables are GENERATED from crystal.py on every run (`Gen/CrystalCaches.lean`):
a new memoised attribute that some mutator does not delete makes `tables_clear_all` fail.
-/
import ChmpyVerif.Gen.CrystalCaches
import Mathlib.Tactic.Linarith

namespace ChmpyVerif.Props.C14
open ChmpyVerif.CState

/-- every cached value was derived from the crystal's CURRENT base; the cache has one entry per slot -/
def Inv (T : Tables) (cr : Crystal) : Prop :=
  cr.cache.length ≤ T.nSlots ∧ ∀ (s v : Nat), cr.cache[s]? = some (some v) → v = cr.base

def InvW (T : Tables) (w : World) : Prop := ∀ cr ∈ w, Inv T cr

theorem fresh_inv (T : Tables) (b : Nat) : Inv T (fresh T b) := by
  refine ⟨by simp [fresh], ?_⟩
  intro s v h
  simp only [fresh, List.getElem?_replicate] at h
  split at h <;> simp_all

theorem fillSlot_base (cr : Crystal) (s : Nat) : (fillSlot cr s).base = cr.base := by
  unfold fillSlot; split <;> rfl

theorem fillSlot_inv (T : Tables) (cr : Crystal) (s : Nat) (h : Inv T cr) : Inv T (fillSlot cr s) := by
  unfold fillSlot
  split
  · refine ⟨by simpa using h.1, ?_⟩
    intro s' v hv
    simp only [List.getElem?_set] at hv
    split at hv
    · split at hv
      · injection hv with hv; injection hv with hv; exact hv.symm
      · cases hv
    · exact h.2 s' v hv
  · exact h

theorem fillAll_base (cr : Crystal) (f : List Nat) : (fillAll cr f).base = cr.base := by
  unfold fillAll
  induction f generalizing cr with
  | nil => rfl
  | cons s ss ih => simp only [List.foldl_cons]; rw [ih, fillSlot_base]

theorem fillAll_inv (T : Tables) (cr : Crystal) (f : List Nat) (h : Inv T cr) : Inv T (fillAll cr f) := by
  unfold fillAll
  induction f generalizing cr with
  | nil => exact h
  | cons s ss ih => simp only [List.foldl_cons]; exact ih _ (fillSlot_inv T cr s h)

/-- a query answers from a value derived from the current base -/
theorem answerOf_fresh (T : Tables) (cr : Crystal) (f : List Nat) (h : Inv T cr) : answerOf cr f = cr.base := by
  unfold answerOf
  cases hl : f.getLast? with
  | none => rfl
  | some s =>
    simp only
    cases hv : (fillAll cr f).cache[s]? with
    | none => rfl
    | some o =>
      cases o with
      | none => rfl
      | some v =>
        have := (fillAll_inv T cr f h).2 s v hv
        rw [fillAll_base] at this; exact this

theorem clearSlots_length (c : List (Option Nat)) (cl : List Nat) : (clearSlots c cl).length = c.length := by
  unfold clearSlots
  induction cl generalizing c with
  | nil => rfl
  | cons s ss ih => simp only [List.foldl_cons]; rw [ih]; simp

theorem clearSlots_some (c : List (Option Nat)) (cl : List Nat) (s v : Nat)
    (h : (clearSlots c cl)[s]? = some (some v)) : s ∉ cl := by
  unfold clearSlots at h
  induction cl generalizing c with
  | nil => simp
  | cons x xs ih =>
    simp only [List.foldl_cons] at h
    intro hm
    rcases List.mem_cons.mp hm with rfl | hm
    · -- slot s was set to none and later sets never write `some`
      have key : ∀ (ys : List Nat) (d : List (Option Nat)), d[s]? ≠ some (some v) →
          (ys.foldl (fun c t => c.set t none) d)[s]? ≠ some (some v) := by
        intro ys
        induction ys with
        | nil => intro d hd; exact hd
        | cons y ys ihy =>
          intro d hd
          simp only [List.foldl_cons]
          apply ihy
          rw [List.getElem?_set]
          split
          · split <;> simp
          · exact hd
      apply key xs (c.set s none) _ h
      rw [List.getElem?_set]
      simp only [if_true]
      split <;> simp
    · exact ih _ h hm

theorem clearsAll_mem (T : Tables) (h : clearsAll T = true) (cl : List Nat) (hcl : cl ∈ T.clears) (s : Nat)
    (hs : s < T.nSlots) : s ∈ cl := by
  unfold clearsAll at h
  rw [List.all_eq_true] at h
  have := h cl hcl
  rw [List.all_eq_true] at this
  have := this s (List.mem_range.mpr hs)
  simpa using this

theorem set_invW (T : Tables) (w : World) (c : Nat) (cr : Crystal) (hw : InvW T w) (hc : Inv T cr) :
    InvW T (w.set c cr) := by
  intro x hx
  rcases List.mem_or_eq_of_mem_set hx with hx | rfl
  · exact hw x hx
  · exact hc

/-- one step keeps the invariant and every query answer is fresh -/
theorem step_inv (T : Tables) (hT : clearsAll T = true) (w : World) (op : Op) (hw : InvW T w) :
    InvW T (step T w op).1 ∧ ∀ p, (step T w op).2 = some p → p.1 = p.2 := by
  cases op with
  | query c f =>
    simp only [step]
    split
    · rename_i cr hcr
      have hcrw : Inv T cr := hw cr (List.mem_of_getElem? hcr)
      refine ⟨set_invW T w c _ hw (fillAll_inv T cr f hcrw), ?_⟩
      intro p hp
      simp only [Option.some.injEq] at hp
      rw [← hp]
      exact answerOf_fresh T cr f hcrw
    · exact ⟨hw, by intro p hp; cases hp⟩
  | mutate c m f nb =>
    simp only [step]
    split
    · rename_i cr cl hcr hcl
      have hcrw : Inv T cr := hw cr (List.mem_of_getElem? hcr)
      have h1 := fillAll_inv T cr f hcrw
      refine ⟨set_invW T w c _ hw ⟨by simp only [clearSlots_length]; exact h1.1, ?_⟩, by intro p hp; cases hp⟩
      intro s v hv
      exfalso
      have hnot := clearSlots_some _ _ s v hv
      have hlt : s < (clearSlots (fillAll cr f).cache cl).length := by
        by_contra hge
        rw [List.getElem?_eq_none (Nat.le_of_not_lt hge)] at hv
        cases hv
      rw [clearSlots_length] at hlt
      exact hnot (clearsAll_mem T hT cl (List.mem_of_getElem? hcl) s (Nat.lt_of_lt_of_le hlt h1.1))
    · exact ⟨hw, by intro p hp; cases hp⟩
  | copy c =>
    simp only [step]
    split
    · rename_i cr hcr
      refine ⟨?_, by intro p hp; cases hp⟩
      intro x hx
      rcases List.mem_append.mp hx with hx | hx
      · exact hw x hx
      · simp only [List.mem_singleton] at hx
        subst hx
        exact hw _ (List.mem_of_getElem? hcr)
    · exact ⟨hw, by intro p hp; cases hp⟩

/-- **every answer is fresh**: for every history of queries, mutators and deep copies of any length, every
answer returned was derived from the CURRENT base of the crystal it was asked of -/
theorem every_answer_fresh (T : Tables) (hT : clearsAll T = true) (ops : List Op) :
    ∀ (w : World), InvW T w →
      InvW T (run T w ops).1 ∧ ∀ a ∈ (run T w ops).2, ∀ p, a = some p → p.1 = p.2 := by
  induction ops with
  | nil => intro w hw; exact ⟨hw, by intro a ha; cases ha⟩
  | cons op ops ih =>
    intro w hw
    obtain ⟨h1, h2⟩ := step_inv T hT w op hw
    obtain ⟨h3, h4⟩ := ih _ h1
    simp only [run]
    refine ⟨h3, ?_⟩
    intro a ha p hp
    rcases List.mem_cons.mp ha with rfl | ha
    · exact h2 p hp
    · exact h4 a ha p hp

/-- the tables generated from the CURRENT crystal.py: every mutator deletes every memo slot -/
theorem tables_clear_all : clearsAll ChmpyVerif.Gen.tables = true := by decide

/-- … hence for the real class: any history starting from freshly constructed crystals -/
theorem every_answer_fresh_generated (bases : List Nat) (ops : List Op) :
    ∀ a ∈ (run ChmpyVerif.Gen.tables (bases.map (fresh ChmpyVerif.Gen.tables)) ops).2, ∀ p, a = some p → p.1 = p.2 := by
  refine (every_answer_fresh _ tables_clear_all ops _ ?_).2
  intro cr hcr
  obtain ⟨b, _, rfl⟩ := List.mem_map.mp hcr
  exact fresh_inv _ b

theorem map_set_self {α β} (f : α → β) (w : List α) (c : Nat) (x y : α) (h : w[c]? = some x) (hf : f y = f x) :
    (w.set c y).map f = w.map f := by
  induction w generalizing c with
  | nil => rfl
  | cons a as ih =>
    cases c with
    | zero =>
      simp only [List.getElem?_cons_zero, Option.some.injEq] at h
      subst h
      simp [hf]
    | succ n =>
      simp only [List.getElem?_cons_succ] at h
      simp [ih n h]

/-- queries never modify the cell, space group or asymmetric unit -/
theorem queries_pure (T : Tables) (w : World) (c : Nat) (f : List Nat) :
    ((step T w (.query c f)).1).map (·.base) = w.map (·.base) := by
  simp only [step]
  split
  · rename_i cr hcr
    exact map_set_self _ w c cr _ hcr (fillAll_base cr f)
  · rfl

/-- repeating a query returns an equal result -/
theorem repeat_equal (T : Tables) (w : World) (hw : InvW T w) (c : Nat) (f : List Nat) :
    (step T (step T w (.query c f)).1 (.query c f)).2 = (step T w (.query c f)).2 := by
  cases hcr : w[c]? with
  | none => simp [step, hcr]
  | some cr =>
    have hlt : c < w.length := by
      by_contra h; rw [List.getElem?_eq_none (Nat.le_of_not_lt h)] at hcr; cases hcr
    have hget : (w.set c (fillAll cr f))[c]? = some (fillAll cr f) := by
      rw [List.getElem?_set]; simp [hlt]
    have hinv := hw cr (List.mem_of_getElem? hcr)
    have i1 := answerOf_fresh T cr f hinv
    have i2 := answerOf_fresh T (fillAll cr f) f (fillAll_inv T cr f hinv)
    simp only [step, hcr, hget, i1, i2, fillAll_base]

/-- why the deletions matter (the defect that was repaired): with a mutator that clears nothing, the
3-step history  query, mutate, query  returns a value derived from the OLD base -/
theorem stale_if_not_cleared :
    (run ⟨1, [[]]⟩ [fresh ⟨1, [[]]⟩ 0] [.query 0 [0], .mutate 0 0 [] 1, .query 0 [0]]).2
      = [some (0, 0), none, some (0, 1)] := by decide

/-! non-vacuity: with the generated tables the same history is fresh -/
example : (run ChmpyVerif.Gen.tables [fresh ChmpyVerif.Gen.tables 0] [.query 0 [0], .mutate 0 0 [] 1, .query 0 [0]]).2
    = [some (0, 0), none, some (1, 1)] := by decide

end ChmpyVerif.Props.C14
