/-
C10, later additions — the element bookkeeping of a SHELX `.res` file.  `Crystal.to_shelx_string` writes
`SFAC` = the sorted distinct atomic numbers (`np.unique`) and, per atom, the 1-based position of its element in
that list (`sfac.index(x) + 1`); `fmt/shelx.py:_parse_atom_line` reads the element back as `sfac[idx - 1]`.
The theorems say that this indirection loses nothing, for every list of site atoms.
-/
namespace ChmpyVerif.Props.C10

/-- `np.unique` on atomic numbers below `bound`: sorted, distinct, exactly the values present -/
def sfacOf (bound : Nat) (zs : List Nat) : List Nat := (List.range bound).filter (zs.contains ·)

/-- writer: 1-based index of each atom's element in the SFAC list -/
def atomSfac (sfac zs : List Nat) : List Nat := zs.map fun z => sfac.idxOf z + 1

/-- reader: `sfac[idx - 1]` -/
def readElement (sfac : List Nat) (idx : Nat) : Option Nat := sfac[idx - 1]?

theorem mem_sfacOf (bound : Nat) (zs : List Nat) (z : Nat) : z ∈ sfacOf bound zs ↔ z < bound ∧ z ∈ zs := by
  simp [sfacOf, List.mem_filter, List.mem_range]

/-- the SFAC list names no element twice … -/
theorem sfacOf_nodup (bound : Nat) (zs : List Nat) : (sfacOf bound zs).Nodup :=
  List.Pairwise.sublist List.filter_sublist List.nodup_range

/-- … and is in increasing order (as `np.unique` returns it) -/
theorem sfacOf_sorted (bound : Nat) (zs : List Nat) : (sfacOf bound zs).Pairwise (· < ·) :=
  List.Pairwise.sublist List.filter_sublist List.pairwise_lt_range

/-- whatever SFAC list is written, as long as it names every element present, each atom's element is read back
from its written index -/
theorem sfac_index_roundtrip (sfac zs : List Nat) (h : ∀ z ∈ zs, z ∈ sfac) :
    (atomSfac sfac zs).map (readElement sfac) = zs.map some := by
  unfold atomSfac readElement
  rw [List.map_map]
  apply List.map_congr_left
  intro z hz
  have hlt : sfac.idxOf z < sfac.length := List.idxOf_lt_length_of_mem (h z hz)
  simp only [Function.comp, Nat.add_sub_cancel]
  rw [List.getElem?_eq_getElem hlt, List.getElem_idxOf hlt]

/-- the written indices are valid 1-based positions -/
theorem atomSfac_range (sfac zs : List Nat) (h : ∀ z ∈ zs, z ∈ sfac) :
    ∀ i ∈ atomSfac sfac zs, 1 ≤ i ∧ i ≤ sfac.length := by
  intro i hi
  simp only [atomSfac, List.mem_map] at hi
  obtain ⟨z, hz, rfl⟩ := hi
  have := List.idxOf_lt_length_of_mem (h z hz)
  omega

/-- the code's own SFAC list (`np.unique`) round-trips the elements of every crystal -/
theorem shelx_elements_roundtrip (bound : Nat) (zs : List Nat) (hb : ∀ z ∈ zs, z < bound) :
    (atomSfac (sfacOf bound zs) zs).map (readElement (sfacOf bound zs)) = zs.map some :=
  sfac_index_roundtrip _ _ fun z hz => (mem_sfacOf bound zs z).2 ⟨hb z hz, hz⟩

/-- a wrong base (0-based index written, 1-based read) would be noticed: the first atom of the second element comes
back as the first element -/
example : (([8, 1, 1].map fun z => (sfacOf 119 [8, 1, 1]).idxOf z).map (readElement (sfacOf 119 [8, 1, 1])))
    ≠ [8, 1, 1].map some := by decide

example : atomSfac (sfacOf 119 [8, 1, 1, 6]) [8, 1, 1, 6] = [3, 1, 1, 2] := by decide

end ChmpyVerif.Props.C10
