/-
C15, row level: a loop row written by the serializer — fields joined by single blanks, numbers right-aligned in 20 columns,
strings plain or quoted — is cut by the row tokenizer (`VALUES_REGEX`) into exactly its fields, quoted fields staying whole
whatever blanks they contain.
-/
import ChmpyVerif.Props.C15

namespace ChmpyVerif.Props.C15
open ChmpyVerif.Cif ChmpyVerif.PyStr ChmpyVerif.MolIO

theorem dropWhile_length_le {α} (p : α → Bool) (l : List α) : (l.dropWhile p).length ≤ l.length := by
  induction l with
  | nil => simp
  | cons a l ih => simp only [List.dropWhile_cons]; split <;> simp <;> omega

theorem dropWhile_cons_length_le (c : Ch) (rest : List Ch) (p : Ch → Bool) (hc : p c = true) :
    ((c :: rest).dropWhile p).length ≤ rest.length := by
  simp only [List.dropWhile_cons, hc, if_true]
  exact dropWhile_length_le _ _

/-- the fuel of the tokenizer is irrelevant once it covers the input -/
theorem go_fuel2 (s : List Ch) (f1 f2 : Nat) (h1 : s.length ≤ f1) (h2 : s.length ≤ f2) : tokens.go s f1 = tokens.go s f2 := by
  induction f1 generalizing s f2 with
  | zero =>
    have : s = [] := List.eq_nil_of_length_eq_zero (by omega)
    subst this
    cases f2 <;> rfl
  | succ f1 ih =>
    cases s with
    | nil => cases f2 <;> rfl
    | cons c rest =>
      cases f2 with
      | zero => simp at h2
      | succ f2 =>
        have hr1 : rest.length ≤ f1 := by simpa using h1
        have hr2 : rest.length ≤ f2 := by simpa using h2
        simp only [tokens.go]
        split
        · exact ih rest f2 hr1 hr2
        · rename_i hsp
          have hsp' : (fun x => !pyIsSpace x) c = true := by simpa using hsp
          have hlt := dropWhile_cons_length_le c rest (fun x => !pyIsSpace x) hsp'
          split
          · split
            · rename_i after hafter
              have hl : after.length ≤ rest.length := by
                have h0 := dropWhile_length_le (fun x => x != c) rest
                rw [hafter] at h0; simp at h0; omega
              rw [ih after f2 (by omega) (by omega)]
            · rw [ih _ f2 (by omega) (by omega)]
          · rw [ih _ f2 (by omega) (by omega)]

theorem tokens_eq_go (s : List Ch) (fuel : Nat) (h : s.length ≤ fuel) : tokens.go s fuel = tokens s :=
  go_fuel2 s fuel s.length h (Nat.le_refl _)

/-- leading blanks are skipped -/
theorem tokens_pad (pad s : List Ch) (hp : pad.all pyIsSpace = true) : tokens (pad ++ s) = tokens s := by
  induction pad with
  | nil => rfl
  | cons c cs ih =>
    simp only [List.all_cons, Bool.and_eq_true] at hp
    show tokens.go (c :: (cs ++ s)) ((cs ++ s).length + 1) = _
    simp only [tokens.go, hp.1, if_true]
    rw [tokens_eq_go _ _ (Nat.le_refl _)]
    exact ih hp.2

/-- a plain word (no blanks, not starting with a quote character or `;`) followed by a blank or the end is one token -/
def IsWord (w : List Ch) : Prop :=
  w ≠ [] ∧ w.all (fun c => !pyIsSpace c) = true ∧ w.head?.all (fun c => c != 39 && c != 34 && c != 59) = true

theorem takeWhile_word (w rest : List Ch) (hw : w.all (fun c => !pyIsSpace c) = true) (hr : rest.head?.all pyIsSpace = true) :
    (w ++ rest).takeWhile (fun x => !pyIsSpace x) = w ∧ (w ++ rest).dropWhile (fun x => !pyIsSpace x) = rest := by
  induction w with
  | nil =>
    cases rest with
    | nil => simp
    | cons r rs => simp at hr; simp [List.takeWhile_cons, List.dropWhile_cons, hr]
  | cons c cs ih =>
    simp only [List.all_cons, Bool.and_eq_true] at hw
    have := ih hw.2
    refine ⟨?_, ?_⟩ <;> simp [List.takeWhile_cons, List.dropWhile_cons, hw.1, this.1, this.2]

theorem tokens_word (w rest : List Ch) (hw : IsWord w) (hr : rest.head?.all pyIsSpace = true) :
    tokens (w ++ rest) = w :: tokens rest := by
  obtain ⟨hne, hns, hh⟩ := hw
  obtain ⟨c, cs, rfl⟩ := List.exists_cons_of_ne_nil hne
  have hc : pyIsSpace c = false := by simp only [List.all_cons, Bool.and_eq_true, Bool.not_eq_true'] at hns; exact hns.1
  have hq : c ≠ 39 ∧ c ≠ 34 ∧ c ≠ 59 := by
    simp only [List.head?_cons, Option.all_some, Bool.and_eq_true, bne_iff_ne, ne_eq] at hh
    tauto
  obtain ⟨t1, t2⟩ := takeWhile_word (c :: cs) rest hns hr
  simp only [List.cons_append] at t1 t2
  show tokens.go (c :: (cs ++ rest)) ((cs ++ rest).length + 1) = _
  simp only [tokens.go, hc, Bool.false_eq_true, if_false, hq.1, hq.2.1, hq.2.2, decide_false, Bool.or_self, t1, t2]
  congr 1
  apply tokens_eq_go
  simp

/-- a quoted field (no quote character inside) followed by anything is one token, blanks and all -/
theorem tokens_quoted (s rest : List Ch) (hq : (39 : Ch) ∉ s) :
    tokens (39 :: s ++ 39 :: rest) = (39 :: s ++ [39]) :: tokens rest := by
  have hall : s.all (fun x => x != 39) = true := by
    rw [List.all_eq_true]; intro x hx; simp; intro e; exact hq (e ▸ hx)
  obtain ⟨t1, t2⟩ := ChmpyVerif.MolIO.takeWhile_digits_append' (fun x => x != 39) s 39 rest hall (by simp)
  show tokens.go (39 :: (s ++ 39 :: rest)) ((s ++ 39 :: rest).length + 1) = _
  simp only [tokens.go]
  have hsp : pyIsSpace 39 = false := by decide
  simp only [hsp, Bool.false_eq_true, if_false, decide_true, Bool.true_or, if_true, t1, t2]
  congr 1
  apply tokens_eq_go
  simp only [List.length_append, List.length_cons]; omega

/-- what a written field looks like: blanks (right alignment), then a word or a quoted string -/
inductive FieldOk : List Ch → List Ch → Prop
  | word : ∀ (pad w : List Ch), pad.all pyIsSpace = true → IsWord w → FieldOk (pad ++ w) w
  | quoted : ∀ (pad s : List Ch), pad.all pyIsSpace = true → (39 : Ch) ∉ s → FieldOk (pad ++ (39 :: s ++ [39])) (39 :: s ++ [39])

theorem tokens_field_then (f t rest : List Ch) (h : FieldOk f t) (hr : rest.head?.all pyIsSpace = true) :
    tokens (f ++ rest) = t :: tokens rest := by
  cases h with
  | word pad _ hp hw =>
    rw [List.append_assoc, tokens_pad _ _ hp, tokens_word _ rest hw hr]
  | quoted pad s hp hq =>
    rw [List.append_assoc, tokens_pad _ _ hp]
    have : (39 :: s ++ [39]) ++ rest = 39 :: s ++ 39 :: rest := by simp
    rw [this, tokens_quoted s rest hq]

theorem tokens_nil : tokens [] = [] := rfl

/-- **a written row is tokenized into exactly its fields** -/
theorem row_tokens (fs : List (List Ch × List Ch)) (h : ∀ p ∈ fs, FieldOk p.1 p.2) :
    tokens (joinWith 32 (fs.map (·.1))) = fs.map (·.2) := by
  induction fs with
  | nil => rfl
  | cons p ps ih =>
    cases ps with
    | nil =>
      simp only [List.map_cons, List.map_nil, joinWith]
      have := tokens_field_then p.1 p.2 [] (h p (by simp)) (by simp)
      simpa [tokens_nil] using this
    | cons q qs =>
      simp only [List.map_cons, joinWith]
      have hsp : pyIsSpace 32 = true := by decide
      rw [tokens_field_then p.1 p.2 _ (h p (by simp)) (by simp [hsp])]
      congr 1
      have : tokens (32 :: joinWith 32 (q.1 :: List.map (fun x => x.1) qs)) = tokens (joinWith 32 (q.1 :: List.map (fun x => x.1) qs)) :=
        tokens_pad [32] _ (by decide)
      rw [this]
      have ih' := ih (fun r hr => h r (List.mem_cons_of_mem _ hr))
      simpa using ih'

/-- integers and fixed-point numbers as the loop writer formats them are such fields -/
theorem fmtInt_field (i : Int) : FieldOk (fmtInt 0 20 i) ((if i < 0 then [45] else []) ++ natStr i.natAbs) := by
  unfold fmtInt padLeft
  simp only [show ((0 : Nat) = 1) = False by simp, if_false]
  apply FieldOk.word
  · simp [pyIsSpace]
  · have hd := natStr_digits i.natAbs
    have hne : natStr i.natAbs ≠ [] := List.ne_nil_of_length_pos (natStr_length_pos _)
    have hdns : ∀ c, isDigitA c = true → pyIsSpace c = false := fun c h => ChmpyVerif.Element.digit_not_space c h
    refine ⟨by split <;> simp [hne], ?_, ?_⟩
    · rw [List.all_append]
      have : (natStr i.natAbs).all (fun c => !pyIsSpace c) = true := by
        rw [List.all_eq_true]; intro c hc; simp [hdns c ((List.all_eq_true.mp hd) c hc)]
      rw [this, Bool.and_true]
      split
      · decide
      · rfl
    · split
      · simp
      · obtain ⟨c, r, hcr⟩ := List.exists_cons_of_ne_nil hne
        rw [hcr]
        have hcd : isDigitA c = true := by rw [hcr] at hd; simp only [List.all_cons, Bool.and_eq_true] at hd; exact hd.1
        have : c ≠ 39 ∧ c ≠ 34 ∧ c ≠ 59 := by unfold isDigitA at hcd; refine ⟨?_, ?_, ?_⟩ <;> (intro e; subst e; simp at hcd)
        simp [this.1, this.2.1, this.2.2]

end ChmpyVerif.Props.C15
