/-
C13, later additions — the supercell loop of `as_P1_supercell` / `to_translational_symmetry` and the conjugation used for
the trigonal switch, beyond the lattice-level statements of `Props/C13.lean`:

* the loop `for q, r, s in product(arange(n₁), arange(n₂), arange(n₃)): for mol in unit-cell molecules` visits
  exactly `n₁·n₂·n₃·N` (offset, atom) pairs, each offset of the box once, none outside it (atom counts scale with the
  volume ratio, `C13.supercell_volume`);
* the fractional coordinates of the supercell atom `x + q·D` in the cell `diag(n)·D` are `(f + q)/n`; they lie in the
  cell `[0,1)` exactly when `f` does and `0 ≤ q < n`, and two (offset, coordinate) pairs with the same supercell
  coordinate are the same pair (no atom is produced twice);
* re-expressing operations in another cell (`R ↦ T·R·T⁻¹`) is a group homomorphism that keeps determinant and trace, so
  the re-expressed set is again a group of operations of the same kinds (rotations stay rotations, order kept).
-/
import ChmpyVerif.Gen.Trigonal
import Mathlib.LinearAlgebra.Matrix.Determinant.Basic
import Mathlib.LinearAlgebra.Matrix.Trace
import Mathlib.Data.Matrix.Mul
import Mathlib.Tactic.Linarith
import Mathlib.Tactic.FieldSimp
import Mathlib.Tactic.Ring
import Mathlib.Algebra.Order.Field.Basic
import Mathlib.Algebra.Order.Floor.Ring

namespace ChmpyVerif.Props.C13
open Matrix

/-! ### the loop over offsets -/

/-- model of the double loop of `as_P1_supercell`: offsets in `itertools.product` order, all unit-cell atoms per offset -/
def scLoop {α : Type} (n1 n2 n3 : Nat) (uc : List α) : List ((Nat × Nat × Nat) × α) :=
  (List.range n1).flatMap fun q => (List.range n2).flatMap fun r => (List.range n3).flatMap fun s =>
    uc.map fun a => ((q, r, s), a)

/-- both supercell constructors of crystal.py have the loop shape `scLoop` models (read off the AST on every run) -/
theorem supercell_loop_shape : ChmpyVerif.Gen.supercellLoopShape = [1, 1] := by decide

/-- `as_P1` is the 1×1×1 supercell (read off the AST) … -/
theorem asP1_is_unit_supercell : ChmpyVerif.Gen.asP1IsUnitSupercell = 1 := by decide

/-- … whose loop produces every unit-cell atom exactly once, in order, untranslated: the P1 description has the atoms of the
unit cell as its asymmetric unit -/
theorem scLoop_unit {α : Type} (uc : List α) : scLoop 1 1 1 uc = uc.map fun a => ((0, 0, 0), a) := by
  simp [scLoop]

/-- atom count scales with the number of cells in the supercell -/
theorem scLoop_length {α : Type} (n1 n2 n3 : Nat) (uc : List α) :
    (scLoop n1 n2 n3 uc).length = n1 * n2 * n3 * uc.length := by
  simp [scLoop, List.length_flatMap, List.map_const', List.sum_replicate, Nat.mul_assoc]

/-- exactly the offsets of the box are used, each with every unit-cell atom -/
theorem scLoop_mem {α : Type} (n1 n2 n3 : Nat) (uc : List α) (q r s : Nat) (a : α) :
    ((q, r, s), a) ∈ scLoop n1 n2 n3 uc ↔ q < n1 ∧ r < n2 ∧ s < n3 ∧ a ∈ uc := by
  simp [scLoop, List.mem_flatMap, List.mem_range]

/-- no (offset, atom) pair is visited twice when the unit-cell atoms are distinct -/
theorem scLoop_nodup {α : Type} (n1 n2 n3 : Nat) (uc : List α) (h : uc.Nodup) : (scLoop n1 n2 n3 uc).Nodup := by
  unfold scLoop
  refine List.nodup_flatMap.2 ⟨fun q _ => List.nodup_flatMap.2 ⟨fun r _ => List.nodup_flatMap.2 ⟨fun s _ => ?_, ?_⟩, ?_⟩, ?_⟩
  · exact h.map fun a b hab => by simpa using hab
  · refine List.Pairwise.imp_of_mem ?_ List.nodup_range
    intro s s' _ _ hne
    simp only [Function.onFun, List.disjoint_left, List.mem_map]
    rintro x ⟨a, _, rfl⟩ ⟨b, _, hb⟩
    simp only [Prod.mk.injEq] at hb
    exact hne hb.1.2.2.symm
  · refine List.Pairwise.imp_of_mem ?_ List.nodup_range
    intro r r' _ _ hne
    simp only [Function.onFun, List.disjoint_left, List.mem_flatMap, List.mem_map]
    rintro x ⟨s, _, a, _, rfl⟩ ⟨s', _, b, _, hb⟩
    simp only [Prod.mk.injEq] at hb
    exact hne hb.1.2.1.symm
  · refine List.Pairwise.imp_of_mem ?_ List.nodup_range
    intro q q' _ _ hne
    simp only [Function.onFun, List.disjoint_left, List.mem_flatMap, List.mem_map]
    rintro x ⟨r, _, s, _, a, _, rfl⟩ ⟨r', _, s', _, b, _, hb⟩
    simp only [Prod.mk.injEq] at hb
    exact hne hb.1.1.symm

/-! ### fractional coordinates in the supercell -/

/-- the supercell atom `(f + q)·D` has fractional coordinates `(f + q)/n` in the cell `diag(n)·D` -/
theorem supercell_frac {K : Type} [Field K] (D : Matrix (Fin 3) (Fin 3) K) (n f q : Fin 3 → K) (hn : ∀ i, n i ≠ 0) :
    (fun i => (f i + q i) / n i) ᵥ* (Matrix.diagonal n * D) = (f + q) ᵥ* D := by
  rw [← Matrix.vecMul_vecMul]
  congr 1
  funext i
  rw [Matrix.vecMul_diagonal]
  simp only [Pi.add_apply]
  field_simp [hn i]

/-- … and they lie in the supercell exactly when the atom lay in its cell and the offset is one of the loop -/
theorem supercell_frac_in_cell {K : Type} [Field K] [LinearOrder K] [IsStrictOrderedRing K] (n q : ℕ) (f : K)
    (hf0 : 0 ≤ f) (hf1 : f < 1) (hq : q < n) :
    0 ≤ (f + q) / (n : K) ∧ (f + q) / (n : K) < 1 := by
  have hn : (0 : K) < n := by exact_mod_cast (Nat.lt_of_le_of_lt (Nat.zero_le q) hq)
  have hq' : (q : K) + 1 ≤ n := by exact_mod_cast hq
  have hq0 : (0 : K) ≤ q := Nat.cast_nonneg q
  refine ⟨div_nonneg (by linarith) hn.le, ?_⟩
  rw [div_lt_one hn]
  linarith

/-- two (offset, in-cell coordinate) pairs giving the same supercell coordinate are the same pair: the supercell
never contains one atom twice, and distinct atoms of the cell stay distinct -/
theorem supercell_frac_inj {K : Type} [Field K] [LinearOrder K] [IsStrictOrderedRing K] [FloorRing K] (n : ℕ) (hn : 0 < n)
    (q q' : ℕ) (f f' : K) (hf0 : 0 ≤ f) (hf1 : f < 1) (hf0' : 0 ≤ f') (hf1' : f' < 1)
    (h : (f + q) / (n : K) = (f' + q') / (n : K)) : q = q' ∧ f = f' := by
  have hn' : (n : K) ≠ 0 := by exact_mod_cast hn.ne'
  have h2 : f + q = f' + q' := by
    field_simp at h
    exact h
  have hfl : ⌊f + (q : K)⌋ = ⌊f' + (q' : K)⌋ := by rw [h2]
  rw [Int.floor_add_natCast, Int.floor_add_natCast, Int.floor_eq_zero_iff.2 ⟨hf0, hf1⟩,
    Int.floor_eq_zero_iff.2 ⟨hf0', hf1'⟩] at hfl
  have hq : q = q' := by omega
  refine ⟨hq, ?_⟩
  subst hq
  linarith

/-! ### conjugation of operations by the basis change -/

/-- re-expressing in the cell `T·D` respects composition … -/
theorem conj_mul {K : Type} [CommRing K] (T Tinv A B : Matrix (Fin 3) (Fin 3) K) (h : Tinv * T = 1) :
    (T * A * Tinv) * (T * B * Tinv) = T * (A * B) * Tinv := by
  calc (T * A * Tinv) * (T * B * Tinv) = T * A * (Tinv * T) * B * Tinv := by simp only [Matrix.mul_assoc]
    _ = T * (A * B) * Tinv := by rw [h]; simp only [Matrix.mul_one, Matrix.mul_assoc]

/-- … sends the identity to the identity … -/
theorem conj_one {K : Type} [CommRing K] (T Tinv : Matrix (Fin 3) (Fin 3) K) (h : T * Tinv = 1) :
    T * 1 * Tinv = 1 := by
  rw [Matrix.mul_one, h]

/-- … keeps the determinant (proper / improper operations stay what they are) … -/
theorem conj_det {K : Type} [CommRing K] (T Tinv A : Matrix (Fin 3) (Fin 3) K) (h : T * Tinv = 1) :
    (T * A * Tinv).det = A.det := by
  have hd : T.det * Tinv.det = 1 := by rw [← Matrix.det_mul, h, Matrix.det_one]
  rw [Matrix.det_mul, Matrix.det_mul]
  calc T.det * A.det * Tinv.det = (T.det * Tinv.det) * A.det := by ring
    _ = A.det := by rw [hd, one_mul]

/-- … and the trace (the rotation order of each operation is unchanged) -/
theorem conj_trace {K : Type} [CommRing K] (T Tinv A : Matrix (Fin 3) (Fin 3) K) (h : Tinv * T = 1) :
    (T * A * Tinv).trace = A.trace := by
  rw [Matrix.trace_mul_comm, ← Matrix.mul_assoc, h, Matrix.one_mul]

/-- and it is undone by the opposite switch -/
theorem conj_roundtrip {K : Type} [CommRing K] (T Tinv A : Matrix (Fin 3) (Fin 3) K) (h : Tinv * T = 1) :
    Tinv * (T * A * Tinv) * T = A := by
  calc Tinv * (T * A * Tinv) * T = (Tinv * T) * A * (Tinv * T) := by simp only [Matrix.mul_assoc]
    _ = A := by rw [h, Matrix.one_mul, Matrix.mul_one]

/-! non-vacuity -/
example : (scLoop 2 1 3 ["O", "H", "H"]).length = 18 := by decide
example : ((1, 0, 2), "H") ∈ scLoop 2 1 3 ["O", "H"] := by decide
example : (0 : ℚ) ≤ (1/2 + (2 : ℕ)) / ((3 : ℕ) : ℚ) ∧ (1/2 + (2 : ℕ)) / ((3 : ℕ) : ℚ) < 1 :=
  supercell_frac_in_cell 3 2 (1/2) (by norm_num) (by norm_num) (by norm_num)

end ChmpyVerif.Props.C13
