/-
C03 — periodic neighbourhood queries return exactly the atoms within the radius.
Geometry over ℝ (any invertible lattice), combinatorics of the slab over ℤ (the model's own
definitions, `Model/Slab.lean`).
-/
import ChmpyVerif.Model.Slab
import Mathlib.Analysis.SpecialFunctions.Pow.Real
import Mathlib.Analysis.Real.Sqrt
import Mathlib.Algebra.Order.Floor.Ring
import Mathlib.Tactic.Linarith
import Mathlib.Tactic.Positivity
import Mathlib.Tactic.FieldSimp
import Mathlib.Tactic.Ring

namespace ChmpyVerif.Props.C03
open ChmpyVerif.Slab

/-! ### geometry: a ball of radius r lies in the slab of cells whose indices are bounded by r·|a*| -/

/-- Cauchy–Schwarz in three dimensions -/
theorem cauchy3 (x1 x2 x3 y1 y2 y3 : ℝ) :
    (x1 * y1 + x2 * y2 + x3 * y3) ^ 2 ≤ (x1 ^ 2 + x2 ^ 2 + x3 ^ 2) * (y1 ^ 2 + y2 ^ 2 + y3 ^ 2) := by
  nlinarith [sq_nonneg (x1 * y2 - x2 * y1), sq_nonneg (x1 * y3 - x3 * y1), sq_nonneg (x2 * y3 - x3 * y2)]

/-- a fractional component of a Cartesian vector `v` is `v · a*ᵢ`; it is bounded by `‖v‖·‖a*ᵢ‖` -/
theorem ball_in_frac_box (v1 v2 v3 s1 s2 s3 r : ℝ) (hr : 0 ≤ r) (hv : v1 ^ 2 + v2 ^ 2 + v3 ^ 2 ≤ r ^ 2) :
    |v1 * s1 + v2 * s2 + v3 * s3| ≤ r * Real.sqrt (s1 ^ 2 + s2 ^ 2 + s3 ^ 2) := by
  have hs : 0 ≤ s1 ^ 2 + s2 ^ 2 + s3 ^ 2 := by positivity
  have hc := cauchy3 v1 v2 v3 s1 s2 s3
  have hb : (v1 * s1 + v2 * s2 + v3 * s3) ^ 2 ≤ (r * Real.sqrt (s1 ^ 2 + s2 ^ 2 + s3 ^ 2)) ^ 2 := by
    rw [mul_pow, Real.sq_sqrt hs]
    calc (v1 * s1 + v2 * s2 + v3 * s3) ^ 2 ≤ (v1 ^ 2 + v2 ^ 2 + v3 ^ 2) * (s1 ^ 2 + s2 ^ 2 + s3 ^ 2) := hc
      _ ≤ r ^ 2 * (s1 ^ 2 + s2 ^ 2 + s3 ^ 2) := mul_le_mul_of_nonneg_right hv hs
  exact abs_le_of_sq_le_sq' hb (by positivity) |> fun h => abs_le.mpr h

/-- an atom at fractional `u ∈ [0,1)` in cell `n`, within `ρ` (fractional) of `f`, has its cell index between
`⌊f - ρ⌋` and `⌈f + ρ⌉` — the box the queries enumerate -/
theorem cell_index_bounds (u f ρ : ℝ) (n : ℤ) (hu0 : 0 ≤ u) (hu1 : u < 1) (h : |u + n - f| ≤ ρ) :
    ⌊f - ρ⌋ ≤ n ∧ n ≤ ⌈f + ρ⌉ := by
  obtain ⟨h1, h2⟩ := abs_le.mp h
  constructor
  · have : (⌊f - ρ⌋ : ℝ) ≤ f - ρ := Int.floor_le _
    have hlt : (⌊f - ρ⌋ : ℝ) < (n : ℝ) + 1 := by linarith
    have : ⌊f - ρ⌋ < n + 1 := by exact_mod_cast hlt
    omega
  · have : f + ρ ≤ (⌈f + ρ⌉ : ℝ) := Int.le_ceil _
    have hle : (n : ℝ) ≤ (⌈f + ρ⌉ : ℝ) := by linarith
    exact_mod_cast hle

/-- **no atom within the radius is outside the enumerated box**: for ANY lattice whose fractional
coordinates are `wᵢ = v · a*ᵢ` (columns `sᵢ` of the inverse matrix), an image `u + n` of a unit-cell atom
whose Cartesian distance to the centre (fractional `fo`) is at most `r` has, on each axis, its cell index
inside `[⌊fo - r‖a*‖⌋, ⌈fo + r‖a*‖⌉]`, the bounds the repaired code computes with `a_star` (C12). -/
theorem ball_cell_in_bounds (v1 v2 v3 s1 s2 s3 r u fo : ℝ) (n : ℤ) (hr : 0 ≤ r)
    (hdist : v1 ^ 2 + v2 ^ 2 + v3 ^ 2 ≤ r ^ 2)
    (hfrac : u + n - fo = v1 * s1 + v2 * s2 + v3 * s3)
    (hu0 : 0 ≤ u) (hu1 : u < 1) :
    ⌊fo - r * Real.sqrt (s1 ^ 2 + s2 ^ 2 + s3 ^ 2)⌋ ≤ n ∧ n ≤ ⌈fo + r * Real.sqrt (s1 ^ 2 + s2 ^ 2 + s3 ^ 2)⌉ := by
  apply cell_index_bounds u fo _ n hu0 hu1
  rw [hfrac]
  exact ball_in_frac_box v1 v2 v3 s1 s2 s3 r hr hdist

/-- why the ORIGINAL bound `r / |aᵢ|` was too small on oblique cells: `1/‖aᵢ‖ ≤ ‖a*ᵢ‖` always
(from `aᵢ · a*ᵢ = 1`), with equality only when `a*ᵢ ∥ aᵢ` -/
theorem one_over_len_le_star (a1 a2 a3 s1 s2 s3 : ℝ) (hdual : a1 * s1 + a2 * s2 + a3 * s3 = 1) :
    1 / Real.sqrt (a1 ^ 2 + a2 ^ 2 + a3 ^ 2) ≤ Real.sqrt (s1 ^ 2 + s2 ^ 2 + s3 ^ 2) := by
  have hc := cauchy3 a1 a2 a3 s1 s2 s3
  rw [hdual] at hc
  have ha : 0 < a1 ^ 2 + a2 ^ 2 + a3 ^ 2 := by
    by_contra h
    have h0 : a1 ^ 2 + a2 ^ 2 + a3 ^ 2 = 0 := le_antisymm (not_lt.mp h) (by positivity)
    rw [h0] at hc; norm_num at hc
  have hsa := Real.sqrt_pos.mpr ha
  rw [div_le_iff₀ hsa, ← Real.sqrt_mul (by positivity)]
  calc (1 : ℝ) = Real.sqrt 1 := Real.sqrt_one.symm
    _ ≤ Real.sqrt ((s1 ^ 2 + s2 ^ 2 + s3 ^ 2) * (a1 ^ 2 + a2 ^ 2 + a3 ^ 2)) := by
      apply Real.sqrt_le_sqrt; linarith

/-! ### combinatorics of the slab (exact, over ℤ) -/

theorem mem_arange (lo hi x : Int) : x ∈ arange lo hi ↔ lo ≤ x ∧ x ≤ hi := by
  unfold arange
  simp only [List.mem_map, List.mem_range]
  constructor
  · rintro ⟨i, hi', rfl⟩; omega
  · intro h; exact ⟨(x - lo).toNat, by omega, by omega⟩

theorem arange_nodup (lo hi : Int) : (arange lo hi).Nodup := by
  unfold arange
  apply List.Nodup.map _ List.nodup_range
  intro a b h
  have h' : lo + (a : Int) = lo + (b : Int) := h
  omega

theorem mem_insertAbs (x y : Int) (l : List Int) : y ∈ insertAbs x l ↔ y = x ∨ y ∈ l := by
  induction l with
  | nil => simp [insertAbs]
  | cons z zs ih =>
    simp only [insertAbs]
    split
    · simp
    · simp only [List.mem_cons, ih]; tauto

theorem insertAbs_perm (x : Int) (l : List Int) : (insertAbs x l).Perm (x :: l) := by
  induction l with
  | nil => exact List.Perm.refl _
  | cons z zs ih =>
    simp only [insertAbs]
    split
    · exact List.Perm.refl _
    · exact (List.Perm.cons z ih).trans (List.Perm.swap x z zs)

/-- ordering the cell indices by |h| only permutes them -/
theorem sortAbs_perm (l : List Int) : (sortAbs l).Perm l := by
  induction l with
  | nil => exact List.Perm.refl _
  | cons x xs ih =>
    simp only [sortAbs, List.foldr_cons]
    exact (insertAbs_perm x _).trans (List.Perm.cons x ih)

theorem mem_product3 (hs ks ls : List Int) (c : Int × Int × Int) :
    c ∈ product3 hs ks ls ↔ c.1 ∈ hs ∧ c.2.1 ∈ ks ∧ c.2.2 ∈ ls := by
  obtain ⟨h, k, l⟩ := c
  simp only [product3, List.mem_flatMap, List.mem_map, Prod.mk.injEq]
  constructor
  · rintro ⟨h', hh, k', hk, l', hl, rfl, rfl, rfl⟩; exact ⟨hh, hk, hl⟩
  · rintro ⟨hh, hk, hl⟩; exact ⟨h, hh, k, hk, l, hl, rfl, rfl, rfl⟩

/-- the slab visits exactly the cells of the requested box … -/
theorem cells_mem_iff (lo hi c : Int × Int × Int) :
    c ∈ cells lo hi ↔ (lo.1 ≤ c.1 ∧ c.1 ≤ hi.1) ∧ (lo.2.1 ≤ c.2.1 ∧ c.2.1 ≤ hi.2.1) ∧ (lo.2.2 ≤ c.2.2 ∧ c.2.2 ≤ hi.2.2) := by
  unfold cells
  rw [mem_product3, (sortAbs_perm _).mem_iff, (sortAbs_perm _).mem_iff, (sortAbs_perm _).mem_iff,
    mem_arange, mem_arange, mem_arange]

theorem product3_nodup (hs ks ls : List Int) (h1 : hs.Nodup) (h2 : ks.Nodup) (h3 : ls.Nodup) :
    (product3 hs ks ls).Nodup := by
  unfold product3
  rw [List.nodup_flatMap]
  refine ⟨?_, ?_⟩
  · intro h _
    rw [List.nodup_flatMap]
    refine ⟨?_, ?_⟩
    · intro k _
      exact List.Nodup.map (fun a b hab => by simpa using hab) h3
    · apply List.Pairwise.imp _ h2
      intro a b hab
      simp only [Function.onFun, List.disjoint_left, List.mem_map]
      rintro x ⟨l, _, rfl⟩ ⟨l', _, h'⟩
      simp only [Prod.mk.injEq] at h'
      exact hab h'.2.1.symm
  · apply List.Pairwise.imp _ h1
    intro a b hab
    simp only [Function.onFun, List.disjoint_left, List.mem_flatMap, List.mem_map]
    rintro x ⟨k, _, l, _, rfl⟩ ⟨k', _, l', _, h'⟩
    simp only [Prod.mk.injEq] at h'
    exact hab h'.1.symm

/-- … each exactly once -/
theorem cells_nodup (lo hi : Int × Int × Int) : (cells lo hi).Nodup := by
  unfold cells
  apply product3_nodup
  · exact (sortAbs_perm _).nodup_iff.mpr (arange_nodup _ _)
  · exact (sortAbs_perm _).nodup_iff.mpr (arange_nodup _ _)
  · exact (sortAbs_perm _).nodup_iff.mpr (arange_nodup _ _)

/-- every (unit-cell atom, cell) pair of the box is a row of the slab, once, carrying that atom's index
(`uc_atom`, hence its element and parent site) -/
theorem slab_enumerates_once (nuc : Nat) (lo hi : Int × Int × Int) :
    (∀ a c, (a, c) ∈ slabRows nuc (cells lo hi) ↔ a < nuc ∧ c ∈ cells lo hi) ∧
    (slabRows nuc (cells lo hi)).Nodup := by
  constructor
  · intro a c
    simp only [slabRows, List.mem_flatMap, List.mem_map, List.mem_range, Prod.mk.injEq]
    constructor
    · rintro ⟨c', hc', a', ha', rfl, rfl⟩; exact ⟨ha', hc'⟩
    · rintro ⟨ha, hc⟩; exact ⟨c, hc, a, ha, rfl, rfl⟩
  · unfold slabRows
    rw [List.nodup_flatMap]
    refine ⟨?_, ?_⟩
    · intro c _
      exact List.Nodup.map (fun a b hab => by simpa using hab) List.nodup_range
    · apply List.Pairwise.imp _ (cells_nodup lo hi)
      intro c c' hcc
      simp only [Function.onFun, List.disjoint_left, List.mem_map]
      rintro x ⟨a, _, rfl⟩ ⟨a', _, h'⟩
      simp only [Prod.mk.injEq] at h'
      exact hcc h'.2.symm

/-- **exactness**: filtering the slab by "distance ≤ r" returns exactly the periodic images within the radius —
none missing, none extra, none duplicated — whenever the box contains every cell that holds such an image
(which `ball_cell_in_bounds` guarantees for the box computed from `r·‖a*‖`) -/
theorem atoms_in_radius_exact (nuc : Nat) (lo hi : Int × Int × Int) (near : Nat × (Int × Int × Int) → Bool)
    (hbox : ∀ a c, a < nuc → near (a, c) = true → c ∈ cells lo hi) :
    (∀ a c, (a, c) ∈ (slabRows nuc (cells lo hi)).filter near ↔ a < nuc ∧ near (a, c) = true) ∧
    ((slabRows nuc (cells lo hi)).filter near).Nodup := by
  obtain ⟨hm, hn⟩ := slab_enumerates_once nuc lo hi
  constructor
  · intro a c
    rw [List.mem_filter, hm]
    constructor
    · rintro ⟨⟨ha, _⟩, hnear⟩; exact ⟨ha, hnear⟩
    · rintro ⟨ha, hnear⟩; exact ⟨⟨ha, hbox a c ha hnear⟩, hnear⟩
  · exact hn.filter _

/-! non-vacuity: the 3×3×3 block around the origin cell -/
example : (cells (-1, -1, -1) (1, 1, 1)).length = 27 ∧ (0, 0, 0) ∈ cells (-1, -1, -1) (1, 1, 1) := by decide +kernel

end ChmpyVerif.Props.C03
