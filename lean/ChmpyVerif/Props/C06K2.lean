import ChmpyVerif.Model.MC
namespace ChmpyVerif.Props.C06
open ChmpyVerif.MC ChmpyVerif.Gen.MC
theorem leaves_ok2 : leaves2.all leafOk = true := by decide +kernel
theorem faces_match2 : leaves2.all leafFacesMatch = true := by decide +kernel
theorem trees2 : ((List.range 32).map (· + 64)).all (fun cfg => isTree 16 ((leaves2.filter (·.cfg == cfg)).map (·.tests))) = true := by decide +kernel
end ChmpyVerif.Props.C06
