/-
C04 — unit-cell molecules partition the cell into whole, symmetry-related molecules.
Theorems about the hand model `Model/Molecules.lean` (exact integers).
-/
import ChmpyVerif.Model.Molecules
import ChmpyVerif.Lemmas.UnitCellAtoms

namespace ChmpyVerif.Props.C04
open ChmpyVerif.Mol

/-! ### partition -/

theorem mem_nodesOf (labels : List Nat) (k a : Nat) : a ∈ nodesOf labels k ↔ a < labels.length ∧ labels.getD a 0 = k := by
  simp [nodesOf, List.mem_filter, List.mem_range]

/-- **partition**: every unit-cell atom whose label is a molecule index lies in exactly one molecule
(the molecule of that label), and the molecules hold nothing else -/
theorem mols_partition (labels : List Nat) (nmol : Nat) (hl : ∀ l ∈ labels, l < nmol) (a : Nat) (ha : a < labels.length) :
    (∃ k, k < nmol ∧ a ∈ nodesOf labels k) ∧
    (∀ k k', a ∈ nodesOf labels k → a ∈ nodesOf labels k' → k = k') ∧
    (∀ m ∈ molecules labels nmol, ∀ b ∈ m, b < labels.length) := by
  refine ⟨⟨labels.getD a 0, ?_, (mem_nodesOf _ _ _).mpr ⟨ha, rfl⟩⟩, ?_, ?_⟩
  · have h1 : labels.getD a 0 = labels[a] := by simp [List.getD, ha]
    exact hl _ (h1 ▸ List.getElem_mem ha)
  · intro k k' h1 h2
    rw [mem_nodesOf] at h1 h2
    exact h1.2.symm.trans h2.2
  · intro m hm b hb
    simp only [molecules, List.mem_map, List.mem_range] at hm
    obtain ⟨k, _, rfl⟩ := hm
    exact ((mem_nodesOf _ _ _).mp hb).1

theorem nodesOf_nodup (labels : List Nat) (k : Nat) : (nodesOf labels k).Nodup :=
  List.nodup_range.filter _

/-! ### whole molecules: every atom is moved by a LATTICE vector -/

/-- recentring: the translation `fmod(c + 7, 1) - c` applied to a molecule is an integer vector, and the new
centre of mass has fractional coordinates in [0,1) (for c > -7, the model's `wrap`) -/
theorem recentre_is_lattice_translation (c : Rat) :
    ChmpyVerif.UCA.wrap c - c = ((-c.floor : Int) : Rat) ∧ 0 ≤ ChmpyVerif.UCA.wrap c ∧ ChmpyVerif.UCA.wrap c < 1 := by
  refine ⟨?_, (ChmpyVerif.UCA.wrap_range c).1, (ChmpyVerif.UCA.wrap_range c).2⟩
  unfold ChmpyVerif.UCA.wrap
  push_cast; ring

/-- unwrapping shifts are integer cell vectors by construction (`Cell = ℤ³`): the walk only ever adds or
subtracts bond cell offsets, starting from zero at the root -/
theorem root_shift_zero (n : Nat) (edges : List Edge) (root : Nat) :
    (bfsShifts n edges root).head? = some (root, (0, 0, 0)) ∨ n = 0 := by
  unfold bfsShifts
  cases n with
  | zero => right; rfl
  | succ k =>
    left
    -- `seen` only grows at its end
    have key : ∀ (fuel : Nat) (q s : List (Nat × Cell)) (x : Nat × Cell), s.head? = some x →
        (bfsShifts.go (k + 1) edges fuel q s).head? = some x := by
      intro fuel
      induction fuel with
      | zero => intro q s x h; simpa [bfsShifts.go] using h
      | succ f ih =>
        intro q s x h
        cases q with
        | nil => simpa [bfsShifts.go] using h
        | cons v vs =>
          simp only [bfsShifts.go]
          apply ih
          cases s with
          | nil => simp at h
          | cons y ys => simpa using h
    exact key _ _ _ _ rfl

/-- when the shifts are consistent with EVERY bond of the molecule (finite molecules; decidable, checked per input)
bonded atoms sit at their bonding distance in the unwrapped molecule: `(x_j + s_j) - (x_i + s_i) = x_j + cell - x_i` -/
theorem consistent_bond (edges : List Edge) (sh : List (Nat × Cell)) (h : shiftConsistent edges sh = true) (e : Edge)
    (he : e ∈ edges) (hi : sh.any (·.1 == e.i) = true) (hj : sh.any (·.1 == e.j) = true)
    (hlast : cellOf edges e.i e.j = some e.cell) :
    subC (shiftOf sh e.j) (shiftOf sh e.i) = e.cell := by
  unfold shiftConsistent at h
  rw [List.all_eq_true] at h
  have := h e he
  simpa [hi, hj, hlast] using this

/-! ### symmetry-unique molecules -/

/-- greedy selection never takes a molecule whose atoms are all covered, and what it takes is pairwise disjoint
when the molecules' asymmetric-unit sets are pairwise equal or disjoint -/
theorem greedy_go_spec (nasym : Nat) :
    ∀ (sets : List (List Nat)) (k : Nat) (covered taken : List Nat),
      ∀ i ∈ greedy.go nasym sets k covered taken, i ∈ taken ∨ (k ≤ i ∧ i < k + sets.length) := by
  intro sets
  induction sets with
  | nil => intro k c t i hi; left; simpa [greedy.go] using hi
  | cons s rest ih =>
    intro k c t i hi
    simp only [greedy.go] at hi
    split at hi
    · left; exact hi
    · split at hi
      · rcases ih _ _ _ i hi with h | h
        · left; exact h
        · right; simp only [List.length_cons]; omega
      · rcases ih _ _ _ i hi with h | h
        · rcases List.mem_cons.mp h with rfl | h
          · right; simp only [List.length_cons]; omega
          · left; exact h
        · right; simp only [List.length_cons]; omega

/-- every index returned by the greedy pass refers to one of the given molecules -/
theorem greedy_indices_valid (nasym : Nat) (sets : List (List Nat)) : ∀ i ∈ greedy nasym sets, i < sets.length := by
  intro i hi
  unfold greedy at hi
  have := greedy_go_spec nasym sets 0 [] [] i (List.mem_reverse.mp hi)
  rcases this with h | h
  · cases h
  · omega

theorem go_mono (nasym : Nat) : ∀ (sets : List (List Nat)) (k : Nat) (c t : List Nat),
    ∀ i ∈ t, i ∈ greedy.go nasym sets k c t := by
  intro sets
  induction sets with
  | nil => intro k c t i hi; simpa [greedy.go] using hi
  | cons s rest ih =>
    intro k c t i hi
    simp only [greedy.go]
    split
    · exact hi
    · split
      · exact ih _ _ _ i hi
      · exact ih _ _ _ i (List.mem_cons_of_mem _ hi)

theorem drop_cons_getD {α} (all : List α) (k : Nat) (s : α) (rest : List α) (d : α) (h : all.drop k = s :: rest) :
    all.getD k d = s ∧ all.drop (k + 1) = rest := by
  induction all generalizing k with
  | nil => simp at h
  | cons a as ih =>
    cases k with
    | zero => simp at h; simp [h.1, h.2]
    | succ n =>
      simp only [List.drop_succ_cons] at h
      have := ih n h
      simpa using this

/-- coverage: every asymmetric-unit atom (index < nasym) occurring in some molecule occurs in a TAKEN molecule -/
theorem go_cover (nasym : Nat) (all : List (List Nat)) :
    ∀ (sets : List (List Nat)) (k : Nat) (c t : List Nat), all.drop k = sets →
      (∀ x ∈ c, ∃ i ∈ t, x ∈ all.getD i []) →
      ∀ s ∈ sets, ∀ x ∈ s, x < nasym → ∃ i ∈ greedy.go nasym sets k c t, x ∈ all.getD i [] := by
  intro sets
  induction sets with
  | nil => intro k c t _ _ s hs; cases hs
  | cons s0 rest ih =>
    intro k c t hdrop hinv s hs x hx hxn
    obtain ⟨hk, hrest⟩ := drop_cons_getD all k s0 rest [] hdrop
    simp only [greedy.go]
    split
    · rename_i hall
      have : c.contains x = true := (List.all_eq_true.mp hall) x (List.mem_range.mpr hxn)
      exact hinv x (by simpa using this)
    · split
      · rename_i hsub
        rcases List.mem_cons.mp hs with rfl | hs'
        · have : c.contains x = true := (List.all_eq_true.mp hsub) x hx
          obtain ⟨i, hi, hxi⟩ := hinv x (by simpa using this)
          exact ⟨i, go_mono nasym _ _ _ _ i hi, hxi⟩
        · exact ih (k + 1) c t hrest hinv s hs' x hx hxn
      · have hinv' : ∀ y ∈ c ++ s0, ∃ i ∈ k :: t, y ∈ all.getD i [] := by
          intro y hy
          rcases List.mem_append.mp hy with hy | hy
          · obtain ⟨i, hi, hyi⟩ := hinv y hy
            exact ⟨i, List.mem_cons_of_mem _ hi, hyi⟩
          · exact ⟨k, by simp, by rw [hk]; exact hy⟩
        rcases List.mem_cons.mp hs with rfl | hs'
        · exact ⟨k, go_mono nasym _ _ _ _ k (by simp), by rw [hk]; exact hx⟩
        · exact ih (k + 1) (c ++ s0) (k :: t) hrest hinv' s hs' x hx hxn

/-- **the unique molecules cover every asymmetric-unit atom** that belongs to any unit-cell molecule -/
theorem greedy_covers (nasym : Nat) (sets : List (List Nat)) (s : List Nat) (hs : s ∈ sets) (x : Nat) (hx : x ∈ s) (hxn : x < nasym) :
    ∃ i ∈ greedy nasym sets, x ∈ sets.getD i [] := by
  obtain ⟨i, hi, hxi⟩ := go_cover nasym sets sets 0 [] [] rfl (by intro y hy; cases hy) s hs x hx hxn
  exact ⟨i, List.mem_reverse.mpr hi, hxi⟩

/-- **… exactly once**: molecules taken are pairwise disjoint when the asymmetric-unit sets of the unit-cell
molecules are pairwise equal or disjoint (symmetry images of one molecule share their set; different
molecules share no atom) -/
theorem go_disjoint (nasym : Nat) (all : List (List Nat))
    (heq : ∀ a ∈ all, ∀ b ∈ all, a = b ∨ ∀ x ∈ a, x ∉ b) :
    ∀ (sets : List (List Nat)) (k : Nat) (c t : List Nat), all.drop k = sets →
      (∀ i ∈ t, ∀ x ∈ all.getD i [], x ∈ c) → (∀ i ∈ t, i < k) →
      (t.Pairwise fun i j => ∀ x ∈ all.getD i [], x ∉ all.getD j []) →
      (greedy.go nasym sets k c t).Pairwise fun i j => ∀ x ∈ all.getD i [], x ∉ all.getD j [] := by
  intro sets
  induction sets with
  | nil => intro k c t _ _ _ hp; simpa [greedy.go] using hp
  | cons s0 rest ih =>
    intro k c t hdrop hcov hlt hp
    obtain ⟨hk, hrest⟩ := drop_cons_getD all k s0 rest [] hdrop
    simp only [greedy.go]
    split
    · exact hp
    · split
      · exact ih (k + 1) c t hrest hcov (fun i hi => Nat.lt_succ_of_lt (hlt i hi)) hp
      · rename_i hnsub
        have hs0mem : s0 ∈ all := by
          have : s0 ∈ all.drop k := by rw [hdrop]; simp
          exact List.mem_of_mem_drop this
        apply ih (k + 1) (c ++ s0) (k :: t) hrest
        · intro i hi x hx
          rcases List.mem_cons.mp hi with rfl | hi
          · rw [hk] at hx; exact List.mem_append_right _ hx
          · exact List.mem_append_left _ (hcov i hi x hx)
        · intro i hi
          rcases List.mem_cons.mp hi with rfl | hi
          · omega
          · exact Nat.lt_succ_of_lt (hlt i hi)
        · refine List.Pairwise.cons ?_ hp
          intro j hj x hx
          rw [hk] at hx
          -- s0 and the earlier taken set are equal or disjoint; equal is impossible because s0 is not covered
          have hjlt := hlt j hj
          have hjmem : all.getD j [] ∈ all := by
            have hjl : j < all.length := by
              have : k < all.length := by
                by_contra hge
                rw [List.drop_eq_nil_of_le (Nat.le_of_not_lt hge)] at hdrop; cases hdrop
              omega
            simp [List.getD, hjl]
          rcases heq s0 hs0mem _ hjmem with he | hd
          · exfalso
            apply hnsub
            rw [List.all_eq_true]
            intro y hy
            have := hcov j hj y (he ▸ hy)
            simpa using this
          · exact hd x hx

theorem greedy_disjoint (nasym : Nat) (sets : List (List Nat))
    (heq : ∀ a ∈ sets, ∀ b ∈ sets, a = b ∨ ∀ x ∈ a, x ∉ b) :
    (greedy nasym sets).Pairwise fun i j => ∀ x ∈ sets.getD i [], x ∉ sets.getD j [] := by
  unfold greedy
  rw [List.pairwise_reverse]
  have := go_disjoint nasym sets heq sets 0 [] [] rfl (by intro i hi; cases hi) (by intro i hi; cases hi) List.Pairwise.nil
  apply this.imp
  intro i j h x hxj hxi
  exact h x hxi hxj

/-- labelling: a unit-cell molecule whose asymmetric-unit index array equals that of a unique molecule gets that
molecule's index (arrays of different lengths are simply different — the repaired comparison) -/
theorem every_mol_labelled (uniqueArrays : List (List Nat)) (arr : List Nat) (h : arr ∈ uniqueArrays) :
    ∃ k, labelOf uniqueArrays arr = some k ∧ uniqueArrays[k]? = some arr := by
  unfold labelOf
  have hs : (uniqueArrays.findIdx? (· == arr)).isSome := by
    rw [List.findIdx?_isSome]; exact List.any_eq_true.mpr ⟨arr, h, by simp⟩
  obtain ⟨k, hk⟩ := Option.isSome_iff_exists.mp hs
  refine ⟨k, hk, ?_⟩
  have := List.findIdx?_eq_some_iff_getElem.mp hk
  obtain ⟨hlt, heq, _⟩ := this
  rw [List.getElem?_eq_getElem hlt]
  simpa using heq

/-! non-vacuity: water + CO (different sizes) in a 4-operation group: 8 molecules, two unique ones -/
example : greedy 5 [[0, 1, 2], [3, 4], [0, 1, 2], [3, 4]] = [0, 1] ∧ labelOf [[0, 1, 2], [3, 4]] [3, 4] = some 1 := by
  decide +kernel

end ChmpyVerif.Props.C04
