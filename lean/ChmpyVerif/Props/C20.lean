/-
C20 — quasi-random sequences: deterministic, in the unit cube, evenly stratified.
`sobolTable` is GENERATED from chmpy/sampling/_sobol_parameters.npz on every run.
-/
import ChmpyVerif.Gen.Sobol
import Mathlib.Tactic.Linarith

namespace ChmpyVerif.Props.C20
open ChmpyVerif.Sobol ChmpyVerif.Gen

/-! ### the direction numbers for a longer sequence extend those for a shorter one -/

theorem buildV_length (m : List Nat) (L : Nat) : (buildV m L).length = L + 1 := by
  induction L with
  | zero => rfl
  | succ L ih => simp [buildV, ih]

theorem buildV0_length (L : Nat) : (buildV0 L).length = L + 1 := by
  induction L with
  | zero => rfl
  | succ L ih => simp [buildV0, ih]

theorem getD_append_left (a b : List Nat) (i : Nat) (h : i < a.length) : (a ++ b).getD i 0 = a.getD i 0 := by
  simp [List.getD, List.getElem?_append_left h]

theorem buildV_prefix (m : List Nat) (L L' i : Nat) (h1 : i ≤ L) (h2 : L ≤ L') :
    (buildV m L').getD i 0 = (buildV m L).getD i 0 := by
  induction L' with
  | zero =>
    have : L = 0 := by omega
    subst this; rfl
  | succ n ih =>
    by_cases h : L = n + 1
    · subst h; rfl
    · have hle : L ≤ n := by omega
      rw [← ih hle]
      simp only [buildV]
      exact getD_append_left _ _ i (by rw [buildV_length]; omega)

theorem buildV0_prefix (L L' i : Nat) (h1 : i ≤ L) (h2 : L ≤ L') :
    (buildV0 L').getD i 0 = (buildV0 L).getD i 0 := by
  induction L' with
  | zero =>
    have : L = 0 := by omega
    subst this; rfl
  | succ n ih =>
    by_cases h : L = n + 1
    · subst h; rfl
    · have hle : L ≤ n := by omega
      rw [← ih hle]
      simp only [buildV0]
      exact getD_append_left _ _ i (by rw [buildV0_length]; omega)

/-! ### the index C[k] used for point k+2 stays within ceil(log2 N) -/

theorem trailingOnes_pow (fuel k : Nat) : 2 ^ trailingOnes fuel k ≤ k + 1 := by
  induction fuel generalizing k with
  | zero => simp [trailingOnes]
  | succ f ih =>
    simp only [trailingOnes]
    split
    · have := ih (k / 2)
      rw [Nat.pow_add, Nat.pow_one] at *
      omega
    · simp

theorem cIdx_le (k N : Nat) (h : k + 2 ≤ N) : cIdx k ≤ ceilLog2 N := by
  unfold cIdx ceilLog2
  have hN : ¬ N ≤ 1 := by omega
  simp only [hN, if_false]
  have h1 := trailingOnes_pow 64 k
  have h2 : 2 ^ trailingOnes 64 k ≤ N - 1 := by omega
  have := (Nat.le_log2 (by omega : N - 1 ≠ 0)).mpr h2
  omega

theorem ceilLog2_mono (a b : Nat) (h : a ≤ b) : ceilLog2 a ≤ ceilLog2 b := by
  unfold ceilLog2
  by_cases ha : a ≤ 1
  · simp [ha]
  · have hb : ¬ b ≤ 1 := by omega
    simp only [ha, hb, if_false]
    have : Nat.log2 (a - 1) ≤ Nat.log2 (b - 1) := by
      rw [Nat.le_log2 (by omega)]
      exact Nat.le_trans (Nat.log2_self_le (by omega)) (by omega)
    omega

theorem xSeq_congr (V V' : List Nat) (n : Nat) (h : ∀ k, k < n → V.getD (cIdx k) 0 = V'.getD (cIdx k) 0) :
    xSeq V n = xSeq V' n := by
  induction n with
  | zero => rfl
  | succ n ih =>
    simp only [xSeq]
    rw [ih (fun k hk => h k (by omega)), h n (by omega)]

/-- a coordinate does not depend on how far beyond `ceil(log2 N)` the direction numbers were built -/
theorem coord_indep (table : List (List Nat)) (N j L : Nat) (hN : 1 ≤ N) (hL : ceilLog2 N ≤ L) :
    coord table L N j = coord table (ceilLog2 N) N j := by
  unfold coord
  by_cases hj : j = 0
  · simp only [hj, if_true]
    apply xSeq_congr
    intro k hk
    exact buildV0_prefix _ _ _ (cIdx_le k N (by omega)) hL
  · simp only [hj, if_false]
    apply xSeq_congr
    intro k hk
    exact buildV_prefix _ _ _ _ (cIdx_le k N (by omega)) hL

/-- **batch = single**: row `k` of the batch over `[start, stop]` is the single point with seed `start + k`,
for every range, dimension and table -/
theorem batch_eq_single (table : List (List Nat)) (start stop D k : Nat) (hs : 1 ≤ start) (hk : start + k ≤ stop) :
    (sobolBatch table start stop D)[k]? = some (sobol table (start + k) D) := by
  unfold sobolBatch sobol
  have hlt : k < stop + 1 - start := by omega
  rw [List.getElem?_map, List.getElem?_range hlt]
  simp only [Option.map_some, Option.some.injEq]
  apply List.map_congr_left
  intro j _
  exact coord_indep table (start + k) j _ (by omega) (ceilLog2_mono _ _ hk)

/-! ### coordinates lie in [0,1): numerators below 2^32 -/

theorem vEntry_lt (m V : List Nat) (i : Nat) (hV : ∀ x ∈ V, x < W) : vEntry m V i < W := by
  have hW : W = 2 ^ 32 := by decide
  have hget : ∀ k, V.getD k 0 < W := by
    intro k
    simp only [List.getD]
    cases h : V[k]? with
    | none => simp [W]
    | some x => simpa using hV x (List.mem_of_getElem? h)
  unfold vEntry
  simp only
  split
  · exact Nat.mod_lt _ (by decide)
  · -- a fold of xors of numbers below 2^32
    have step : ∀ (l : List Nat) (init : Nat), init < W →
        (l.foldl (fun acc k0 => Nat.xor acc ((((m.getD 0 0 >>> (degree m - 1 - (k0 + 1))) % 2) * V.getD (i - (k0 + 1)) 0) % W)) init) < W := by
      intro l
      induction l with
      | nil => intro init h; exact h
      | cons x xs ih =>
        intro init h
        simp only [List.foldl_cons]
        apply ih
        rw [hW] at *
        exact Nat.xor_lt_two_pow h (Nat.mod_lt _ (by decide))
    apply step
    rw [hW]
    apply Nat.xor_lt_two_pow
    · rw [← hW]; exact hget _
    · have := hget (i - degree m)
      rw [hW] at this
      exact Nat.lt_of_le_of_lt (Nat.shiftRight_le _ _) this

theorem buildV_lt (m : List Nat) (L : Nat) : ∀ x ∈ buildV m L, x < W := by
  induction L with
  | zero => intro x hx; simp [buildV] at hx; subst hx; decide
  | succ L ih =>
    intro x hx
    simp only [buildV, List.mem_append, List.mem_singleton] at hx
    rcases hx with hx | rfl
    · exact ih x hx
    · exact vEntry_lt m _ _ ih

theorem buildV0_lt (L : Nat) : ∀ x ∈ buildV0 L, x < W := by
  induction L with
  | zero => intro x hx; simp [buildV0] at hx; subst hx; decide
  | succ L ih =>
    intro x hx
    simp only [buildV0, List.mem_append, List.mem_singleton] at hx
    rcases hx with hx | rfl
    · exact ih x hx
    · exact Nat.mod_lt _ (by decide)

theorem xSeq_lt (V : List Nat) (hV : ∀ x ∈ V, x < W) (n : Nat) : xSeq V n < W := by
  have hW : W = 2 ^ 32 := by decide
  induction n with
  | zero => simp [xSeq, W]
  | succ n ih =>
    simp only [xSeq]
    have hg : V.getD (cIdx n) 0 < W := by
      simp only [List.getD]
      cases h : V[cIdx n]? with
      | none => simp [W]
      | some x => simpa using hV x (List.mem_of_getElem? h)
    rw [hW] at *
    exact Nat.xor_lt_two_pow ih hg

/-- every coordinate of every point is `X / 2^32` with `X < 2^32`, i.e. lies in [0, 1) -/
theorem sobol_in_unit (table : List (List Nat)) (N D : Nat) : ∀ c ∈ sobol table N D, c < 2 ^ 32 := by
  intro c hc
  unfold sobol at hc
  obtain ⟨j, _, rfl⟩ := List.mem_map.mp hc
  unfold coord
  have hW : W = 2 ^ 32 := by decide
  rw [← hW]
  split
  · exact xSeq_lt _ (buildV0_lt _) _
  · exact xSeq_lt _ (buildV_lt _ _) _

/-! ### the table (finite, complete, kernel-checked on the regenerated rows) -/

/-- every row used for dimensions 1..1000 satisfies the Joe–Kuo premise: m_i odd and < 2^i -/
theorem table_premise : ∀ m ∈ sobolTable, rowOk m = true := by
  have := sobolTable_ok
  rw [List.all_eq_true] at this
  exact this

/-- … and its first 12 direction numbers are triangular: `V[i]` has its lowest set bit exactly at `32 - i`
(the premise of one-dimensional stratification of the first 2^m points for every m ≤ 12) -/
theorem dirnum_lowbit : ∀ m ∈ sobolTable, rowTriangular m 12 = true := by
  have := sobolTable_tri
  rw [List.all_eq_true] at this
  exact this

/-! ### front end and Korobov structure -/

/-- `quasirandom(d1)` asks for ONE point of dimension d1 with the given seed; `quasirandom(d1, d2)` for the
points with seeds `seed … seed + d1 - 1` of dimension d2 -/
theorem front_end_dispatch (d1 d2 seed : Nat) :
    frontEnd d1 none seed = .single seed d1 ∧ frontEnd d1 (some d2) seed = .batch seed (seed + d1 - 1) d2 :=
  ⟨rfl, rfl⟩

theorem kgf_in_unit (a : Nat → Rat) (N D : Nat) : ∀ c ∈ kgf a N D, 0 ≤ c ∧ c < 1 := by
  intro c hc
  unfold kgf at hc
  obtain ⟨i, _, rfl⟩ := List.mem_map.mp hc
  simp only
  have h1 := Rat.floor_le (1 / 2 + a i * ((N : Rat) + 1))
  have h2 := Rat.lt_floor_add_one (1 / 2 + a i * ((N : Rat) + 1))
  push_cast at h2
  constructor <;> linarith

theorem kgf_batch_eq_single (a : Nat → Rat) (lo hi D k : Nat) (hk : lo + k ≤ hi) :
    (kgfBatch a lo hi D)[k]? = some (kgf a (lo + k) D) := by
  unfold kgfBatch
  have : k < hi + 1 - lo := by omega
  rw [List.getElem?_map, List.getElem?_range this]
  rfl

/-! non-vacuity -/
example : sobol sobolTable 3 3 = [3221225472, 1073741824, 1073741824] := by decide +kernel

end ChmpyVerif.Props.C20
