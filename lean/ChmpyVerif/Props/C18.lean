/-
C18 — rigid alignment returns the optimal proper rotation (Kabsch).
Real 3×3 matrices (Mathlib).  `svd` is a parameter: the theorems hold for ANY factorisation
`M = U · diag(s) · Vt` with `U`, `Vt` orthogonal and `s₀ ≥ s₁ ≥ s₂ ≥ 0` (what `numpy.linalg.svd`
promises; checked numerically on every captured call by the harness).
-/
import Mathlib.LinearAlgebra.Matrix.Adjugate
import Mathlib.LinearAlgebra.Matrix.Trace
import Mathlib.LinearAlgebra.Matrix.Notation
import Mathlib.Data.Real.Basic
import Mathlib.Analysis.Real.Sqrt
import Mathlib.Tactic.Abel
import Mathlib.Tactic.Positivity
import Mathlib.Tactic.Linarith
import Mathlib.Tactic.LinearCombination
import Mathlib.Tactic.FinCases
import Mathlib.Tactic.NormNum
import Mathlib.Tactic.Ring

namespace ChmpyVerif.Props.C18
open Matrix

abbrev M3 := Matrix (Fin 3) (Fin 3) ℝ

/-- orthogonal: `W · Wᵀ = 1` -/
def IsO (W : M3) : Prop := W * Wᵀ = 1

theorem IsO.transpose_mul {W : M3} (h : IsO W) : Wᵀ * W = 1 := by
  unfold IsO at h; exact mul_eq_one_comm.mp h

theorem IsO.row_norm {W : M3} (h : IsO W) (i : Fin 3) : W i 0 ^ 2 + W i 1 ^ 2 + W i 2 ^ 2 = 1 := by
  have := congrFun (congrFun h i) i
  simp only [Matrix.mul_apply, Fin.sum_univ_three, Matrix.transpose_apply, Matrix.one_apply_eq] at this
  linarith [this]

theorem IsO.diag_le_one {W : M3} (h : IsO W) (i : Fin 3) : W i i ≤ 1 := by
  have hr := h.row_norm i
  fin_cases i <;> simp only [Fin.zero_eta, Fin.mk_one, Fin.reduceFinMk] at hr ⊢ <;>
    nlinarith [sq_nonneg (W 0 0 - 1), sq_nonneg (W 1 1 - 1), sq_nonneg (W 2 2 - 1), sq_nonneg (W 0 1), sq_nonneg (W 0 2),
      sq_nonneg (W 1 0), sq_nonneg (W 1 2), sq_nonneg (W 2 0), sq_nonneg (W 2 1)]

theorem IsO.det_sq {W : M3} (h : IsO W) : W.det * W.det = 1 := by
  have := congrArg Matrix.det h
  rwa [Matrix.det_mul, Matrix.det_transpose, Matrix.det_one] at this

theorem IsO.det_cases {W : M3} (h : IsO W) : W.det = 1 ∨ W.det = -1 := by
  have := h.det_sq
  have : (W.det - 1) * (W.det + 1) = 0 := by ring_nf; linarith
  rcases mul_eq_zero.mp this with h1 | h1
  · left; linarith
  · right; linarith

theorem IsO.mul {A B : M3} (ha : IsO A) (hb : IsO B) : IsO (A * B) := by
  unfold IsO at *
  rw [Matrix.transpose_mul, Matrix.mul_assoc, ← Matrix.mul_assoc B, hb, Matrix.one_mul, ha]

theorem IsO.transpose {A : M3} (ha : IsO A) : IsO Aᵀ := by
  unfold IsO; rw [Matrix.transpose_transpose]; exact ha.transpose_mul

theorem IsO.neg {A : M3} (ha : IsO A) : IsO (-A) := by
  unfold IsO at *; rw [Matrix.transpose_neg, neg_mul_neg]; exact ha

/-- for a proper rotation the adjugate is the transpose, so every diagonal entry is its own cofactor -/
theorem so3_cofactor {Q : M3} (h : IsO Q) (hd : Q.det = 1) :
    Q 0 0 = Q 1 1 * Q 2 2 - Q 1 2 * Q 2 1 ∧ Q 1 1 = Q 0 0 * Q 2 2 - Q 0 2 * Q 2 0 ∧
    Q 2 2 = Q 0 0 * Q 1 1 - Q 0 1 * Q 1 0 := by
  have hadj : Q.adjugate = Qᵀ := by
    have h1 : Q * Q.adjugate = 1 := by rw [Matrix.mul_adjugate, hd, one_smul]
    calc Q.adjugate = (Qᵀ * Q) * Q.adjugate := by rw [h.transpose_mul, Matrix.one_mul]
      _ = Qᵀ * (Q * Q.adjugate) := Matrix.mul_assoc _ _ _
      _ = Qᵀ := by rw [h1, Matrix.mul_one]
  rw [Matrix.adjugate_fin_three] at hadj
  have e00 := congrFun (congrFun hadj 0) 0
  have e11 := congrFun (congrFun hadj 1) 1
  have e22 := congrFun (congrFun hadj 2) 2
  simp [Matrix.transpose_apply] at e00 e11 e22
  exact ⟨e00.symm, e11.symm, e22.symm⟩

/-- the trace of a proper rotation is at least −1 -/
theorem so3_trace_ge {Q : M3} (h : IsO Q) (hd : Q.det = 1) : -1 ≤ Q.trace := by
  obtain ⟨c0, c1, c2⟩ := so3_cofactor h hd
  have r0 := h.row_norm 0
  have r1 := h.row_norm 1
  have r2 := h.row_norm 2
  rw [Matrix.trace_fin_three]
  set t := Q 0 0 + Q 1 1 + Q 2 2 with ht
  -- (3 − t)(1 + t) is a sum of squares
  have key : (Q 0 1 - Q 1 0) ^ 2 + (Q 0 2 - Q 2 0) ^ 2 + (Q 1 2 - Q 2 1) ^ 2 = (3 - t) * (1 + t) := by
    linear_combination (-2) * c0 + (-2) * c1 + (-2) * c2 + r0 + r1 + r2
  have ht3 : t ≤ 3 := by
    have := h.diag_le_one 0; have := h.diag_le_one 1; have := h.diag_le_one 2
    linarith
  have hs : 0 ≤ (3 - t) * (1 + t) := by rw [← key]; positivity
  by_contra hneg
  have : 1 + t < 0 := by linarith
  have : 0 < 3 - t := by linarith
  nlinarith

/-- … and the trace of an improper one at most 1 -/
theorem o3_neg_trace_le {W : M3} (h : IsO W) (hd : W.det = -1) : W.trace ≤ 1 := by
  have hd' : (-W).det = 1 := by
    rw [Matrix.det_neg, hd]; norm_num
  have := so3_trace_ge h.neg hd'
  rw [Matrix.trace_neg] at this
  linarith

/-- von Neumann-type bound used by Kabsch: for singular values s₀ ≥ s₁ ≥ s₂ ≥ 0 and orthogonal `W`,
`Σ sᵢ Wᵢᵢ ≤ s₀ + s₁ + det(W)·s₂` -/
theorem weighted_trace_le {W : M3} (h : IsO W) (s : Fin 3 → ℝ) (h01 : s 1 ≤ s 0) (h12 : s 2 ≤ s 1) (h2 : 0 ≤ s 2) :
    s 0 * W 0 0 + s 1 * W 1 1 + s 2 * W 2 2 ≤ s 0 + s 1 + W.det * s 2 := by
  have d0 := h.diag_le_one 0
  have d1 := h.diag_le_one 1
  have d2 := h.diag_le_one 2
  rcases h.det_cases with hd | hd
  · rw [hd]; nlinarith
  · have ht := o3_neg_trace_le h hd
    rw [Matrix.trace_fin_three] at ht
    rw [hd]
    nlinarith


/-! ### the Kabsch rotation -/

/-- the sign test of the source: `det(v)·det(w) < 0` -/
noncomputable def dsign (U Vt : M3) : ℝ := if U.det * Vt.det < 0 then -1 else 1

/-- `v[:, -1] = -v[:, -1]` when the sign is negative ≡ right-multiplication by `diag(1,1,d)` -/
noncomputable def kabsch (U Vt : M3) : M3 := U * Matrix.diagonal ![1, 1, dsign U Vt] * Vt

/-- what `numpy.linalg.svd` promises about `(v, s, w) = svd(M)` -/
structure SvdSpec (M U Vt : M3) (s : Fin 3 → ℝ) : Prop where
  hU : IsO U
  hV : IsO Vt
  h01 : s 1 ≤ s 0
  h12 : s 2 ≤ s 1
  h2 : 0 ≤ s 2
  hM : M = U * Matrix.diagonal s * Vt

theorem dsign_sq (U Vt : M3) : dsign U Vt * dsign U Vt = 1 := by
  unfold dsign; split <;> norm_num

theorem dsign_eq (U Vt : M3) (hU : IsO U) (hV : IsO Vt) : dsign U Vt = U.det * Vt.det := by
  unfold dsign
  rcases hU.det_cases with h1 | h1 <;> rcases hV.det_cases with h2 | h2 <;> rw [h1, h2] <;> norm_num

theorem diag_isO (d : ℝ) (hd : d * d = 1) : IsO (Matrix.diagonal ![1, 1, d]) := by
  unfold IsO
  rw [Matrix.diagonal_transpose, Matrix.diagonal_mul_diagonal]
  ext i j
  fin_cases i <;> fin_cases j <;> simp [Matrix.diagonal, hd]

theorem det_diag (d : ℝ) : (Matrix.diagonal ![1, 1, d]).det = d := by
  rw [Matrix.det_diagonal, Fin.prod_univ_three]; simp

/-- the result is orthogonal … -/
theorem kabsch_orthogonal (U Vt : M3) (hU : IsO U) (hV : IsO Vt) : IsO (kabsch U Vt) :=
  (hU.mul (diag_isO _ (dsign_sq U Vt))).mul hV

/-- … with determinant +1: never an improper rotation, whatever the handedness of the SVD factors -/
theorem kabsch_det_one (U Vt : M3) (hU : IsO U) (hV : IsO Vt) : (kabsch U Vt).det = 1 := by
  unfold kabsch
  rw [Matrix.det_mul, Matrix.det_mul, det_diag, dsign_eq U Vt hU hV]
  have := hU.det_sq; have := hV.det_sq
  nlinarith

theorem trace_mul_diag (W : M3) (s : Fin 3 → ℝ) :
    (W * Matrix.diagonal s).trace = s 0 * W 0 0 + s 1 * W 1 1 + s 2 * W 2 2 := by
  rw [Matrix.trace_fin_three]
  simp only [Matrix.mul_diagonal]
  ring

/-- `tr(Qᵀ·U·S·Vt) = Σ sᵢ Wᵢᵢ` with `W = Vt·Qᵀ·U` -/
theorem trace_as_weighted (Q U Vt : M3) (s : Fin 3 → ℝ) :
    (Qᵀ * (U * Matrix.diagonal s * Vt)).trace = ((Vt * Qᵀ * U) * Matrix.diagonal s).trace := by
  rw [show Qᵀ * (U * Matrix.diagonal s * Vt) = (Qᵀ * U * Matrix.diagonal s) * Vt by simp only [Matrix.mul_assoc],
    Matrix.trace_mul_comm]
  simp only [Matrix.mul_assoc]

/-- **optimality (trace form)**: among all proper rotations the Kabsch rotation maximises `tr(Qᵀ M)` -/
theorem kabsch_optimal_trace (M U Vt : M3) (s : Fin 3 → ℝ) (h : SvdSpec M U Vt s) (Q : M3) (hQ : IsO Q) (hQd : Q.det = 1) :
    (Qᵀ * M).trace ≤ ((kabsch U Vt)ᵀ * M).trace := by
  have hd := dsign_eq U Vt h.hU h.hV
  -- left side
  have hW : IsO (Vt * Qᵀ * U) := (h.hV.mul hQ.transpose).mul h.hU
  have hWd : (Vt * Qᵀ * U).det = U.det * Vt.det := by
    rw [Matrix.det_mul, Matrix.det_mul, Matrix.det_transpose, hQd]; ring
  have hl := weighted_trace_le hW s h.h01 h.h12 h.h2
  rw [hWd] at hl
  -- right side: W = diag(1,1,d)
  have hR : Vt * (kabsch U Vt)ᵀ * U = Matrix.diagonal ![1, 1, dsign U Vt] := by
    unfold kabsch
    rw [Matrix.transpose_mul, Matrix.transpose_mul, Matrix.diagonal_transpose]
    calc Vt * (Vtᵀ * (Matrix.diagonal ![1, 1, dsign U Vt] * Uᵀ)) * U
        = (Vt * Vtᵀ) * Matrix.diagonal ![1, 1, dsign U Vt] * (Uᵀ * U) := by simp only [Matrix.mul_assoc]
      _ = Matrix.diagonal ![1, 1, dsign U Vt] := by
          rw [show Vt * Vtᵀ = 1 from h.hV, h.hU.transpose_mul, Matrix.one_mul, Matrix.mul_one]
  rw [h.hM, trace_as_weighted, trace_as_weighted, hR, trace_mul_diag, trace_mul_diag]
  simp only [Matrix.diagonal_apply_eq, Matrix.cons_val_zero, Matrix.cons_val_one, Matrix.cons_val_two,
    Matrix.head_cons, Matrix.tail_cons]
  rw [hd]
  simp
  linarith

/-! ### residuals of point sets (any number of points) -/

variable {n : ℕ}

/-- `Σᵢ ‖aᵢ·Q − bᵢ‖²` for point sets given as `n × 3` arrays (rows are points; `np.dot(A, R)`) -/
def residual (A B : Matrix (Fin n) (Fin 3) ℝ) (Q : M3) : ℝ := ((A * Q - B)ᵀ * (A * Q - B)).trace

theorem residual_nonneg (A B : Matrix (Fin n) (Fin 3) ℝ) (Q : M3) : 0 ≤ residual A B Q := by
  unfold residual
  rw [Matrix.trace]
  apply Finset.sum_nonneg
  intro i _
  simp only [Matrix.diag_apply, Matrix.mul_apply, Matrix.transpose_apply]
  apply Finset.sum_nonneg
  intro k _
  exact mul_self_nonneg _

theorem residual_expand (A B : Matrix (Fin n) (Fin 3) ℝ) (Q : M3) (hQ : IsO Q) :
    residual A B Q = (Aᵀ * A).trace + (Bᵀ * B).trace - 2 * (Qᵀ * (Aᵀ * B)).trace := by
  unfold residual
  have e : (A * Q - B)ᵀ * (A * Q - B) = Qᵀ * Aᵀ * A * Q - Qᵀ * Aᵀ * B - Bᵀ * A * Q + Bᵀ * B := by
    rw [Matrix.transpose_sub, Matrix.transpose_mul, Matrix.sub_mul, Matrix.mul_sub, Matrix.mul_sub]
    simp only [Matrix.mul_assoc]
    abel
  rw [e, Matrix.trace_add, Matrix.trace_sub, Matrix.trace_sub]
  have t1 : (Qᵀ * Aᵀ * A * Q).trace = (Aᵀ * A).trace := by
    rw [show Qᵀ * Aᵀ * A * Q = Qᵀ * (Aᵀ * A * Q) by simp only [Matrix.mul_assoc], Matrix.trace_mul_comm,
      Matrix.mul_assoc, show Q * Qᵀ = 1 from hQ, Matrix.mul_one]
  have t2 : (Bᵀ * A * Q).trace = (Qᵀ * Aᵀ * B).trace := by
    rw [← Matrix.trace_transpose (Bᵀ * A * Q)]
    simp only [Matrix.transpose_mul, Matrix.transpose_transpose, Matrix.mul_assoc]
  rw [t1, t2, show Qᵀ * Aᵀ * B = Qᵀ * (Aᵀ * B) by rw [Matrix.mul_assoc]]
  ring

/-- **optimality**: for ANY two point sets of equal size (collinear, planar or generic — no rank assumption),
the Kabsch rotation minimises the summed squared deviation, hence the RMSD, over ALL proper rotations -/
theorem kabsch_optimal (A B : Matrix (Fin n) (Fin 3) ℝ) (U Vt : M3) (s : Fin 3 → ℝ) (h : SvdSpec (Aᵀ * B) U Vt s)
    (Q : M3) (hQ : IsO Q) (hQd : Q.det = 1) :
    residual A B (kabsch U Vt) ≤ residual A B Q := by
  rw [residual_expand A B Q hQ, residual_expand A B _ (kabsch_orthogonal U Vt h.hU h.hV)]
  have := kabsch_optimal_trace (Aᵀ * B) U Vt s h Q hQ hQd
  linarith

/-- congruent sets are superposed exactly -/
theorem kabsch_congruent_exact (A : Matrix (Fin n) (Fin 3) ℝ) (Q0 U Vt : M3) (s : Fin 3 → ℝ) (hQ : IsO Q0) (hQd : Q0.det = 1)
    (h : SvdSpec (Aᵀ * (A * Q0)) U Vt s) : residual A (A * Q0) (kabsch U Vt) = 0 := by
  have h1 := kabsch_optimal A (A * Q0) U Vt s h Q0 hQ hQd
  have h0 : residual A (A * Q0) Q0 = 0 := by
    unfold residual; simp
  have h2 := residual_nonneg A (A * Q0) (kabsch U Vt)
  linarith

/-- the RMSD after alignment, `sqrt(residual / n)`, is therefore minimal too -/
theorem rmsd_is_min (A B : Matrix (Fin n) (Fin 3) ℝ) (U Vt : M3) (s : Fin 3 → ℝ) (h : SvdSpec (Aᵀ * B) U Vt s)
    (Q : M3) (hQ : IsO Q) (hQd : Q.det = 1) (hn : 0 < n) :
    Real.sqrt (residual A B (kabsch U Vt) / n) ≤ Real.sqrt (residual A B Q / n) := by
  apply Real.sqrt_le_sqrt
  have hn' : (0 : ℝ) < n := by exact_mod_cast hn
  exact div_le_div_of_nonneg_right (kabsch_optimal A B U Vt s h Q hQ hQd) hn'.le

/-! non-vacuity: the identity factorisation of a diagonal covariance satisfies the SVD specification -/
example : SvdSpec (Matrix.diagonal ![3, 2, 1]) 1 1 ![3, 2, 1] :=
  ⟨by simp [IsO], by simp [IsO], by norm_num, by simp, by simp, by simp⟩

end ChmpyVerif.Props.C18
