import ChmpyVerif.Model.MC
namespace ChmpyVerif.Props.C06
open ChmpyVerif.MC ChmpyVerif.Gen.MC
theorem leaves_ok0 : leaves0.all leafOk = true := by decide +kernel
theorem faces_match0 : leaves0.all leafFacesMatch = true := by decide +kernel
theorem trees0 : ((List.range 32).map (· + 0)).all (fun cfg => isTree 16 ((leaves0.filter (·.cfg == cfg)).map (·.tests))) = true := by decide +kernel
end ChmpyVerif.Props.C06
