import ChmpyVerif.Props.C11Spell
namespace ChmpyVerif.Props.C11
/-- every spelling of every row with translation digit 3 is read back as that row -/
theorem spell_k3 : ∀ r ∈ rows27, ∀ s ∈ spellings r 3, rowOk s r 3 = true := by
  decide +kernel
end ChmpyVerif.Props.C11
