import ChmpyVerif.Model.MC
namespace ChmpyVerif.Props.C06
open ChmpyVerif.MC ChmpyVerif.Gen.MC

/-- **neighbouring cells glue**: for each of the three pairs of opposite faces and every face-local datum, the segments the
cell on one side leaves on the shared face are exactly the REVERSED segments (after renaming the cube edges) the cell on
the other side leaves: so every directed mesh edge in a shared face is matched by its reverse from the neighbour -/
theorem opposite_faces_glue : gluesOk expectedLit = true := by decide +kernel

/-- the table has one entry per key -/
theorem expected_keys_distinct : (expectedLit.map (·.1)).Nodup := by decide +kernel

end ChmpyVerif.Props.C06
