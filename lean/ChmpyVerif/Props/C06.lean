/-
C06 — isosurfaces are closed, consistently oriented meshes on the requested level.
Kernel-checked facts about EVERY path through the case logic of the Lewiner marching cubes (the generated leaf list:
256 corner-sign configurations × every outcome of the face / interior tests), plus ring algebra for the vertex
placement and arithmetic for the vertex-sharing slots.  The assembly of the cells into one mesh is not proved
(see MANIFEST / DESIGN): the theorems here are the per-cell and per-shared-face facts that assembly rests on.
-/
import ChmpyVerif.Model.MC
import ChmpyVerif.Props.C06K0
import ChmpyVerif.Props.C06K1
import ChmpyVerif.Props.C06K2
import ChmpyVerif.Props.C06K3
import ChmpyVerif.Props.C06K4
import ChmpyVerif.Props.C06K5
import ChmpyVerif.Props.C06K6
import ChmpyVerif.Props.C06K7
import ChmpyVerif.Props.C06Glue
import Mathlib.Algebra.Order.Field.Basic
import Mathlib.Algebra.Order.Field.Rat
import Mathlib.Tactic.FieldSimp
import Mathlib.Tactic.Ring
import Mathlib.Tactic.Linarith
import Mathlib.Tactic.IntervalCases

namespace ChmpyVerif.Props.C06
open ChmpyVerif.MC ChmpyVerif.Gen.MC

/-- **every path through the case logic** yields a patch that (a) uses only edge indices 0..12 in whole triangles, (b) puts
vertices only on cube edges whose corners straddle the level (or at the interior vertex 12), (c) is locally a manifold with
boundary: no directed edge twice, every directed edge either has its reverse in the same cell or lies in exactly one cube face,
and (d) has resolved every ambiguous face by a face test — unless it is the `Impossible case 13?` branch -/
theorem every_leaf_ok (lf : Leaf) (h : lf ∈ leaves) : leafOk lf = true := by
  simp only [leaves, leafChunks, List.flatten_cons, List.flatten_nil, List.append_nil, List.mem_append] at h
  rcases h with h | h | h | h | h | h | h | h
  · exact List.all_eq_true.mp leaves_ok0 lf h
  · exact List.all_eq_true.mp leaves_ok1 lf h
  · exact List.all_eq_true.mp leaves_ok2 lf h
  · exact List.all_eq_true.mp leaves_ok3 lf h
  · exact List.all_eq_true.mp leaves_ok4 lf h
  · exact List.all_eq_true.mp leaves_ok5 lf h
  · exact List.all_eq_true.mp leaves_ok6 lf h
  · exact List.all_eq_true.mp leaves_ok7 lf h

theorem every_leaf_faces_match (lf : Leaf) (h : lf ∈ leaves) : leafFacesMatch lf = true := by
  simp only [leaves, leafChunks, List.flatten_cons, List.flatten_nil, List.append_nil, List.mem_append] at h
  rcases h with h | h | h | h | h | h | h | h
  · exact List.all_eq_true.mp faces_match0 lf h
  · exact List.all_eq_true.mp faces_match1 lf h
  · exact List.all_eq_true.mp faces_match2 lf h
  · exact List.all_eq_true.mp faces_match3 lf h
  · exact List.all_eq_true.mp faces_match4 lf h
  · exact List.all_eq_true.mp faces_match5 lf h
  · exact List.all_eq_true.mp faces_match6 lf h
  · exact List.all_eq_true.mp faces_match7 lf h

/-- **the boundary a patch leaves on a cube face is a function of that face's own data** (its four corner signs and, when
ambiguous, the sign of the face-test quantity): two leaves — of any configurations, reached by any test outcomes — that see
the same face-local data on a face leave the same directed segments on it -/
theorem same_face_data_same_segments (a b : Leaf) (ha : a ∈ leaves) (hb : b ∈ leaves) (hai : a.impossible = false) (hbi : b.impossible = false)
    (f : Nat) (hf : f ∈ faces) (hk : keyCode a f = keyCode b f) :
    segsCode (faceSegs (toNats a.tris) f) = segsCode (faceSegs (toNats b.tris) f) := by
  have h1 := every_leaf_faces_match a ha
  have h2 := every_leaf_faces_match b hb
  simp only [leafFacesMatch, hai, hbi, Bool.false_or, List.all_eq_true] at h1 h2
  have e1 := h1 f hf
  have e2 := h2 f hf
  rw [hk] at e1
  have e1' := eq_of_beq e1
  have e2' := eq_of_beq e2
  rw [e1'] at e2'
  exact Option.some.inj e2'

/-- **two neighbouring cells glue**: let `a` and `b` be the leaves reached in two cells that share a face (`f` of the first is `g` of
the second, one of the three opposite pairs), and let `b` see on `g` the same physical data as `a` sees on `f` (same corner signs at
the same positions, same sign of the face-test quantity — `neighbourKey` re-expresses the datum in the neighbour's numbering).
Then the directed segments `b` leaves on the shared face are exactly the segments `a` leaves there, REVERSED (after renaming the
cube edges to the neighbour's numbering): every directed mesh edge in the shared face is matched by its reverse. -/
theorem two_cells_glue (a b : Leaf) (ha : a ∈ leaves) (hb : b ∈ leaves) (hai : a.impossible = false) (hbi : b.impossible = false)
    (f g : Nat) (emap : List (Nat × Nat)) (hp : (f, g, emap) ∈ opposite)
    (hsame : keyCode b g = neighbourKey f g (keyCode a f)) :
    segsCode (faceSegs (toNats b.tris) g) = mapSegs emap (segsCode (faceSegs (toNats a.tris) f)) := by
  have hf : f ∈ faces := by
    simp only [opposite, List.mem_cons, Prod.mk.injEq, List.mem_nil_iff, or_false] at hp
    rcases hp with ⟨rfl, _⟩ | ⟨rfl, _⟩ | ⟨rfl, _⟩ <;> decide
  have hg : g ∈ faces := by
    simp only [opposite, List.mem_cons, Prod.mk.injEq, List.mem_nil_iff, or_false] at hp
    rcases hp with ⟨_, rfl, _⟩ | ⟨_, rfl, _⟩ | ⟨_, rfl, _⟩ <;> decide
  -- both leaves carry the tabulated segments for their face data
  have h1 := every_leaf_faces_match a ha
  have h2 := every_leaf_faces_match b hb
  simp only [leafFacesMatch, hai, hbi, Bool.false_or, List.all_eq_true] at h1 h2
  have e1 := eq_of_beq (h1 f hf)
  have e2 := eq_of_beq (h2 g hg)
  -- and the table glues opposite faces
  have hglue := opposite_faces_glue
  simp only [gluesOk, List.all_eq_true] at hglue
  have hpair := hglue (f, g, emap) hp
  simp only at hpair
  -- the table entry for a's datum
  cases hfa : expectedLit.find? (·.1 == keyCode a f) with
  | none => rw [hfa] at e1; simp at e1
  | some ent =>
    obtain ⟨k, s⟩ := ent
    rw [hfa] at e1
    simp only [Option.map_some, Option.some.injEq] at e1
    have hk : k = keyCode a f := by have := List.find?_some hfa; simpa using this
    have hmem : (k, s) ∈ expectedLit := List.mem_of_find?_eq_some hfa
    have := hpair (k, s) hmem
    simp only at this
    have hkf : k / 64 = f := by
      subst hk
      unfold keyCode
      simp only
      have hb16 : bits (faceSigns a.cfg f) < 16 := by
        have : ∀ cfg, ∀ f ∈ faces, bits (faceSigns cfg f) < 16 := by
          intro cfg f hf
          simp only [faces, List.mem_cons, List.mem_nil_iff, or_false] at hf
          rcases hf with rfl | rfl | rfl | rfl | rfl | rfl <;>
            (simp only [faceSigns, faceCorners, List.map_cons, List.map_nil, bits, List.foldl_cons, List.foldl_nil]
             repeat' split
             all_goals omega)
        exact this a.cfg f hf
      split <;> (try split) <;> omega
    rw [hkf] at this
    simp only [bne_self_eq_false, Bool.false_or] at this
    rw [hk, ← hsame] at this
    cases hfb : expectedLit.find? (·.1 == keyCode b g) with
    | none => rw [hfb] at this; simp at this
    | some ent2 =>
      obtain ⟨k2, s2⟩ := ent2
      rw [hfb] at this e2
      simp only [Option.map_some, Option.some.injEq] at e2
      simp only at this
      have := eq_of_beq this
      rw [← e2, ← this, e1]

/-! ### vertex placement -/

/-- **a vertex lies strictly inside its grid edge**, for any two corner values and any positive `eps` (also for eps = 0 when
neither value is zero) -/
theorem vertex_inside_edge (eps v1 v2 : ℚ) (h1 : 0 < eps + |v1|) (h2 : 0 < eps + |v2|) :
    0 < (1 / (eps + |v2|)) / (1 / (eps + |v1|) + 1 / (eps + |v2|)) ∧
      (1 / (eps + |v2|)) / (1 / (eps + |v1|) + 1 / (eps + |v2|)) < 1 := by
  have w1 : 0 < 1 / (eps + |v1|) := one_div_pos.mpr h1
  have w2 : 0 < 1 / (eps + |v2|) := one_div_pos.mpr h2
  constructor
  · exact div_pos w2 (by linarith)
  · rw [div_lt_one (by linarith)]; linarith

/-- **… at the crossing point**: without the regularising eps, for corner values of opposite strict sign the vertex is where
the linear interpolant along the edge vanishes -/
theorem vertex_at_crossing (v1 v2 : ℚ) (h : v1 * v2 < 0) :
    let t := (1 / |v2|) / (1 / |v1| + 1 / |v2|)
    v1 + t * (v2 - v1) = 0 := by
  intro t
  have hne1 : v1 ≠ 0 := by intro h0; simp [h0] at h
  have hne2 : v2 ≠ 0 := by intro h0; simp [h0] at h
  have a1 : |v1| ≠ 0 := abs_ne_zero.mpr hne1
  have a2 : |v2| ≠ 0 := abs_ne_zero.mpr hne2
  have hs : |v1| + |v2| ≠ 0 := by
    have := abs_pos.mpr hne1; have := abs_pos.mpr hne2; linarith
  have ht : t = |v1| / (|v1| + |v2|) := by
    simp only [t]; field_simp; ring
  rw [ht]
  rcases mul_neg_iff.mp h with ⟨p, n⟩ | ⟨n, p⟩
  · rw [abs_of_pos p, abs_of_neg n] at *
    field_simp; ring
  · rw [abs_of_neg n, abs_of_pos p] at *
    field_simp; ring

/-! ### vertex sharing -/

def upE (vi : Nat) : Bool := decide (4 ≤ vi) && decide (vi < 8)
def dxE : Nat → Nat | 1 => 1 | 5 => 1 | 9 => 1 | 10 => 1 | _ => 0
def dyE : Nat → Nat | 2 => 1 | 6 => 1 | 10 => 1 | 11 => 1 | _ => 0
def axE (vi : Nat) : Nat := if vi < 8 then vi % 2 else if vi < 12 then 2 else 3

theorem slot_nf (nx x y vi : Nat) (hv : vi ≤ 12) :
    slot nx x y vi = (upE vi, 4 * (nx * (y + dyE vi) + (x + dxE vi)) + axE vi) := by
  interval_cases vi <;> simp [slot, upE, dxE, dyE, axE] <;> ring

theorem gridEdge_nf (x y z vi : Nat) (hv : vi ≤ 12) :
    gridEdge x y z vi = (x + dxE vi, y + dyE vi, z + (if upE vi then 1 else 0), axE vi) := by
  interval_cases vi <;> simp [gridEdge, upE, dxE, dyE, axE]

theorem axE_lt (vi : Nat) : axE vi < 4 := by unfold axE; split <;> [omega; split <;> omega]
theorem dxE_le (vi : Nat) : dxE vi ≤ 1 := by unfold dxE; split <;> omega

/-- **the vertex-sharing slot identifies exactly the same physical grid edge**: two cube edges of two cells of the same
z-layer get the same (layer, slot) iff they are the same grid edge (x + 1 < nx, so rows do not wrap) -/
theorem slot_eq_iff_same_edge (nx x y x' y' z : Nat) (vi vi' : Nat) (hx : x + 1 < nx) (hx' : x' + 1 < nx)
    (hv : vi ≤ 12) (hv' : vi' ≤ 12) :
    slot nx x y vi = slot nx x' y' vi' ↔ gridEdge x y z vi = gridEdge x' y' z vi' := by
  have key : ∀ a b c d : Nat, a < nx → c < nx → (nx * b + a = nx * d + c ↔ a = c ∧ b = d) := by
    intro a b c d ha hc
    constructor
    · intro h
      have hbd : b = d := by
        rcases Nat.lt_trichotomy b d with hlt | heq | hgt
        · exfalso
          have : nx * (b + 1) ≤ nx * d := Nat.mul_le_mul_left nx hlt
          rw [Nat.mul_succ] at this; omega
        · exact heq
        · exfalso
          have : nx * (d + 1) ≤ nx * b := Nat.mul_le_mul_left nx hgt
          rw [Nat.mul_succ] at this; omega
      subst hbd
      exact ⟨by omega, rfl⟩
    · rintro ⟨rfl, rfl⟩; rfl
  rw [slot_nf nx x y vi hv, slot_nf nx x' y' vi' hv', gridEdge_nf x y z vi hv, gridEdge_nf x' y' z vi' hv']
  simp only [Prod.mk.injEq]
  have a1 := axE_lt vi; have a2 := axE_lt vi'
  have d1 := dxE_le vi; have d2 := dxE_le vi'
  have k := key (x + dxE vi) (y + dyE vi) (x' + dxE vi') (y' + dyE vi') (by omega) (by omega)
  constructor
  · rintro ⟨hu, hs⟩
    have h4 : nx * (y + dyE vi) + (x + dxE vi) = nx * (y' + dyE vi') + (x' + dxE vi') ∧ axE vi = axE vi' := by omega
    obtain ⟨hX, hY⟩ := k.mp h4.1
    exact ⟨hX, hY, by rw [hu], h4.2⟩
  · rintro ⟨hX, hY, hz, ha⟩
    refine ⟨?_, ?_⟩
    · cases h1 : upE vi <;> cases h2 : upE vi' <;> simp [h1, h2] at hz ⊢
    · rw [k.mpr ⟨hX, hY⟩, ha]

end ChmpyVerif.Props.C06
