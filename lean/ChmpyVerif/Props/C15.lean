/-
C15 — CIF text written by the library parses back to the same data.
Value-, field- and token-level theorems about the hand model `Model/Cif.lean`.
The document-level statement `ParsePrint` is stated and NOT proved (see MANIFEST / DESIGN).
-/
import ChmpyVerif.Model.Cif
import ChmpyVerif.Lemmas.MolIO

namespace ChmpyVerif.Props.C15
open ChmpyVerif.Cif ChmpyVerif.PyStr ChmpyVerif.MolIO
open ChmpyVerif.SymOp (roundHalfEven)
set_option linter.unusedSimpArgs false
set_option synthInstance.maxSize 1024

theorem takeWhile_all {α} (p : α → Bool) (l : List α) (h : l.all p = true) :
    l.takeWhile p = l ∧ l.dropWhile p = [] := by
  induction l with
  | nil => simp
  | cons x xs ih =>
    simp only [List.all_cons, Bool.and_eq_true] at h
    simp [List.takeWhile_cons, List.dropWhile_cons, h.1, ih h.2]

/-- number text made of an optional '-' and digits -/
theorem matchNumber_int (neg : Bool) (ds : List Ch) (hne : ds ≠ []) (hd : ds.all isDigitA = true) :
    matchNumber ((if neg then [45] else []) ++ ds) = some ((if neg then [45] else []) ++ ds, []) := by
  obtain ⟨c, rest, rfl⟩ := List.exists_cons_of_ne_nil hne
  have hcd : isDigitA c = true := by simp only [List.all_cons, Bool.and_eq_true] at hd; exact hd.1
  have hc45 : c ≠ 45 := by intro e; subst e; simp [isDigitA] at hcd
  have hc43 : c ≠ 43 := by intro e; subst e; simp [isDigitA] at hcd
  obtain ⟨t1, t2⟩ := takeWhile_all isDigitA (c :: rest) hd
  cases neg with
  | true =>
    simp only [if_true, List.singleton_append, matchNumber]
    simp [t1, t2]
  | false =>
    simp only [Bool.false_eq_true, if_false, List.nil_append, matchNumber]
    simp [hc45, hc43, t1, t2]

/-- **integers keep their type**: the decimal text of an integer parses to that integer, as `int` -/
theorem parse_value_int (i : Int) : parseValue (intText i) = .ok (.int i) := by
  unfold parseValue intText
  have hne : natStr i.natAbs ≠ [] := List.ne_nil_of_length_pos (natStr_length_pos _)
  have hd := natStr_digits i.natAbs
  have hm := matchNumber_int (decide (i < 0)) (natStr i.natAbs) hne hd
  by_cases hi : i < 0
  · simp only [hi, decide_true, if_true] at hm ⊢
    rw [hm]
    simp only [readNumber, List.singleton_append]
    have hds : isDigitStr (natStr i.natAbs) = true := by simp [isDigitStr, hd, hne]
    simp only [hds, if_true, digitsToNat_natStr]
    congr 2
    omega
  · simp only [hi, decide_false, Bool.false_eq_true, if_false, List.nil_append] at hm ⊢
    rw [hm]
    obtain ⟨c, rest, hcr⟩ := List.exists_cons_of_ne_nil hne
    have hcd : isDigitA c = true := by
      rw [hcr] at hd; simp only [List.all_cons, Bool.and_eq_true] at hd; exact hd.1
    have hc45 : c ≠ 45 := by intro e; subst e; simp [isDigitA] at hcd
    have hc43 : c ≠ 43 := by intro e; subst e; simp [isDigitA] at hcd
    have hds : isDigitStr (natStr i.natAbs) = true := by simp [isDigitStr, hd, hne]
    simp only [readNumber]
    rw [hcr]
    simp only [hc45, hc43, if_false]
    rw [← hcr]
    simp only [hds, if_true, Bool.false_eq_true, if_false, digitsToNat_natStr]
    congr 2
    omega

/-- quoted strings lose only their quotes (strings without quote characters and without a leading blank) -/
theorem parse_value_quoted (s : List Ch) (hq : (39 : Ch) ∉ s) (hlead : s.head?.all (fun c => !pyIsSpace c) = true) :
    parseValue (39 :: s ++ [39]) = .ok (.str s) := by
  unfold parseValue
  have hm : matchNumber (39 :: s ++ [39]) = none := by
    simp [matchNumber, isDigitA, isSepC]
  rw [hm]
  have hstrip : strip (39 :: s ++ [39]) = 39 :: s ++ [39] := by
    have hl : (39 :: s ++ [39]).getLast? = some 39 := by
      rw [show (39 :: s ++ [39]) = (39 :: s) ++ [39] from rfl, List.getLast?_concat]
    have := ChmpyVerif.Element.strip_pad (39 :: s ++ [39]) [] [] rfl rfl (by simp) (by simp [pyIsSpace]) (by rw [hl]; simp [pyIsSpace])
    simpa using this
  simp only [hstrip]
  have hlast : (39 :: s ++ [39]).getLast? = some 39 := by
    rw [show (39 :: s ++ [39]) = (39 :: s) ++ [39] from rfl, List.getLast?_concat]
  rw [hlast]
  simp only [List.cons_append, parseQuote]
  -- the body of the quote
  have hdw : (s ++ [39]).dropWhile pyIsSpace = s ++ [39] := by
    cases s with
    | nil => simp [pyIsSpace]
    | cons a t =>
      simp at hlead
      simp [List.dropWhile_cons, hlead]
  have hall : s.all (fun x => x != 39) = true := by
    rw [List.all_eq_true]; intro x hx; simp; intro e; exact hq (e ▸ hx)
  obtain ⟨t1, t2⟩ := ChmpyVerif.MolIO.takeWhile_digits_append' (fun x => x != 39) s 39 [] hall (by simp)
  simp [hdw, t1, t2]

/-- a plain word (first character a letter, not ending in a quote character) parses to itself -/
theorem parse_value_plain (w : List Ch) (c : Ch) (rest : List Ch) (hw : w = c :: rest) (hc : isLetterA c = true)
    (hnosp : w.all (fun x => !pyIsSpace x) = true) :
    parseValue w = .ok (.str w) := by
  subst hw
  unfold parseValue
  have hcd : isDigitA c = false := by
    unfold isLetterA isUpperA isLowerA at hc; unfold isDigitA; grind
  have h45 : c ≠ 45 := by intro e; subst e; simp [isLetterA, isUpperA, isLowerA] at hc
  have h43 : c ≠ 43 := by intro e; subst e; simp [isLetterA, isUpperA, isLowerA] at hc
  have hsep : isSepC c = false := by
    unfold isSepC; unfold isLetterA isUpperA isLowerA at hc; grind
  have hm : matchNumber (c :: rest) = none := by
    simp [matchNumber, h45, h43, List.takeWhile_cons, List.dropWhile_cons, hcd, hsep]
  rw [hm]
  have hstrip : strip (c :: rest) = c :: rest := by
    have hl : (c :: rest).getLast?.all (fun x => !pyIsSpace x) = true := by
      cases h : (c :: rest).getLast? with
      | none => simp
      | some l => simpa using (List.all_eq_true.mp hnosp) l (List.mem_of_getLast? h)
    have hh : (c :: rest).head?.all (fun x => !pyIsSpace x) = true := by
      simp only [List.all_cons, Bool.and_eq_true] at hnosp; simpa using hnosp.1
    have := ChmpyVerif.Element.strip_pad (c :: rest) [] [] rfl rfl (by simp) hh hl
    simpa using this
  simp only [hstrip]
  have h39 : c ≠ 39 := by intro e; subst e; simp [isLetterA, isUpperA, isLowerA] at hc
  have h59 : c ≠ 59 := by intro e; subst e; simp [isLetterA, isUpperA, isLowerA] at hc
  have h34 : c ≠ 34 := by intro e; subst e; simp [isLetterA, isUpperA, isLowerA] at hc
  cases hl : (c :: rest).getLast? with
  | none => simp at hl
  | some l => simp [h39, h59, h34]

/-- `needs_quote`: the empty string, and exactly the strings with a blank and no quote character -/
theorem needsQuote_iff (s : List Ch) : needsQuote s = true ↔ (s = [] ∨ (32 ∈ s ∧ 34 ∉ s ∧ 39 ∉ s)) := by
  simp [needsQuote]

/-- the empty string is written as `''`, which is one token of a row and one scalar value -/
theorem empty_string_quoted : formatField (.str []) = [39, 39] ∧ scalarText (.str []) = [39, 39] ∧ tokens [39, 39] = [[39, 39]] := by
  refine ⟨by decide, by decide, by decide⟩

/-- a quoted field is ONE token of a row, whatever blanks it contains -/
theorem tokens_single_quoted (s : List Ch) (hq : (39 : Ch) ∉ s) :
    tokens (39 :: (s ++ [39])) = [39 :: (s ++ [39])] := by
  have hall : s.all (fun x => x != 39) = true := by
    rw [List.all_eq_true]; intro x hx; simp; intro e; exact hq (e ▸ hx)
  obtain ⟨t1, t2⟩ := ChmpyVerif.MolIO.takeWhile_digits_append' (fun x => x != 39) s 39 [] hall (by simp)
  show tokens.go (39 :: (s ++ [39])) ((s ++ [39]).length + 1) = _
  simp only [tokens.go]
  have hsp : pyIsSpace 39 = false := by decide
  simp only [hsp, Bool.false_eq_true, if_false, true_or, if_true, t1, t2]
  cases h : (s ++ [39]).length with
  | zero => simp at h
  | succ n => simp [tokens.go]

/-- the whole-document statement (NOT proved): parsing the printed text of a well-formed document returns it -/
def WellFormedWord (w : List Ch) : Prop :=
  ∃ c rest, w = c :: rest ∧ isLetterA c = true ∧ w.all (fun x => !pyIsSpace x && x != 39 && x != 34) = true

/-- a concrete two-block document with scalars, a loop with strings containing blanks, an integral float and an
empty block: the model parses its own output back (kernel-evaluated TEST of the document level, not a proof of it) -/
theorem wellformed_example :
    parseDoc (printDoc [
      ([98, 49], [.scalar [97] (.float 2 [50, 46, 48]), .scalar [110] (.int (-3)), .scalar [115] (.str [120, 32, 32, 121]),
                  .column [99, 95, 105] [.int 1, .int 20], .column [99, 95, 115] [.str [112, 32, 113], .str [114]]]),
      ([98, 50], [])])
    = .ok [([98, 49], [([97], .inl (.float 2)), ([110], .inl (.int (-3))), ([115], .inl (.str [120, 32, 32, 121])),
                       ([99, 95, 105], .inr [.int 1, .int 20]), ([99, 95, 115], .inr [.str [112, 32, 113], .str [114]])]),
           ([98, 50], [])] := by
  decide +kernel

end ChmpyVerif.Props.C15
