/-
C08, "their number and ordering are a fixed function of the maximum degree": the selection logic of `make_invariants`
(`if "N" in kinds: append N-block; if "P" in kinds: append P-block; hstack`) depends only on WHICH kinds are named — not on their
order, repetition or container — and the N block always comes first. Stated on a model of that selection; the blocks themselves are
the N and P invariants of the other C08 theorems. Tied to the code by the oracle (all spellings of the selection compared on the real
function each run).
-/
namespace ChmpyVerif.Props.C08

/-- `make_invariants(l_max, c, kinds)` given the two blocks (78 = 'N', 80 = 'P') -/
def makeInvariants {α} (kinds : List Nat) (nBlock pBlock : List α) : List α :=
  (if kinds.contains 78 then nBlock else []) ++ (if kinds.contains 80 then pBlock else [])

/-- the result depends only on which letters occur -/
theorem makeInvariants_congr {α} (k1 k2 : List Nat) (nB pB : List α)
    (hN : k1.contains 78 = k2.contains 78) (hP : k1.contains 80 = k2.contains 80) :
    makeInvariants k1 nB pB = makeInvariants k2 nB pB := by
  unfold makeInvariants; rw [hN, hP]

/-- **order and repetition of the letters are irrelevant**: any rearrangement names the same kinds -/
theorem makeInvariants_perm {α} (k1 k2 : List Nat) (nB pB : List α) (h : ∀ x, x ∈ k1 ↔ x ∈ k2) :
    makeInvariants k1 nB pB = makeInvariants k2 nB pB := by
  apply makeInvariants_congr
  · have := h 78
    cases h1 : k1.contains 78 <;> cases h2 : k2.contains 78 <;> simp_all
  · have := h 80
    cases h1 : k1.contains 80 <;> cases h2 : k2.contains 80 <;> simp_all

/-- with both kinds: the N block first, then the P block; the count is the sum of the block sizes -/
theorem makeInvariants_both {α} (kinds : List Nat) (nB pB : List α) (hN : 78 ∈ kinds) (hP : 80 ∈ kinds) :
    makeInvariants kinds nB pB = nB ++ pB ∧ (makeInvariants kinds nB pB).length = nB.length + pB.length := by
  unfold makeInvariants
  simp [hN, hP]

example : makeInvariants [80, 78] [1, 2, 3] [10, 20] = [1, 2, 3, 10, 20] ∧ makeInvariants [78, 80, 78] [1, 2, 3] [10, 20] = [1, 2, 3, 10, 20] := by
  decide

end ChmpyVerif.Props.C08
