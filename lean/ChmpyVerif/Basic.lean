def hello := "world"
