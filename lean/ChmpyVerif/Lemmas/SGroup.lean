import ChmpyVerif.Model.SGroup
import Mathlib.Tactic.Ring
import Mathlib.Tactic.Linarith
import Mathlib.Data.Int.ModEq

/- helper lemmas for C02 / C01: affine operations modulo the lattice, certificates, lookups -/

namespace ChmpyVerif.SG

/-- shape lemma: a well-formed operation has 9 + 3 explicit components, digits in range -/
theorem wf_shape (a : AOp) (h : wf a = true) :
    ∃ a0 a1 a2 a3 a4 a5 a6 a7 a8 s0 s1 s2 : Int, a = ⟨[a0, a1, a2, a3, a4, a5, a6, a7, a8], [s0, s1, s2]⟩ ∧
      (0 ≤ s0 ∧ s0 < 12) ∧ (0 ≤ s1 ∧ s1 < 12) ∧ (0 ≤ s2 ∧ s2 < 12) := by
  obtain ⟨r, t⟩ := a
  simp only [wf, Bool.and_eq_true, beq_iff_eq, List.all_eq_true, decide_eq_true_eq] at h
  obtain ⟨⟨hr, ht⟩, hd⟩ := h
  match r, hr, t, ht, hd with
  | [a0, a1, a2, a3, a4, a5, a6, a7, a8], _, [s0, s1, s2], _, hd =>
    exact ⟨a0, a1, a2, a3, a4, a5, a6, a7, a8, s0, s1, s2, rfl, hd s0 (by simp), hd s1 (by simp), hd s2 (by simp)⟩

theorem compose_wf (a b : AOp) (ha : wf a = true) (hb : wf b = true) : wf (compose a b) = true := by
  obtain ⟨a0, a1, a2, a3, a4, a5, a6, a7, a8, s0, s1, s2, rfl, _, _, _⟩ := wf_shape a ha
  obtain ⟨b0, b1, b2, b3, b4, b5, b6, b7, b8, u0, u1, u2, rfl, _, _, _⟩ := wf_shape b hb
  simp only [compose, wf, List.length_cons, List.length_nil, List.all_cons, List.all_nil, Bool.and_true,
    Bool.and_eq_true, beq_iff_eq, decide_eq_true_eq]
  refine ⟨⟨trivial, trivial⟩, ?_, ?_, ?_⟩ <;> constructor <;> omega

theorem compose_id (a : AOp) (ha : wf a = true) : compose a idOp = a := by
  obtain ⟨a0, a1, a2, a3, a4, a5, a6, a7, a8, s0, s1, s2, rfl, h0, h1, h2⟩ := wf_shape a ha
  simp only [compose, idOp, AOp.mk.injEq, List.cons.injEq, and_true]
  refine ⟨⟨?_, ?_, ?_, ?_, ?_, ?_, ?_, ?_, ?_⟩, ?_, ?_, ?_⟩ <;> omega

theorem mod_helper (P T a0 a1 a2 W0 W1 W2 s : Int) (h : P + T = a0 * W0 + a1 * W1 + a2 * W2 + s) :
    (P + T % 12) % 12 = (a0 * (W0 % 12) + a1 * (W1 % 12) + a2 * (W2 % 12) + s) % 12 := by
  have l : P + T % 12 ≡ P + T [ZMOD 12] := Int.ModEq.add_left P (Int.mod_modEq T 12)
  have r : a0 * (W0 % 12) + a1 * (W1 % 12) + a2 * (W2 % 12) + s ≡ a0 * W0 + a1 * W1 + a2 * W2 + s [ZMOD 12] :=
    ((((Int.mod_modEq W0 12).mul_left a0).add ((Int.mod_modEq W1 12).mul_left a1)).add
      ((Int.mod_modEq W2 12).mul_left a2)).add_right s
  exact (l.trans (h ▸ Int.ModEq.refl _)).trans r.symm

theorem compose_assoc (a b c : AOp) (ha : wf a = true) (hb : wf b = true) (hc : wf c = true) :
    compose (compose a b) c = compose a (compose b c) := by
  obtain ⟨a0, a1, a2, a3, a4, a5, a6, a7, a8, s0, s1, s2, rfl, _, _, _⟩ := wf_shape a ha
  obtain ⟨b0, b1, b2, b3, b4, b5, b6, b7, b8, u0, u1, u2, rfl, _, _, _⟩ := wf_shape b hb
  obtain ⟨c0, c1, c2, c3, c4, c5, c6, c7, c8, v0, v1, v2, rfl, _, _, _⟩ := wf_shape c hc
  simp only [compose, AOp.mk.injEq, List.cons.injEq, and_true]
  refine ⟨⟨?_, ?_, ?_, ?_, ?_, ?_, ?_, ?_, ?_⟩, ?_, ?_, ?_⟩
  all_goals first | ring1 | exact mod_helper _ _ _ _ _ _ _ _ _ (by ring)


/-! ### the packed code is faithful on packable operations -/

theorem packable_wf (a : AOp) (h : packable a = true) : wf a = true := by
  unfold packable at h; simp only [Bool.and_eq_true] at h; exact h.1

theorem trit_nat (a : Int) (h : -1 ≤ a ∧ a ≤ 1) : ∃ n : Nat, n ≤ 2 ∧ a = (n : Int) - 1 :=
  ⟨(a + 1).toNat, by omega, by omega⟩
theorem dig_nat (a : Int) (h : 0 ≤ a ∧ a < 12) : ∃ n : Nat, n < 12 ∧ a = (n : Int) :=
  ⟨a.toNat, by omega, by omega⟩

/-- digit extraction from a packed natural number -/
theorem digits_unpack (n0 n1 n2 n3 n4 n5 n6 n7 n8 m0 m1 m2 : Nat)
    (h0 : n0 ≤ 2) (h1 : n1 ≤ 2) (h2 : n2 ≤ 2) (h3 : n3 ≤ 2) (h4 : n4 ≤ 2) (h5 : n5 ≤ 2) (h6 : n6 ≤ 2)
    (h7 : n7 ≤ 2) (h8 : n8 ≤ 2) (g0 : m0 < 12) (g1 : m1 < 12) (g2 : m2 < 12) :
    let R := ((((((((0 * 3 + n0) * 3 + n1) * 3 + n2) * 3 + n3) * 3 + n4) * 3 + n5) * 3 + n6) * 3 + n7) * 3 + n8
    let T := ((0 * 12 + m0) * 12 + m1) * 12 + m2
    let c := R + T * 19683
    (c % 19683 / 6561 % 3 = n0 ∧ c % 19683 / 2187 % 3 = n1 ∧ c % 19683 / 729 % 3 = n2 ∧
     c % 19683 / 243 % 3 = n3 ∧ c % 19683 / 81 % 3 = n4 ∧ c % 19683 / 27 % 3 = n5 ∧
     c % 19683 / 9 % 3 = n6 ∧ c % 19683 / 3 % 3 = n7 ∧ c % 19683 / 1 % 3 = n8) ∧
    (c / 19683 / 144 % 12 = m0 ∧ c / 19683 / 12 % 12 = m1 ∧ c / 19683 / 1 % 12 = m2) := by
  intro R T c
  refine ⟨⟨?_, ?_, ?_, ?_, ?_, ?_, ?_, ?_, ?_⟩, ?_, ?_, ?_⟩ <;> omega

theorem decode_encode_of_packable (x : AOp) (h : packable x = true) : decodeOp (encodeOp x) = x := by
  have hw := packable_wf x h
  obtain ⟨a0, a1, a2, a3, a4, a5, a6, a7, a8, s0, s1, s2, rfl, h0, h1, h2⟩ := wf_shape x hw
  simp only [packable, Bool.and_eq_true, List.all_cons, List.all_nil, Bool.and_true, decide_eq_true_eq] at h
  obtain ⟨_, q0, q1, q2, q3, q4, q5, q6, q7, q8⟩ := h
  obtain ⟨n0, b0, rfl⟩ := trit_nat a0 q0
  obtain ⟨n1, b1, rfl⟩ := trit_nat a1 q1
  obtain ⟨n2, b2, rfl⟩ := trit_nat a2 q2
  obtain ⟨n3, b3, rfl⟩ := trit_nat a3 q3
  obtain ⟨n4, b4, rfl⟩ := trit_nat a4 q4
  obtain ⟨n5, b5, rfl⟩ := trit_nat a5 q5
  obtain ⟨n6, b6, rfl⟩ := trit_nat a6 q6
  obtain ⟨n7, b7, rfl⟩ := trit_nat a7 q7
  obtain ⟨n8, b8, rfl⟩ := trit_nat a8 q8
  obtain ⟨m0, g0, rfl⟩ := dig_nat s0 h0
  obtain ⟨m1, g1, rfl⟩ := dig_nat s1 h1
  obtain ⟨m2, g2, rfl⟩ := dig_nat s2 h2
  have e (n : Nat) : ((n : Int) - 1 + 1).toNat = n := by omega
  have f (m : Nat) (hm : m < 12) : ((m : Int) % 12).toNat = m := by omega
  obtain ⟨⟨d0, d1, d2, d3, d4, d5, d6, d7, d8⟩, t0, t1, t2⟩ :=
    digits_unpack n0 n1 n2 n3 n4 n5 n6 n7 n8 m0 m1 m2 b0 b1 b2 b3 b4 b5 b6 b7 b8 g0 g1 g2
  simp only [encodeOp, decodeOp, List.foldl, e, f m0 g0, f m1 g1, f m2 g2, d0, d1, d2, d3, d4, d5, d6, d7, d8,
    t0, t1, t2]

/-! ### closure from a spanning-tree certificate -/

/-- "right multiplication by `y` keeps every element of `ops` inside `ops`" -/
def Absorbs (ops : List AOp) (y : AOp) : Prop := ∀ a ∈ ops, compose a y ∈ ops

theorem rightClosed_spec (codes : List Nat) (gens : List AOp) (h : rightClosed codes (codes.map decodeOp) gens = true) :
    ∀ g ∈ codes.map decodeOp, ∀ s ∈ gens, compose g s ∈ codes.map decodeOp := by
  intro g hg s hs
  unfold rightClosed at h
  rw [List.all_eq_true] at h
  have h1 := h g hg
  rw [List.all_eq_true] at h1
  have h2 := h1 s hs
  simp only [Bool.and_eq_true] at h2
  obtain ⟨hp, hc⟩ := h2
  have hmem : encodeOp (compose g s) ∈ codes := by
    unfold containsStrict at hc
    split at hc <;> (rename_i hn; rw [hn]; simpa using hc)
  have := List.mem_map_of_mem (f := decodeOp) hmem
  rwa [decode_encode_of_packable _ hp] at this

theorem treeGo_absorbs (codes : List Nat) (gens : List AOp)
    (hwf : ∀ a ∈ codes.map decodeOp, wf a = true) (hgwf : ∀ s ∈ gens, wf s = true)
    (hright : ∀ g ∈ codes.map decodeOp, ∀ s ∈ gens, compose g s ∈ codes.map decodeOp) :
    ∀ (rest : List (Nat × Nat × Nat)) (placed : List AOp),
      treeGo (codes.map decodeOp) gens rest placed = true →
      (∀ y ∈ placed, wf y = true ∧ Absorbs (codes.map decodeOp) y) →
      ∀ p ∈ rest, ∀ x, (codes.map decodeOp)[p.1]? = some x → Absorbs (codes.map decodeOp) x := by
  intro rest
  induction rest with
  | nil => intro _ _ _ p hp; cases hp
  | cons hd rest ih =>
    intro placed hgo hplaced p hp x hx
    obtain ⟨idx, par, gi⟩ := hd
    unfold treeGo at hgo
    split at hgo
    · rename_i x' p' s' hx' hp' hs'
      simp only [Bool.and_eq_true, beq_iff_eq] at hgo
      obtain ⟨hcomp, hrest⟩ := hgo
      have hp'mem : p' ∈ placed := List.mem_of_getElem? hp'
      have hs'mem : s' ∈ gens := List.mem_of_getElem? hs'
      have hx'mem : x' ∈ codes.map decodeOp := List.mem_of_getElem? hx'
      obtain ⟨hp'wf, hp'abs⟩ := hplaced p' hp'mem
      have habs : Absorbs (codes.map decodeOp) x' := by
        intro a ha
        rw [← hcomp, ← compose_assoc a p' s' (hwf a ha) hp'wf (hgwf s' hs'mem)]
        exact hright _ (hp'abs a ha) s' hs'mem
      rcases List.mem_cons.mp hp with rfl | hp
      · simp only at hx
        rw [hx'] at hx
        injection hx with hx; subst hx
        exact habs
      · apply ih (placed ++ [x']) hrest _ p hp x hx
        intro y hy
        rcases List.mem_append.mp hy with hy | hy
        · exact hplaced y hy
        · simp only [List.mem_singleton] at hy
          subst hy
          exact ⟨hwf _ hx'mem, habs⟩
    · cases hgo

/-- closure of the whole list under composition from the kernel-checked certificate -/
theorem closed_of_cert (codes : List Nat) (gens : List AOp) (order : List (Nat × Nat × Nat))
    (hwf : ∀ a ∈ codes.map decodeOp, wf a = true) (hgwf : ∀ s ∈ gens, wf s = true)
    (htree : treeOk (codes.map decodeOp) gens order = true)
    (hcov : coversAll (codes.map decodeOp).length order = true)
    (hright : rightClosed codes (codes.map decodeOp) gens = true) :
    ∀ a ∈ codes.map decodeOp, ∀ b ∈ codes.map decodeOp, compose a b ∈ codes.map decodeOp := by
  have hr := rightClosed_spec codes gens hright
  intro a ha b hb
  -- b sits at some table index i, which the tree reaches
  obtain ⟨i, hi, hbi⟩ := List.getElem_of_mem hb
  unfold coversAll at hcov
  rw [List.all_eq_true] at hcov
  have hci := hcov i (List.mem_range.mpr hi)
  have : i ∈ order.map (·.1) := by simpa using hci
  obtain ⟨p, hp, hpi⟩ := List.mem_map.mp this
  have hbx : (codes.map decodeOp)[p.1]? = some b := by
    rw [hpi, List.getElem?_eq_getElem hi, hbi]
  unfold treeOk at htree
  match order, htree, hp with
  | (idx, par, gi) :: rest, htree, hp =>
    simp only [Bool.and_eq_true, beq_iff_eq] at htree
    obtain ⟨hid, hgo⟩ := htree
    have hidmem : idOp ∈ codes.map decodeOp := List.mem_of_getElem? hid
    have hidabs : Absorbs (codes.map decodeOp) idOp := by
      intro a ha; rw [compose_id a (hwf a ha)]; exact ha
    rcases List.mem_cons.mp hp with rfl | hp
    · simp only at hbx
      rw [hid] at hbx
      injection hbx with hbx; subst hbx
      exact hidabs a ha
    · exact treeGo_absorbs codes gens hwf hgwf hr rest [idOp] hgo
        (by intro y hy; simp only [List.mem_singleton] at hy; subst hy; exact ⟨hwf _ hidmem, hidabs⟩)
        p hp b hbx a ha

/-! ### inverses from the certificate -/

theorem exists_zip_of_mem {α β} (l : List α) (m : List β) (h : m.length = l.length) (a : α) (ha : a ∈ l) :
    ∃ b, (a, b) ∈ l.zip m := by
  induction l generalizing m with
  | nil => cases ha
  | cons x xs ih =>
    cases m with
    | nil => simp at h
    | cons y ys =>
      rcases List.mem_cons.mp ha with rfl | ha
      · exact ⟨y, by simp⟩
      · obtain ⟨b, hb⟩ := ih ys (by simpa using h) ha
        exact ⟨b, by simp [hb]⟩

theorem inverses_of_cert (ops : List AOp) (inv : List Nat) (h : inversesOk ops inv = true) :
    ∀ g ∈ ops, ∃ k ∈ ops, compose g k = idOp ∧ compose k g = idOp := by
  intro g hg
  unfold inversesOk at h
  simp only [Bool.and_eq_true, beq_iff_eq] at h
  obtain ⟨hl, hall⟩ := h
  obtain ⟨j, hj⟩ := exists_zip_of_mem ops inv hl g hg
  rw [List.all_eq_true] at hall
  have := hall (g, j) hj
  simp only at this
  split at this
  · rename_i k hk
    simp only [Bool.and_eq_true, beq_iff_eq] at this
    exact ⟨k, List.mem_of_getElem? hk, this.1, this.2⟩
  · cases this

/-! ### sorted code lists -/

theorem isSortedStrict_pairwise : ∀ (l : List Nat), isSortedStrict l = true → l.Pairwise (· < ·)
  | [], _ => List.Pairwise.nil
  | [x], _ => by simp
  | x :: y :: rest, h => by
    simp only [isSortedStrict, Bool.and_eq_true, decide_eq_true_eq] at h
    have ih := isSortedStrict_pairwise (y :: rest) h.2
    refine List.Pairwise.cons ?_ ih
    intro z hz
    rcases List.mem_cons.mp hz with rfl | hz
    · exact h.1
    · exact Nat.lt_trans h.1 ((List.pairwise_cons.mp ih).1 z hz)

theorem nodup_of_sortedStrict (l : List Nat) (h : isSortedStrict l = true) : l.Nodup :=
  (isSortedStrict_pairwise l h).imp (fun h => Nat.ne_of_lt h)

theorem insertSorted_of_le_all (x : Nat) (l : List Nat) (h : ∀ y ∈ l, x < y) : insertSorted x l = x :: l := by
  cases l with
  | nil => rfl
  | cons y ys =>
    have := h y (by simp)
    simp [insertSorted, Nat.le_of_lt this]

/-- sorting an already strictly sorted list changes nothing (so a full, tabulated list is its own key) -/
theorem sortCodes_of_sorted : ∀ (l : List Nat), isSortedStrict l = true → sortCodes l = l
  | [], _ => rfl
  | x :: rest, h => by
    have hp := isSortedStrict_pairwise (x :: rest) h
    have hrest : isSortedStrict rest = true := by
      cases rest with
      | nil => rfl
      | cons y ys => simp only [isSortedStrict, Bool.and_eq_true] at h; exact h.2
    unfold sortCodes
    rw [List.foldr_cons]
    have := sortCodes_of_sorted rest hrest
    unfold sortCodes at this
    rw [this]
    exact insertSorted_of_le_all x rest (List.pairwise_cons.mp hp).1

/-! ### lookups -/

theorem lookupSymops_of_mem (tbl : List Entry) (e : Entry) (h : e ∈ tbl) :
    ∃ e', lookupSymops tbl e.symops = some e' ∧ e' ∈ tbl ∧ e'.symops = e.symops := by
  unfold lookupSymops
  have hs : (tbl.reverse.find? fun x => x.symops == e.symops).isSome := by
    rw [List.find?_isSome]
    exact ⟨e, List.mem_reverse.mpr h, by simp⟩
  obtain ⟨e', he'⟩ := Option.isSome_iff_exists.mp hs
  refine ⟨e', he', List.mem_reverse.mp (List.mem_of_find?_eq_some he'), ?_⟩
  have := List.find?_some he'
  simpa using this

end ChmpyVerif.SG
