/- helper lemmas for C16 (and C10/C15): decimal text of numbers, fixed-width fields -/
import ChmpyVerif.Model.MolIO
import ChmpyVerif.Lemmas.Element
import ChmpyVerif.Lemmas.SymOp
import Mathlib.Tactic.FieldSimp
import Mathlib.Tactic.Positivity

namespace ChmpyVerif.MolIO
open ChmpyVerif.PyStr ChmpyVerif.SymOp
set_option linter.unusedSimpArgs false

/-! ### decimal digits -/

theorem natStr_length_pos (n : Nat) : 0 < (natStr n).length := by
  simp [natStr, Nat.length_toDigits_pos]

theorem natStr_length_le (n k : Nat) (hk : 0 < k) (h : n < 10 ^ k) : (natStr n).length ≤ k := by
  simp only [natStr, List.length_map]
  exact (Nat.length_toDigits_le_iff (by decide) hk).mpr h

theorem natStr_digits (n : Nat) : (natStr n).all isDigitA = true := by
  rw [List.all_eq_true]
  intro c hc
  simp only [natStr, List.mem_map] at hc
  obtain ⟨ch, hch, rfl⟩ := hc
  have := Nat.isDigit_of_mem_toDigits (by decide) (by decide) hch
  rw [Char.isDigit_iff_toNat] at this
  simp only [isDigitA, Bool.and_eq_true, decide_eq_true_eq]
  exact this

theorem digitsToNat_map (l : List Char) : digitsToNat (l.map Char.toNat) = Nat.ofDigitChars 10 l 0 := by
  unfold digitsToNat Nat.ofDigitChars
  rw [List.foldl_map]
  rfl

theorem digitsToNat_natStr (n : Nat) : digitsToNat (natStr n) = n := by
  rw [natStr, digitsToNat_map, Nat.ofDigitChars_ten_toDigits]

theorem digit_not_space' (c : Nat) (h : isDigitA c = true) : pyIsSpace c = false :=
  ChmpyVerif.Element.digit_not_space c h

/-! ### integers in fixed-width fields -/

theorem padLeft_length (w : Nat) (s : List Ch) (h : s.length ≤ w) : (padLeft w s).length = w := by
  simp [padLeft]; omega

/-- `format(n, "wd")` is exactly `w` characters wide whenever `0 ≤ n < 10^w` -/
theorem fmtInt_width' (w : Nat) (n : Int) (hw : 0 < w) (h0 : 0 ≤ n) (h : n.natAbs < 10 ^ w) :
    (fmtInt 0 w n).length = w := by
  unfold fmtInt
  have : ¬ n < 0 := by omega
  simp only [this, if_false, show ¬ (0 : Nat) = 1 by decide, List.nil_append]
  exact padLeft_length w _ (natStr_length_le _ w hw h)

theorem strip_padLeft_digits (w : Nat) (s : List Ch) (hne : s ≠ []) (hd : s.all isDigitA = true) :
    strip (padLeft w s) = s := by
  unfold padLeft
  have h := ChmpyVerif.Element.strip_pad s (List.replicate (w - s.length) 32) [] (by simp [pyIsSpace]) rfl hne
    (by cases s with
        | nil => exact absurd rfl hne
        | cons a t =>
          simp only [List.all_cons, Bool.and_eq_true] at hd
          simp [digit_not_space' a hd.1])
    (by
      cases hl : s.getLast? with
      | none => simp
      | some c =>
        have hc : c ∈ s := List.mem_of_getLast? hl
        simp [digit_not_space' c ((List.all_eq_true.mp hd) c hc)])
  simpa using h

/-- `int(format(n, "wd")) = n` for every `n ≥ 0` -/
theorem parseInt_fmtInt' (w : Nat) (n : Int) (h0 : 0 ≤ n) : parseInt (fmtInt 0 w n) = some n := by
  unfold fmtInt parseInt
  have hneg : ¬ n < 0 := by omega
  simp only [hneg, if_false, show ¬ (0 : Nat) = 1 by decide, List.nil_append]
  have hne : natStr n.natAbs ≠ [] := List.ne_nil_of_length_pos (natStr_length_pos _)
  rw [strip_padLeft_digits w _ hne (natStr_digits _)]
  obtain ⟨c, rest, hcr⟩ := List.exists_cons_of_ne_nil hne
  have hcd : isDigitA c = true := by
    have := natStr_digits n.natAbs
    rw [hcr] at this
    simp only [List.all_cons, Bool.and_eq_true] at this
    exact this.1
  have hc45 : c ≠ 45 := by
    intro e; subst e; simp [isDigitA] at hcd
  have hc43 : c ≠ 43 := by
    intro e; subst e; simp [isDigitA] at hcd
  rw [hcr]
  simp only [hc45, hc43, if_false]
  have hds : isDigitStr (c :: rest) = true := by
    rw [← hcr]; simp [isDigitStr, natStr_digits, hne]
  simp only [hds, if_true, Bool.false_eq_true, if_false]
  rw [← hcr, digitsToNat_natStr]
  congr 1
  omega

/-! ### slicing a line made of fixed-width pieces -/

/-- the reader's cumulative slicing returns exactly the pieces the writer concatenated, provided every
piece has its field's width (this is what a stray blank between fields destroys) -/
theorem sliceFields_pieces : ∀ (fs : List RField) (ps : List (List Ch)) (tail : List Ch),
    fs.length = ps.length → (∀ f ∈ fs, 0 < f.width) →
    (∀ fp ∈ fs.zip ps, fp.2.length = fp.1.width) →
    sliceFields fs (ps.flatten ++ tail) = ((fs.zip ps).filter (·.1.parsed)).map fun fp => (fp.1.name, fp.2)
  | [], [], _, _, _, _ => by simp [sliceFields]
  | [], _ :: _, _, h, _, _ => by simp at h
  | _ :: _, [], _, h, _, _ => by simp at h
  | f :: fs, p :: ps, tail, hl, hw, hp => by
    have hf : 0 < f.width := hw f (by simp)
    have hpl : p.length = f.width := hp (f, p) (by simp)
    have ih := sliceFields_pieces fs ps tail (by simpa using hl) (fun g hg => hw g (by simp [hg]))
      (fun fp hfp => hp fp (by simp [hfp]))
    have hne : ¬ f.width = 0 := by omega
    simp only [sliceFields, hne, if_false, List.flatten_cons, List.append_assoc]
    have hdrop : (p ++ (ps.flatten ++ tail)).drop f.width = ps.flatten ++ tail := by
      rw [← hpl]; simp
    have htake : (p ++ (ps.flatten ++ tail)).take f.width = p := by
      rw [← hpl]; simp
    rw [hdrop, htake, ih]
    by_cases hpar : f.parsed = true
    · simp [hpar, List.zip_cons_cons, List.filter_cons]
    · simp [hpar, List.zip_cons_cons, List.filter_cons]

/-! ### rounding error of the fixed-point format -/

theorem roundHalfEven_error (q : Rat) : |((roundHalfEven q : Int) : Rat) - q| ≤ 1 / 2 := by
  unfold roundHalfEven
  have h1 := Rat.floor_le q
  have h2 := Rat.lt_floor_add_one q
  push_cast at h2
  simp only
  split
  · rename_i h; rw [abs_le]; constructor <;> linarith
  · split
    · rename_i _ h; push_cast; rw [abs_le]; constructor <;> linarith
    · rename_i h3 h4
      have : q - (q.floor : Rat) = 1 / 2 := le_antisymm (not_lt.mp h4) (not_lt.mp h3)
      split <;> (push_cast; rw [abs_le]; constructor <;> linarith)


/-! ### the fixed-point format -/

theorem takeWhile_digits_append (a : List Ch) (c : Ch) (rest : List Ch) (ha : a.all isDigitA = true)
    (hc : isDigitA c = false) : (a ++ c :: rest).takeWhile isDigitA = a ∧ (a ++ c :: rest).dropWhile isDigitA = c :: rest := by
  induction a with
  | nil => simp [List.takeWhile_cons, List.dropWhile_cons, hc]
  | cons x xs ih =>
    simp only [List.all_cons, Bool.and_eq_true] at ha
    obtain ⟨i1, i2⟩ := ih ha.2
    simp [List.takeWhile_cons, List.dropWhile_cons, ha.1, i1, i2]

theorem takeWhile_digits_append' {α} (p : α → Bool) (a : List α) (c : α) (rest : List α) (ha : a.all p = true)
    (hc : p c = false) : (a ++ c :: rest).takeWhile p = a ∧ (a ++ c :: rest).dropWhile p = c :: rest := by
  induction a with
  | nil => simp [List.takeWhile_cons, List.dropWhile_cons, hc]
  | cons x xs ih =>
    simp only [List.all_cons, Bool.and_eq_true] at ha
    obtain ⟨i1, i2⟩ := ih ha.2
    simp [List.takeWhile_cons, List.dropWhile_cons, ha.1, i1, i2]

theorem digitsToNat_zeros (k : Nat) (s : List Ch) : digitsToNat (List.replicate k 48 ++ s) = digitsToNat s := by
  unfold digitsToNat
  rw [List.foldl_append]
  congr 1
  induction k with
  | zero => rfl
  | succ k ih => simp [List.replicate_succ, ih]

theorem zeroPad_spec (p n : Nat) (h : n < 10 ^ p) (hp : 0 < p) :
    (zeroPad p (natStr n)).length = p ∧ (zeroPad p (natStr n)).all isDigitA = true ∧
    digitsToNat (zeroPad p (natStr n)) = n := by
  have hl := natStr_length_le n p hp h
  refine ⟨by simp [zeroPad]; omega, ?_, by rw [zeroPad, digitsToNat_zeros, digitsToNat_natStr]⟩
  simp only [zeroPad, List.all_append, List.all_replicate, natStr_digits, Bool.and_true]
  simp [isDigitA]

theorem round_sign (q : Rat) : (q < 0 → roundHalfEven q ≤ 0) ∧ (0 ≤ q → 0 ≤ roundHalfEven q) := by
  have h := abs_le.mp (roundHalfEven_error q)
  constructor
  · intro hq
    by_contra hc
    have : (1 : Int) ≤ roundHalfEven q := by omega
    have : (1 : Rat) ≤ (roundHalfEven q : Rat) := by exact_mod_cast this
    linarith
  · intro hq
    by_contra hc
    have : roundHalfEven q ≤ -1 := by omega
    have : (roundHalfEven q : Rat) ≤ -1 := by exact_mod_cast this
    linarith

/-- the text of the fixed-point format without its padding -/
def fixedCore (p : Nat) (x : Rat) : List Ch :=
  (if (fixedParts p x).1 then [45] else []) ++
    (natStr (fixedParts p x).2.1 ++ 46 :: zeroPad p (natStr (fixedParts p x).2.2))

theorem fmtFixed_eq (w p : Nat) (x : Rat) (hp : 0 < p) : fmtFixed 0 w p x = padLeft w (fixedCore p x) := by
  unfold fmtFixed fixedCore
  have hp' : ¬ p = 0 := by omega
  simp only [show ¬ (0 : Nat) = 1 by decide, if_false, hp']

theorem fixedCore_length (p d : Nat) (x : Rat) (hp : 0 < p) (hd : 0 < d) (hfit : (fixedParts p x).2.1 < 10 ^ d) :
    (fixedCore p x).length ≤ d + p + 2 := by
  unfold fixedCore
  have hfp : (fixedParts p x).2.2 < 10 ^ p := by
    simp only [fixedParts]; exact Nat.mod_lt _ (Nat.pow_pos (by decide))
  obtain ⟨z1, _, _⟩ := zeroPad_spec p _ hfp hp
  have hip := natStr_length_le _ d hd hfit
  simp only [List.length_append, List.length_cons, z1]
  split <;> simp <;> omega

/-- `format(x, "w.pf")` is exactly `w` characters wide when the integer part has at most `d` digits and
`d + p + 2 ≤ w` (sign, digits, point, decimals) -/
theorem fmtFixed_width' (w p d : Nat) (x : Rat) (hp : 0 < p) (hd : 0 < d) (hfit : (fixedParts p x).2.1 < 10 ^ d)
    (hw : d + p + 2 ≤ w) : (fmtFixed 0 w p x).length = w := by
  rw [fmtFixed_eq w p x hp]
  exact padLeft_length w _ (Nat.le_trans (fixedCore_length p d x hp hd hfit) hw)


theorem parseDecimal_body (neg : Bool) (a b : List Ch) (ha : a ≠ []) (had : a.all isDigitA = true)
    (hbd : b.all isDigitA = true) :
    parseDecimal ((if neg then [45] else []) ++ (a ++ 46 :: b)) =
      some (if neg then -((digitsToNat a : Rat) + (digitsToNat b : Rat) / (10 : Rat) ^ b.length)
            else (digitsToNat a : Rat) + (digitsToNat b : Rat) / (10 : Rat) ^ b.length) := by
  obtain ⟨c, rest, rfl⟩ := List.exists_cons_of_ne_nil ha
  have hcd : isDigitA c = true := by
    simp only [List.all_cons, Bool.and_eq_true] at had; exact had.1
  have hc45 : c ≠ 45 := by intro e; subst e; simp [isDigitA] at hcd
  have hc43 : c ≠ 43 := by intro e; subst e; simp [isDigitA] at hcd
  have hdot : isDigitA 46 = false := by decide
  obtain ⟨t1, t2⟩ := takeWhile_digits_append (c :: rest) 46 b had hdot
  cases neg with
  | true =>
    simp only [if_true, List.singleton_append, parseDecimal, cMinus, cPlus, cDot]
    simp only [t1, t2, hbd, Bool.and_true, List.isEmpty_cons, Bool.false_and, Bool.not_false, if_true,
      Option.map_some, beq_self_eq_true, decide_true]
  | false =>
    simp only [Bool.false_eq_true, if_false, List.nil_append, parseDecimal, cMinus, cPlus, cDot]
    simp only [List.cons_append, hc45, hc43, if_false]
    have t1' : (c :: (rest ++ 46 :: b)).takeWhile isDigitA = c :: rest := by simpa using t1
    have t2' : (c :: (rest ++ 46 :: b)).dropWhile isDigitA = 46 :: b := by simpa using t2
    simp only [t1', t2', hbd, Bool.and_true, List.isEmpty_cons, Bool.false_and, Bool.not_false, if_true,
      Option.map_some, beq_self_eq_true, decide_true]
    simp

theorem strip_padLeft (w : Nat) (s : List Ch) (hne : s ≠ [])
    (hh : s.head?.all (fun c => !pyIsSpace c) = true) (ht : s.getLast?.all (fun c => !pyIsSpace c) = true) :
    strip (padLeft w s) = s := by
  unfold padLeft
  have h := ChmpyVerif.Element.strip_pad s (List.replicate (w - s.length) 32) [] (by simp [pyIsSpace]) rfl hne hh ht
  simpa using h

/-- `float(format(x, "w.pf"))` is the correctly rounded value `round(x·10^p)/10^p` -/
theorem parseFloat_fmtFixed' (w p : Nat) (x : Rat) (hp : 0 < p) :
    parseFloat (fmtFixed 0 w p x) = some (((roundHalfEven (x * (10 : Rat) ^ p) : Int) : Rat) / (10 : Rat) ^ p) := by
  rw [fmtFixed_eq w p x hp]
  unfold parseFloat
  set k := roundHalfEven (x * (10 : Rat) ^ p) with hk
  have hfp : (fixedParts p x).2.2 < 10 ^ p := by
    simp only [fixedParts]; exact Nat.mod_lt _ (Nat.pow_pos (by decide))
  obtain ⟨z1, z2, z3⟩ := zeroPad_spec p _ hfp hp
  have hipne : natStr (fixedParts p x).2.1 ≠ [] := List.ne_nil_of_length_pos (natStr_length_pos _)
  -- the core has no blanks at either end
  have hcore_ne : fixedCore p x ≠ [] := by
    unfold fixedCore; split <;> simp
  have hhead : (fixedCore p x).head?.all (fun c => !pyIsSpace c) = true := by
    unfold fixedCore
    obtain ⟨c, rest, hcr⟩ := List.exists_cons_of_ne_nil hipne
    have hcd : isDigitA c = true := by
      have := natStr_digits (fixedParts p x).2.1
      rw [hcr] at this; simp only [List.all_cons, Bool.and_eq_true] at this; exact this.1
    split
    · simp [pyIsSpace]
    · rw [hcr]; simp [digit_not_space' c hcd]
  have hlast : (fixedCore p x).getLast?.all (fun c => !pyIsSpace c) = true := by
    unfold fixedCore
    have hzne : zeroPad p (natStr (fixedParts p x).2.2) ≠ [] := by
      apply List.ne_nil_of_length_pos; rw [z1]; exact hp
    have : ((if (fixedParts p x).1 then [45] else []) ++
        (natStr (fixedParts p x).2.1 ++ 46 :: zeroPad p (natStr (fixedParts p x).2.2))).getLast?
        = (zeroPad p (natStr (fixedParts p x).2.2)).getLast? := by
      rw [List.getLast?_append, List.getLast?_append, List.getLast?_cons_of_ne_nil hzne]  -- last of the decimals
      cases h : (zeroPad p (natStr (fixedParts p x).2.2)).getLast? with
      | none => exact absurd (List.getLast?_eq_none_iff.mp h) hzne
      | some c => simp
    rw [this]
    cases h : (zeroPad p (natStr (fixedParts p x).2.2)).getLast? with
    | none => simp
    | some c =>
      have hc : c ∈ zeroPad p (natStr (fixedParts p x).2.2) := List.mem_of_getLast? h
      simp [digit_not_space' c ((List.all_eq_true.mp z2) c hc)]
  rw [strip_padLeft w _ hcore_ne hhead hlast]
  unfold fixedCore
  rw [parseDecimal_body _ _ _ hipne (natStr_digits _) z2, digitsToNat_natStr, z3, z1]
  -- arithmetic: ip + fp / 10^p = |k| / 10^p, with the sign of x
  have hsplit : ((k.natAbs / 10 ^ p : Nat) : Rat) + ((k.natAbs % 10 ^ p : Nat) : Rat) / (10 : Rat) ^ p
      = (k.natAbs : Rat) / (10 : Rat) ^ p := by
    have h10 : ((10 : Rat) ^ p) ≠ 0 := pow_ne_zero _ (by norm_num)
    have := Nat.div_add_mod k.natAbs (10 ^ p)
    have hc : ((10 ^ p * (k.natAbs / 10 ^ p) + k.natAbs % 10 ^ p : Nat) : Rat) = (k.natAbs : Rat) := by rw [this]
    push_cast at hc
    field_simp
    linarith
  have hpos : (0 : Rat) < (10 : Rat) ^ p := by positivity
  obtain ⟨s1, s2⟩ := round_sign (x * (10 : Rat) ^ p)
  simp only [fixedParts, ← hk]
  congr 1
  by_cases hx : x < 0
  · have hkle : k ≤ 0 := s1 (mul_neg_of_neg_of_pos hx hpos)
    simp only [hx, decide_true, if_true]
    rw [hsplit]
    have : (k.natAbs : Rat) = -(k : Rat) := by
      have e : (k.natAbs : Int) = -k := by omega
      have e2 : ((k.natAbs : Int) : Rat) = ((-k : Int) : Rat) := by rw [e]
      simpa using e2
    rw [this]; ring
  · have hkge : 0 ≤ k := s2 (mul_nonneg (not_lt.mp hx) hpos.le)
    simp only [hx, decide_false, Bool.false_eq_true, if_false]
    rw [hsplit]
    have : (k.natAbs : Rat) = (k : Rat) := by
      have e : (k.natAbs : Int) = k := by omega
      have e2 : ((k.natAbs : Int) : Rat) = ((k : Int) : Rat) := by rw [e]
      simpa using e2
    rw [this]


/-- the same with the space flag (`{x: 20.12f}`): a blank takes the place of the sign and is stripped by `float()` -/
theorem parseFloat_fmtFixed_space (w p : Nat) (x : Rat) (hp : 0 < p) :
    parseFloat (fmtFixed 1 w p x) = some (((roundHalfEven (x * (10 : Rat) ^ p) : Int) : Rat) / (10 : Rat) ^ p) := by
  rw [← parseFloat_fmtFixed' w p x hp]
  unfold parseFloat
  congr 1
  -- both strip to the same core
  have hp' : ¬ p = 0 := by omega
  by_cases hneg : (fixedParts p x).1 = true
  · unfold fmtFixed
    simp only [hneg, if_true]
  · have hneg' : (fixedParts p x).1 = false := by simpa using hneg
    unfold fmtFixed
    simp only [hneg', Bool.false_eq_true, if_false, if_true, show ¬ (0 : Nat) = 1 by decide, hp', List.nil_append]
    set body := natStr (fixedParts p x).2.1 ++ 46 :: zeroPad p (natStr (fixedParts p x).2.2) with hb
    have hfp : (fixedParts p x).2.2 < 10 ^ p := by
      simp only [fixedParts]; exact Nat.mod_lt _ (Nat.pow_pos (by decide))
    obtain ⟨z1, z2, _⟩ := zeroPad_spec p _ hfp hp
    have hipne : natStr (fixedParts p x).2.1 ≠ [] := List.ne_nil_of_length_pos (natStr_length_pos _)
    have hbne : body ≠ [] := by rw [hb]; simp
    have hhead : body.head?.all (fun c => !pyIsSpace c) = true := by
      obtain ⟨c, rest, hcr⟩ := List.exists_cons_of_ne_nil hipne
      have hcd : isDigitA c = true := by
        have := natStr_digits (fixedParts p x).2.1
        rw [hcr] at this; simp only [List.all_cons, Bool.and_eq_true] at this; exact this.1
      rw [hb, hcr]; simp [digit_not_space' c hcd]
    have hlast : body.getLast?.all (fun c => !pyIsSpace c) = true := by
      have hzne : zeroPad p (natStr (fixedParts p x).2.2) ≠ [] := by
        apply List.ne_nil_of_length_pos; rw [z1]; exact hp
      have : body.getLast? = (zeroPad p (natStr (fixedParts p x).2.2)).getLast? := by
        rw [hb, List.getLast?_append, List.getLast?_cons_of_ne_nil hzne]
        cases h : (zeroPad p (natStr (fixedParts p x).2.2)).getLast? with
        | none => exact absurd (List.getLast?_eq_none_iff.mp h) hzne
        | some c => simp
      rw [this]
      cases h : (zeroPad p (natStr (fixedParts p x).2.2)).getLast? with
      | none => simp
      | some c =>
        have hc : c ∈ zeroPad p (natStr (fixedParts p x).2.2) := List.mem_of_getLast? h
        simp [digit_not_space' c ((List.all_eq_true.mp z2) c hc)]
    rw [strip_padLeft w body hbne hhead hlast]
    unfold padLeft
    have := ChmpyVerif.Element.strip_pad body (List.replicate (w - ([32] ++ body).length) 32 ++ [32]) []
      (by simp [pyIsSpace]) rfl hbne hhead hlast
    simpa using this

end ChmpyVerif.MolIO
