/- helper lemmas for C17 (core Lean only) -/
import ChmpyVerif.Model.Element

namespace ChmpyVerif.Element
set_option linter.unusedSimpArgs false

/-! ### from_atomic_number -/

theorem fromAtomicNumber_ok (tbl : List Row) (n : Int) (h1 : 1 ≤ n) (h2 : n ≤ tbl.length) :
    ∃ r, tbl[(n - 1).toNat]? = some r ∧ fromAtomicNumber tbl n = .ok ⟨n, r⟩ := by
  have hlt : (n - 1).toNat < tbl.length := by omega
  refine ⟨tbl[(n - 1).toNat], by simp, ?_⟩
  unfold fromAtomicNumber
  simp only [h1, h2, and_self, if_true]
  rw [List.getElem?_eq_getElem hlt]

theorem fromAtomicNumber_err (tbl : List Row) (n : Int) (h : n < 1 ∨ (tbl.length : Int) < n) :
    fromAtomicNumber tbl n = .error .valueError := by
  unfold fromAtomicNumber
  have : ¬ (1 ≤ n ∧ n ≤ tbl.length) := by omega
  simp [this]

/-! ### the enumerated table -/

theorem enumerate_z_range (tbl : List Row) (e : Elem) (h : e ∈ enumerate tbl) :
    1 ≤ e.z ∧ e.z ≤ tbl.length := by
  unfold enumerate at h
  simp only [List.mem_map] at h
  obtain ⟨p, hp, rfl⟩ := h
  have := List.mem_zipIdx hp
  simp only
  omega

theorem findSym_mem (tbl : List Row) (s : List Ch) (e : Elem) (h : findSym tbl s = some e) :
    e ∈ enumerate tbl := by
  unfold findSym at h
  have := List.mem_of_find?_eq_some h
  simpa using this

theorem findName_mem (tbl : List Row) (s : List Ch) (e : Elem) (h : findName tbl s = some e) :
    e ∈ enumerate tbl := by
  unfold findName at h
  have := List.mem_of_find?_eq_some h
  simpa using this

theorem fromAtomicNumber_mem (tbl : List Row) (n : Int) (e : Elem) (h : fromAtomicNumber tbl n = .ok e) :
    e ∈ enumerate tbl := by
  unfold fromAtomicNumber at h
  split at h
  · rename_i hr
    split at h
    · rename_i r hr'
      injection h with h
      subst h
      unfold enumerate
      simp only [List.mem_map]
      refine ⟨(r, (n - 1).toNat + 1), ?_, ?_⟩
      · rw [List.mem_zipIdx_iff_le_and_getElem?_sub]
        refine ⟨by simp, ?_⟩
        simpa using hr'
      · simp; omega
    · cases h
  · cases h

theorem fromLabel_sound (tbl : List Row) (s : List Ch) (e : Elem) (h : fromLabel tbl s = .ok e) :
    e ∈ enumerate tbl := by
  unfold fromLabel at h
  split at h
  · cases h
  · split at h
    · rename_i e' he'
      injection h with h; subst h
      exact findSym_mem _ _ _ he'
    · cases h

theorem fromString_sound (tbl : List Row) (s : List Ch) (e : Elem) (h : fromString tbl s = .ok e) :
    e ∈ enumerate tbl := by
  unfold fromString at h
  simp only at h
  split at h
  · exact fromAtomicNumber_mem _ _ _ h
  · split at h
    · rename_i e' he'
      injection h with h; subst h
      exact findSym_mem _ _ _ he'
    · split at h
      · rename_i e' he'
        injection h with h; subst h
        exact findName_mem _ _ _ he'
      · exact fromLabel_sound _ _ _ h


/-! ### vectorised helpers -/

theorem inRange_false (zs : List Int) (z : Int) (hz : z ∈ zs) (hbad : z < 1 ∨ 103 < z) :
    inRange zs = false := by
  unfold inRange
  rw [Bool.eq_false_iff]
  intro h
  rw [List.all_eq_true] at h
  have := h z hz
  simp at this
  omega

theorem vector_reject (tbl : List Row) (zs : List Int) (z : Int) (hz : z ∈ zs) (hbad : z < 1 ∨ 103 < z) :
    covRadii tbl zs = .error .valueError ∧ vdwRadii tbl zs = .error .valueError ∧
    elementSymbols tbl zs = .error .valueError ∧ elementNames tbl zs = .error .valueError := by
  have h := inRange_false zs z hz hbad
  simp [covRadii, vdwRadii, elementSymbols, elementNames, h]

theorem filterMap_length_of_all {α β} (f : α → Option β) (l : List α) (h : ∀ a ∈ l, (f a).isSome) :
    (l.filterMap f).length = l.length := by
  induction l with
  | nil => rfl
  | cons a l ih =>
    have ha := h a (by simp)
    obtain ⟨b, hb⟩ := Option.isSome_iff_exists.mp ha
    rw [List.filterMap_cons_some hb]
    simp [ih (fun x hx => h x (by simp [hx]))]

theorem vector_total (tbl : List Row) (zs : List Int) (hlen : tbl.length = 103)
    (h : ∀ z ∈ zs, 1 ≤ z ∧ z ≤ 103) : ∃ l, covRadii tbl zs = .ok l ∧ l.length = zs.length := by
  have hr : inRange zs = true := by
    unfold inRange
    rw [List.all_eq_true]
    intro z hz
    have := h z hz
    simp; omega
  refine ⟨_, by simp only [covRadii, hr, if_true]; rfl, ?_⟩
  apply filterMap_length_of_all
  intro z hz
  have := h z hz
  have hlt : (z - 1).toNat < tbl.length := by omega
  rw [List.getElem?_eq_getElem hlt]; rfl

/-! ### strip -/

theorem dropWhile_all_append {α} (p : α → Bool) (l m : List α) (h : l.all p = true) :
    (l ++ m).dropWhile p = m.dropWhile p := by
  induction l with
  | nil => rfl
  | cons a l ih =>
    simp only [List.all_cons, Bool.and_eq_true] at h
    simp [List.dropWhile_cons, h.1, ih h.2]

theorem dropWhile_head_not {α} (p : α → Bool) (m : List α) (h : m.head?.all (fun c => !p c) = true) :
    m.dropWhile p = m := by
  cases m with
  | nil => rfl
  | cons a m =>
    simp at h
    simp [List.dropWhile_cons, h]

theorem strip_left (l x : List Ch) (hl : l.all pyIsSpace = true) : strip (l ++ x) = strip x := by
  unfold strip; rw [dropWhile_all_append _ _ _ hl]

theorem strip_pad (s l r : List Ch) (hl : l.all pyIsSpace = true) (hr : r.all pyIsSpace = true)
    (hne : s ≠ [])
    (hh : s.head?.all (fun c => !pyIsSpace c) = true) (ht : s.getLast?.all (fun c => !pyIsSpace c) = true) :
    strip (l ++ s ++ r) = s := by
  unfold strip
  rw [List.append_assoc, dropWhile_all_append _ _ _ hl]
  have h1 : (s ++ r).dropWhile pyIsSpace = s ++ r := by
    apply dropWhile_head_not
    cases s with
    | nil => exact absurd rfl hne
    | cons a s => simpa using hh
  rw [h1, List.reverse_append, dropWhile_all_append _ _ _ (by simpa using hr)]
  rw [dropWhile_head_not _ _ (by rw [List.head?_reverse]; exact ht), List.reverse_reverse]


/-! ### padding -/

theorem fromString_of_direct (tbl : List Row) (s : List Ch) (e : Elem)
    (h : fromStringDirect tbl s = some e) : fromString tbl s = .ok e := by
  unfold fromStringDirect at h
  unfold fromString
  simp only at h ⊢
  by_cases hd : isDigitStr (lookupKey s) = true
  · simp only [hd, if_true] at h ⊢
    cases hf : fromAtomicNumber tbl ↑(digitsToNat (lookupKey s)) with
    | ok e' => rw [hf] at h; injection h with h; subst h; rfl
    | error _ => rw [hf] at h; cases h
  · simp only [hd] at h ⊢
    cases hf : findSym tbl (lookupKey s) with
    | some e' => rw [hf] at h; injection h with h; subst h; rfl
    | none =>
      rw [hf] at h
      simp only [Bool.false_eq_true, if_false] at h ⊢
      rw [h]

theorem direct_congr (tbl : List Row) (s t : List Ch) (h : strip s = strip t) :
    fromStringDirect tbl s = fromStringDirect tbl t := by
  unfold fromStringDirect lookupKey
  rw [h]

theorem fromString_pad (tbl : List Row) (s l r : List Ch) (e : Elem)
    (hl : l.all pyIsSpace = true) (hr : r.all pyIsSpace = true)
    (hs : s ≠ [] ∧ s.head?.all (fun c => !pyIsSpace c) = true ∧ s.getLast?.all (fun c => !pyIsSpace c) = true)
    (hdirect : fromStringDirect tbl s = some e) :
    fromString tbl (l ++ s ++ r) = .ok e := by
  apply fromString_of_direct
  rw [direct_congr tbl (l ++ s ++ r) s]
  · exact hdirect
  · rw [strip_pad s l r hl hr hs.1 hs.2.1 hs.2.2]
    have := strip_pad s [] [] rfl rfl hs.1 hs.2.1 hs.2.2
    simpa using this.symm

/-- `from_string` sees its argument only through `strip` -/
theorem fromString_congr_strip (tbl : List Row) (s s' : List Ch) (h : strip s = strip s') : fromString tbl s = fromString tbl s' := by
  unfold fromString lookupKey
  rw [h]

theorem fromString_left_pad (tbl : List Row) (l x : List Ch) (hl : l.all pyIsSpace = true) :
    fromString tbl (l ++ x) = fromString tbl x :=
  fromString_congr_strip tbl _ _ (strip_left l x hl)

/-! ### labels -/

theorem dropWhile_snoc_keep {α} (p : α → Bool) (y : List α) (a : α) (ha : p a = false) :
    ∃ m, (y ++ [a]).dropWhile p = m ++ [a] ∧ ∀ c ∈ y, p c = false → c ∈ m := by
  induction y with
  | nil => exact ⟨[], by simp [List.dropWhile_cons, ha], by simp⟩
  | cons b y ih =>
    obtain ⟨m, hm, hmem⟩ := ih
    by_cases hb : p b = true
    · refine ⟨m, by simp [List.dropWhile_cons, hb, hm], ?_⟩
      intro c hc hpc
      rcases List.mem_cons.mp hc with rfl | hc
      · rw [hb] at hpc; cases hpc
      · exact hmem c hc hpc
    · refine ⟨b :: y, by simp [List.dropWhile_cons, hb], ?_⟩
      intro c hc _; exact hc

theorem dropWhile_keep_from {α} (p : α → Bool) (u w : List α) (d : α) (hd : p d = false) :
    ∃ u', (u ++ d :: w).dropWhile p = u' ++ d :: w := by
  induction u with
  | nil => exact ⟨[], by simp [List.dropWhile_cons, hd]⟩
  | cons x u ih =>
    obtain ⟨u', hu'⟩ := ih
    by_cases hx : p x = true
    · exact ⟨u', by simp [List.dropWhile_cons, hx, hu']⟩
    · exact ⟨x :: u, by simp [List.dropWhile_cons, hx]⟩

/-- stripping keeps everything up to and including the last non-blank character it is told about -/
theorem strip_keep (p : List Ch) (d : Ch) (rest : List Ch) (hne : p ≠ [])
    (hh : p.head?.all (fun c => !pyIsSpace c) = true) (hd : pyIsSpace d = false) :
    ∃ rest', strip (p ++ d :: rest) = p ++ d :: rest' := by
  unfold strip
  have h1 : (p ++ d :: rest).dropWhile pyIsSpace = p ++ d :: rest := by
    apply dropWhile_head_not
    cases p with
    | nil => exact absurd rfl hne
    | cons a t => simpa using hh
  rw [h1, List.reverse_append, List.reverse_cons]
  obtain ⟨u', hu'⟩ := dropWhile_keep_from pyIsSpace rest.reverse p.reverse d hd
  rw [show rest.reverse ++ [d] ++ p.reverse = rest.reverse ++ d :: p.reverse by simp, hu']
  exact ⟨u'.reverse, by simp⟩

theorem strip_cons (a : Ch) (t : List Ch) (ha : pyIsSpace a = false) :
    ∃ m, strip (a :: t) = a :: m ∧ ∀ c ∈ t, pyIsSpace c = false → c ∈ m := by
  unfold strip
  have h1 : (a :: t).dropWhile pyIsSpace = a :: t := by simp [List.dropWhile_cons, ha]
  rw [h1, List.reverse_cons]
  obtain ⟨m, hm, hmem⟩ := dropWhile_snoc_keep pyIsSpace t.reverse a ha
  refine ⟨m.reverse, by rw [hm]; simp, ?_⟩
  intro c hc hpc
  exact List.mem_reverse.mpr (hmem c (List.mem_reverse.mpr hc) hpc)

theorem letter_not_space (c : Nat) (h : isLetterA c = true) : pyIsSpace c = false := by
  unfold isLetterA isUpperA isLowerA at h; unfold pyIsSpace; grind
theorem digit_not_space (c : Nat) (h : isDigitA c = true) : pyIsSpace c = false := by
  unfold isDigitA at h; unfold pyIsSpace; grind
theorem digit_not_letter (c : Nat) (h : isDigitA c = true) : isLetterA c = false := by
  unfold isDigitA at h; unfold isLetterA isUpperA isLowerA; grind
theorem digit_lower (c : Nat) (h : isDigitA c = true) : toLowerA c = c := by
  unfold isDigitA at h; unfold toLowerA isUpperA; grind
theorem upper_letter_not_digit (c : Nat) (h : isLetterA c = true) : isDigitA (toUpperA c) = false := by
  unfold isLetterA isUpperA isLowerA at h; unfold isDigitA toUpperA isLowerA; grind
theorem lower_letter (c : Nat) (h : isLetterA c = true) : isLetterA (toLowerA c) = true := by
  unfold isLetterA isUpperA isLowerA at h; unfold isLetterA isUpperA isLowerA toLowerA isUpperA; grind

theorem find?_none_of {α} (p : α → Bool) (l : List α) (h : ∀ x ∈ l, p x = false) : l.find? p = none := by
  rw [List.find?_eq_none]; intro x hx; simp [h x hx]

theorem mem_enumerate_row (tbl : List Row) (e : Elem) (h : e ∈ enumerate tbl) : e.row ∈ tbl := by
  unfold enumerate at h
  simp only [List.mem_map] at h
  obtain ⟨p, hp, rfl⟩ := h
  have := List.mem_zipIdx hp
  simp only
  rw [this.2.2]; exact List.getElem_mem _

theorem takeWhile_append_stop {α} (p : α → Bool) (v : List α) (d : α) (rest : List α)
    (hv : v.all p = true) (hd : p d = false) : (v ++ d :: rest).takeWhile p = v := by
  induction v with
  | nil => simp [List.takeWhile_cons, hd]
  | cons a v ih =>
    simp only [List.all_cons, Bool.and_eq_true] at hv
    simp [List.takeWhile_cons, hv.1, ih hv.2]

theorem strip_noSpace (v : List Ch) (hne : v ≠ []) (hv : v.all isLetterA = true) : strip v = v := by
  have h := strip_pad v [] [] rfl rfl hne
    (by cases v with
        | nil => exact absurd rfl hne
        | cons a v =>
          simp only [List.all_cons, Bool.and_eq_true] at hv
          simp [letter_not_space a hv.1])
    (by
      cases hl : v.getLast? with
      | none => simp
      | some c =>
        have hc : c ∈ v := List.mem_of_getLast? hl
        have := (List.all_eq_true.mp hv) c hc
        simp [letter_not_space c this])
  simpa using h

theorem fromString_label (tbl : List Row)
    (hsym : ∀ r ∈ tbl, r.symbol.all isLetterA = true) (hname : ∀ r ∈ tbl, r.name.all isLetterA = true)
    (e : Elem) (v : List Ch) (d : Ch) (rest : List Ch) (hd : isDigitA d = true)
    (hv : v ≠ [] ∧ v.all isLetterA = true ∧ findSym tbl (capitalize v) = some e) :
    fromString tbl (v ++ d :: rest) = .ok e := by
  obtain ⟨hne, hlet, hfind⟩ := hv
  obtain ⟨a, v', rfl⟩ := List.exists_cons_of_ne_nil hne
  have hla : isLetterA a = true := by simp only [List.all_cons, Bool.and_eq_true] at hlet; exact hlet.1
  obtain ⟨m, hm, hmem⟩ := strip_cons a (v' ++ d :: rest) (letter_not_space a hla)
  have hdm : d ∈ m := hmem d (by simp) (digit_not_space d hd)
  -- the key contains the digit `d` behind a letter
  have hkey0 : capitalize (strip (a :: v' ++ d :: rest)) = toUpperA a :: lower m := by
    rw [List.cons_append, hm]; rfl
  have hdl : d ∈ lower m := by
    have : toLowerA d ∈ lower m := List.mem_map.mpr ⟨d, hdm, rfl⟩
    rwa [digit_lower d hd] at this
  have hkey : lookupKey (a :: v' ++ d :: rest) = toUpperA a :: lower m := by
    unfold lookupKey
    simp only [hkey0]
    split
    · rename_i h
      injection h with _ h2
      rw [h2] at hdl; cases hdl
    · rfl
  have hnotdigit : isDigitStr (toUpperA a :: lower m) = false := by
    simp [isDigitStr, upper_letter_not_digit a hla]
  have hd_not_in : ∀ k : List Ch, k.all isLetterA = true → d ∉ k := by
    intro k hk hdk
    have := (List.all_eq_true.mp hk) d hdk
    rw [digit_not_letter d hd] at this; cases this
  have hfs : findSym tbl (toUpperA a :: lower m) = none := by
    unfold findSym
    apply find?_none_of
    intro x hx
    have hx' : x ∈ enumerate tbl := by simpa using hx
    have := hsym _ (mem_enumerate_row tbl x hx')
    simp only [decide_eq_false_iff_not]
    intro heq
    exact hd_not_in _ this (by rw [heq]; exact List.mem_cons_of_mem _ hdl)
  have hfn : findName tbl (lower (toUpperA a :: lower m)) = none := by
    unfold findName
    apply find?_none_of
    intro x hx
    have hx' : x ∈ enumerate tbl := by simpa using hx
    have := hname _ (mem_enumerate_row tbl x hx')
    simp only [decide_eq_false_iff_not]
    intro heq
    apply hd_not_in _ this
    rw [heq]
    have : toLowerA d ∈ lower (toUpperA a :: lower m) :=
      List.mem_map.mpr ⟨d, List.mem_cons_of_mem _ hdl, rfl⟩
    rwa [digit_lower d hd] at this
  unfold fromString
  simp only [hkey, hnotdigit, hfs, hfn]
  -- falls through to the label rule on the STRIPPED string, which still starts with the letters and the digit
  obtain ⟨rest', hst⟩ := strip_keep (a :: v') d rest (by simp) (by simp [letter_not_space a hla]) (digit_not_space d hd)
  unfold fromLabel letterPrefix
  rw [show a :: v' ++ d :: rest = (a :: v') ++ d :: rest from rfl, hst,
    takeWhile_append_stop isLetterA (a :: v') d rest' hlet (digit_not_letter d hd)]
  simp only [strip_noSpace (a :: v') hne hlet, hfind]
  rfl


/-! ### ordering and formulas -/

theorem elLe_trans (a b c : Int) (h1 : elLe a b = true) (h2 : elLe b c = true) : elLe a c = true := by
  unfold elLe elLt at *; grind
theorem elLe_total (a b : Int) : (elLe a b || elLe b a) = true := by
  unfold elLe elLt; grind
theorem elLt_of_le_ne (a b : Int) (h : elLe a b = true) (hne : a ≠ b) : elLt a b = true := by
  unfold elLe elLt at *; grind

theorem firstOcc_sublist (l : List Int) : (firstOcc l).Sublist l := by
  induction l with
  | nil => exact List.Sublist.slnil
  | cons x xs ih => exact List.Sublist.cons_cons x (List.filter_sublist.trans ih)

theorem mem_firstOcc (l : List Int) (x : Int) : x ∈ firstOcc l ↔ x ∈ l := by
  induction l with
  | nil => simp [firstOcc]
  | cons y ys ih =>
    simp only [firstOcc, List.mem_cons, List.mem_filter, ih]
    by_cases h : x = y <;> simp [h]

theorem firstOcc_nodup (l : List Int) : (firstOcc l).Nodup := by
  induction l with
  | nil => exact List.Pairwise.nil
  | cons x xs ih =>
    unfold firstOcc
    refine List.Pairwise.cons ?_ (ih.filter _)
    intro y hy
    have := (List.mem_filter.mp hy).2
    simp at this
    exact fun h => this h.symm

theorem sum_map_add {α} (f g : α → Nat) (D : List α) :
    (D.map fun d => f d + g d).sum = (D.map f).sum + (D.map g).sum := by
  induction D with
  | nil => rfl
  | cons d D ih => simp [ih]; omega

theorem sum_indicator (x : Int) (D : List Int) :
    (D.map fun d => if (x == d) = true then 1 else 0).sum = D.count x := by
  induction D with
  | nil => rfl
  | cons d D ih =>
    simp only [List.map_cons, List.sum_cons, ih, List.count_cons]
    by_cases h : x = d
    · subst h; simp; omega
    · have h' : ¬ d = x := fun e => h e.symm
      simp [h, h']

theorem sum_counts (l D : List Int) (hD : D.Nodup) (hl : ∀ x ∈ l, x ∈ D) :
    (D.map fun d => l.count d).sum = l.length := by
  induction l with
  | nil =>
    simp only [List.count_nil, List.length_nil]
    clear hD hl
    induction D with
    | nil => rfl
    | cons d D ih => simp [ih]
  | cons x xs ih =>
    have h1 : (D.map fun d => (x :: xs).count d) = D.map fun d => xs.count d + (if (x == d) = true then 1 else 0) := by
      apply List.map_congr_left; intro d _; exact List.count_cons
    rw [h1, sum_map_add, ih (fun y hy => hl y (List.mem_cons_of_mem _ hy)), sum_indicator]
    have : D.count x = 1 := by rw [hD.count]; simp [hl x (by simp)]
    simp [this]

theorem formula_fst (zs : List Int) : (formula zs).map Prod.fst = firstOcc (zs.mergeSort elLe) := by
  unfold formula counter
  simp [List.map_map, Function.comp_def]

theorem formula_pairwise (zs : List Int) :
    ((formula zs).map Prod.fst).Pairwise (fun a b => elLt a b = true) := by
  rw [formula_fst]
  have hs := List.pairwise_mergeSort (le := elLe) elLe_trans elLe_total zs
  have h1 := List.Pairwise.sublist (firstOcc_sublist _) hs
  have h2 : List.Pairwise (fun a b => a ≠ b) (firstOcc (zs.mergeSort elLe)) := firstOcc_nodup _
  exact (h1.and h2).imp (fun {a b} h => elLt_of_le_ne a b h.1 h.2)

theorem formula_counts' (zs : List Int) :
    (∀ p ∈ formula zs, p.1 ∈ zs ∧ p.2 = zs.count p.1) ∧ (∀ z ∈ zs, (z, zs.count z) ∈ formula zs) := by
  have hperm := List.mergeSort_perm zs elLe
  constructor
  · intro p hp
    unfold formula counter at hp
    obtain ⟨x, hx, rfl⟩ := List.mem_map.mp hp
    exact ⟨hperm.mem_iff.mp ((mem_firstOcc _ x).mp hx), hperm.count_eq x⟩
  · intro z hz
    unfold formula counter
    refine List.mem_map.mpr ⟨z, (mem_firstOcc _ z).mpr (hperm.mem_iff.mpr hz), ?_⟩
    rw [hperm.count_eq z]

theorem formula_sum (zs : List Int) : ((formula zs).map Prod.snd).sum = zs.length := by
  unfold formula counter
  rw [List.map_map]
  have := sum_counts (zs.mergeSort elLe) (firstOcc (zs.mergeSort elLe)) (firstOcc_nodup _)
    (fun x hx => (mem_firstOcc _ x).mpr hx)
  rw [(List.mergeSort_perm zs elLe).length_eq] at this
  simpa [Function.comp_def] using this

end ChmpyVerif.Element
