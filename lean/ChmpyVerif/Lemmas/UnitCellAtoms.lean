/- helper lemmas for C01: the merge pass and the image table -/
import ChmpyVerif.Model.UnitCellAtoms
import Mathlib.Algebra.Order.Field.Rat
import Mathlib.Tactic.Ring
import Mathlib.Tactic.Linarith

namespace ChmpyVerif.UCA
open ChmpyVerif.SG
set_option linter.unusedSimpArgs false

/-! ### wrap -/

theorem wrap_range (x : Rat) : 0 ≤ wrap x ∧ wrap x < 1 := by
  unfold wrap
  have h1 := Rat.floor_le x
  have h2 := Rat.lt_floor_add_one x
  push_cast at h2
  constructor <;> linarith

/-! ### sums -/

theorem sumR_append (a b : List Rat) : sumR (a ++ b) = sumR a + sumR b := by
  induction a with
  | nil => simp [sumR]
  | cons x xs ih => simp only [List.cons_append, sumR, ih]; ring

theorem sumR_filter_partition (l : List UAtom) (p : UAtom → Bool) :
    sumR ((l.filter p).map (·.occ)) + sumR ((l.filter fun b => !p b).map (·.occ)) = sumR (l.map (·.occ)) := by
  induction l with
  | nil => simp [sumR]
  | cons x xs ih =>
    by_cases hp : p x = true
    · simp only [List.filter_cons, hp, if_true, Bool.not_true, Bool.false_eq_true, if_false, List.map_cons, sumR]
      linarith
    · have hp' : p x = false := by simpa using hp
      simp only [List.filter_cons, hp', Bool.false_eq_true, if_false, Bool.not_false, if_true, List.map_cons, sumR]
      linarith

/-- total occupancy found at position `p` in a list of images -/
def occAt (l : List UAtom) (p : List Rat) : Rat := sumR ((l.filter fun b => b.frac == p).map (·.occ))

/-! ### filters -/

theorem find_filter_of_imp {α} (p q : α → Bool) (h : ∀ x, q x = true → p x = true) :
    ∀ r : List α, (r.filter p).find? q = r.find? q
  | [] => rfl
  | x :: xs => by
    by_cases hp : p x = true
    · simp only [List.filter_cons, hp, if_true, List.find?_cons, find_filter_of_imp p q h xs]
    · have hq : q x = false := by
        cases hqx : q x with
        | false => rfl
        | true => exact absurd (h x hqx) hp
      have hp' : p x = false := by simpa using hp
      simp only [List.filter_cons, hp', Bool.false_eq_true, if_false, List.find?_cons, hq,
        find_filter_of_imp p q h xs]

theorem filter_filter_of_imp {α} (p q : α → Bool) (h : ∀ x, q x = true → p x = true) (r : List α) :
    (r.filter p).filter q = r.filter q := by
  rw [List.filter_filter]
  apply List.filter_congr
  intro x _
  cases hqx : q x with
  | false => simp
  | true => simp [h x hqx]

/-! ### the merge pass -/

theorem mergeAux_frac_mem (n : Nat) : ∀ (l : List UAtom), l.length ≤ n →
    ∀ u ∈ mergeAux n l, ∃ v ∈ l, v.frac = u.frac := by
  induction n with
  | zero => intro l _ u hu; simp [mergeAux] at hu
  | succ n ih =>
    intro l hl u hu
    cases l with
    | nil => simp [mergeAux] at hu
    | cons a rest =>
      simp only [mergeAux, List.mem_cons] at hu
      rcases hu with rfl | hu
      · exact ⟨a, by simp, rfl⟩
      · have hlen : (rest.filter fun b => !(b.frac == a.frac)).length ≤ n :=
          Nat.le_trans (List.length_filter_le _ _) (by simpa using hl)
        obtain ⟨v, hv, hvf⟩ := ih _ hlen u hu
        exact ⟨v, List.mem_cons_of_mem _ ((List.mem_filter.mp hv).1), hvf⟩

theorem mergeAux_complete (n : Nat) : ∀ (l : List UAtom), l.length ≤ n →
    ∀ v ∈ l, ∃ u ∈ mergeAux n l, u.frac = v.frac := by
  induction n with
  | zero =>
    intro l hl v hv
    have : l = [] := List.eq_nil_of_length_eq_zero (Nat.le_zero.mp hl)
    subst this; cases hv
  | succ n ih =>
    intro l hl v hv
    cases l with
    | nil => cases hv
    | cons a rest =>
      have hlen : (rest.filter fun b => !(b.frac == a.frac)).length ≤ n :=
        Nat.le_trans (List.length_filter_le _ _) (by simpa using hl)
      by_cases hva : v.frac = a.frac
      · exact ⟨_, by simp only [mergeAux]; exact List.mem_cons_self .., by simp [hva]⟩
      · rcases List.mem_cons.mp hv with rfl | hv
        · exact absurd rfl hva
        · have hvm : v ∈ rest.filter fun b => !(b.frac == a.frac) := by
            simp [List.mem_filter, hv, hva]
          obtain ⟨u, hu, huf⟩ := ih _ hlen v hvm
          exact ⟨u, by simp [mergeAux, hu], huf⟩

theorem mergeAux_nodup (n : Nat) : ∀ (l : List UAtom), l.length ≤ n → ((mergeAux n l).map (·.frac)).Nodup := by
  induction n with
  | zero => intro l _; simp [mergeAux]
  | succ n ih =>
    intro l hl
    cases l with
    | nil => simp [mergeAux]
    | cons a rest =>
      have hlen : (rest.filter fun b => !(b.frac == a.frac)).length ≤ n :=
        Nat.le_trans (List.length_filter_le _ _) (by simpa using hl)
      simp only [mergeAux, List.map_cons, List.nodup_cons]
      refine ⟨?_, ih _ hlen⟩
      intro hmem
      obtain ⟨u, hu, huf⟩ := List.mem_map.mp hmem
      obtain ⟨v, hv, hvf⟩ := mergeAux_frac_mem n _ hlen u hu
      have := (List.mem_filter.mp hv).2
      simp at this
      exact this (hvf.trans huf)

/-- a kept row is the FIRST image at its position, unchanged except for the occupancy, which is the
total occupancy found at that position -/
theorem mergeAux_first (n : Nat) : ∀ (l : List UAtom), l.length ≤ n →
    ∀ u ∈ mergeAux n l, ∃ v, l.find? (fun b => b.frac == u.frac) = some v ∧
      u = { v with occ := occAt l u.frac } := by
  induction n with
  | zero => intro l _ u hu; simp [mergeAux] at hu
  | succ n ih =>
    intro l hl u hu
    cases l with
    | nil => simp [mergeAux] at hu
    | cons a rest =>
      have hlen : (rest.filter fun b => !(b.frac == a.frac)).length ≤ n :=
        Nat.le_trans (List.length_filter_le _ _) (by simpa using hl)
      simp only [mergeAux, List.mem_cons] at hu
      rcases hu with rfl | hu
      · refine ⟨a, by simp, ?_⟩
        simp only [occAt, List.filter_cons, beq_self_eq_true, if_true, List.map_cons, sumR]
      · obtain ⟨w, hw, hwf⟩ := mergeAux_frac_mem n _ hlen u hu
        have hne : ¬ (w.frac = a.frac) := by
          have := (List.mem_filter.mp hw).2; simpa using this
        have hua : ¬ (a.frac = u.frac) := fun e => hne (hwf.trans e.symm)
        obtain ⟨v, hv, huv⟩ := ih _ hlen u hu
        have himp : ∀ x : UAtom, (x.frac == u.frac) = true → (!(x.frac == a.frac)) = true := by
          intro x hx
          have hx' : x.frac = u.frac := by simpa using hx
          have : ¬ x.frac = a.frac := fun e => hua (e.symm.trans hx')
          simpa using this
        have hau : (a.frac == u.frac) = false := by simpa using hua
        refine ⟨v, ?_, ?_⟩
        · rw [List.find?_cons, hau]
          rw [← find_filter_of_imp _ _ himp rest]; exact hv
        · have hocc : occAt (rest.filter fun b => !(b.frac == a.frac)) u.frac = occAt (a :: rest) u.frac := by
            simp only [occAt, List.filter_cons, hau, Bool.false_eq_true, if_false,
              filter_filter_of_imp _ _ himp rest]
          rw [← hocc]; exact huv

theorem mergeAux_total (n : Nat) : ∀ (l : List UAtom), l.length ≤ n →
    sumR ((mergeAux n l).map (·.occ)) = sumR (l.map (·.occ)) := by
  induction n with
  | zero =>
    intro l hl
    have : l = [] := List.eq_nil_of_length_eq_zero (Nat.le_zero.mp hl)
    subst this; simp [mergeAux]
  | succ n ih =>
    intro l hl
    cases l with
    | nil => simp [mergeAux]
    | cons a rest =>
      have hlen : (rest.filter fun b => !(b.frac == a.frac)).length ≤ n :=
        Nat.le_trans (List.length_filter_le _ _) (by simpa using hl)
      simp only [mergeAux, List.map_cons, sumR, ih _ hlen]
      have := sumR_filter_partition rest (fun b => b.frac == a.frac)
      linarith

end ChmpyVerif.UCA
