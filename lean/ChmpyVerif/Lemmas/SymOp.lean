/- helper lemmas for C11 -/
import ChmpyVerif.Model.SymOp
import Mathlib.Algebra.Order.Field.Rat
import Mathlib.Tactic.Linarith
import Mathlib.Tactic.NormNum
import Mathlib.Tactic.Ring

namespace ChmpyVerif.SymOp
open ChmpyVerif.PyStr
set_option linter.unusedSimpArgs false

/-! ### rounding -/

theorem floor_eq_of (q : Rat) (z : Int) (h1 : (z : Rat) ≤ q) (h2 : q < (z : Rat) + 1) : q.floor = z := by
  apply Int.le_antisymm
  · have : q.floor < z + 1 := by
      rw [Rat.floor_lt_iff]; push_cast; exact h2
    omega
  · rw [Rat.le_floor_iff]; exact h1

/-- an integer plus less than a half rounds to that integer -/
theorem roundHalfEven_near (z : Int) (e : Rat) (h1 : -(1 / 2 : Rat) < e) (h2 : e < 1 / 2) :
    roundHalfEven ((z : Rat) + e) = z := by
  unfold roundHalfEven
  by_cases he : 0 ≤ e
  · have hf : ((z : Rat) + e).floor = z := floor_eq_of _ _ (by linarith) (by linarith)
    simp only [hf]
    have : (z : Rat) + e - (z : Rat) < 1 / 2 := by linarith
    rw [if_pos this]
  · have he' : e < 0 := not_le.mp he
    have hf : ((z : Rat) + e).floor = z - 1 := floor_eq_of _ _ (by push_cast; linarith) (by push_cast; linarith)
    simp only [hf]
    have g1 : ¬ ((z : Rat) + e - ((z - 1 : Int) : Rat) < 1 / 2) := by push_cast; linarith
    have g2 : (1 / 2 : Rat) < (z : Rat) + e - ((z - 1 : Int) : Rat) := by push_cast; linarith
    rw [if_neg g1, if_pos g2]; omega

theorem roundHalfEven_intCast (z : Int) : roundHalfEven (z : Rat) = z := by
  have := roundHalfEven_near z 0 (by norm_num) (by norm_num)
  simpa using this

theorem digit_twelfth (k : Int) (h0 : 0 ≤ k) (h1 : k < 12) : digit ((k : Rat) / 12) = k := by
  unfold digit
  have : (12 : Rat) * ((k : Rat) / 12) = (k : Rat) := by ring
  rw [this, roundHalfEven_intCast]
  omega

theorem frac_twelfth (k : Int) (h0 : 0 ≤ k) (h1 : k < 12) : frac ((k : Rat) / 12) = (k : Rat) / 12 := by
  unfold frac
  have hk0 : (0 : Rat) ≤ (k : Rat) := by exact_mod_cast h0
  have hk1 : (k : Rat) < 12 := by exact_mod_cast h1
  have : ((k : Rat) / 12).floor = 0 := floor_eq_of _ 0 (by push_cast; linarith) (by push_cast; linarith)
  rw [this]; simp

/-- translation = twelfth + integer + noise below 1/24: after the constructor's `% 1` the digit is that twelfth -/
theorem digit_frac_near (k n : Int) (d : Rat) (h0 : 0 ≤ k) (h1 : k < 12)
    (hd1 : -(1 / 24 : Rat) < d) (hd2 : d < 1 / 24) :
    digit (frac ((k : Rat) / 12 + (n : Rat) + d)) = k := by
  have hk0 : (0 : Rat) ≤ (k : Rat) := by exact_mod_cast h0
  have hk1 : (k : Rat) ≤ 11 := by
    have : k ≤ 11 := by omega
    exact_mod_cast this
  unfold digit frac
  by_cases hneg : (k : Rat) / 12 + d < 0
  · -- only possible for k = 0 with negative noise: wraps to just below 1, rounds to 12, digit 0
    have hk : k = 0 := by
      by_contra hne
      have h1k : 1 ≤ k := by omega
      have : (1 : Rat) ≤ (k : Rat) := by exact_mod_cast h1k
      linarith
    subst hk
    have hf : ((0 : Int) : Rat) / 12 + (n : Rat) + d = ((n - 1 : Int) : Rat) + (1 + d) := by push_cast; ring
    have hfl : (((0 : Int) : Rat) / 12 + (n : Rat) + d).floor = n - 1 :=
      floor_eq_of _ _ (by push_cast; linarith) (by push_cast; linarith)
    rw [hfl]
    have : (12 : Rat) * (((0 : Int) : Rat) / 12 + (n : Rat) + d - ((n - 1 : Int) : Rat)) = ((12 : Int) : Rat) + 12 * d := by
      push_cast; ring
    rw [this, roundHalfEven_near 12 (12 * d) (by linarith) (by linarith)]
    rfl
  · have hpos : 0 ≤ (k : Rat) / 12 + d := not_lt.mp hneg
    have hfl : ((k : Rat) / 12 + (n : Rat) + d).floor = n :=
      floor_eq_of _ _ (by linarith) (by linarith)
    rw [hfl]
    have : (12 : Rat) * ((k : Rat) / 12 + (n : Rat) + d - (n : Rat)) = (k : Rat) + 12 * d := by ring
    rw [this, roundHalfEven_near k (12 * d) (by linarith) (by linarith)]
    omega


/-! ### split / join / case -/

theorem splitOn_ne_nil (c : Ch) (s : List Ch) : splitOn c s ≠ [] := by
  induction s with
  | nil => simp [splitOn]
  | cons x xs ih =>
    unfold splitOn
    split
    · simp
    · split <;> simp

theorem splitOn_cons_sep (c : Ch) (rest : List Ch) : splitOn c (c :: rest) = [] :: splitOn c rest := by
  conv => lhs; unfold splitOn
  split
  · rename_i h; exact absurd h (splitOn_ne_nil c rest)
  · rename_i p ps h; simp [h]

theorem splitOn_cons_ne (c x : Ch) (rest : List Ch) (hx : x ≠ c) :
    splitOn c (x :: rest) = match splitOn c rest with
      | [] => [[x]]
      | p :: ps => (x :: p) :: ps := by
  conv => lhs; unfold splitOn
  split
  · rename_i h; exact absurd h (splitOn_ne_nil c rest)
  · rename_i p ps h; simp [h, hx]

theorem splitOn_noSep (c : Ch) (s : List Ch) (h : c ∉ s) : splitOn c s = [s] := by
  induction s with
  | nil => simp [splitOn]
  | cons x xs ih =>
    have hx : x ≠ c := fun e => h (by simp [e])
    have hxs : c ∉ xs := fun e => h (by simp [e])
    rw [splitOn_cons_ne c x xs hx, ih hxs]

theorem splitOn_append (c : Ch) (s rest : List Ch) (h : c ∉ s) :
    splitOn c (s ++ c :: rest) = s :: splitOn c rest := by
  induction s with
  | nil => exact splitOn_cons_sep c rest
  | cons x xs ih =>
    have hx : x ≠ c := fun e => h (by simp [e])
    have hxs : c ∉ xs := fun e => h (by simp [e])
    rw [List.cons_append, splitOn_cons_ne c x _ hx, ih hxs]

theorem lower_eq_self (s : List Ch) (h : s.all (fun c => !isUpperA c) = true) : lower s = s := by
  induction s with
  | nil => rfl
  | cons x xs ih =>
    simp only [List.all_cons, Bool.and_eq_true] at h
    have hx : isUpperA x = false := by simpa using h.1
    simp [lower, toLowerA, hx]
    exact ih h.2

theorem removeAll_eq_self (c : Ch) (s : List Ch) (h : s.all (fun x => x != c) = true) : removeAll c s = s := by
  unfold removeAll
  exact List.filter_eq_self.mpr (fun a ha => (List.all_eq_true.mp h) a ha)

theorem lower_ne_space (x : Nat) : (toLowerA x != 32) = (x != 32) := by
  unfold toLowerA isUpperA; grind

/-- lower-casing and removing blanks commute (upper-case letters are not blanks, nor are their images) -/
theorem removeAll_lower (s : List Ch) : removeAll 32 (lower s) = lower (removeAll 32 s) := by
  unfold removeAll lower
  rw [List.filter_map]
  congr 1
  apply List.filter_congr
  intro x _
  exact lower_ne_space x

end ChmpyVerif.SymOp
