/-
Hand-written model for C13: change of basis of symmetry operations between the hexagonal and the
rhombohedral description of an R-lattice group, on exact rationals (Mathlib-free, kernel-friendly).
Row-vector convention of the code: Cartesian `x = f · D`; a new cell `D' = T · D` gives new fractional
coordinates `f' = f · T⁻¹`; an operation `f ↦ f·Rᵀ + t` becomes `f' ↦ f'·(T·Rᵀ·T⁻¹) + t·T⁻¹`.
-/
import ChmpyVerif.Model.SGroup
namespace ChmpyVerif.Reexpress
open ChmpyVerif.SG

abbrev Mat := List (List Rat)

def mget (m : Mat) (i j : Nat) : Rat := (m.getD i []).getD j 0

def matMul (a b : Mat) : Mat :=
  (List.range 3).map fun i => (List.range 3).map fun j =>
    mget a i 0 * mget b 0 j + mget a i 1 * mget b 1 j + mget a i 2 * mget b 2 j

def ident : Mat := [[1, 0, 0], [0, 1, 0], [0, 0, 1]]

def transpose (a : Mat) : Mat := (List.range 3).map fun i => (List.range 3).map fun j => mget a j i

def vecMat (v : List Rat) (m : Mat) : List Rat :=
  (List.range 3).map fun j => v.getD 0 0 * mget m 0 j + v.getD 1 0 * mget m 1 j + v.getD 2 0 * mget m 2 j

def wrap1 (x : Rat) : Rat := x - (x.floor : Rat)

/-- an operation as (Rᵀ as used on row vectors, translation), rationals -/
structure QOp where
  rt : Mat
  t : List Rat
deriving DecidableEq, Repr

def ofAOp (a : AOp) : QOp :=
  match a.r with
  | [a0, a1, a2, a3, a4, a5, a6, a7, a8] =>
    ⟨transpose [[(a0 : Rat), a1, a2], [a3, a4, a5], [a6, a7, a8]], a.t.map fun (k : Int) => (k : Rat) / 12⟩
  | _ => ⟨[], []⟩

/-- the operation seen in the cell `D' = T·D` (`Tinv = T⁻¹`), translation reduced modulo the new lattice -/
def conj (T Tinv : Mat) (o : QOp) : QOp :=
  ⟨matMul (matMul T o.rt) Tinv, (vecMat o.t Tinv).map wrap1⟩

def dedup (l : List QOp) : List QOp := l.foldl (fun acc o => if acc.contains o then acc else acc ++ [o]) []

def sameSet (a b : List QOp) : Bool := a.all (b.contains ·) && b.all (a.contains ·)

/-- the H-setting operations, re-expressed on rhombohedral axes, are exactly the R-setting operations (each
obtained from 3 H operations: the centring translations become lattice translations) -/
def trigonalConsistent (T Tinv : Mat) (hOps rOps : List Nat) : Bool :=
  let h := (hOps.map fun c => conj T Tinv (ofAOp (decodeOp c)))
  let r := rOps.map fun c => ofAOp (decodeOp c)
  sameSet (dedup h) r && hOps.length == 3 * rOps.length && (dedup h).length == rOps.length

end ChmpyVerif.Reexpress
