/-
Hand-written executable model of the promolecule density / stockholder weight kernels
(`chmpy/interpolate/_density.pyx`: `interp_f`, `interp_f_one`, `evaluate_rho`, `one_rho`,
`StockholderWeight.weights`) and of the wrapper `chmpy/interpolate/density.py` (row selection
`_RHO[Z-1]`, range check).  Exact rational arithmetic on the float32 inputs; the float32 rounding of
the kernel is not modelled (compared with a stated tolerance).  The interpolation table is a
parameter (the driver loads the rows the harness dumps from the real .npz on every run).
Mathlib-free.
-/
namespace ChmpyVerif.Density

/-- squared Bohr per Ångström factor used by the kernel: `0.5291772108²` (as the decimal literal) -/
def bohr2 : Rat := (5291772108 : Rat) / 10000000000 * ((5291772108 : Rat) / 10000000000)

structure Table where
  domain : Array Rat          -- r² nodes (uniform up to float32 rounding)
  rows : List (Nat × Array Rat)   -- (Z, tabulated density at the nodes)

/-- the two interpolation paths differ only in the value returned beyond the last node -/
inductive Path | batch | single
deriving DecidableEq, Repr

/-- `interp_f` / `interp_f_one` for one abscissa `x` -/
def interp (path : Path) (xi yi : Array Rat) (x : Rat) : Rat :=
  let ni := xi.size
  let l := xi.getD 0 0
  let dx := xi.getD 1 0 - xi.getD 0 0
  let invdx := 1 / dx
  let j : Int := (invdx * (x - l)).floor     -- `<int>` truncates; the argument is ≥ -l·invdx > -1 for x ≥ 0
  if j ≤ 0 then yi.getD 0 0
  else if j ≥ (ni : Int) - 1 then (match path with | .batch => yi.getD (ni - 1) 0 | .single => 0)
  else
    let jn := j.toNat
    let t := (x - xi.getD jn 0) * invdx
    (1 - t) * yi.getD jn 0 + t * yi.getD (jn + 1) 0

def dist2 (p q : List Rat) : Rat := (p.zipWith (fun a b => (a - b) * (a - b)) q).foldl (· + ·) 0

def rowOf (T : Table) (z : Nat) : Array Rat := ((T.rows.find? (·.1 == z)).map (·.2)).getD #[]

/-- `PromoleculeDensity.rho` at one point: sum over atoms of the interpolated tabulated density at `d²/bohr²` -/
def rho (path : Path) (T : Table) (atoms : List (Nat × List Rat)) (p : List Rat) : Rat :=
  (atoms.map fun a => interp path T.domain (rowOf T a.1) (dist2 p a.2 / bohr2)).foldl (· + ·) 0

/-- `StockholderWeight.weights` at one point -/
def weight (path : Path) (T : Table) (a b : List (Nat × List Rat)) (bg : Rat) (p : List Rat) : Rat :=
  let ra := rho path T a p
  let rb := rho path T b p
  ra / (ra + rb + bg)

/-- `density.py`: atomic numbers outside 1..103 are rejected -/
def validElements (zs : List Int) : Bool := zs.all fun z => decide (1 ≤ z) && decide (z ≤ 103)

end ChmpyVerif.Density
