/-
Hand-written executable model of `WulffConstruction` (crystal/wulff.py) in exact rationals: everything the
class does AFTER scipy's `ConvexHull` of the polar dual points — dual points, Wulff vertices from the dual
simplices, facet membership lists, pruning of coincident vertices, counter-clockwise ordering of each facet
around its first vertex and fan triangulation.  The simplices of the dual hull are an input.
Mathlib-free.
-/
namespace ChmpyVerif.Wulff

abbrev V3 := Rat × Rat × Rat

def dot (a b : V3) : Rat := a.1 * b.1 + a.2.1 * b.2.1 + a.2.2 * b.2.2
def sub (a b : V3) : V3 := (a.1 - b.1, a.2.1 - b.2.1, a.2.2 - b.2.2)
def smul (s : Rat) (a : V3) : V3 := (s * a.1, s * a.2.1, s * a.2.2)
def cross (a b : V3) : V3 :=
  (a.2.1 * b.2.2 - a.2.2 * b.2.1, a.2.2 * b.1 - a.1 * b.2.2, a.1 * b.2.1 - a.2.1 * b.1)

/-- `_populate_duals`: `fv = n·e`, `dual = fv / |fv|²` -/
def dual (n : V3) (e : Rat) : V3 :=
  let fv := smul e n
  smul (1 / dot fv fv) fv

/-- normal of the dual simplex `(a, b, c)`: `cross(b - a, c - a)` -/
def simplexNormal (a b c : V3) : V3 := cross (sub b a) (sub c a)

/-- `_extract_wulff_from_dual_mesh`: vertex of the simplex whose FIRST index has normal `n0`, energy `e0` -/
def vertexOf (n0 : V3) (e0 : Rat) (a b c : V3) : V3 :=
  let nrm := simplexNormal a b c
  smul (e0 / dot nrm n0) nrm

structure Input where
  normals : Array V3
  energies : Array Rat
  simplices : List (Nat × Nat × Nat)

def Input.dualAt (inp : Input) (i : Nat) : V3 := dual (inp.normals.getD i (0, 0, 0)) (inp.energies.getD i 0)

def vertices (inp : Input) : List V3 :=
  inp.simplices.map fun s =>
    vertexOf (inp.normals.getD s.1 (0, 0, 0)) (inp.energies.getD s.1 0) (inp.dualAt s.1) (inp.dualAt s.2.1) (inp.dualAt s.2.2)

/-- `facets[f]` = indices of the simplices (= Wulff vertices) that contain dual point `f`, in simplex order;
a simplex listing `f` twice would be appended twice (never happens for a hull) -/
def facetsOf (nfacets : Nat) (simplices : List (Nat × Nat × Nat)) : List (List Nat) :=
  (List.range nfacets).map fun f =>
    (simplices.zipIdx).flatMap fun (s, idx) =>
      (if s.1 = f then [idx] else []) ++ (if s.2.1 = f then [idx] else []) ++ (if s.2.2 = f then [idx] else [])

/-! ### ordering of one facet -/

/-- `prune_degenerate_points` (after the repair: threshold relative to the largest |p|²): keep point `i` unless a
LATER point lies within the threshold; returns positions into the facet list -/
def pruneIdx (pts : List V3) (thr2 : Rat) : List Nat :=
  let scale := pts.foldl (fun m p => max m (dot p p)) 0
  (List.range pts.length).filter fun i =>
    (List.range pts.length).all fun j =>
      !(i < j) || decide (thr2 * scale ≤ dot (sub (pts.getD i (0,0,0)) (pts.getD j (0,0,0))) (sub (pts.getD i (0,0,0)) (pts.getD j (0,0,0))))

/-- `project_to_plane`: coordinates `(u, v)` along `a = p₁ - p₀` (projected) and `b = n × a` -/
def project (pts : List V3) (n : V3) : List (Rat × Rat) :=
  let pr := pts.map fun p => sub p (smul (dot p n) n)
  let a := sub (pr.getD 1 (0,0,0)) (pr.getD 0 (0,0,0))
  let b := cross n a
  pr.map fun p => (dot p a, dot p b)

/-- class of an `atan2(v, u)` angle: 0 = (-π,0), 1 = {0}, 2 = (0,π), 3 = {π}; the origin has angle 0 -/
def angleClass (d : Rat × Rat) : Nat :=
  if d.2 < 0 then 0 else if 0 < d.2 then 2 else if d.1 < 0 then 3 else 1

/-- `atan2 d < atan2 d'` decided exactly -/
def angleLt (d d' : Rat × Rat) : Bool :=
  if angleClass d ≠ angleClass d' then angleClass d < angleClass d'
  else if angleClass d = 0 ∨ angleClass d = 2 then decide (0 < d.1 * d'.2 - d.2 * d'.1) else false

def insertBy {α} (lt : α → α → Bool) (x : α) : List α → List α
  | [] => [x]
  | y :: ys => if lt x y then x :: y :: ys else y :: insertBy lt x ys

/-- stable sort (Python `sorted`): equal keys keep their order -/
def sortBy {α} (lt : α → α → Bool) (l : List α) : List α := l.foldr (fun x acc => insertBy (fun a b => lt a b) x acc) []

/-- `winding_order_ccw`: position 0 first, then the others by the angle of `p - p₀` -/
def windingOrder (pts2 : List (Rat × Rat)) : List Nat :=
  let c := pts2.getD 0 (0, 0)
  let key (k : Nat) : Rat × Rat := let p := pts2.getD k (0, 0); (p.1 - c.1, p.2 - c.2)
  0 :: sortBy (fun i j => angleLt (key i) (key j)) ((List.range pts2.length).drop 1)

/-- `ordered_facets` for one facet -/
def orderFacet (verts : List V3) (facet : List Nat) (n : V3) (thr2 : Rat) : List Nat :=
  if facet.isEmpty then [] else
  let pts := facet.map fun i => verts.getD i (0, 0, 0)
  let keep := pruneIdx pts thr2
  let kept := keep.map fun i => pts.getD i (0, 0, 0)
  let order := windingOrder (project kept n)
  order.map fun x => facet.getD (keep.getD x 0) 0

/-- fan triangulation `(f₀, fᵢ, fᵢ₊₁)`, i = 1 … N-2 -/
def fanGo (a : Nat) : List Nat → List (Nat × Nat × Nat)
  | b :: c :: rest => (a, b, c) :: fanGo a (c :: rest)
  | _ => []

def fan : List Nat → List (Nat × Nat × Nat)
  | a :: rest => fanGo a rest
  | [] => []

structure Output where
  vertices : List V3
  facets : List (List Nat)
  triangles : List (Nat × Nat × Nat)
  triFacet : List Nat

def construct (inp : Input) (thr2 : Rat) : Output :=
  let vs := vertices inp
  let fs := facetsOf inp.normals.size inp.simplices
  let ordered := fs.zipIdx.map fun (f, i) => orderFacet vs f (inp.normals.getD i (0, 0, 0)) thr2
  let tris := ordered.map fan
  { vertices := vs, facets := ordered, triangles := tris.flatten,
    triFacet := (tris.zipIdx.map fun (t, i) => List.replicate t.length i).flatten }

end ChmpyVerif.Wulff
