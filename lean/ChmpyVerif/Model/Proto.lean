/-
Line protocol shared by all drivers (Mathlib-free, executable only — nothing here
is used in a theorem).  One operation per input line, fields separated by single
blanks, strings percent-encoded (`%XX` per byte of the UTF-8/ASCII text, every
character outside `[A-Za-z0-9_.-]` encoded), integers in decimal, rationals `p/q`.
-/
namespace ChmpyVerif.Proto

def hexVal (c : Char) : Nat :=
  if '0' ≤ c ∧ c ≤ '9' then c.toNat - '0'.toNat
  else if 'a' ≤ c ∧ c ≤ 'f' then c.toNat - 'a'.toNat + 10
  else if 'A' ≤ c ∧ c ≤ 'F' then c.toNat - 'A'.toNat + 10
  else 0

/-- percent-decoding to a list of characters (code points < 256 only: the
harness sends ASCII/Latin-1 text). -/
def pctDecode : List Char → List Char
  | '%' :: a :: b :: rest => Char.ofNat (16 * hexVal a + hexVal b) :: pctDecode rest
  | c :: rest => c :: pctDecode rest
  | [] => []

def hexDigit (n : Nat) : Char :=
  if n < 10 then Char.ofNat ('0'.toNat + n) else Char.ofNat ('A'.toNat + n - 10)

def isPlain (c : Char) : Bool :=
  c.isAlphanum || c == '_' || c == '.' || c == '-'

def pctEncode (cs : List Char) : String :=
  String.ofList (cs.flatMap fun c =>
    if isPlain c then [c] else ['%', hexDigit (c.toNat / 16 % 16), hexDigit (c.toNat % 16)])

def fields (line : String) : List String :=
  ((String.ofList (line.toList.filter (fun c => c != '\n' && c != '\r'))).splitOn " ").filter (· ≠ "")

def parseInt (s : String) : Option Int := s.toInt?

/-- `p/q` or `p` -/
def parseRat (s : String) : Option Rat :=
  match s.splitOn "/" with
  | [p] => (p.toInt?).map (fun (i : Int) => (i : Rat))
  | [p, q] => do
      let p ← p.toInt?
      let q ← q.toNat?
      if q = 0 then none else some (mkRat p q)
  | _ => none

def showRat (r : Rat) : String :=
  if r.den = 1 then toString r.num else s!"{r.num}/{r.den}"

def showInts (l : List Int) : String := " ".intercalate (l.map toString)

/-- exact conversion of a rational to the nearest double is not needed: inputs are
dyadic (they are floats sent exactly), so numerator and denominator convert exactly
when they are below 2^53; otherwise the division rounds once more (documented). -/
def ratToFloat (r : Rat) : Float := Float.ofInt r.num / Float.ofNat r.den

/-- conversion for rationals whose numerator/denominator may exceed the double range: both are shifted right
by the same amount first (relative error ≤ 2⁻⁶⁰) -/
def ratToFloatBig (r : Rat) : Float :=
  let k := r.den.log2 - 62
  Float.ofInt (r.num / (2 ^ k : Nat)) / Float.ofNat (r.den / 2 ^ k)

partial def loop (h : IO.FS.Stream) (step : String → String) : IO Unit := do
  let line ← h.getLine
  if line.isEmpty then return ()
  IO.println (step line)
  loop h step

partial def loopState {σ : Type} (h : IO.FS.Stream) (step : σ → String → σ × String) (s : σ) : IO Unit := do
  let line ← h.getLine
  if line.isEmpty then return ()
  let (s', out) := step s line
  IO.println out
  loopState h step s'

def run (step : String → String) : IO Unit := do
  loop (← IO.getStdin) step

end ChmpyVerif.Proto
