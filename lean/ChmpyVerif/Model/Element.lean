import ChmpyVerif.Model.PyStr
/-
Hand-written executable model of `chmpy/core/element.py` (lookup logic only; the
data table is GENERATED into `Gen/Elements.lean` from the source on every run).

Strings are `List Ch`, ASCII semantics of `str.strip / capitalize / lower /
isdigit` (non-ASCII text is outside the model and outside the property's spellings).
-/
namespace ChmpyVerif.Element
open ChmpyVerif.PyStr

/-- a decimal literal exactly as written in the source: `mant × 10^(-exp)` -/
structure Dec where
  mant : Int
  exp : Nat
deriving DecidableEq, Repr

structure Row where
  name : List Ch
  symbol : List Ch
  cov : Dec
  vdw : Dec
  mass : Dec
deriving DecidableEq, Repr

structure Elem where
  z : Int
  row : Row
deriving DecidableEq, Repr

inductive Err | valueError | indexError
deriving DecidableEq, Repr

deriving instance DecidableEq for Except

export ChmpyVerif.PyStr (Ch pyIsSpace isUpperA isLowerA isLetterA isDigitA toLowerA toUpperA lower strip capitalize isDigitStr digitsToNat)

/-- greedy `[A-Za-z]+` prefix of `re.match("([A-Z]+).*", label, IGNORECASE)`;
`none` when the label does not start with a letter -/
def letterPrefix (s : List Ch) : Option (List Ch) :=
  match s.takeWhile isLetterA with
  | [] => none
  | p => some p

/-! ### Lookups, parameterised by the table -/

/-- the table with atomic numbers attached (`enumerate(_ELEMENT_DATA, start=1)`) -/
def enumerate (tbl : List Row) : List Elem :=
  (tbl.zipIdx 1).map fun p => ⟨(p.2 : Int), p.1⟩

/-- `_EL_FROM_SYM[sym]`: a dict comprehension, so the LAST row with that symbol wins -/
def findSym (tbl : List Row) (sym : List Ch) : Option Elem :=
  (enumerate tbl).reverse.find? fun e => e.row.symbol = sym

/-- `_EL_FROM_NAME[name]` -/
def findName (tbl : List Row) (nm : List Ch) : Option Elem :=
  (enumerate tbl).reverse.find? fun e => e.row.name = nm

/-- `Element.from_atomic_number`: rejects everything outside `1..len(table)`. -/
def fromAtomicNumber (tbl : List Row) (n : Int) : Except Err Elem :=
  if 1 ≤ n ∧ n ≤ tbl.length then
    match tbl[(n - 1).toNat]? with
    | some r => .ok ⟨n, r⟩
    | none => .error .indexError
  else .error .valueError

def fromLabel (tbl : List Row) (label : List Ch) : Except Err Elem :=
  match letterPrefix label with
  | none => .error .valueError
  | some p =>
    match findSym tbl (capitalize (strip p)) with
    | some e => .ok e
    | none => .error .valueError

/-- the symbol `from_string` looks up: stripped, capitalised, deuterium → hydrogen -/
def lookupKey (s : List Ch) : List Ch :=
  let symbol0 := capitalize (strip s)
  if symbol0 = [68] then [72] else symbol0   -- "D" → "H"

/-- the routes of `from_string` that do not fall through to the label rule
(number string, symbol, name); `none` when none of them answers with an element -/
def fromStringDirect (tbl : List Row) (s : List Ch) : Option Elem :=
  let symbol := lookupKey s
  if isDigitStr symbol then
    match fromAtomicNumber tbl (digitsToNat symbol) with
    | .ok e => some e
    | .error _ => none
  else match findSym tbl symbol with
    | some e => some e
    | none => findName tbl (lower symbol)

def fromString (tbl : List Row) (s : List Ch) : Except Err Elem :=
  let symbol := lookupKey s
  if isDigitStr symbol then fromAtomicNumber tbl (digitsToNat symbol)
  else match findSym tbl symbol with
    | some e => .ok e
    | none => match findName tbl (lower symbol) with
      | some e => .ok e
      | none => fromLabel tbl (strip s)   -- the label rule sees the stripped string too (padding is ignored on every route)

/-! ### vectorised helpers: all-or-nothing range check -/

def inRange (zs : List Int) : Bool := zs.all (fun z => 1 ≤ z && z ≤ 103)

def covRadii (tbl : List Row) (zs : List Int) : Except Err (List Dec) :=
  if inRange zs then .ok (zs.filterMap fun z => (tbl[(z - 1).toNat]?).map (·.cov)) else .error .valueError
def vdwRadii (tbl : List Row) (zs : List Int) : Except Err (List Dec) :=
  if inRange zs then .ok (zs.filterMap fun z => (tbl[(z - 1).toNat]?).map (·.vdw)) else .error .valueError
def elementSymbols (tbl : List Row) (zs : List Int) : Except Err (List (List Ch)) :=
  if inRange zs then .ok (zs.filterMap fun z => (tbl[(z - 1).toNat]?).map (·.symbol)) else .error .valueError
def elementNames (tbl : List Row) (zs : List Int) : Except Err (List (List Ch)) :=
  if inRange zs then .ok (zs.filterMap fun z => (tbl[(z - 1).toNat]?).map (·.name)) else .error .valueError

/-! ### ordering and formulas (on atomic numbers) -/

/-- `Element.__lt__` -/
def elLt (a b : Int) : Bool :=
  if a = b then false else if a = 6 then true else if b = 6 then false else decide (a < b)

/-- sort key with the same order: carbon first, then atomic number -/
def elLe (a b : Int) : Bool := !elLt b a

/-- the operators `functools.total_ordering` derives from `__lt__` and `__eq__` (equality of atomic numbers):
`a <= b` is `a < b or a == b`, `a > b` is `not (a < b) and a != b`, `a >= b` is `not (a < b)` -/
def elLeT (a b : Int) : Bool := elLt a b || (a == b)
def elGtT (a b : Int) : Bool := !elLt a b && (a != b)
def elGeT (a b : Int) : Bool := !elLt a b

/-- distinct values in first-occurrence order (the key order of a `Counter`/dict) -/
def firstOcc : List Int → List Int
  | [] => []
  | x :: xs => x :: (firstOcc xs).filter (· ≠ x)

/-- `Counter(l).items()`: counts in first-occurrence order -/
def counter (l : List Int) : List (Int × Nat) := (firstOcc l).map fun x => (x, l.count x)

/-- the `(element, count)` blocks of `chemical_formula` -/
def formula (zs : List Int) : List (Int × Nat) := counter (zs.mergeSort elLe)

end ChmpyVerif.Element
