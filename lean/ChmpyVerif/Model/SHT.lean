/-
Hand-written executable model of the index / sign / phase logic of `chmpy/shape/sht.py`,
`chmpy/shape/_sht.pyx` and of the invariants in `shape_descriptors.py` / `_invariants.pyx`,
over `Float` complex numbers (pairs) for the driver.  The integer parts (grid sizes, index maps,
loop guards) are exact and are what the arithmetic theorems are about; the algebraic theorems
(Props/C07, C08) are stated over ℂ-like commutative rings on mirrored definitions.
Mathlib-free.
-/
namespace ChmpyVerif.SHT

/-! ### grid sizes -/

def nextPow2 (n : Nat) : Nat := go 1 64
where go (i : Nat) : Nat → Nat
  | 0 => i
  | fuel + 1 => if i < n then go (2 * i) fuel else i

/-- strip the factors 2, 3, 5, 7 (up to `fmax`) that divide `n`: the inner loops of the source compute the largest
`f | n` made of those primes; `f = n` iff `n` is `fmax`-smooth -/
def smoothPart (fmax : Nat) (n : Nat) : Nat :=
  let strip (p : Nat) (x : Nat × Nat) : Nat × Nat :=   -- (remaining, f)
    (List.range 64).foldl (fun acc _ => if acc.1 % p = 0 && acc.1 ≠ 0 then (acc.1 / p, acc.2 * p) else acc) x
  let s2 := strip 2 (n, 1)
  let odd := [3, 5, 7].filter (· ≤ fmax)
  (odd.foldl (fun acc p => strip p acc) s2).2

/-- `_closest_int_with_only_prime_factors_up_to_fmax(n, 7)` -/
def closestSmooth (n : Nat) : Nat :=
  if n ≤ 7 then n
  else
    let n0 := n - (2 - n % 2)
    -- `n += 2` until n is 7-smooth
    let found := (List.range 256).foldl (fun (acc : Nat × Bool) _ =>
      if acc.2 then acc else
        let m := acc.1 + 2
        (m, smoothPart 7 m == m)) (n0, false)
    let m := found.1
    let k := nextPow2 m
    if (k - m) * 33 < m then k else m

def nphiOf (lmax : Nat) : Nat := closestSmooth (2 * lmax + 1)

/-- `n = lmax + 1; n += n & 1; n = ((n + 7) // 8) * 8` -/
def nthetaOf (lmax : Nat) : Nat :=
  let n := lmax + 1
  let n := n + n % 2
  ((n + 7) / 8) * 8

/-! ### index maps -/

def nlm (L : Nat) : Nat := (L + 1) * (L + 1)
def nplm (L : Nat) : Nat := (L + 1) * (L + 2) / 2

/-- position of (l, m ≥ 0) in the m-major enumeration `for m in 0..L: for l in m..L` -/
def plmIdx (L l m : Nat) : Nat := m * (L + 1) - m * (m - 1) / 2 + (l - m)

/-- complex layout: `l(l+1) + m`, m ∈ [-l, l] -/
def idxC (l : Nat) (m : Int) : Int := (l : Int) * (l + 1) + m

/-! ### complex numbers for the driver -/

structure C where
  re : Float
  im : Float

instance : Add C := ⟨fun a b => ⟨a.re + b.re, a.im + b.im⟩⟩
instance : Mul C := ⟨fun a b => ⟨a.re * b.re - a.im * b.im, a.re * b.im + a.im * b.re⟩⟩
def C.zero : C := ⟨0, 0⟩
def C.conj (a : C) : C := ⟨a.re, -a.im⟩
def C.scale (s : Float) (a : C) : C := ⟨s * a.re, s * a.im⟩
def C.norm2 (a : C) : Float := a.re * a.re + a.im * a.im
def C.expi (x : Float) : C := ⟨Float.cos x, Float.sin x⟩

def sgn (m : Nat) : Float := if m % 2 = 1 then -1 else 1

/-- pairs (m, l) in kernel order -/
def mlPairs (L : Nat) : List (Nat × Nat) :=
  (List.range (L + 1)).flatMap fun m => (List.range (L + 1 - m)).map fun k => (m, m + k)

/-! ### the four kernels (one θ at a time) -/

/-- `analysis_cython_real`: increments of the (m-major) coefficients -/
def analysisReal (L : Nat) (fft : Array C) (plm : Array Float) (w : Float) : Array C :=
  ((mlPairs L).zipIdx.map fun ((m, _), i) =>
    C.scale ((if m = 0 then 1 else sgn m) * plm.getD i 0 * w) (fft.getD m C.zero)).toArray

/-- `synthesis_cython_real`: the FFT work array (only entries 0..L are written) -/
def synthesisReal (L nphi : Nat) (coeffs : Array C) (plm : Array Float) : Array C :=
  (mlPairs L).zipIdx.foldl (fun acc ((m, _), i) =>
    let v := C.scale ((if m = 0 then 1 else 2 * sgn m) * plm.getD i 0) (coeffs.getD i C.zero)
    acc.modify m (· + v)) (Array.replicate nphi C.zero)

/-- `analysis_cython_cplx`: increments in the l(l+1)+m layout -/
def analysisCplx (L nphi : Nat) (fft : Array C) (plm : Array Float) (w : Float) : Array C :=
  (mlPairs L).zipIdx.foldl (fun acc ((m, l), i) =>
    let pw := plm.getD i 0 * w
    let off := l * (l + 1)
    if m = 0 then acc.modify off (· + C.scale pw (fft.getD 0 C.zero))
    else
      let rr := C.scale (sgn m * pw) (fft.getD m C.zero)
      let ii0 := C.scale (sgn m * pw) (fft.getD (nphi - m) C.zero)
      let ii := if m % 2 = 1 then C.scale (-1) ii0 else ii0
      (acc.modify (off - m) (· + ii)).modify (off + m) (· + rr)) (Array.replicate (nlm L) C.zero)

/-- `synthesis_cython_cplx` -/
def synthesisCplx (L nphi : Nat) (coeffs : Array C) (plm : Array Float) : Array C :=
  (mlPairs L).zipIdx.foldl (fun acc ((m, l), i) =>
    let p := plm.getD i 0
    let off := l * (l + 1)
    if m = 0 then acc.modify 0 (· + C.scale p (coeffs.getD off C.zero))
    else
      let rr := C.scale (sgn m * p) (coeffs.getD (off + m) C.zero)
      let ii0 := C.scale (sgn m * p) (coeffs.getD (off - m) C.zero)
      let ii := if m % 2 = 1 then C.scale (-1) ii0 else ii0
      (acc.modify (nphi - m) (· + ii)).modify m (· + rr)) (Array.replicate nphi C.zero)

/-- `expand_coeffs_cython`: real-transform coefficients → full complex layout -/
def expandCoeffs (L : Nat) (cin : Array C) : Array C :=
  (mlPairs L).zipIdx.foldl (fun acc ((m, l), i) =>
    let off := l * (l + 1)
    let c := cin.getD i C.zero
    let acc := acc.set! (off + m) c
    if m ≠ 0 then acc.set! (off - m) (C.scale (sgn m) c.conj) else acc) (Array.replicate (nlm L) C.zero)

/-! ### point-wise evaluation (after the repair) -/

def evalReal (L : Nat) (coeffs : Array C) (plm : Array Float) (phi : Float) : Float :=
  (mlPairs L).zipIdx.foldl (fun acc ((m, _), i) =>
    if m = 0 then acc + plm.getD i 0 * (coeffs.getD i C.zero).re
    else
      let t := C.scale (sgn m * plm.getD i 0) (coeffs.getD i C.zero)
      let e := C.expi (Float.ofNat m * phi)
      acc + 2 * (t.re * e.re - t.im * e.im)) 0

def evalCplx (L : Nat) (coeffs : Array C) (plm : Array Float) (phi : Float) : C :=
  (mlPairs L).zipIdx.foldl (fun acc ((m, l), i) =>
    let p := plm.getD i 0
    let off := l * (l + 1)
    if m = 0 then acc + C.scale p (coeffs.getD off C.zero)
    else
      let a := C.scale (sgn m * p) (coeffs.getD (off + m) C.zero)     -- coefficient of e^{+imφ}
      let b := C.scale p (coeffs.getD (off - m) C.zero)               -- coefficient of e^{-imφ}
      acc + a * C.expi (Float.ofNat m * phi) + b * C.expi (-(Float.ofNat m * phi))) C.zero

/-! ### power spectrum and N invariants -/

def powerCplx (L : Nat) (coeffs : Array C) : List Float :=
  (List.range (L + 1)).map fun l =>
    ((List.range (2 * l + 1)).foldl (fun acc k => acc + (coeffs.getD (l * l + k) C.zero).norm2) 0) / Float.ofNat (2 * l + 1)

def powerReal (L : Nat) (coeffs : Array C) : List Float :=
  (List.range (L + 1)).map fun l =>
    ((mlPairs L).zipIdx.foldl (fun acc ((m, l'), i) =>
      if l' = l then acc + (if m = 0 then 1 else 2) * (coeffs.getD i C.zero).norm2 else acc) 0) / Float.ofNat (2 * l + 1)

/-- `make_N_invariants` (after the repair): block `[l², (l+1)²)` -/
def nInvariants (size : Nat) (coeffs : Array C) : List Float :=
  (List.range size).map fun l =>
    Float.sqrt ((List.range ((l + 1) * (l + 1) - l * l)).foldl (fun acc k => acc + (coeffs.getD (l * l + k) C.zero).norm2) 0)

/-- triples (l2, l1, l) admitted by `p_invariants_c`, in loop order, with the parity of l + l1 + l2 -/
def pTriples (L : Nat) : List (Nat × Nat × Nat × Bool) :=
  (List.range L).flatMap fun a => let l2 := a + 1
    (List.range (L + 1 - l2)).flatMap fun b => let l1 := l2 + b
      (List.range (L + 1 - l1)).filterMap fun c => let l := l1 + c
        if l1 + l2 < l then none
        else if ((l % 2 = 0) || (l2 ≠ l1)) && ((l2 % 2 = 0) || (l1 ≠ l)) then some (l2, l1, l, (l + l1 + l2) % 2 = 0)
        else none


/-! ### Clebsch–Gordan coefficients (Racah formula of `_invariants.pyx`, arguments doubled) and P invariants -/

def fact (n : Int) : Float := (List.range n.toNat).foldl (fun acc k => acc * Float.ofNat (k + 1)) 1

def clebsch (j1 m1 j2 m2 j m : Int) : Float :=
  if m1.natAbs > j1 ∨ m2.natAbs > j2 ∨ m.natAbs > j then 0
  else if j1 < 0 ∨ j2 < 0 ∨ j < 0 then 0
  else if (j1 - j2).natAbs > j ∨ j > j1 + j2 then 0
  else if m1 + m2 ≠ m then 0
  else
    let j1nm1 := (j1 - m1) / 2
    let jnj2pm1 := (j - j2 + m1) / 2
    let j2pm2 := (j2 + m2) / 2
    let jnj1nm2 := (j - j1 - m2) / 2
    let j1pj2nj := (j1 + j2 - j) / 2
    if ¬ (j1nm1 * 2 = j1 - m1 ∧ j2pm2 * 2 = j2 + m2 ∧ j1pj2nj * 2 = j1 + j2 - j) then 0
    else
      let mink := max (max (-jnj2pm1) (-jnj1nm2)) 0
      let maxk := min (min j1nm1 j2pm2) j1pj2nj
      let res0 : Float := (List.range (maxk + 1 - mink).toNat).foldl (fun acc (i : Nat) =>
        let k := mink + (i : Int)
        let ph : Float := if (k % 2 = 0) then 1 else -1
        let tmp := fact (j1nm1 - k) * fact (jnj2pm1 + k) * fact (j2pm2 - k) * fact (jnj1nm2 + k) * fact k * fact (j1pj2nj - k)
        acc + ph / tmp) 0
      let res := if mink > maxk then 1 else res0
      let t := Float.sqrt (fact j1pj2nj) * Float.sqrt (fact ((j1 + j - j2) / 2)) * Float.sqrt (fact ((j2 + j - j1) / 2))
        / Float.sqrt (fact ((j1 + j2 + j) / 2 + 1)) * Float.sqrt (Float.ofInt (j + 1))
        * Float.sqrt (fact ((j1 + m1) / 2)) * Float.sqrt (fact j1nm1) * Float.sqrt (fact j2pm2)
        * Float.sqrt (fact ((j2 - m2) / 2)) * Float.sqrt (fact ((j + m) / 2)) * Float.sqrt (fact ((j - m) / 2))
      res * t

def getC (coeffs : Array C) (l : Nat) (m : Int) : C := coeffs.getD (idxC l m).toNat C.zero

/-- `invariant_P_c` -/
def invariantP (coeffs : Array C) (l l1 l2 : Nat) : C :=
  (List.range (2 * l + 1)).foldl (fun res (mi : Nat) =>
    let m : Int := (mi : Int) - l
    let p := (List.range (2 * l1 + 1)).foldl (fun p (m1i : Nat) =>
      let m1 : Int := (m1i : Int) - l1
      let c := clebsch (2 * l1) (2 * m1) (2 * l2) (2 * (m - m1)) (2 * l) (2 * m)
      if c == 0 || c != c then p
      else if (m - m1).natAbs > l2 then p
      else p + C.scale c (getC coeffs l1 m1 * getC coeffs l2 (m - m1))) C.zero
    res + p * (getC coeffs l m).conj) C.zero

/-- `np.sign(x) * np.cbrt(x)`: `np.cbrt` is already the signed real cube root, so the product is `|x|^(1/3)`
(the sign of the bispectrum term is dropped by the code; the model mirrors the code) -/
def cbrtSigned (x : Float) : Float := if x < 0 then Float.pow (-x) (1 / 3) else Float.pow x (1 / 3)

/-- `p_invariants_c`: real parts of the even-parity invariants, then imaginary parts of the odd ones, `sign · cbrt` of each -/
def pInvariants (L : Nat) (coeffs : Array C) : List Float :=
  let ts := pTriples L
  let ev := (ts.filter (·.2.2.2)).map fun t => cbrtSigned (invariantP coeffs t.2.2.1 t.2.1 t.1).re
  let od := (ts.filter (! ·.2.2.2)).map fun t => cbrtSigned (invariantP coeffs t.2.2.1 t.2.1 t.1).im
  ev ++ od

end ChmpyVerif.SHT
