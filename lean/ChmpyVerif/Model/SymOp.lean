/-
Hand-written executable model of `chmpy/crystal/symmetry_operation.py`:
packed-integer and x,y,z-string encodings, the constructor's reduction modulo 1,
equality / hash / printing through the (lazily cached) codes, application to points.

Numbers: rotation entries are `Int`, translations are exact rationals (every float the
implementation handles IS a rational and is sent as such).  Floating-point rounding is not
modelled.  `Fraction(t).limit_denominator(12)` is modelled by the nearest twelfth
(`digit`): for |t - k/12| < 1/288 the nearest fraction with denominator ≤ 12 is k/12
(theorem `closest_is_twelfth`), which is the property's domain (encodable operations ± noise).
Mathlib-free.
-/
import ChmpyVerif.Model.PyStr
namespace ChmpyVerif.SymOp
open ChmpyVerif.PyStr

inductive Err | valueError | indexError | zeroDivision
deriving DecidableEq, Repr

deriving instance DecidableEq for Except

/-- `np.round` / Python `round`: to nearest, ties to even -/
def roundHalfEven (q : Rat) : Int :=
  let f := q.floor
  let r := q - f
  if r < 1 / 2 then f else if 1 / 2 < r then f + 1 else if f % 2 = 0 then f else f + 1

/-- Python `x % 1` on exact numbers -/
def frac (q : Rat) : Rat := q - q.floor

/-- a symmetry operation: row-major 3×3 rotation, translation -/
structure Op where
  rot : List Int
  tr : List Rat
deriving DecidableEq, Repr

/-- `SymmetryOperation.__init__`: translation reduced modulo 1 -/
def mkOp (rot : List Int) (tr : List Rat) : Op := ⟨rot, tr.map frac⟩

/-! ### packed integer form -/

/-- the duodecimal digit of a translation component (`np.round(12 t).astype(int) % 12`) -/
def digit (t : Rat) : Int := roundHalfEven (12 * t) % 12

/-- `encode_symm_int` -/
def encodeInt (rot : List Int) (tr : List Rat) : Int :=
  let r := rot.foldl (fun acc d => acc * 3 + (d + 1)) 0
  let t := tr.foldl (fun acc x => acc * 12 + digit x) 0
  r + t * 19683

/-- `decode_symm_int`: nine ternary digits, three duodecimal digits -/
def decodeInt (code : Int) : List Int × List Rat :=
  let r := code % 19683
  let t := code / 19683
  let rd (shift : Int) : Int := (r % (shift * 3)) / shift - 1
  let td (shift : Int) : Rat := (((t % (shift * 12)) / shift : Int) : Rat) / 12
  ([rd 6561, rd 2187, rd 729, rd 243, rd 81, rd 27, rd 9, rd 3, rd 1], [td 144, td 12, td 1])

/-! ### string form -/

def cPlus : Ch := 43
def cMinus : Ch := 45
def cComma : Ch := 44
def cSlash : Ch := 47
def cDot : Ch := 46
def cX : Ch := 120
def cY : Ch := 121
def cZ : Ch := 122

/-- `str(Fraction(k, 12))` for a digit 1..11 (numerator/denominator in lowest terms) -/
def fracStr (k : Nat) : List Ch :=
  let g := Nat.gcd k 12
  if 12 / g = 1 then natStr (k / g) else natStr (k / g) ++ cSlash :: natStr (12 / g)

/-- one row of `encode_symm_str` -/
def encodeRow (r : List Int) (t : Rat) : List Ch :=
  let k := (digit t).toNat
  let v := if k ≠ 0 then fracStr k else []
  let term (c : Int) (sym : Ch) : List Ch :=
    if c ≠ 0 then [if c < 0 then cMinus else cPlus, sym] else []
  match r with
  | [a, b, c] => v ++ term a cX ++ term b cY ++ term c cZ
  | _ => v

def rows3 : List Int → List (List Int)
  | [a, b, c, d, e, f, g, h, i] => [[a, b, c], [d, e, f], [g, h, i]]
  | _ => []

/-- `encode_symm_str` -/
def encodeStr (rot : List Int) (tr : List Rat) : List Ch :=
  joinWith cComma ((rows3 rot).zipWith encodeRow tr)

/-- character class `[xyz0-9/.]` of `SYMM_STR_SYMBOL_REGEX` -/
def isSymChar (c : Ch) : Bool := c = cX || c = cY || c = cZ || isDigitA c || c = cSlash || c = cDot
def isSign (c : Ch) : Bool := c = cPlus || c = cMinus

/-- `re.findall(r".*?([+-]*[xyz0-9/.]+)", row)`: each token is a maximal run of signs
followed by a maximal run of class characters; signs not followed by a class character,
and every other character, are skipped. -/
def tokens (s : List Ch) : List (List Ch) :=
  go s s.length
where
  go (s : List Ch) : Nat → List (List Ch)
  | 0 => []
  | fuel + 1 =>
    match s with
    | [] => []
    | c :: rest =>
      let signs := (c :: rest).takeWhile isSign
      let after := (c :: rest).dropWhile isSign
      let body := after.takeWhile isSymChar
      if body.isEmpty then
        -- no token starts here; the regex engine moves one character on
        go rest fuel
      else
        (signs ++ body) :: go (after.dropWhile isSymChar) fuel

/-- does `pat` occur in `s` (Python `pat in s`) -/
def contains (pat : List Ch) : List Ch → Bool
  | [] => pat.isEmpty
  | c :: cs => pat.isPrefixOf (c :: cs) || contains pat cs

/-- `fractions.Fraction(str)` for the strings that can reach it here: optional sign, digits with
an optional fractional part, or `.digits`; `none` = ValueError -/
def parseDecimal (s : List Ch) : Option Rat :=
  let (neg, body) := match s with
    | c :: rest => if c = cMinus then (true, rest) else if c = cPlus then (false, rest) else (false, s)
    | [] => (false, [])
  let ip := body.takeWhile isDigitA
  let rest := body.dropWhile isDigitA
  let mag : Option Rat :=
    match rest with
    | [] => if ip.isEmpty then none else some (digitsToNat ip : Rat)
    | c :: fp =>
      if c = cDot && fp.all isDigitA && !(ip.isEmpty && fp.isEmpty) then
        some ((digitsToNat ip : Rat) + (digitsToNat fp : Rat) / ((10 : Rat) ^ fp.length))
      else none
  mag.map fun m => if neg then -m else m

/-- state of one row while its tokens are processed: three rotation entries, translation -/
structure RowState where
  r : List Int
  t : Rat
deriving DecidableEq, Repr

def setIdx (l : List Int) (i : Nat) (v : Int) : List Int := l.set i v

/-- one token of `decode_symm_str` -/
def stepToken (st : RowState) (sym : List Ch) : Except Err RowState :=
  if sym.contains cX then .ok { st with r := setIdx st.r 0 (if contains [cMinus, cX] sym then -1 else 1) }
  else if sym.contains cY then .ok { st with r := setIdx st.r 1 (if contains [cMinus, cY] sym then -1 else 1) }
  else if sym.contains cZ then .ok { st with r := setIdx st.r 2 (if contains [cMinus, cZ] sym then -1 else 1) }
  else if sym.contains cSlash then
    match splitOn cSlash sym with
    | [n, d] =>
      match parseDecimal n, parseDecimal d with
      | some n, some d => if d = 0 then .error .zeroDivision else .ok { st with t := n / d }  -- assignment
      | _, _ => .error .valueError
    | _ => .error .valueError
  else
    match parseDecimal sym with
    | some v => .ok { st with t := st.t + v }                                              -- accumulation
    | none => .error .valueError

def decodeRow (row : List Ch) : Except Err RowState :=
  (tokens (strip row)).foldlM stepToken ⟨[0, 0, 0], 0⟩

/-- `decode_symm_str`: rows beyond the third raise IndexError as soon as they hold a token -/
def decodeStr (s : List Ch) : Except Err (List Int × List Rat) :=
  let rows := splitOn cComma (removeAll 32 (lower s))
  match rows with
  | [] => .ok ([0, 0, 0, 0, 0, 0, 0, 0, 0], [0, 0, 0])
  | _ =>
    let first := rows.take 3
    let extra := rows.drop 3
    match first.mapM decodeRow with
    | .error e => .error e
    | .ok sts =>
      -- a 4th, 5th … row: the first token indexes past the arrays (IndexError), except that the
      -- right-hand side of a `/` token is evaluated (and may raise) before the store
      let firstTok := (extra.flatMap fun r => tokens (strip r)).head?
      match firstTok with
      | some sym =>
        if sym.contains cX || sym.contains cY || sym.contains cZ || !sym.contains cSlash then .error .indexError
        else match stepToken ⟨[0, 0, 0], 0⟩ sym with
          | .error e => .error e
          | .ok _ => .error .indexError
      | none =>
        let pad := sts ++ List.replicate (3 - sts.length) ⟨[0, 0, 0], 0⟩
        .ok (pad.flatMap (·.r), pad.map fun st => frac st.t)

/-! ### operations as objects: cached codes decide `==`, `hash`, `str` -/

structure Obj where
  op : Op
  intCache : Option Int := none
  strCache : Option (List Ch) := none
deriving DecidableEq, Repr

def Obj.new (rot : List Int) (tr : List Rat) : Obj := { op := mkOp rot tr }
def Obj.fromInt (code : Int) : Obj :=
  let (r, t) := decodeInt code
  { op := mkOp r t, intCache := some code }
def Obj.fromStr (s : List Ch) : Except Err Obj :=
  (decodeStr s).map fun (r, t) => { op := mkOp r t, strCache := some s }
def Obj.code (o : Obj) : Int := o.intCache.getD (encodeInt o.op.rot o.op.tr)
def Obj.str (o : Obj) : List Ch := o.strCache.getD (encodeStr o.op.rot o.op.tr)
def Obj.eq (a b : Obj) : Bool := a.code == b.code
def Obj.hash (o : Obj) : Int := o.code

/-! ### application to points (exact) -/

def dot3 (r : List Int) (x : List Rat) : Rat :=
  ((r.zipWith (fun (a : Int) (b : Rat) => (a : Rat) * b) x).foldl (· + ·) 0)

/-- `np.dot(x, R.T) + t` for one point -/
def apply3 (o : Op) (x : List Rat) : List Rat :=
  ((rows3 o.rot).zipWith (fun r t => dot3 r x + t) o.tr)

/-- `np.dot(x4, seitz.T)` for one homogeneous point `[x, y, z, w]` -/
def apply4 (o : Op) (x : List Rat) : List Rat :=
  match x with
  | [a, b, c, w] => ((rows3 o.rot).zipWith (fun r t => dot3 r [a, b, c] + t * w) o.tr) ++ [w]
  | _ => []

end ChmpyVerif.SymOp
